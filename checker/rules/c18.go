package rules

import (
	"fmt"
	"go/token"
	"go/types"
	"sort"
	"strconv"

	"golang.org/x/tools/go/ssa"

	"mmverify/kit"
)

func init() {
	const mgr = "internal/stream/manager.go"
	const agt = "internal/agent/agent.go"
	const exh = "internal/exit/handler.go"
	const rlt = "internal/agent/relay_table.go"
	register(&Check{
		ID: "C18", Level: "other", Patterns: []string{"./internal/agent"},
		Technique: "CFG ordering/reachability, finite state tables over the five stream states, lock regions, map write-sets",
		Explain: "Decides on the SSA of internal/stream, internal/agent, internal/exit and internal/forward: (R1) in every function that both delivers a frame's data (Stream.PushData / Conn.Write) and signals end-of-write (Stream.HandleRemoteFinWrite / CloseWrite) the delivery is never reachable after the signal and is not skipped for FIN frames; (R2) every io.EOF return of Stream.Read is preceded, after the last blocking channel operation, by a non-blocking receive from the read buffer that found it empty; (R3) CanWrite/CanRead have the documented truth table over the five states, meshConn.Write sends nothing when the stream is half-closed locally or closed, and meshConn.CloseWrite records the local half-close; (R4) every state store is guarded so that only documented transitions are possible and sits in the Stream mutex region together with the state read it depends on; (R5) close/reset handlers delete exactly the table entry addressed by the frame's stream id and never reach a bulk reset; (R6) an entry obtained from one index of a relay table by stream id is removed only when the sender is the peer of that index's side (not merely one of the entry's two endpoints); (R7) a transit hop forwards stream-data frames with the received flags. R1 also requires the FIN signal to stay reachable when the FIN frame carries data, R4 also requires the half-close functions to perform the documented transition out of each state they can meet (Open and the opposite half-closed state). " +
			"Not decided: isolation between peers that use equal stream ids (C16), PushData blocking on a full buffer, and the race between a CanWrite check and a concurrent CloseWrite.",
		Run: runC18,
		SelfTests: []SelfTest{
			{Name: "FIN signalled before the frame's data is pushed", ExpectRule: "C18.R1", ExpectKey: "HandleStreamData", Edits: []Edit{
				{File: mgr, Old: "\tif len(data) > 0 {\n\t\tif err := stream.PushData(data); err != nil {", New: "\tif flags&protocol.FlagFinWrite != 0 {\n\t\tstream.HandleRemoteFinWrite()\n\t}\n\tif len(data) > 0 {\n\t\tif err := stream.PushData(data); err != nil {"},
			}},
			{Name: "FIN frame returns before its data is pushed", ExpectRule: "C18.R1", ExpectKey: "HandleStreamData", Edits: []Edit{
				{File: mgr, Old: "\tif len(data) > 0 {\n\t\tif err := stream.PushData(data); err != nil {", New: "\tif flags&protocol.FlagFinWrite != 0 {\n\t\tstream.HandleRemoteFinWrite()\n\t\treturn nil\n\t}\n\tif len(data) > 0 {\n\t\tif err := stream.PushData(data); err != nil {"},
			}},
			{Name: "FIN signalled from a goroutine started before the push", ExpectRule: "C18.R1", ExpectKey: "HandleStreamData", Edits: []Edit{
				{File: mgr, Old: "\tif len(data) > 0 {\n\t\tif err := stream.PushData(data); err != nil {", New: "\tif flags&protocol.FlagFinWrite != 0 {\n\t\tgo stream.HandleRemoteFinWrite()\n\t}\n\tif len(data) > 0 {\n\t\tif err := stream.PushData(data); err != nil {"},
			}},
			{Name: "exit closes the destination's write side before writing the frame's data", ExpectRule: "C18.R1", ExpectKey: "exit", Edits: []Edit{
				{File: exh, Old: "\t// Decrypt data before writing to destination\n\tif len(data) > 0 {", New: "\tif flags&protocol.FlagFinWrite != 0 {\n\t\tif tc, ok := ac.Conn.(*net.TCPConn); ok {\n\t\t\ttc.CloseWrite()\n\t\t}\n\t}\n\t// Decrypt data before writing to destination\n\tif len(data) > 0 {"},
			}},
			{Name: "EOF on remote FIN without draining the buffer", ExpectRule: "C18.R2", Edits: []Edit{
				{File: mgr, Old: "\t\t// Remote half-closed - drain buffered data then return EOF\n\t\tselect {\n\t\tcase data := <-s.readBuffer:\n\t\t\treturn data, nil\n\t\tdefault:\n\t\t\treturn nil, io.EOF\n\t\t}", New: "\t\treturn nil, io.EOF"},
			}},
			{Name: "EOF on close without draining the buffer", ExpectRule: "C18.R2", Edits: []Edit{
				{File: mgr, Old: "\t\t// Stream closed - drain any remaining buffered data first\n\t\tselect {\n\t\tcase data := <-s.readBuffer:\n\t\t\treturn data, nil\n\t\tdefault:\n\t\t\treturn nil, io.EOF\n\t\t}", New: "\t\treturn nil, io.EOF"},
			}},
			{Name: "drain looks at the write buffer", ExpectRule: "C18.R2", Edits: []Edit{
				{File: mgr, Old: "\t\t// Remote half-closed - drain buffered data then return EOF\n\t\tselect {\n\t\tcase data := <-s.readBuffer:", New: "\t\tselect {\n\t\tcase data := <-s.writeBuffer:"},
			}},
			{Name: "CanWrite true after local half-close", ExpectRule: "C18.R3", ExpectKey: "CanWrite", Edits: []Edit{
				{File: mgr, Old: "\treturn state == StateOpen || state == StateHalfClosedRemote\n", New: "\treturn state == StateOpen || state == StateHalfClosedLocal\n"},
			}},
			{Name: "CanWrite true for every non-closed state", ExpectRule: "C18.R3", ExpectKey: "CanWrite", Edits: []Edit{
				{File: mgr, Old: "\treturn state == StateOpen || state == StateHalfClosedRemote\n", New: "\treturn state != StateClosed\n"},
			}},
			{Name: "CanRead false after local half-close", ExpectRule: "C18.R3", ExpectKey: "CanRead", Edits: []Edit{
				{File: mgr, Old: "\treturn state == StateOpen || state == StateHalfClosedLocal\n", New: "\treturn state == StateOpen || state == StateHalfClosedRemote || state == StateOpening\n"},
			}},
			{Name: "meshConn.Write no longer consults CanWrite", ExpectRule: "C18.R3", ExpectKey: "Write", Edits: []Edit{
				{File: agt, Old: "\tif !c.stream.CanWrite() {\n\t\treturn 0, fmt.Errorf(\"stream closed for writing\")\n\t}\n", New: "\tif c.stream.IsClosed() {\n\t\treturn 0, fmt.Errorf(\"stream closed for writing\")\n\t}\n"},
			}},
			{Name: "meshConn.Write checks writability only for empty writes", ExpectRule: "C18.R3", ExpectKey: "Write", Edits: []Edit{
				{File: agt, Old: "\tif !c.stream.CanWrite() {\n\t\treturn 0, fmt.Errorf(\"stream closed for writing\")\n\t}\n\n\tif len(b) == 0 {\n\t\treturn 0, nil\n\t}\n", New: "\tif len(b) == 0 {\n\t\tif !c.stream.CanWrite() {\n\t\t\treturn 0, fmt.Errorf(\"stream closed for writing\")\n\t\t}\n\t\treturn 0, nil\n\t}\n"},
			}},
			{Name: "meshConn.CloseWrite forgets to record the half-close", ExpectRule: "C18.R3", ExpectKey: "CloseWrite", Edits: []Edit{
				{File: agt, Old: "\t// Update local stream state\n\tc.stream.CloseWrite()\n", New: ""},
			}},
			{Name: "half-close accepted while still opening", ExpectRule: "C18.R4", ExpectKey: "CloseWrite", Edits: []Edit{
				{File: mgr, Old: "\tstate := s.State()\n\tif state == StateOpen {\n\t\ts.SetState(StateHalfClosedLocal)", New: "\tstate := s.State()\n\tif state == StateOpen || state == StateOpening {\n\t\ts.SetState(StateHalfClosedLocal)"},
			}},
			{Name: "remote FIN after local FIN leaves the stream half-closed-remote", ExpectRule: "C18.R4", ExpectKey: "HandleRemoteFinWrite", Edits: []Edit{
				{File: mgr, Old: "\t} else if state == StateHalfClosedLocal {\n\t\t// Both sides closed\n\t\ts.SetState(StateClosed)", New: "\t} else if state == StateHalfClosedLocal {\n\t\ts.SetState(StateHalfClosedRemote)"},
			}},
			{Name: "remote FIN closes an open stream", ExpectRule: "C18.R4", ExpectKey: "HandleRemoteFinWrite", Edits: []Edit{
				{File: mgr, Old: "\tif state == StateOpen {\n\t\ts.SetState(StateHalfClosedRemote)", New: "\tif state == StateOpen {\n\t\ts.SetState(StateClosed)"},
			}},
			{Name: "local half-close transition outside the stream mutex", ExpectRule: "C18.R4", ExpectKey: "CloseWrite", Edits: []Edit{
				{File: mgr, Old: "func (s *Stream) CloseWrite() {\n\ts.mu.Lock()\n\tdefer s.mu.Unlock()\n\n\tif s.localFinWrite {\n\t\treturn\n\t}\n\ts.localFinWrite = true\n", New: "func (s *Stream) CloseWrite() {\n\ts.mu.Lock()\n\tif s.localFinWrite {\n\t\ts.mu.Unlock()\n\t\treturn\n\t}\n\ts.localFinWrite = true\n\ts.mu.Unlock()\n"},
			}},
			{Name: "reset tears down every stream of the manager", ExpectRule: "C18.R5", ExpectKey: "HandleStreamReset", Edits: []Edit{
				{File: mgr, Old: "\tstream, ok := m.streams[streamID]\n\tif ok {\n\t\tdelete(m.streams, streamID)\n\t}\n\tm.mu.Unlock()\n\n\tif ok {\n\t\tstream.Close()\n\t\tif stream.onReset != nil {", New: "\tstream, ok := m.streams[streamID]\n\tif ok {\n\t\tm.streams = make(map[uint64]*Stream)\n\t}\n\tm.mu.Unlock()\n\n\tif ok {\n\t\tstream.Close()\n\t\tif stream.onReset != nil {"},
			}},
			{Name: "exit removes a neighbouring stream id", ExpectRule: "C18.R5", ExpectKey: "removeConnection", Edits: []Edit{
				{File: exh, Old: "\tdelete(h.connections, streamID)\n\th.connCount.Add(-1)\n\treturn ac\n", New: "\tdelete(h.connections, streamID+1)\n\th.connCount.Add(-1)\n\treturn ac\n"},
			}},
			{Name: "close handler reaches the bulk shutdown", ExpectRule: "C18.R5", ExpectKey: "HandleStreamClose", Edits: []Edit{
				{File: mgr, Old: "func (m *Manager) HandleStreamClose(streamID uint64) {\n\tm.RemoveStream(streamID)\n}", New: "func (m *Manager) HandleStreamClose(streamID uint64) {\n\tm.RemoveStream(streamID)\n\tif m.StreamCount() == 0 {\n\t\treturn\n\t}\n\tm.Close()\n}"},
			}},
			{Name: "agent closes a different stream than the frame addresses", ExpectRule: "C18.R5", ExpectKey: "handleStreamReset", Edits: []Edit{
				{File: agt, Old: "\ta.streamMgr.HandleStreamReset(frame.StreamID, reset.ErrorCode)\n", New: "\ta.streamMgr.HandleStreamReset(uint64(reset.ErrorCode), reset.ErrorCode)\n"},
			}},
			{Name: "meshConn.Read refuses after the local half-close", ExpectRule: "C18.R3", ExpectKey: "Read", Edits: []Edit{
				{File: agt, Old: "func (c *meshConn) Read(b []byte) (int, error) {\n", New: "func (c *meshConn) Read(b []byte) (int, error) {\n\tif !c.stream.CanWrite() {\n\t\treturn 0, io.EOF\n\t}\n"},
			}},
			{Name: "FIN honoured only on empty frames", ExpectRule: "C18.R1", ExpectKey: "FIN-with-data", Edits: []Edit{
				{File: mgr, Old: "\t\t\tm.onStreamData(stream, data)\n\t\t}\n\t}\n\n\t// Handle FIN flags\n\tif flags&protocol.FlagFinWrite != 0 {\n\t\tstream.HandleRemoteFinWrite()\n\t}\n", New: "\t\t\tm.onStreamData(stream, data)\n\t\t}\n\t} else if flags&protocol.FlagFinWrite != 0 {\n\t\tstream.HandleRemoteFinWrite()\n\t}\n"},
			}},
			{Name: "local half-close after remote FIN copies the wrong source state (CAS helper)", ExpectRule: "C18.R4", ExpectKey: "StateHalfClosedRemote->StateClosed", Edits: []Edit{
				{File: mgr, Old: "\tstate := s.State()\n\tif state == StateOpen {\n\t\ts.SetState(StateHalfClosedLocal)\n\t} else if state == StateHalfClosedRemote {\n\t\t// Both sides closed\n\t\ts.SetState(StateClosed)\n\t}\n}", New: "\tif !s.transition(StateOpen, StateHalfClosedLocal) {\n\t\ts.transition(StateHalfClosedLocal, StateClosed)\n\t}\n}\n\nfunc (s *Stream) transition(from, to StreamState) bool {\n\treturn s.state.CompareAndSwap(int32(from), int32(to))\n}"},
			}},
			{Name: "remote FIN after local half-close is ignored", ExpectRule: "C18.R4", ExpectKey: "StateHalfClosedLocal->StateClosed", Edits: []Edit{
				{File: mgr, Old: "\t} else if state == StateHalfClosedLocal {\n\t\t// Both sides closed\n\t\ts.SetState(StateClosed)\n\t}\n}", New: "\t}\n}"},
			}},
			{Name: "relay pop accepts the sender as either endpoint (merged branches)", ExpectRule: "C18.R6", ExpectKey: "PopMatchingPeer", Edits: []Edit{
				{File: rlt, Old: "\tif up := r.byUpstream[streamID]; up != nil && up.UpstreamPeer == peer {\n\t\tdelete(r.byUpstream, up.UpstreamID)\n\t\tdelete(r.byDownstream, up.DownstreamID)\n\t\treturn up, true\n\t}\n\tif down := r.byDownstream[streamID]; down != nil && down.DownstreamPeer == peer {\n\t\tdelete(r.byUpstream, down.UpstreamID)\n\t\tdelete(r.byDownstream, down.DownstreamID)\n\t\treturn down, false\n\t}\n\treturn nil, false\n", New: "\tentry, fromUpstream = r.byUpstream[streamID], true\n\tif entry == nil || entry.UpstreamPeer != peer {\n\t\tentry, fromUpstream = r.byDownstream[streamID], false\n\t}\n\tif entry == nil || (entry.UpstreamPeer != peer && entry.DownstreamPeer != peer) {\n\t\treturn nil, false\n\t}\n\tdelete(r.byUpstream, entry.UpstreamID)\n\tdelete(r.byDownstream, entry.DownstreamID)\n\treturn entry, fromUpstream\n"},
			}},
			{Name: "relay pop checks the wrong side's peer", ExpectRule: "C18.R6", ExpectKey: "PopMatchingPeer", Edits: []Edit{
				{File: rlt, Old: "down != nil && down.DownstreamPeer == peer {", New: "down != nil && down.UpstreamPeer == peer {"},
			}},
			{Name: "open-error pop no longer checks the sender", ExpectRule: "C18.R6", ExpectKey: "PopDownstreamFromPeer", Edits: []Edit{
				{File: rlt, Old: "\tif e == nil || e.DownstreamPeer != peer {\n\t\treturn nil\n\t}\n", New: "\tif e == nil {\n\t\treturn nil\n\t}\n"},
			}},
			{Name: "agent removes a looked-up relay entry for either endpoint", ExpectRule: "C18.R6", ExpectKey: "handleStreamClose", Edits: []Edit{
				{File: agt, Old: "\tif entry, fromUpstream := a.tcpRelay.PopMatchingPeer(frame.StreamID, peerID); entry != nil {\n\t\tdstPeer, dstID := entry.UpstreamPeer, entry.UpstreamID\n\t\tif fromUpstream {\n\t\t\tdstPeer, dstID = entry.DownstreamPeer, entry.DownstreamID\n\t\t}\n\t\tfwdFrame := &protocol.Frame{\n\t\t\tType:     protocol.FrameStreamClose,", New: "\tif down := a.tcpRelay.LookupDownstream(frame.StreamID); down != nil && (down.DownstreamPeer == peerID || down.UpstreamPeer == peerID) {\n\t\ta.tcpRelay.Delete(down)\n\t}\n\tif entry, fromUpstream := a.tcpRelay.PopMatchingPeer(frame.StreamID, peerID); entry != nil {\n\t\tdstPeer, dstID := entry.UpstreamPeer, entry.UpstreamID\n\t\tif fromUpstream {\n\t\t\tdstPeer, dstID = entry.DownstreamPeer, entry.DownstreamID\n\t\t}\n\t\tfwdFrame := &protocol.Frame{\n\t\t\tType:     protocol.FrameStreamClose,"},
			}},
			{Name: "transit hop drops the flags of relayed data frames", ExpectRule: "C18.R7", ExpectKey: "handleStreamData", Edits: []Edit{
				{File: agt, Old: "\t\t\tStreamID: upRelay.DownstreamID,\n\t\t\tFlags:    frame.Flags,\n", New: "\t\t\tStreamID: upRelay.DownstreamID,\n"},
			}},
			{Name: "EOF produced by a helper that does not look at the buffer", ExpectRule: "C18.R2", ExpectKey: "eofNow", Edits: []Edit{
				{File: mgr, Old: "\t\t// Remote half-closed - drain buffered data then return EOF\n\t\tselect {\n\t\tcase data := <-s.readBuffer:\n\t\t\treturn data, nil\n\t\tdefault:\n\t\t\treturn nil, io.EOF\n\t\t}", New: "\t\treturn s.eofNow()"},
				{File: mgr, Old: "// ReadWithTimeout reads with a timeout.", New: "func (s *Stream) eofNow() ([]byte, error) {\n\treturn nil, io.EOF\n}\n\n// ReadWithTimeout reads with a timeout."},
			}},
			{Name: "transition function maps the wrong source state on local half-close", ExpectRule: "C18.R4", ExpectKey: "CloseWrite", Edits: []Edit{
				{File: mgr, Old: "\tstate := s.State()\n\tif state == StateOpen {\n\t\ts.SetState(StateHalfClosedLocal)\n\t} else if state == StateHalfClosedRemote {\n\t\t// Both sides closed\n\t\ts.SetState(StateClosed)\n\t}\n}", New: "\tif next, ok := afterLocalFin(s.State()); ok {\n\t\ts.SetState(next)\n\t}\n}\n\nfunc afterLocalFin(from StreamState) (StreamState, bool) {\n\tswitch from {\n\tcase StateOpen:\n\t\treturn StateHalfClosedLocal, true\n\tcase StateHalfClosedLocal:\n\t\treturn StateClosed, true\n\t}\n\treturn from, false\n}"},
			}},
			{Name: "meshConn.CloseWrite returns the send result without recording the half-close", ExpectRule: "C18.R3", ExpectKey: "CloseWrite", Edits: []Edit{
				{File: agt, Old: "\tif err := c.agent.peerMgr.SendToPeer(c.peerID, frame); err != nil {\n\t\treturn err\n\t}\n\n\t// Update local stream state\n\tc.stream.CloseWrite()\n\treturn nil\n", New: "\tsendErr := c.agent.peerMgr.SendToPeer(c.peerID, frame)\n\tif sendErr != nil {\n\t\tc.stream.CloseWrite()\n\t}\n\treturn sendErr\n"},
			}},
			{Name: "shared removal step selected by either endpoint", ExpectRule: "C18.R6", ExpectKey: "PopMatchingPeer", Edits: []Edit{
				{File: rlt, Old: "\tif up := r.byUpstream[streamID]; up != nil && up.UpstreamPeer == peer {\n\t\tdelete(r.byUpstream, up.UpstreamID)\n\t\tdelete(r.byDownstream, up.DownstreamID)\n\t\treturn up, true\n\t}\n\tif down := r.byDownstream[streamID]; down != nil && down.DownstreamPeer == peer {\n\t\tdelete(r.byUpstream, down.UpstreamID)\n\t\tdelete(r.byDownstream, down.DownstreamID)\n\t\treturn down, false\n\t}\n\treturn nil, false\n", New: "\tif up := r.byUpstream[streamID]; up != nil && up.UpstreamPeer == peer {\n\t\tentry, fromUpstream = up, true\n\t} else if down := r.byDownstream[streamID]; down != nil && (down.DownstreamPeer == peer || down.UpstreamPeer == peer) {\n\t\tentry, fromUpstream = down, false\n\t}\n\tif entry != nil {\n\t\tdelete(r.byUpstream, entry.UpstreamID)\n\t\tdelete(r.byDownstream, entry.DownstreamID)\n\t}\n\treturn entry, fromUpstream\n"},
			}},
			{Name: "manager read-lock kept (defer) across the blocking delivery", ExpectRule: "C18.R8", ExpectKey: "HandleStreamData", Edits: []Edit{
				{File: mgr, Old: "\tm.mu.RLock()\n\tstream := m.streams[streamID]\n\tm.mu.RUnlock()\n\n\tif stream == nil {\n\t\treturn fmt.Errorf(\"unknown stream %d\", streamID)\n\t}\n\n\t// Deliver the frame's data before signalling FIN", New: "\tm.mu.RLock()\n\tdefer m.mu.RUnlock()\n\n\tstream, ok := m.streams[streamID]\n\tif !ok {\n\t\treturn fmt.Errorf(\"unknown stream %d\", streamID)\n\t}\n\n\t// Deliver the frame's data before signalling FIN"},
			}},
			{Name: "exit writes to the destination while holding the connection-table lock", ExpectRule: "C18.R8", ExpectKey: "exit", Edits: []Edit{
				{File: exh, Old: "\th.mu.RLock()\n\tac := h.connections[streamID]\n\th.mu.RUnlock()\n\n\tif ac == nil {\n\t\treturn fmt.Errorf(\"unknown stream %d\", streamID)\n\t}\n\n\tif ac.IsClosed() {", New: "\th.mu.RLock()\n\tdefer h.mu.RUnlock()\n\tac := h.connections[streamID]\n\n\tif ac == nil {\n\t\treturn fmt.Errorf(\"unknown stream %d\", streamID)\n\t}\n\n\tif ac.IsClosed() {"},
			}},
			{Name: "stream removal waits for the stream under the table lock", ExpectRule: "C18.R8", ExpectKey: "RemoveStream", Edits: []Edit{
				{File: mgr, Old: "\tstream, ok := m.streams[streamID]\n\tif ok {\n\t\tdelete(m.streams, streamID)\n\t}\n\tm.mu.Unlock()\n\n\tif ok {\n\t\tstream.Close()\n\t\tif m.onStreamClose != nil {\n\t\t\tm.onStreamClose(stream, nil)", New: "\tstream, ok := m.streams[streamID]\n\tif ok {\n\t\tdelete(m.streams, streamID)\n\t\tstream.Close()\n\t\t<-stream.Done()\n\t}\n\tm.mu.Unlock()\n\n\tif ok {\n\t\tif m.onStreamClose != nil {\n\t\t\tm.onStreamClose(stream, nil)"},
			}},
			// behaviour-preserving rewrites
			{Name: "rewrite: CanWrite as a switch", Edits: []Edit{
				{File: mgr, Old: "\tstate := s.State()\n\treturn state == StateOpen || state == StateHalfClosedRemote\n", New: "\tswitch s.State() {\n\tcase StateOpen, StateHalfClosedRemote:\n\t\treturn true\n\t}\n\treturn false\n"},
			}},
			{Name: "rewrite: CanRead by exclusion", Edits: []Edit{
				{File: mgr, Old: "\tstate := s.State()\n\treturn state == StateOpen || state == StateHalfClosedLocal\n", New: "\tstate := s.State()\n\treturn !(state != StateOpen && state != StateHalfClosedLocal)\n"},
			}},
			{Name: "rewrite: CloseWrite transitions as a switch", Edits: []Edit{
				{File: mgr, Old: "\tstate := s.State()\n\tif state == StateOpen {\n\t\ts.SetState(StateHalfClosedLocal)\n\t} else if state == StateHalfClosedRemote {\n\t\t// Both sides closed\n\t\ts.SetState(StateClosed)\n\t}\n}", New: "\tswitch s.State() {\n\tcase StateOpen:\n\t\ts.SetState(StateHalfClosedLocal)\n\tcase StateHalfClosedRemote:\n\t\ts.SetState(StateClosed)\n\t}\n}"},
			}},
			{Name: "rewrite: FIN handling extracted into a helper", Edits: []Edit{
				{File: mgr, Old: "\t// Handle FIN flags\n\tif flags&protocol.FlagFinWrite != 0 {\n\t\tstream.HandleRemoteFinWrite()\n\t}\n\n\treturn nil\n}", New: "\tfinIfFlagged(stream, flags)\n\treturn nil\n}\n\nfunc finIfFlagged(s *Stream, flags uint8) {\n\tif flags&protocol.FlagFinWrite == 0 {\n\t\treturn\n\t}\n\ts.HandleRemoteFinWrite()\n}"},
			}},
			{Name: "rewrite: Read drains in one shared step after the wake-up", Edits: []Edit{
				{File: mgr, Old: "\tcase <-s.closed:\n\t\t// Stream closed - drain any remaining buffered data first\n\t\tselect {\n\t\tcase data := <-s.readBuffer:\n\t\t\treturn data, nil\n\t\tdefault:\n\t\t\treturn nil, io.EOF\n\t\t}\n\tcase <-s.remoteFinCh:\n\t\t// Remote half-closed - drain buffered data then return EOF\n\t\tselect {\n\t\tcase data := <-s.readBuffer:\n\t\t\treturn data, nil\n\t\tdefault:\n\t\t\treturn nil, io.EOF\n\t\t}\n\tcase data := <-s.readBuffer:\n\t\treturn data, nil\n\t}\n}", New: "\tcase <-s.closed:\n\tcase <-s.remoteFinCh:\n\tcase data := <-s.readBuffer:\n\t\treturn data, nil\n\t}\n\tselect {\n\tcase data := <-s.readBuffer:\n\t\treturn data, nil\n\tdefault:\n\t}\n\treturn nil, io.EOF\n}"},
			}},
			{Name: "rewrite: meshConn.Write guard written positively", Edits: []Edit{
				{File: agt, Old: "\tif !c.stream.CanWrite() {\n\t\treturn 0, fmt.Errorf(\"stream closed for writing\")\n\t}\n\n\tif len(b) == 0 {\n\t\treturn 0, nil\n\t}\n", New: "\twritable := c.stream.CanWrite()\n\tif len(b) == 0 && writable {\n\t\treturn 0, nil\n\t}\n\tif writable == false {\n\t\treturn 0, fmt.Errorf(\"stream closed for writing\")\n\t}\n"},
			}},
			{Name: "rewrite: exit removeConnection without defer", Edits: []Edit{
				{File: exh, Old: "\th.mu.Lock()\n\tdefer h.mu.Unlock()\n\n\tac, ok := h.connections[streamID]\n\tif !ok {\n\t\treturn nil\n\t}\n\n\tdelete(h.connections, streamID)\n\th.connCount.Add(-1)\n\treturn ac\n", New: "\th.mu.Lock()\n\tac := h.connections[streamID]\n\tif ac != nil {\n\t\tdelete(h.connections, ac.StreamID)\n\t\th.connCount.Add(-1)\n\t}\n\th.mu.Unlock()\n\treturn ac\n"},
			}},
			{Name: "rewrite: Read drains through a try-receive helper", Edits: []Edit{
				{File: mgr, Old: "\tcase <-s.closed:\n\t\t// Stream closed - drain any remaining buffered data first\n\t\tselect {\n\t\tcase data := <-s.readBuffer:\n\t\t\treturn data, nil\n\t\tdefault:\n\t\t\treturn nil, io.EOF\n\t\t}\n\tcase <-s.remoteFinCh:\n\t\t// Remote half-closed - drain buffered data then return EOF\n\t\tselect {\n\t\tcase data := <-s.readBuffer:\n\t\t\treturn data, nil\n\t\tdefault:\n\t\t\treturn nil, io.EOF\n\t\t}\n\tcase data := <-s.readBuffer:\n\t\treturn data, nil\n\t}\n}", New: "\tcase <-s.closed:\n\t\tif data, ok := s.tryRecv(); ok {\n\t\t\treturn data, nil\n\t\t}\n\t\treturn nil, io.EOF\n\tcase <-s.remoteFinCh:\n\t\tif data, ok := s.tryRecv(); ok {\n\t\t\treturn data, nil\n\t\t}\n\t\treturn nil, io.EOF\n\tcase data := <-s.readBuffer:\n\t\treturn data, nil\n\t}\n}\n\nfunc (s *Stream) tryRecv() ([]byte, bool) {\n\tselect {\n\tcase data := <-s.readBuffer:\n\t\treturn data, true\n\tdefault:\n\t\treturn nil, false\n\t}\n}"},
			}},
			{Name: "rewrite: local half-close as compare-and-swap transitions", Edits: []Edit{
				{File: mgr, Old: "\tstate := s.State()\n\tif state == StateOpen {\n\t\ts.SetState(StateHalfClosedLocal)\n\t} else if state == StateHalfClosedRemote {\n\t\t// Both sides closed\n\t\ts.SetState(StateClosed)\n\t}\n}", New: "\tif !s.state.CompareAndSwap(int32(StateOpen), int32(StateHalfClosedLocal)) {\n\t\ts.state.CompareAndSwap(int32(StateHalfClosedRemote), int32(StateClosed))\n\t}\n}"},
			}},
			{Name: "rewrite: relay pop with one variable and side-correct checks", Edits: []Edit{
				{File: rlt, Old: "\tif up := r.byUpstream[streamID]; up != nil && up.UpstreamPeer == peer {\n\t\tdelete(r.byUpstream, up.UpstreamID)\n\t\tdelete(r.byDownstream, up.DownstreamID)\n\t\treturn up, true\n\t}\n\tif down := r.byDownstream[streamID]; down != nil && down.DownstreamPeer == peer {\n\t\tdelete(r.byUpstream, down.UpstreamID)\n\t\tdelete(r.byDownstream, down.DownstreamID)\n\t\treturn down, false\n\t}\n\treturn nil, false\n", New: "\tentry, fromUpstream = r.byUpstream[streamID], true\n\tif entry == nil || entry.UpstreamPeer != peer {\n\t\tentry, fromUpstream = r.byDownstream[streamID], false\n\t\tif entry == nil || entry.DownstreamPeer != peer {\n\t\t\treturn nil, false\n\t\t}\n\t}\n\tdelete(r.byUpstream, entry.UpstreamID)\n\tdelete(r.byDownstream, entry.DownstreamID)\n\treturn entry, fromUpstream\n"},
			}},
			{Name: "rewrite: stream looked up through GetStream (deferred unlock inside the getter only)", Edits: []Edit{
				{File: mgr, Old: "\tm.mu.RLock()\n\tstream := m.streams[streamID]\n\tm.mu.RUnlock()\n\n\tif stream == nil {\n\t\treturn fmt.Errorf(\"unknown stream %d\", streamID)\n\t}\n\n\t// Deliver the frame's data before signalling FIN", New: "\tstream := m.GetStream(streamID)\n\tif stream == nil {\n\t\treturn fmt.Errorf(\"unknown stream %d\", streamID)\n\t}\n\n\t// Deliver the frame's data before signalling FIN"},
			}},
			{Name: "rewrite: relay pop selects the entry first and removes it in one shared step", Edits: []Edit{
				{File: rlt, Old: "\tif up := r.byUpstream[streamID]; up != nil && up.UpstreamPeer == peer {\n\t\tdelete(r.byUpstream, up.UpstreamID)\n\t\tdelete(r.byDownstream, up.DownstreamID)\n\t\treturn up, true\n\t}\n\tif down := r.byDownstream[streamID]; down != nil && down.DownstreamPeer == peer {\n\t\tdelete(r.byUpstream, down.UpstreamID)\n\t\tdelete(r.byDownstream, down.DownstreamID)\n\t\treturn down, false\n\t}\n\treturn nil, false\n", New: "\tif up := r.byUpstream[streamID]; up != nil && up.UpstreamPeer == peer {\n\t\tentry, fromUpstream = up, true\n\t} else if down := r.byDownstream[streamID]; down != nil && down.DownstreamPeer == peer {\n\t\tentry, fromUpstream = down, false\n\t}\n\tif entry != nil {\n\t\tdelete(r.byUpstream, entry.UpstreamID)\n\t\tdelete(r.byDownstream, entry.DownstreamID)\n\t}\n\treturn entry, fromUpstream\n"},
			}},
			{Name: "rewrite: Read drains through tryDequeue / dequeueOrEOF (EOF returned by a helper)", Edits: []Edit{
				{File: mgr, Old: "\tcase <-s.closed:\n\t\t// Stream closed - drain any remaining buffered data first\n\t\tselect {\n\t\tcase data := <-s.readBuffer:\n\t\t\treturn data, nil\n\t\tdefault:\n\t\t\treturn nil, io.EOF\n\t\t}\n\tcase <-s.remoteFinCh:\n\t\t// Remote half-closed - drain buffered data then return EOF\n\t\tselect {\n\t\tcase data := <-s.readBuffer:\n\t\t\treturn data, nil\n\t\tdefault:\n\t\t\treturn nil, io.EOF\n\t\t}\n\tcase data := <-s.readBuffer:\n\t\treturn data, nil\n\t}\n}", New: "\tcase <-s.closed:\n\t\treturn s.dequeueOrEOF()\n\tcase <-s.remoteFinCh:\n\t\treturn s.dequeueOrEOF()\n\tcase chunk := <-s.readBuffer:\n\t\treturn chunk, nil\n\t}\n}\n\nfunc (s *Stream) tryDequeue() ([]byte, bool) {\n\tselect {\n\tcase chunk := <-s.readBuffer:\n\t\treturn chunk, true\n\tdefault:\n\t\treturn nil, false\n\t}\n}\n\nfunc (s *Stream) dequeueOrEOF() ([]byte, error) {\n\tif chunk, ok := s.tryDequeue(); ok {\n\t\treturn chunk, nil\n\t}\n\treturn nil, io.EOF\n}"},
			}},
			{Name: "rewrite: closed and remote-FIN cases share one drain-then-EOF select", Edits: []Edit{
				{File: mgr, Old: "\tcase <-s.closed:\n\t\t// Stream closed - drain any remaining buffered data first\n\t\tselect {\n\t\tcase data := <-s.readBuffer:\n\t\t\treturn data, nil\n\t\tdefault:\n\t\t\treturn nil, io.EOF\n\t\t}\n\tcase <-s.remoteFinCh:\n\t\t// Remote half-closed - drain buffered data then return EOF\n\t\tselect {\n\t\tcase data := <-s.readBuffer:\n\t\t\treturn data, nil\n\t\tdefault:\n\t\t\treturn nil, io.EOF\n\t\t}\n\tcase data := <-s.readBuffer:\n\t\treturn data, nil\n\t}\n}", New: "\tcase fresh := <-s.readBuffer:\n\t\treturn fresh, nil\n\tcase <-s.closed:\n\tcase <-s.remoteFinCh:\n\t}\n\tselect {\n\tcase leftover := <-s.readBuffer:\n\t\treturn leftover, nil\n\tdefault:\n\t\treturn nil, io.EOF\n\t}\n}"},
			}},
			{Name: "rewrite: Close hands a method value to sync.Once", Edits: []Edit{
				{File: mgr, Old: "\ts.closeOnce.Do(func() {\n\t\ts.mu.Lock()\n\t\ts.SetState(StateClosed)\n\t\ts.mu.Unlock()\n\t\tclose(s.closed)\n\t\t// Do not drain readBuffer: Read() consumes remaining data before\n\t\t// returning io.EOF. Draining here would race with concurrent readers.\n\t})\n\treturn nil\n}", New: "\ts.closeOnce.Do(s.shutdown)\n\treturn nil\n}\n\nfunc (s *Stream) shutdown() {\n\ts.mu.Lock()\n\ts.SetState(StateClosed)\n\ts.mu.Unlock()\n\tclose(s.closed)\n}"},
			}},
			{Name: "rewrite: local half-close through a pure transition function, explicit unlock", Edits: []Edit{
				{File: mgr, Old: "\tstate := s.State()\n\tif state == StateOpen {\n\t\ts.SetState(StateHalfClosedLocal)\n\t} else if state == StateHalfClosedRemote {\n\t\t// Both sides closed\n\t\ts.SetState(StateClosed)\n\t}\n}", New: "\tif next, ok := afterLocalFin(s.State()); ok {\n\t\ts.SetState(next)\n\t}\n}\n\nfunc afterLocalFin(from StreamState) (to StreamState, ok bool) {\n\tswitch from {\n\tcase StateOpen:\n\t\treturn StateHalfClosedLocal, true\n\tcase StateHalfClosedRemote:\n\t\treturn StateClosed, true\n\tdefault:\n\t\treturn from, false\n\t}\n}"},
			}},
			{Name: "rewrite: meshConn.Read fetches through a helper, CloseWrite returns the send result", Edits: []Edit{
				{File: agt, Old: "\tdata, err := c.stream.Read(ctx)\n", New: "\tdata, err := c.nextMessage(ctx)\n"},
				{File: agt, Old: "// Write writes data to the mesh connection.\n", New: "func (c *meshConn) nextMessage(ctx context.Context) ([]byte, error) {\n\treturn c.stream.Read(ctx)\n}\n\n// Write writes data to the mesh connection.\n"},
				{File: agt, Old: "\tif err := c.agent.peerMgr.SendToPeer(c.peerID, frame); err != nil {\n\t\treturn err\n\t}\n\n\t// Update local stream state\n\tc.stream.CloseWrite()\n\treturn nil\n", New: "\tsendErr := c.agent.peerMgr.SendToPeer(c.peerID, frame)\n\tif sendErr == nil {\n\t\tc.stream.CloseWrite()\n\t}\n\treturn sendErr\n"},
			}},
		},
	})
}

// c18Ctx holds the role-resolved anchors of C18.
type c18Ctx struct {
	p *kit.Program
	r *kit.Report

	streamT                        *types.Named
	fState, fMu, fReadBuf, fClosed *types.Var
	fnState, fnSetState            *ssa.Function
	fnPush, fnFin, fnRead          *ssa.Function
	fnCanWrite, fnCanRead          *ssa.Function
	fnIsOpen                       *ssa.Function
	stateVal                       map[string]int64 // StateOpening.. -> value
	stateName                      map[int64]string
	finBit                         int64

	sites, dynSites []c18Site
	sitesDone       bool
}

const (
	c18Opening = iota
	c18Open
	c18HalfLocal
	c18HalfRemote
	c18Closed
)

var c18StateConsts = []string{"StateOpening", "StateOpen", "StateHalfClosedLocal", "StateHalfClosedRemote", "StateClosed"}

func newC18Ctx(p *kit.Program, r *kit.Report) *c18Ctx {
	cx := &c18Ctx{p: p, r: r, stateVal: map[string]int64{}, stateName: map[int64]string{}}
	cx.streamT = p.NamedType("internal/stream", "Stream")
	if !r.Require(cx.streamT != nil, "anchor-unresolved: type internal/stream.Stream") {
		return nil
	}
	for _, n := range c18StateConsts {
		s, ok := p.ConstValue("internal/stream", n)
		v, err := strconv.ParseInt(s, 10, 64)
		if !r.Require(ok && err == nil, "anchor-unresolved: constant internal/stream.%s", n) {
			return nil
		}
		cx.stateVal[n] = v
		cx.stateName[v] = n
	}
	if !r.Require(len(cx.stateName) == 5, "anchor-unresolved: the five stream state constants are not distinct") {
		return nil
	}
	fb, ok := p.ConstValue("internal/protocol", "FlagFinWrite")
	v, err := strconv.ParseInt(fb, 0, 64)
	if !r.Require(ok && err == nil && v != 0, "anchor-unresolved: constant internal/protocol.FlagFinWrite") {
		return nil
	}
	cx.finBit = v
	get := func(name string) *ssa.Function {
		f := p.Func("internal/stream", "Stream", name)
		r.Require(f != nil, "anchor-unresolved: method internal/stream.Stream.%s", name)
		return f
	}
	cx.fnState, cx.fnSetState = get("State"), get("SetState")
	cx.fnPush, cx.fnFin, cx.fnRead = get("PushData"), get("HandleRemoteFinWrite"), get("Read")
	cx.fnCanWrite, cx.fnCanRead = get("CanWrite"), get("CanRead")
	cx.fnIsOpen = p.Func("internal/stream", "Stream", "IsOpen")
	if len(r.Floors) > 0 {
		return nil
	}
	// state field: the atomic field loaded by State()
	kit.Instrs(cx.fnState, func(in ssa.Instruction) {
		if c, ok := in.(ssa.CallInstruction); ok {
			if fa, ok := kit.Receiver(c).(*ssa.FieldAddr); ok && kit.CalleeOf(c).Name == "Load" {
				cx.fState = kit.FieldOfAddr(fa)
			}
		}
		if f, _ := kit.LoadedField(valueOf(in)); f != nil && cx.fState == nil {
			cx.fState = f
		}
	})
	// mutex field of Stream
	for _, f := range kit.StructFields(cx.streamT) {
		if n, ok := f.Type().(*types.Named); ok && n.Obj().Pkg() != nil && n.Obj().Pkg().Path() == "sync" && (n.Obj().Name() == "Mutex" || n.Obj().Name() == "RWMutex") {
			cx.fMu = f
		}
	}
	// read buffer: the channel field PushData sends the data on
	kit.Instrs(cx.fnPush, func(in ssa.Instruction) {
		switch x := in.(type) {
		case *ssa.Select:
			for _, st := range x.States {
				if st.Dir == types.SendOnly {
					if f, _ := kit.LoadedField(st.Chan); f != nil {
						cx.fReadBuf = f
					}
				}
			}
		case *ssa.Send:
			if f, _ := kit.LoadedField(x.Chan); f != nil {
				cx.fReadBuf = f
			}
		}
	})
	// closed channel: closed by the function Close hands to sync.Once (or by Close itself)
	// (reached through static calls, closures and method values such as closeOnce.Do(s.shutdown))
	if cl := p.Func("internal/stream", "Stream", "Close"); cl != nil {
		for f := range c18Reach(cl) {
			for _, c := range kit.Calls(f) {
				if kit.CalleeOf(c).Built == "close" {
					if fld, _ := kit.LoadedField(c.Common().Args[0]); fld != nil {
						cx.fClosed = fld
					}
				}
			}
		}
	}
	r.Require(cx.fState != nil, "anchor-unresolved: state field read by Stream.State")
	r.Require(cx.fMu != nil, "anchor-unresolved: sync mutex field of Stream")
	r.Require(cx.fReadBuf != nil, "anchor-unresolved: channel field Stream.PushData sends on")
	r.Require(cx.fClosed != nil, "anchor-unresolved: channel field closed by Stream.Close")
	if len(r.Floors) > 0 {
		return nil
	}
	return cx
}

// c18Reach returns the functions of package stream that fn can run: static callees, closures it
// creates, and functions it takes as values (method values handed to sync.Once.Do and the like,
// including their bound-method wrappers). fn is included.
func c18Reach(fn *ssa.Function) map[*ssa.Function]bool {
	out := map[*ssa.Function]bool{}
	var rec func(f *ssa.Function)
	rec = func(f *ssa.Function) {
		if f == nil || out[f] || f.Blocks == nil {
			return
		}
		if pp := kit.FuncPkgPath(f); pp != "" && pp != kit.PkgPath("internal/stream") {
			return
		}
		out[f] = true
		for _, a := range f.AnonFuncs {
			rec(a)
		}
		kit.Instrs(f, func(in ssa.Instruction) {
			for _, op := range in.Operands(nil) {
				if op == nil || *op == nil {
					continue
				}
				switch v := (*op).(type) {
				case *ssa.Function:
					rec(v)
				case *ssa.MakeClosure:
					if g, ok := v.Fn.(*ssa.Function); ok {
						rec(g)
					}
				}
			}
		})
	}
	rec(fn)
	return out
}

func valueOf(in ssa.Instruction) ssa.Value {
	v, _ := in.(ssa.Value)
	return v
}

func c18InPkg(fn *ssa.Function, pkgs ...string) bool {
	pp := kit.FuncPkgPath(fn)
	for _, s := range pkgs {
		if pp == kit.PkgPath(s) {
			return true
		}
	}
	return false
}

// ---------- state atoms ----------

// isStateRead: v is the current state of a stream (Stream.State() or state.Load(), possibly converted).
func (cx *c18Ctx) isStateRead(v ssa.Value) bool {
	v = kit.Unwrap(v)
	c, ok := v.(*ssa.Call)
	if !ok {
		return false
	}
	cal := kit.CalleeOf(c)
	if cal.Static == cx.fnState {
		return true
	}
	if cal.Pkg == "sync/atomic" && cal.Name == "Load" {
		if fa, ok := kit.Receiver(c).(*ssa.FieldAddr); ok && kit.FieldOfAddr(fa) == cx.fState {
			return true
		}
	}
	return false
}

// stateAtom evaluates conditions over the stream state when it is sigma; predicates of Stream
// (CanWrite, CanRead, IsOpen) are evaluated through their own tables (tab), when given.
func (cx *c18Ctx) stateAtom(sigma int64, tab map[*ssa.Function]map[int64]kit.Tri) kit.AtomEval {
	return func(cond ssa.Value) (bool, bool) {
		switch x := cond.(type) {
		case *ssa.BinOp:
			var k int64
			var ok bool
			op := x.Op
			switch {
			case cx.isStateRead(x.X):
				k, ok = kit.ConstInt(x.Y)
			case cx.isStateRead(x.Y):
				k, ok = kit.ConstInt(x.X)
				op = flipCmp(op)
			}
			if !ok {
				return false, false
			}
			switch op {
			case token.EQL, token.NEQ, token.LSS, token.LEQ, token.GTR, token.GEQ:
				ord := 0
				if sigma < k {
					ord = -1
				} else if sigma > k {
					ord = 1
				}
				return cmpHolds(op, ord), true
			}
		case *ssa.Call:
			if f := kit.CalleeOf(x).Static; f != nil && tab != nil {
				if t, ok := tab[f]; ok {
					switch t[sigma] {
					case kit.TriTrue:
						return true, true
					case kit.TriFalse:
						return false, true
					}
				}
			}
		}
		return false, false
	}
}

// predicateTable evaluates a bool-returning Stream predicate for each of the five states.
func (cx *c18Ctx) predicateTable(fn *ssa.Function) map[int64]kit.Tri {
	out := map[int64]kit.Tri{}
	for _, name := range c18StateConsts {
		sigma := cx.stateVal[name]
		l := kit.LiveUnder(fn, cx.stateAtom(sigma, nil))
		res := kit.TriBottom
		for _, ret := range l.LiveReturns() {
			if len(ret.Results) != 1 {
				res = kit.TriUnknown
				continue
			}
			v := l.Eval(kit.ReturnResult(ret, 0))
			switch {
			case res == kit.TriBottom:
				res = v
			case res != v:
				res = kit.TriUnknown
			}
		}
		if res == kit.TriBottom {
			res = kit.TriUnknown
		}
		out[sigma] = res
	}
	return out
}

func runC18(p *kit.Program, r *kit.Report) {
	r.Rule("C18.R1", "in a function that delivers a frame's data and signals end-of-write, no delivery is reachable after the signal (same frame), and the delivery still happens when the FIN flag is set")
	r.Rule("C18.R2", "every io.EOF return of Stream.Read is preceded, after the last blocking channel operation, by a non-blocking receive on the read buffer that found it empty")
	r.Rule("C18.R3", "CanWrite is true exactly for Open/HalfClosedRemote and false for HalfClosedLocal/Closed, CanRead is true for Open/HalfClosedLocal; meshConn.Write sends no frame when the stream is half-closed locally or closed; meshConn.CloseWrite records the local half-close after sending FIN")
	r.Rule("C18.R4", "every stream state store is a documented transition for every current state that can reach it, and executes in the Stream mutex region that also holds the state read it depends on")
	r.Rule("C18.R5", "close/reset paths delete exactly the stream-table entry addressed by the stream id they were given, never reach a bulk reset, and the agent passes the frame's own stream id")
	cx := newC18Ctx(p, r)
	if cx == nil {
		return
	}
	cx.ruleR1()
	cx.ruleR2()
	cx.ruleR3()
	cx.ruleR4()
	cx.ruleR5()
	cx.ruleR6()
	cx.ruleR7()
	cx.ruleR8()
}

// ---------- R1 ----------

// isFinTest: cond tests the FIN-write bit of a flags value; returns the truth value of cond when
// the bit is set.
func (cx *c18Ctx) finTest(cond ssa.Value) (whenSet bool, ok bool) {
	b, isb := cond.(*ssa.BinOp)
	if !isb {
		return false, false
	}
	mask := func(v ssa.Value) bool {
		a, ok := v.(*ssa.BinOp)
		if !ok || a.Op != token.AND {
			return false
		}
		for _, side := range []ssa.Value{a.X, a.Y} {
			if k, ok := kit.ConstInt(side); ok && k&cx.finBit != 0 && k&^cx.finBit == 0 {
				return true
			}
		}
		return false
	}
	var other ssa.Value
	switch {
	case mask(b.X):
		other = b.Y
	case mask(b.Y):
		other = b.X
	default:
		return false, false
	}
	k, isc := kit.ConstInt(other)
	if !isc {
		return false, false
	}
	// masked value is finBit when set
	switch b.Op {
	case token.EQL:
		return k == cx.finBit, true
	case token.NEQ:
		return k != cx.finBit, true
	case token.GTR:
		if side := b.X; mask(side) {
			return cx.finBit > k, true
		}
		return k > cx.finBit, true
	}
	return false, false
}

// c18NonEmptyAtom: conditions on the length of a slice parameter, evaluated for a non-empty slice.
func c18NonEmptyAtom(cond ssa.Value) (bool, bool) {
	b, ok := cond.(*ssa.BinOp)
	if !ok {
		return false, false
	}
	isLen := func(v ssa.Value) bool {
		c, ok := v.(*ssa.Call)
		if !ok || kit.CalleeOf(c).Built != "len" || len(c.Call.Args) != 1 {
			return false
		}
		q, ok := c.Call.Args[0].(*ssa.Parameter)
		if !ok {
			return false
		}
		_, isSlice := q.Type().Underlying().(*types.Slice)
		return isSlice
	}
	var k int64
	var isc bool
	op := b.Op
	switch {
	case isLen(b.X):
		k, isc = kit.ConstInt(b.Y)
	case isLen(b.Y):
		k, isc = kit.ConstInt(b.X)
		op = flipCmp(op)
	}
	if !isc || k > 1 || k < 0 {
		return false, false
	}
	// agree for lengths 1 and 2
	ord := func(n int64) int {
		switch {
		case n < k:
			return -1
		case n > k:
			return 1
		}
		return 0
	}
	switch op {
	case token.EQL, token.NEQ, token.LSS, token.LEQ, token.GTR, token.GEQ:
		if cmpHolds(op, ord(1)) == cmpHolds(op, ord(2)) {
			return cmpHolds(op, ord(1)), true
		}
	}
	return false, false
}

func (cx *c18Ctx) ruleR1() {
	p, r := cx.p, cx.r
	// functions (package stream) that may signal FIN / may push, through static calls inside the package
	inStream := func(f *ssa.Function) bool { return c18InPkg(f, "internal/stream") }
	mayFin, mayPush := map[*ssa.Function]bool{cx.fnFin: true}, map[*ssa.Function]bool{cx.fnPush: true}
	for changed := true; changed; {
		changed = false
		for _, f := range p.FuncsInPkg("internal/stream") {
			for _, c := range kit.Calls(f) {
				s := kit.CalleeOf(c).Static
				if s == nil || !inStream(s) {
					continue
				}
				if mayFin[s] && !mayFin[f] && f != cx.fnFin {
					mayFin[f], changed = true, true
				}
				if mayPush[s] && !mayPush[f] && f != cx.fnPush {
					mayPush[f], changed = true, true
				}
			}
		}
	}
	type inst struct {
		fn        *ssa.Function
		fin, push []ssa.CallInstruction
	}
	var insts []inst
	for _, f := range p.RepoFuncs() {
		if f == cx.fnFin || f == cx.fnPush {
			continue
		}
		var in inst
		in.fn = f
		for _, c := range kit.Calls(f) {
			cal := kit.CalleeOf(c)
			if cal.Static != nil && mayFin[cal.Static] {
				in.fin = append(in.fin, c)
			}
			if cal.Static != nil && mayPush[cal.Static] {
				in.push = append(in.push, c)
			}
			// destination side (exit / forward): Conn.Write delivers, CloseWrite signals
			if c18InPkg(f, "internal/exit", "internal/forward") {
				if cal.Name == "CloseWrite" && (cal.Pkg == "net" || cal.Iface) {
					in.fin = append(in.fin, c)
				}
				if cal.Iface && cal.Name == "Write" && cal.Pkg == "net" && cal.Recv == "Conn" {
					in.push = append(in.push, c)
				}
			}
		}
		if len(in.fin) > 0 && len(in.push) > 0 {
			insts = append(insts, in)
		}
	}
	nStream := 0
	for _, in := range insts {
		if c18InPkg(in.fn, "internal/stream") {
			nStream++
		}
	}
	r.Count("r1_functions_with_delivery_and_fin", len(insts))
	r.Require(nStream >= 1, "floor: no function of internal/stream both pushes frame data and signals remote FIN (HandleStreamData role)")
	for _, in := range insts {
		fname := kit.FuncName(in.fn)
		bad := ""
		for _, f := range in.fin {
			_, fDefer := f.(*ssa.Defer)
			for _, pu := range in.push {
				if f == pu {
					continue // one call doing both: the callee is judged itself
				}
				_, pDefer := pu.(*ssa.Defer)
				switch {
				case fDefer && !pDefer:
					// FIN runs at function exit, after every push
				case pDefer && !fDefer:
					bad = p.Pos(f.Pos())
				case kit.CanReachForward(f, pu):
					bad = p.Pos(f.Pos())
				}
			}
		}
		r.Decide(bad == "", "C18.R1", fname+" data-before-FIN", p.Pos(in.fn.Pos()),
			"no data delivery is reachable after the end-of-write signal",
			"end-of-write is signalled at "+bad+" before the frame's data is delivered: a reader woken by the signal finds the buffer empty and reports EOF, the data of the FIN frame is lost")
		// delivery not skipped for FIN frames
		hasFinTest := false
		atom := func(cond ssa.Value) (bool, bool) {
			if v, ok := cx.finTest(cond); ok {
				hasFinTest = true
				return v, true
			}
			return false, false
		}
		l := kit.LiveUnder(in.fn, atom)
		live := false
		for _, pu := range in.push {
			if l.CanReachFromEntry(pu, nil) {
				live = true
			}
		}
		if hasFinTest {
			r.Decide(live, "C18.R1", fname+" delivery-with-FIN", p.Pos(in.fn.Pos()),
				"the data delivery stays reachable when the FIN flag is set",
				"no data delivery is reachable when the frame carries the FIN flag: data arriving together with the end-of-write signal is dropped")
			// and the other way round: a FIN flag on a frame that carries data is still honoured
			l2 := kit.LiveUnder(in.fn, func(cond ssa.Value) (bool, bool) {
				if v, ok := cx.finTest(cond); ok {
					return v, true
				}
				return c18NonEmptyAtom(cond)
			})
			finLive := false
			for _, f := range in.fin {
				if l2.CanReachFromEntry(f, nil) {
					finLive = true
				}
			}
			r.Decide(finLive, "C18.R1", fname+" FIN-with-data", p.Pos(in.fn.Pos()),
				"the end-of-write signal stays reachable when the FIN frame also carries data",
				"the end-of-write signal is unreachable when the FIN frame carries data (it is only honoured for empty frames): the reader gets the data but never end-of-stream")
		}
	}
}

// ---------- R2 ----------

func c18IsEOF(v ssa.Value) bool {
	for _, l := range kit.PhiLeaves(v) {
		if u, ok := l.(*ssa.UnOp); ok && u.Op == token.MUL {
			if g, ok := u.X.(*ssa.Global); ok && g.Name() == "EOF" && g.Pkg != nil && g.Pkg.Pkg.Path() == "io" {
				return true
			}
		}
	}
	return false
}

// selectIndexAtom fixes the index result of one select instruction.
func c18SelectIndexAtom(sel *ssa.Select, idx int64) kit.AtomEval {
	return func(cond ssa.Value) (bool, bool) {
		b, ok := cond.(*ssa.BinOp)
		if !ok {
			return false, false
		}
		isIdx := func(v ssa.Value) bool {
			e, ok := v.(*ssa.Extract)
			return ok && e.Tuple == ssa.Value(sel) && e.Index == 0
		}
		var k int64
		op := b.Op
		var isc bool
		switch {
		case isIdx(b.X):
			k, isc = kit.ConstInt(b.Y)
		case isIdx(b.Y):
			k, isc = kit.ConstInt(b.X)
			op = flipCmp(op)
		default:
			return false, false
		}
		if !isc {
			return false, false
		}
		ord := 0
		if idx < k {
			ord = -1
		} else if idx > k {
			ord = 1
		}
		switch op {
		case token.EQL, token.NEQ, token.LSS, token.LEQ, token.GTR, token.GEQ:
			return cmpHolds(op, ord), true
		}
		return false, false
	}
}

// c18Scan lists the non-blocking receives on the read buffer and the blocking channel operations of fn.
func (cx *c18Ctx) scanChanOps(fn *ssa.Function) (drains []*ssa.Select, blocking map[ssa.Instruction]bool) {
	blocking = map[ssa.Instruction]bool{}
	kit.Instrs(fn, func(in ssa.Instruction) {
		switch x := in.(type) {
		case *ssa.Select:
			if x.Blocking {
				blocking[in] = true
				return
			}
			for _, st := range x.States {
				if st.Dir == types.RecvOnly {
					if f, _ := kit.LoadedField(st.Chan); f == cx.fReadBuf {
						drains = append(drains, x)
					}
				}
			}
		case *ssa.UnOp:
			if x.Op == token.ARROW {
				blocking[in] = true
			}
		case *ssa.Send:
			blocking[in] = true
		}
	})
	return
}

// c18TryRecv summarises a helper that performs one non-blocking receive on the read buffer and
// tells its caller whether it got something: result boolIdx is false / result nilIdx is nil exactly
// when the buffer was empty.
type c18TryRecv struct {
	boolIdx, nilIdx int
}

func (cx *c18Ctx) tryRecvSummary(h *ssa.Function) (c18TryRecv, bool) {
	sum := c18TryRecv{-1, -1}
	if h == nil || h.Blocks == nil || !c18InPkg(h, "internal/stream") || h == cx.fnRead {
		return sum, false
	}
	drains, blocking := cx.scanChanOps(h)
	if len(drains) != 1 || len(blocking) > 0 {
		return sum, false
	}
	d := drains[0]
	n := h.Signature.Results().Len()
	empty := kit.LiveUnder(h, c18SelectIndexAtom(d, -1))
	for i := 0; i < n; i++ {
		t := h.Signature.Results().At(i).Type()
		_, isSlice := t.Underlying().(*types.Slice)
		_, isPtr := t.Underlying().(*types.Pointer)
		allFalse, allNil := true, isSlice || isPtr
		for _, ret := range empty.LiveReturns() {
			v := kit.ReturnResult(ret, i)
			if empty.Eval(v) != kit.TriFalse {
				allFalse = false
			}
			if !kit.IsNilConst(v) {
				allNil = false
			}
		}
		// and the opposite answer when something was received
		for k := range d.States {
			got := kit.LiveUnder(h, c18SelectIndexAtom(d, int64(k)))
			for _, ret := range got.LiveReturns() {
				v := kit.ReturnResult(ret, i)
				if got.Eval(v) != kit.TriTrue {
					allFalse = false
				}
				if kit.IsNilConst(v) {
					allNil = false
				}
			}
		}
		b, isBasic := t.Underlying().(*types.Basic)
		if allFalse && isBasic && b.Kind() == types.Bool {
			sum.boolIdx = i
		}
		if allNil {
			sum.nilIdx = i
		}
	}
	return sum, sum.boolIdx >= 0 || sum.nilIdx >= 0
}

// gotAtom: the helper call c reported that it received something.
func c18GotAtom(c *ssa.Call, sum c18TryRecv) kit.AtomEval {
	result := func(v ssa.Value, idx int) bool {
		if idx < 0 {
			return false
		}
		if e, ok := v.(*ssa.Extract); ok {
			return e.Tuple == ssa.Value(c) && e.Index == idx
		}
		return v == ssa.Value(c) && idx == 0 && c.Call.Signature().Results().Len() == 1
	}
	return func(cond ssa.Value) (bool, bool) {
		if result(cond, sum.boolIdx) {
			return true, true
		}
		if b, ok := cond.(*ssa.BinOp); ok && (b.Op == token.EQL || b.Op == token.NEQ) {
			var other ssa.Value
			switch {
			case kit.IsNilConst(b.Y):
				other = b.X
			case kit.IsNilConst(b.X):
				other = b.Y
			default:
				return false, false
			}
			if result(other, sum.nilIdx) {
				return b.Op == token.NEQ, true
			}
		}
		return false, false
	}
}

// ruleR2 judges the io.EOF returns of Stream.Read and of the helpers of package stream whose
// results Read returns as its own (return s.dequeueOrEOF()).
func (cx *c18Ctx) ruleR2() {
	fns := []*ssa.Function{cx.fnRead}
	seen := map[*ssa.Function]bool{cx.fnRead: true}
	for i := 0; i < len(fns) && i < 8; i++ {
		f := fns[i]
		for _, ret := range kit.Returns(f) {
			if ret.Block() == f.Recover || len(ret.Results) == 0 {
				continue
			}
			for _, leaf := range kit.PhiLeaves(kit.ReturnResult(ret, len(ret.Results)-1)) {
				c, _, ok := kit.ResultOf(leaf)
				if !ok {
					continue
				}
				if h := kit.CalleeOf(c).Static; h != nil && h.Blocks != nil && c18InPkg(h, "internal/stream") && !seen[h] {
					seen[h] = true
					fns = append(fns, h)
				}
			}
		}
	}
	n := 0
	for _, f := range fns {
		n += cx.judgeEOF(f)
	}
	cx.r.Require(n >= 1, "floor: neither Stream.Read nor a helper whose result it returns has a return of io.EOF")
}

func (cx *c18Ctx) judgeEOF(fn *ssa.Function) int {
	p, r := cx.p, cx.r
	fname := kit.FuncName(fn)
	drains, blocking := cx.scanChanOps(fn)
	// helper calls that perform the non-blocking receive on behalf of Read
	type helperCall struct {
		call *ssa.Call
		sum  c18TryRecv
	}
	var helpers []helperCall
	for _, c := range kit.Calls(fn) {
		cc, ok := c.(*ssa.Call)
		if !ok {
			continue
		}
		if sum, ok := cx.tryRecvSummary(kit.CalleeOf(c).Static); ok {
			helpers = append(helpers, helperCall{cc, sum})
		}
	}
	r.Count("r2_nonblocking_readbuffer_receives", len(drains)+len(helpers))
	var eofs []*ssa.Return
	for _, ret := range kit.Returns(fn) {
		if ret.Block() == fn.Recover || len(ret.Results) == 0 {
			continue
		}
		if c18IsEOF(kit.ReturnResult(ret, len(ret.Results)-1)) {
			eofs = append(eofs, ret)
		}
	}
	r.Count("r2_eof_returns", len(eofs))
	for i, ret := range eofs {
		// witnesses: receive attempts from which this return is reachable only when the buffer was empty
		wit := map[ssa.Instruction]bool{}
		for _, d := range drains {
			if !kit.CanReach(d, ret) {
				continue
			}
			onlyDefault := true
			for k := range d.States {
				l := kit.LiveUnder(fn, c18SelectIndexAtom(d, int64(k)))
				if l.CanReach(d, ret, nil) {
					onlyDefault = false
				}
			}
			if onlyDefault {
				wit[d] = true
			}
		}
		for _, h := range helpers {
			if !kit.CanReach(h.call, ret) {
				continue
			}
			if l := kit.LiveUnder(fn, c18GotAtom(h.call, h.sum)); !l.CanReach(h.call, ret, nil) {
				wit[h.call] = true
			}
		}
		ok := len(wit) > 0
		why := "no non-blocking receive on the read buffer whose empty outcome leads to this return"
		if ok {
			// no path from the entry, or from a blocking channel operation, to the return that avoids every witness
			entry := fn.Blocks[0].Instrs[0]
			if entry != ssa.Instruction(ret) && !wit[entry] && kit.CanReachAvoiding(entry, ret, wit) {
				ok, why = false, "a path from the function entry reaches this return without the empty-buffer test"
			}
			for b := range blocking {
				if kit.CanReachAvoiding(b, ret, wit) {
					ok, why = false, "after the blocking wait at "+p.Pos(b.Pos())+" this return is reached without re-testing the read buffer"
				}
			}
		}
		r.Decide(ok, "C18.R2", fmt.Sprintf("%s EOF return #%d", fname, i+1), p.Pos(ret.Pos()),
			"the return is reached only after a failed non-blocking receive on the read buffer that follows the last blocking wait",
			why+": data pushed before the FIN/close signal can still be in the buffer when EOF is reported, so it is never delivered")
	}
	return len(eofs)
}

// ---------- R3 ----------

func (cx *c18Ctx) ruleR3() {
	p, r := cx.p, cx.r
	type want struct {
		state string
		val   kit.Tri
	}
	check := func(fn *ssa.Function, wants []want) map[int64]kit.Tri {
		tab := cx.predicateTable(fn)
		for _, w := range wants {
			got := tab[cx.stateVal[w.state]]
			key := fmt.Sprintf("%s table[%s]", kit.FuncName(fn), w.state)
			switch {
			case got == w.val:
				r.OK("C18.R3", key, p.Pos(fn.Pos()), "evaluates to %v as documented", w.val == kit.TriTrue)
			case got == kit.TriTrue || got == kit.TriFalse:
				r.Violation("C18.R3", key, p.Pos(fn.Pos()), "%s is %v in state %s but the protocol requires %v: %s", fn.Name(), got == kit.TriTrue, w.state, w.val == kit.TriTrue,
					"writes after the local half-close are accepted / reads or writes that must continue are refused")
			default:
				// predicate not expressed over the state alone: nothing is claimed for this entry
				r.Infof("C18.R3", key, p.Pos(fn.Pos()), "not a function of the stream state alone; entry not decided")
				r.Count("r3_table_entries_not_decided", 1)
			}
		}
		return tab
	}
	tabs := map[*ssa.Function]map[int64]kit.Tri{}
	tabs[cx.fnCanWrite] = check(cx.fnCanWrite, []want{{"StateOpen", kit.TriTrue}, {"StateHalfClosedRemote", kit.TriTrue}, {"StateHalfClosedLocal", kit.TriFalse}, {"StateClosed", kit.TriFalse}})
	tabs[cx.fnCanRead] = check(cx.fnCanRead, []want{{"StateOpen", kit.TriTrue}, {"StateHalfClosedLocal", kit.TriTrue}})
	if cx.fnIsOpen != nil {
		tabs[cx.fnIsOpen] = cx.predicateTable(cx.fnIsOpen)
	}

	// meshConn.Write: nothing is sent when the stream is half-closed locally or closed
	write := p.Func("internal/agent", "meshConn", "Write")
	closeWrite := p.Func("internal/agent", "meshConn", "CloseWrite")
	if !r.Require(write != nil && closeWrite != nil, "anchor-unresolved: internal/agent.meshConn Write/CloseWrite") {
		return
	}
	sendSites := func(fn *ssa.Function) []ssa.CallInstruction {
		var out []ssa.CallInstruction
		for _, c := range kit.Calls(fn) {
			cal := kit.CalleeOf(c)
			if cal.Name == "SendToPeer" {
				out = append(out, c)
				continue
			}
			// helper of the same package that sends
			if cal.Static != nil && c18InPkg(cal.Static, "internal/agent") {
				for g := range kit.StaticCallClosure(cal.Static, func(f *ssa.Function) bool { return c18InPkg(f, "internal/agent") }) {
					for _, c2 := range kit.Calls(g) {
						if kit.CalleeOf(c2).Name == "SendToPeer" {
							out = append(out, c)
						}
					}
				}
			}
		}
		return out
	}
	ws := sendSites(write)
	r.Count("r3_send_sites_in_meshconn_write", len(ws))
	callsPred := func(fn, pred *ssa.Function) bool {
		for _, c := range kit.Calls(fn) {
			if kit.CalleeOf(c).Static == pred {
				return true
			}
		}
		return false
	}
	if r.Require(len(ws) >= 1, "floor: meshConn.Write sends no frame (SendToPeer not found)") {
		for _, st := range []string{"StateHalfClosedLocal", "StateClosed"} {
			sigma := cx.stateVal[st]
			l := kit.LiveUnder(write, cx.stateAtom(sigma, tabs))
			bad := ""
			for _, s := range ws {
				if l.CanReachFromEntry(s, nil) {
					bad = p.Pos(s.Pos())
				}
			}
			key := fmt.Sprintf("%s refuses in %s", kit.FuncName(write), st)
			if t := tabs[cx.fnCanWrite][sigma]; bad != "" && callsPred(write, cx.fnCanWrite) && t != kit.TriTrue && t != kit.TriFalse {
				// Write defers to CanWrite, and CanWrite is not a function of the state alone: nothing claimed
				r.Infof("C18.R3", key, p.Pos(write.Pos()), "Write consults CanWrite, whose value in this state is not decided statically")
				r.Count("r3_table_entries_not_decided", 1)
				continue
			}
			r.Decide(bad == "", "C18.R3", key, p.Pos(write.Pos()),
				"no frame is sent in this state",
				"the send at "+bad+" stays reachable when the stream is in "+st+": data is written to the mesh after the local side announced end-of-write")
		}
	}
	// meshConn.Read: reading continues after the local half-close
	if read := p.Func("internal/agent", "meshConn", "Read"); r.Require(read != nil, "anchor-unresolved: internal/agent.meshConn.Read") {
		var reads []ssa.CallInstruction
		inAgent := func(f *ssa.Function) bool { return c18InPkg(f, "internal/agent") }
		for _, c := range kit.Calls(read) {
			s := kit.CalleeOf(c).Static
			if s == cx.fnRead {
				reads = append(reads, c)
				continue
			}
			// a helper of the connection that performs the stream read (readNextMessage and the like)
			if s != nil && inAgent(s) && s != read {
				for g := range kit.StaticCallClosure(s, inAgent) {
					for _, c2 := range kit.Calls(g) {
						if kit.CalleeOf(c2).Static == cx.fnRead {
							reads = append(reads, c)
						}
					}
				}
			}
		}
		r.Count("r3_stream_read_sites_in_meshconn_read", len(reads))
		if r.Require(len(reads) >= 1, "floor: meshConn.Read does not call Stream.Read") {
			l := kit.LiveUnder(read, cx.stateAtom(cx.stateVal["StateHalfClosedLocal"], tabs))
			live := false
			for _, c := range reads {
				if l.CanReachFromEntry(c, nil) {
					live = true
				}
			}
			r.Decide(live, "C18.R3", kit.FuncName(read)+" continues in StateHalfClosedLocal", p.Pos(read.Pos()),
				"Stream.Read stays reachable after the local half-close",
				"Stream.Read is unreachable when the stream is half-closed locally: the response that follows our end-of-write can no longer be read")
		}
	}
	// meshConn.CloseWrite: after the FIN frame was sent the local half-close is recorded
	records := map[*ssa.Function]bool{}
	for _, st := range cx.stateSites() {
		if !c18InPkg(st.fn, "internal/stream") {
			continue
		}
		if st.tab == nil && st.x == cx.stateVal["StateHalfClosedLocal"] {
			records[kit.TopLevel(st.fn)] = true
		}
		if st.tab != nil {
			for _, trs := range st.tab {
				for _, tr := range trs {
					if !tr.same && tr.to == cx.stateVal["StateHalfClosedLocal"] {
						records[kit.TopLevel(st.fn)] = true
					}
				}
			}
		}
	}
	var recCalls = map[ssa.Instruction]bool{}
	for _, c := range kit.Calls(closeWrite) {
		if s := kit.CalleeOf(c).Static; s != nil {
			for g := range kit.StaticCallClosure(s, func(f *ssa.Function) bool { return c18InPkg(f, "internal/stream") }) {
				if records[g] {
					recCalls[c] = true
				}
			}
		}
	}
	cs := sendSites(closeWrite)
	r.Count("r3_send_sites_in_meshconn_closewrite", len(cs))
	if r.Require(len(cs) >= 1, "floor: meshConn.CloseWrite sends no frame (SendToPeer not found)") {
		for i, s := range cs {
			ok := false
			for rc := range recCalls {
				if kit.Precedes(rc, s) {
					ok = true
				}
			}
			bad := ""
			if !ok {
				ok = true
				// successful outcomes: the send's error is nil; a return yields nil either literally or
				// by returning that error value
				var sendErr ssa.Value
				if sc, isCall := s.(*ssa.Call); isCall {
					sendErr = kit.ErrResultOf(sc)
				}
				l := kit.LiveUnder(closeWrite, func(cond ssa.Value) (bool, bool) {
					if x, tn, isNil := kit.IsErrNilCheck(cond); isNil && sendErr != nil && x == sendErr {
						return tn, true
					}
					return false, false
				})
				for _, ret := range l.LiveReturns() {
					if len(ret.Results) == 0 {
						continue
					}
					res := kit.ReturnResult(ret, len(ret.Results)-1)
					succ := kit.IsNilConst(res)
					for _, leaf := range kit.PhiLeaves(res) {
						if sendErr != nil && leaf == sendErr {
							succ = true
						}
					}
					if succ && l.CanReach(s, ret, recCalls) {
						ok, bad = false, p.Pos(ret.Pos())
					}
				}
			}
			r.Decide(ok, "C18.R3", fmt.Sprintf("%s records half-close after send #%d", kit.FuncName(closeWrite), i+1), p.Pos(s.Pos()),
				"every successful return after the FIN frame passes through the call that moves the stream to HalfClosedLocal",
				"the successful return at "+bad+" is reachable after sending FIN without recording the local half-close: CanWrite stays true and later writes are sent after end-of-write")
		}
	}
}

// ---------- R4 ----------

// isStateStore: call is Stream.SetState(x) or state.Store(x) on the Stream state field.
func (cx *c18Ctx) isStateStore(c ssa.CallInstruction) bool {
	cal := kit.CalleeOf(c)
	if cal.Static == cx.fnSetState {
		return true
	}
	if cal.Pkg == "sync/atomic" && (cal.Name == "Store" || cal.Name == "Swap" || cal.Name == "CompareAndSwap") {
		if fa, ok := kit.Receiver(c).(*ssa.FieldAddr); ok && kit.FieldOfAddr(fa) == cx.fState {
			return true
		}
	}
	return false
}

func (cx *c18Ctx) storedState(c ssa.CallInstruction) ssa.Value {
	n := len(c.Common().Args)
	if n == 0 {
		return nil
	}
	return kit.Unwrap(c.Common().Args[n-1])
}

// c18Site is one store to the stream state with a constant target (wrappers resolved at their call sites).
type c18Site struct {
	fn   *ssa.Function
	call ssa.CallInstruction
	x    int64
	from int64 // expected current state of a compare-and-swap, -1 when the store is unconditional
	via  string
	// a store of the result of a pure transition function next(from) applied to the current state:
	tab     map[int64][]c18Tr // current state -> possible results
	tabCall *ssa.Call
	tabName string
}

// c18Tr is one outcome of a transition function for one current state.
type c18Tr struct {
	to    int64 // target state, or the current state itself when same
	same  bool
	okIdx int     // index of the bool result that says "changed", -1 if none
	ok    kit.Tri // value of that result on this outcome
}

// transitionTable summarises a pure function f(from StreamState) (to StreamState[, ok bool]) of package
// stream by evaluating it for each of the five states.
func (cx *c18Ctx) transitionTable(h *ssa.Function, resIdx int) (map[int64][]c18Tr, bool) {
	if h == nil || h.Blocks == nil || !c18InPkg(h, "internal/stream") {
		return nil, false
	}
	stateT := cx.fnState.Signature.Results().At(0).Type()
	var from *ssa.Parameter
	for _, q := range h.Params {
		if types.Identical(q.Type(), stateT) {
			if from != nil {
				return nil, false
			}
			from = q
		}
	}
	res := h.Signature.Results()
	if from == nil || resIdx >= res.Len() || !types.Identical(res.At(resIdx).Type(), stateT) {
		return nil, false
	}
	okIdx := -1
	for j := 0; j < res.Len(); j++ {
		if b, isB := res.At(j).Type().Underlying().(*types.Basic); isB && b.Kind() == types.Bool {
			okIdx = j
		}
	}
	// no side effects: no calls other than builtins, no stores to non-local memory
	pure := true
	kit.Instrs(h, func(in ssa.Instruction) {
		switch x := in.(type) {
		case ssa.CallInstruction:
			if kit.CalleeOf(x).Built == "" {
				pure = false
			}
		case *ssa.Store:
			if _, ok := x.Addr.(*ssa.Alloc); !ok {
				pure = false
			}
		}
	})
	if !pure {
		return nil, false
	}
	tab := map[int64][]c18Tr{}
	for _, name := range c18StateConsts {
		sigma := cx.stateVal[name]
		l := kit.LiveUnder(h, func(cond ssa.Value) (bool, bool) {
			b, ok := cond.(*ssa.BinOp)
			if !ok {
				return false, false
			}
			var k int64
			var isc bool
			op := b.Op
			switch {
			case kit.Unwrap(b.X) == ssa.Value(from):
				k, isc = kit.ConstInt(b.Y)
			case kit.Unwrap(b.Y) == ssa.Value(from):
				k, isc = kit.ConstInt(b.X)
				op = flipCmp(op)
			}
			if !isc {
				return false, false
			}
			ord := 0
			if sigma < k {
				ord = -1
			} else if sigma > k {
				ord = 1
			}
			switch op {
			case token.EQL, token.NEQ, token.LSS, token.LEQ, token.GTR, token.GEQ:
				return cmpHolds(op, ord), true
			}
			return false, false
		})
		for _, ret := range l.LiveReturns() {
			tr := c18Tr{okIdx: okIdx, ok: kit.TriUnknown}
			for _, leaf := range kit.PhiLeaves(kit.ReturnResult(ret, resIdx)) {
				leaf = kit.Unwrap(leaf)
				if k, isc := kit.ConstInt(leaf); isc {
					tr.to = k
				} else if leaf == ssa.Value(from) {
					tr.to, tr.same = sigma, true
				} else {
					return nil, false
				}
				if okIdx >= 0 {
					tr.ok = l.Eval(kit.ReturnResult(ret, okIdx))
				}
				tab[sigma] = append(tab[sigma], tr)
			}
		}
	}
	return tab, true
}

// sitePairs lists the transitions (from, to) a store site can perform.
func (cx *c18Ctx) sitePairs(st c18Site) [][2]int64 {
	var out [][2]int64
	for _, name := range c18StateConsts {
		sigma := cx.stateVal[name]
		switch {
		case st.tab != nil:
			for _, tr := range st.tab[sigma] {
				base := cx.stateAtom(sigma, nil)
				l := kit.LiveUnder(st.fn, func(cond ssa.Value) (bool, bool) {
					if tr.okIdx >= 0 && (tr.ok == kit.TriTrue || tr.ok == kit.TriFalse) {
						os := kit.Origins(cond)
						all := len(os) > 0
						for _, o := range os {
							e, ok := o.(*ssa.Extract)
							if !ok || e.Tuple != ssa.Value(st.tabCall) || e.Index != tr.okIdx {
								all = false
							}
						}
						if all {
							return tr.ok == kit.TriTrue, true
						}
					}
					return base(cond)
				})
				if l.CanReachFromEntry(st.call, nil) {
					out = append(out, [2]int64{sigma, tr.to})
				}
			}
		case st.from >= 0:
			if st.from == sigma {
				out = append(out, [2]int64{sigma, st.x})
			}
		default:
			if kit.LiveUnder(st.fn, cx.stateAtom(sigma, nil)).CanReachFromEntry(st.call, nil) {
				out = append(out, [2]int64{sigma, st.x})
			}
		}
	}
	return out
}

// stateSites collects (once) every store to the stream state in the repository.
func (cx *c18Ctx) stateSites() []c18Site {
	if cx.sitesDone {
		return cx.sites
	}
	cx.sitesDone = true
	p := cx.p
	parIdx := func(fn *ssa.Function, v ssa.Value) int {
		if par, ok := v.(*ssa.Parameter); ok {
			for i, q := range fn.Params {
				if q == par {
					return i
				}
			}
		}
		return -1
	}
	// collect records a store of newV (guarded by a compare with oldV when oldV != nil, the
	// compare-and-swap form) made by call c in fn; values handed through by a wrapper are resolved at
	// the wrapper's call sites.
	var collect func(fn *ssa.Function, c ssa.CallInstruction, newV, oldV ssa.Value, via string, depth int)
	collect = func(fn *ssa.Function, c ssa.CallInstruction, newV, oldV ssa.Value, via string, depth int) {
		k, newConst := kit.ConstInt(newV)
		from, oldConst := int64(-1), oldV == nil
		if oldV != nil {
			if o, ok := kit.ConstInt(oldV); ok {
				from, oldConst = o, true
			}
		}
		if newConst && oldConst {
			cx.sites = append(cx.sites, c18Site{fn: fn, call: c, x: k, from: from, via: via})
			return
		}
		// the result of a pure transition function applied to the current state
		if oldV == nil {
			if tc, idx, isRes := kit.ResultOf(newV); isRes {
				h := kit.CalleeOf(tc).Static
				stateArg := false
				for _, a := range tc.Call.Args {
					if cx.isStateRead(a) {
						stateArg = true
					}
				}
				if tab, ok := cx.transitionTable(h, idx); ok && stateArg {
					cx.sites = append(cx.sites, c18Site{fn: fn, call: c, x: -1, from: -1, via: via, tab: tab, tabCall: tc, tabName: h.Name()})
					return
				}
			}
		}
		// parameters handed through by a wrapper: judge the wrapper's call sites
		ni, oi := parIdx(fn, newV), parIdx(fn, oldV)
		liftable := (newConst || ni >= 0) && (oldConst || oi >= 0)
		callers := p.StaticCallers(fn)
		if liftable && depth < 2 && len(callers) > 0 {
			for _, cs := range callers {
				args := cs.Common().Args
				nv, ov := newV, oldV
				if ni >= 0 && ni < len(args) {
					nv = kit.Unwrap(args[ni])
				}
				if oi >= 0 && oi < len(args) {
					ov = kit.Unwrap(args[oi])
				}
				collect(cs.Parent(), cs, nv, ov, " via "+fn.Name(), depth+1)
			}
			return
		}
		if liftable && fn == cx.fnSetState {
			return // SetState itself with no further callers
		}
		cx.dynSites = append(cx.dynSites, c18Site{fn: fn, call: c})
	}
	for _, f := range p.RepoFuncs() {
		for _, c := range kit.Calls(f) {
			if !cx.isStateStore(c) {
				continue
			}
			var oldV ssa.Value
			if cal := kit.CalleeOf(c); cal.Name == "CompareAndSwap" {
				if a := c.Common().Args; len(a) >= 2 {
					oldV = kit.Unwrap(a[len(a)-2])
				}
			}
			collect(f, c, cx.storedState(c), oldV, "", 0)
		}
	}
	sort.SliceStable(cx.sites, func(i, j int) bool { return cx.sites[i].call.Pos() < cx.sites[j].call.Pos() })
	return cx.sites
}

func (cx *c18Ctx) ruleR4() {
	p, r := cx.p, cx.r
	// close context: functions (with their parents) that close the `closed` channel of the stream
	closeCtx := map[*ssa.Function]bool{}
	for _, f := range p.FuncsInPkg("internal/stream") {
		for _, c := range kit.Calls(f) {
			if kit.CalleeOf(c).Built == "close" {
				if fld, _ := kit.LoadedField(c.Common().Args[0]); fld == cx.fClosed {
					closeCtx[f] = true
				}
			}
		}
	}
	sites := cx.stateSites()
	for i, d := range cx.dynSites {
		r.Violation("C18.R4", fmt.Sprintf("%s dynamic state store #%d", kit.FuncName(d.fn), i+1), p.Pos(d.call.Pos()),
			"the stored state is not a constant: the transition cannot be one of the documented ones for every input")
	}
	r.Count("r4_state_store_sites", len(sites))
	r.Require(len(sites) >= 1, "floor: no store to the stream state found")
	allowedFrom := map[int64]map[int64]bool{
		cx.stateVal["StateHalfClosedLocal"]:  {cx.stateVal["StateOpen"]: true},
		cx.stateVal["StateHalfClosedRemote"]: {cx.stateVal["StateOpen"]: true},
		cx.stateVal["StateClosed"]:           {cx.stateVal["StateHalfClosedLocal"]: true, cx.stateVal["StateHalfClosedRemote"]: true},
	}
	ord := map[string]int{}
	seen := map[ssa.CallInstruction]bool{}
	for _, s := range sites {
		if seen[s.call] {
			continue
		}
		seen[s.call] = true
		base := fmt.Sprintf("%s SetState(%s)", kit.FuncName(s.fn), cx.stateName[s.x])
		if s.tab != nil {
			base = fmt.Sprintf("%s SetState(%s(current))", kit.FuncName(s.fn), s.tabName)
		}
		ord[base]++
		key := fmt.Sprintf("%s #%d", base, ord[base])
		pos := p.Pos(s.call.Pos())
		if s.tab != nil {
			var all, bad []string
			for _, pr := range cx.sitePairs(s) {
				if pr[0] == pr[1] {
					continue // re-stores the current state
				}
				d := cx.stateName[pr[0]] + "->" + cx.stateName[pr[1]]
				all = append(all, d)
				okPair := allowedFrom[pr[1]][pr[0]] || (pr[1] == cx.stateVal["StateOpen"] && pr[0] == cx.stateVal["StateOpening"])
				if !okPair {
					bad = append(bad, d)
				}
			}
			r.Decide(len(bad) == 0, "C18.R4", key, pos,
				fmt.Sprintf("the transition function yields only documented transitions here: %v", all),
				fmt.Sprintf("the transition function can move the stream along %v, which the protocol does not document: the stream leaves the state machine (writes accepted after half-close, or a stream that never reaches Closed)", bad))
		}
		switch {
		case s.tab != nil:
			// lock region judged below
		case s.x == cx.stateVal["StateOpening"]:
			// only the constructor initialises a fresh stream
			fresh := false
			if rv := kit.Receiver(s.call); rv != nil {
				for v := range kit.FlowSet(rv, nil) {
					if a, ok := v.(*ssa.Alloc); ok && a.Heap {
						fresh = true
					}
				}
			}
			r.Decide(fresh, "C18.R4", key, pos, "initial state of a freshly allocated stream",
				"an existing stream is moved back to Opening, which no documented transition allows: a half-closed or closed stream becomes writable again after Open")
			continue
		case s.x == cx.stateVal["StateOpen"]:
			r.Infof("C18.R4", key, pos, "Opening->Open is performed by the manager on streams it has just created; not decided statically")
			r.Count("r4_open_transitions_listed", 1)
			continue
		}
		// possible current states at the site
		var poss []string
		okAll := true
		for _, name := range c18StateConsts {
			if s.tab != nil {
				break
			}
			sigma := cx.stateVal[name]
			if s.from >= 0 && s.from != sigma {
				continue // compare-and-swap: the store happens only from this state
			}
			l := kit.LiveUnder(s.fn, cx.stateAtom(sigma, nil))
			if !l.CanReachFromEntry(s.call, nil) {
				continue
			}
			poss = append(poss, name)
			if !allowedFrom[s.x][sigma] {
				okAll = false
			}
		}
		inClose := closeCtx[s.fn] || (s.fn.Parent() != nil && closeCtx[s.fn.Parent()])
		if s.tab != nil {
			// judged above
		} else if s.x == cx.stateVal["StateClosed"] && inClose {
			r.OK("C18.R4", key, pos, "unconditional close (any state -> Closed) in the function that closes the stream")
		} else {
			r.Decide(okAll, "C18.R4", key, pos,
				fmt.Sprintf("reachable only from %v, all documented predecessors", poss),
				fmt.Sprintf("reachable when the current state is one of %v, not all of which may move to %s: the stream leaves the documented state machine (writes accepted after half-close, or a stream that never reaches Closed)", poss, cx.stateName[s.x]))
		}
		if s.from >= 0 {
			r.OK("C18.R4", key+" region", pos, "compare-and-swap: test and store are one atomic step")
			continue
		}
		// lock region: the store and every state read that can reach it share one mutex region
		li := kit.Locks(s.fn)
		_, held := li.HeldAt(s.call, cx.fMu)
		lockOK := held || p.HeldWithCallers(s.call, cx.fMu, false)
		why := "the state store executes without the stream mutex"
		if held {
			kit.Instrs(s.fn, func(in ssa.Instruction) {
				v, ok := in.(ssa.Value)
				if !ok || !cx.isStateRead(v) || !kit.CanReach(in, s.call) {
					return
				}
				if _, isCall := in.(*ssa.Call); !isCall {
					return
				}
				if !li.SameRegion(in, s.call, cx.fMu) {
					lockOK = false
					why = "the state read at " + p.Pos(in.Pos()) + " and the store are not in one region of the stream mutex"
				}
			})
		}
		r.Decide(lockOK, "C18.R4", key+" region", pos,
			"store and the state read it depends on are in one region of the stream mutex",
			why+": two concurrent transitions (local and remote half-close, or close) can both act on the same old state and the stream ends in a state that is not the documented successor")
	}
	// completeness: the function that performs the local half-close (it stores HalfClosedLocal) must also
	// take HalfClosedRemote to Closed, and the one that records the remote FIN (it stores
	// HalfClosedRemote) must also take HalfClosedLocal to Closed — otherwise the second half-close
	// leaves the stream writable/open
	type need struct{ from, to string }
	pairCache := map[ssa.CallInstruction][][2]int64{}
	pairsOf := func(st c18Site) [][2]int64 {
		if v, ok := pairCache[st.call]; ok {
			return v
		}
		v := cx.sitePairs(st)
		pairCache[st.call] = v
		return v
	}
	for _, role := range []struct {
		marker string
		needs  []need
		what   string
	}{
		{"StateHalfClosedLocal", []need{{"StateOpen", "StateHalfClosedLocal"}, {"StateHalfClosedRemote", "StateClosed"}}, "local half-close"},
		{"StateHalfClosedRemote", []need{{"StateOpen", "StateHalfClosedRemote"}, {"StateHalfClosedLocal", "StateClosed"}}, "remote end-of-write"},
	} {
		var fns []*ssa.Function
		seenFn := map[*ssa.Function]bool{}
		for _, st := range sites {
			if seenFn[st.fn] || !c18InPkg(st.fn, "internal/stream") {
				continue
			}
			for _, pr := range pairsOf(st) {
				if pr[1] == cx.stateVal[role.marker] && pr[0] != pr[1] {
					seenFn[st.fn] = true
				}
			}
			if seenFn[st.fn] {
				fns = append(fns, st.fn)
			}
		}
		r.Require(len(fns) >= 1, "floor: no function of internal/stream performs the %s transition into %s", role.what, role.marker)
		for _, fn := range fns {
			for _, nd := range role.needs {
				from, to := cx.stateVal[nd.from], cx.stateVal[nd.to]
				ok := false
				for _, st := range sites {
					if st.fn != fn {
						continue
					}
					for _, pr := range pairsOf(st) {
						if pr[0] == from && pr[1] == to {
							ok = true
						}
					}
				}
				r.Decide(ok, "C18.R4", fmt.Sprintf("%s performs %s->%s", kit.FuncName(fn), nd.from, nd.to), p.Pos(fn.Pos()),
					"the "+role.what+" moves a stream in "+nd.from+" to "+nd.to,
					"the "+role.what+" has no transition from "+nd.from+" to "+nd.to+": when the other side half-closed first the stream stays in "+nd.from+" (writes after the local half-close are still accepted / the stream never reaches Closed)")
			}
		}
	}
}

// ---------- R5 ----------

// c18Table is a per-stream table: a map keyed by the stream id holding the live stream / connection.
type c18Table struct {
	f      *types.Var
	owner  string
	ownerT *types.Named
}

func (cx *c18Ctx) streamTables() []c18Table {
	p := cx.p
	var tables []c18Table
	for _, o := range []struct{ pkg, typ string }{{"internal/stream", "Manager"}, {"internal/exit", "Handler"}, {"internal/forward", "Handler"}} {
		n := p.NamedType(o.pkg, o.typ)
		if n == nil {
			continue
		}
		for _, f := range kit.StructFields(n) {
			m, ok := f.Type().Underlying().(*types.Map)
			if !ok {
				continue
			}
			// keyed by the stream id, alone or as a component of a composite key
			keyOK := false
			switch kt := m.Key().Underlying().(type) {
			case *types.Basic:
				keyOK = kt.Kind() == types.Uint64
			case *types.Struct:
				for i := 0; i < kt.NumFields(); i++ {
					if b, isB := kt.Field(i).Type().Underlying().(*types.Basic); isB && b.Kind() == types.Uint64 {
						keyOK = true
					}
				}
			}
			if !keyOK {
				continue
			}
			pt, ok := m.Elem().(*types.Pointer)
			if !ok {
				continue
			}
			en, ok := pt.Elem().(*types.Named)
			if !ok || (en.Obj().Name() != "Stream" && en.Obj().Name() != "ActiveConnection") {
				continue
			}
			tables = append(tables, c18Table{f, o.pkg + "." + o.typ + "." + f.Name(), n})
		}
	}
	return tables
}

func (cx *c18Ctx) ruleR5() {
	p, r := cx.p, cx.r
	// per-stream tables: map[uint64]*T fields of stream.Manager / exit.Handler / forward.Handler whose
	// element is the live stream / connection record
	tables := cx.streamTables()
	r.Count("r5_stream_tables", len(tables))
	if !r.Require(len(tables) >= 1, "floor: no stream table (map keyed by stream id holding *Stream / *ActiveConnection) found in stream.Manager, exit.Handler, forward.Handler") {
		return
	}
	hasIDParam := func(fn *ssa.Function) *ssa.Parameter {
		top := kit.TopLevel(fn)
		for _, q := range top.Params {
			if b, ok := q.Type().Underlying().(*types.Basic); ok && b.Kind() == types.Uint64 {
				return q
			}
		}
		return nil
	}
	isFresh := func(base ssa.Value) bool {
		for v := range kit.FlowSet(base, nil) {
			if a, ok := v.(*ssa.Alloc); ok && a.Heap {
				if _, isPtr := a.Type().Underlying().(*types.Pointer); isPtr {
					return true
				}
			}
		}
		return false
	}
	bulk := map[*ssa.Function]string{} // functions that reset / sweep a whole table
	tear := map[*ssa.Function]map[int]bool{}
	nDel := 0
	for _, t := range tables {
		for _, acc := range p.FieldAccessesOfKind(t.f, kit.MapDelete, kit.FieldStore, kit.FieldClear) {
			fn := acc.Fn
			if acc.Kind == kit.FieldStore && isFresh(acc.Base) {
				continue // constructor literal
			}
			idp := hasIDParam(fn)
			if idp == nil {
				bulk[kit.TopLevel(fn)] = t.owner
				continue
			}
			fname := kit.FuncName(fn)
			if acc.Kind != kit.MapDelete {
				r.Violation("C18.R5", fmt.Sprintf("%s resets %s", fname, t.owner), p.Pos(acc.Instr.Pos()),
					"a handler addressed by one stream id replaces/clears the whole table: closing or resetting one stream tears down every other stream")
				continue
			}
			nDel++
			// the key is computed from a uint64 parameter of the function (directly, as a component of a
			// composite key, or as a field of the entry looked up by it) with no arithmetic and no constant
			ok := false
			var par *ssa.Parameter
			isU64 := func(t types.Type) bool {
				b, isB := t.Underlying().(*types.Basic)
				return isB && b.Kind() == types.Uint64
			}
			tainted := false
			for v := range kit.FlowSet(acc.Key, nil) {
				switch x := v.(type) {
				case *ssa.Parameter:
					if isU64(x.Type()) && x.Parent() == fn {
						ok, par = true, x
					}
				case *ssa.BinOp:
					if isU64(x.Type()) {
						tainted = true
					}
				case *ssa.Const:
					if isU64(x.Type()) {
						tainted = true
					}
				case *ssa.Next, *ssa.Range:
					tainted = true
				}
			}
			if tainted {
				ok = false
			}
			r.Decide(ok, "C18.R5", fmt.Sprintf("%s deletes from %s", fname, t.owner), p.Pos(acc.Instr.Pos()),
				"the deleted key is the stream id the function was given",
				"the deleted key is not the stream id the handler was given (arithmetic, constant or a swept key): a close/reset of one stream removes another stream's entry")
			if ok && par != nil && par.Parent() == fn {
				for i, q := range fn.Params {
					if q == par {
						if tear[fn] == nil {
							tear[fn] = map[int]bool{}
						}
						tear[fn][i] = true
					}
				}
			}
		}
	}
	r.Count("r5_addressed_delete_sites", nDel)
	r.Require(nDel >= 1, "floor: no addressed delete site on the stream tables found")
	// propagate "parameter i is the id of the entry torn down" through direct argument passing
	pkgs := []string{"internal/stream", "internal/exit", "internal/forward"}
	var fns []*ssa.Function
	for _, pk := range pkgs {
		fns = append(fns, p.FuncsInPkg(pk)...)
	}
	for changed := true; changed; {
		changed = false
		for _, f := range fns {
			for _, c := range kit.Calls(f) {
				s := kit.CalleeOf(c).Static
				if s == nil || tear[s] == nil {
					continue
				}
				for j := range tear[s] {
					if j >= len(c.Common().Args) {
						continue
					}
					if q, ok := kit.Unwrap(c.Common().Args[j]).(*ssa.Parameter); ok && q.Parent() == f {
						for i, fp := range f.Params {
							if fp == q && (tear[f] == nil || !tear[f][i]) {
								if tear[f] == nil {
									tear[f] = map[int]bool{}
								}
								tear[f][i] = true
								changed = true
							}
						}
					}
				}
			}
		}
	}
	// (a) inside the three packages: a call that hands a stream id to a tear-down function passes an
	// unmodified id (parameter, or a field of a record); (b) no addressed function reaches a bulk reset
	var names []*ssa.Function
	for f := range tear {
		names = append(names, f)
	}
	sort.Slice(names, func(i, j int) bool { return names[i].Pos() < names[j].Pos() })
	for _, f := range names {
		inPkg := func(g *ssa.Function) bool { return kit.FuncPkgPath(g) == kit.FuncPkgPath(f) }
		bad := ""
		for g := range kit.StaticCallClosure(f, inPkg) {
			if g == f {
				continue
			}
			if o, isBulk := bulk[kit.TopLevel(g)]; isBulk {
				bad = kit.FuncName(g) + " (" + o + ")"
			}
		}
		r.Decide(bad == "", "C18.R5", kit.FuncName(f)+" reaches no bulk reset", p.Pos(f.Pos()),
			"the per-stream close path never calls a function that sweeps the whole table",
			"the per-stream close/reset path calls "+bad+", which sweeps the whole table: one close or reset tears down every stream")
	}
	// (c) frame-driven callers in the agent hand over the frame's own stream id
	frameT := p.NamedType("internal/protocol", "Frame")
	var sidField *types.Var
	if frameT != nil {
		sidField = p.Field("internal/protocol", "Frame", "StreamID")
	}
	if !r.Require(sidField != nil, "anchor-unresolved: protocol.Frame.StreamID") {
		return
	}
	nAgent := 0
	ordc := map[string]int{}
	for _, f := range p.FuncsInPkg("internal/agent") {
		var framePar *ssa.Parameter
		for _, q := range kit.TopLevel(f).Params {
			if pt, ok := q.Type().(*types.Pointer); ok {
				if n, ok := pt.Elem().(*types.Named); ok && n == frameT {
					framePar = q
				}
			}
		}
		if framePar == nil || f != kit.TopLevel(f) {
			continue
		}
		for _, c := range kit.Calls(f) {
			s := kit.CalleeOf(c).Static
			if s == nil || tear[s] == nil {
				continue
			}
			for j := range tear[s] {
				if j >= len(c.Common().Args) {
					continue
				}
				nAgent++
				arg := kit.Unwrap(c.Common().Args[j])
				fld, base := kit.LoadedField(arg)
				ok := fld == sidField && base == ssa.Value(framePar)
				k := fmt.Sprintf("%s -> %s", kit.FuncName(f), kit.FuncName(s))
				ordc[k]++
				r.Decide(ok, "C18.R5", fmt.Sprintf("%s #%d", k, ordc[k]), p.Pos(c.Pos()),
					"the stream id handed to the tear-down is frame.StreamID of the frame being handled",
					"the tear-down is called with something other than the handled frame's StreamID: the close/reset removes a stream the frame does not address")
			}
		}
	}
	r.Count("r5_agent_teardown_call_sites", nAgent)
	r.Require(nAgent >= 1, "floor: no frame-driven tear-down call site in internal/agent found")
}
