package rules

import (
	"fmt"
	"go/token"
	"go/types"
	"sort"
	"strings"

	"golang.org/x/tools/go/ssa"

	"mmverify/kit"
)

func init() {
	const f = "internal/sleep/window.go"
	const floorOld = "\tif elapsed%w.cfg.CycleLength < 0 {\n"
	register(&Check{
		ID: "C33", Level: "other", Patterns: []string{"./internal/sleep"},
		Technique: "finite truth table over (sign of elapsed, remainder class) + linear forms of time expressions over go/ssa",
		Explain: "Decides three structural clauses of sleep.WindowCalculator. R1: the cycle index derived from t.Sub(epoch) is a floor, not Go's truncating quotient: the method mapping an instant to its cycle start must branch on the sign of the elapsed time / its remainder, and where the index has the form q or q-1 the choice is evaluated for every (sign, remainder) class (q-1 required for negative non-multiples, q required from the epoch on). R2: the per-agent offset is 0 or a value reduced modulo (CycleLength - WindowLength), and the constructor replaces a WindowLength above CycleLength by a fraction of it before the configuration is stored. R3: NextWindow returns cycleStart(now)+offset or exactly one CycleLength later, the later one exactly when now is after the first window's end, and end = start + WindowLength. " +
			"R4: the in-window predicate compares the instant with bounds of the rolled-over window (NextWindow, or both cycle candidates), never with the current cycle's window alone. Not decided: the trailing-tolerance part of the IsInWindow clause, and the arithmetic statement over all instants beyond these clauses.",
		Run: runC33,
		SelfTests: []SelfTest{
			{Name: "truncating division (floor adjustment removed)", ExpectRule: "C33.R1", Edits: []Edit{
				{File: f, Old: floorOld + "\t\t// Go's integer division truncates toward zero. For instants before\n\t\t// the epoch that would select the following cycle: take the floor.\n\t\tcycleNum--\n\t}\n", New: ""},
			}},
			{Name: "floor adjustment in the wrong direction", ExpectRule: "C33.R1", Edits: []Edit{
				{File: f, Old: "\t\tcycleNum--\n", New: "\t\tcycleNum++\n"},
			}},
			{Name: "adjustment applied to instants after the epoch", ExpectRule: "C33.R1", Edits: []Edit{
				{File: f, Old: floorOld, New: "\tif elapsed%w.cfg.CycleLength != 0 {\n"},
			}},
			{Name: "adjustment for positive remainders only", ExpectRule: "C33.R1", Edits: []Edit{
				{File: f, Old: floorOld, New: "\tif elapsed%w.cfg.CycleLength > 0 {\n"},
			}},
			{Name: "offset reduced modulo the whole cycle", ExpectRule: "C33.R2", ExpectKey: "offset", Edits: []Edit{
				{File: f, Old: "offsetNs := int64(seed % uint64(maxOffset.Nanoseconds()))", New: "offsetNs := int64(seed % uint64(w.cfg.CycleLength.Nanoseconds()))"},
			}},
			{Name: "offset not reduced at all", ExpectRule: "C33.R2", ExpectKey: "offset", Edits: []Edit{
				{File: f, Old: "offsetNs := int64(seed % uint64(maxOffset.Nanoseconds()))", New: "offsetNs := int64(seed>>1) + maxOffset.Nanoseconds()*0"},
			}},
			{Name: "constructor keeps an oversized window", ExpectRule: "C33.R2", ExpectKey: "WindowLength", Edits: []Edit{
				{File: f, Old: "\tif cfg.WindowLength >= cfg.CycleLength {\n", New: "\tif cfg.WindowLength < cfg.CycleLength {\n"},
			}},
			{Name: "constructor replaces an oversized window by the cycle doubled", ExpectRule: "C33.R2", ExpectKey: "WindowLength", Edits: []Edit{
				{File: f, Old: "cfg.WindowLength = cfg.CycleLength / 6 // ~16% of cycle", New: "cfg.WindowLength = cfg.CycleLength * 2"},
			}},
			{Name: "NextWindow skips a cycle", ExpectRule: "C33.R3", Edits: []Edit{
				{File: f, Old: "\tif now.After(windowEnd) {\n\t\tcycleStart = cycleStart.Add(w.cfg.CycleLength)\n", New: "\tif now.After(windowEnd) {\n\t\tcycleStart = cycleStart.Add(2 * w.cfg.CycleLength)\n"},
			}},
			{Name: "NextWindow moves on while the window is still open", ExpectRule: "C33.R3", Edits: []Edit{
				{File: f, Old: "\tif now.After(windowEnd) {\n\t\tcycleStart = cycleStart.Add(w.cfg.CycleLength)\n", New: "\tif now.After(windowStart) {\n\t\tcycleStart = cycleStart.Add(w.cfg.CycleLength)\n"},
			}},
			{Name: "NextWindow advance test inverted", ExpectRule: "C33.R3", Edits: []Edit{
				{File: f, Old: "\tif now.After(windowEnd) {\n\t\tcycleStart = cycleStart.Add(w.cfg.CycleLength)\n", New: "\tif now.Before(windowEnd) {\n\t\tcycleStart = cycleStart.Add(w.cfg.CycleLength)\n"},
			}},
			{Name: "NextWindow never advances", ExpectRule: "C33.R3", Edits: []Edit{
				{File: f, Old: "\tif now.After(windowEnd) {\n\t\tcycleStart = cycleStart.Add(w.cfg.CycleLength)\n", New: "\tif now.After(windowEnd) {\n\t\tcycleStart = cycleStart.Add(w.cfg.CycleLength - w.cfg.CycleLength)\n"},
			}},
			{Name: "advanced window has the wrong length", ExpectRule: "C33.R3", Edits: []Edit{
				{File: f, Old: "\t\twindowStart = cycleStart.Add(offset)\n\t\twindowEnd = windowStart.Add(w.cfg.WindowLength)\n\t}\n\n\treturn windowStart, windowEnd", New: "\t\twindowStart = cycleStart.Add(offset)\n\t\twindowEnd = windowStart.Add(w.cfg.CycleLength)\n\t}\n\n\treturn windowStart, windowEnd"},
			}},
			// round 2
			{Name: "cycle start through Duration.Truncate (rounds toward zero)", ExpectRule: "C33.R1", Edits: []Edit{
				{File: f, Old: "\tcycleNum := elapsed / w.cfg.CycleLength\n" + floorOld + "\t\t// Go's integer division truncates toward zero. For instants before\n\t\t// the epoch that would select the following cycle: take the floor.\n\t\tcycleNum--\n\t}\n\treturn w.cfg.Epoch.Add(cycleNum * w.cfg.CycleLength)", New: "\treturn w.cfg.Epoch.Add(elapsed.Truncate(w.cfg.CycleLength))"},
			}},
			{Name: "cycle start through Duration.Round", ExpectRule: "C33.R1", ExpectKey: "rounding", Edits: []Edit{
				{File: f, Old: "\tcycleNum := elapsed / w.cfg.CycleLength\n" + floorOld + "\t\t// Go's integer division truncates toward zero. For instants before\n\t\t// the epoch that would select the following cycle: take the floor.\n\t\tcycleNum--\n\t}\n\treturn w.cfg.Epoch.Add(cycleNum * w.cfg.CycleLength)", New: "\treturn w.cfg.Epoch.Add(elapsed.Round(w.cfg.CycleLength))"},
			}},
			{Name: "Truncate corrected in the wrong direction", ExpectRule: "C33.R1", Edits: []Edit{
				{File: f, Old: "\tcycleNum := elapsed / w.cfg.CycleLength\n" + floorOld + "\t\t// Go's integer division truncates toward zero. For instants before\n\t\t// the epoch that would select the following cycle: take the floor.\n\t\tcycleNum--\n\t}\n\treturn w.cfg.Epoch.Add(cycleNum * w.cfg.CycleLength)", New: "\ttrunc := elapsed.Truncate(w.cfg.CycleLength)\n\tif trunc > elapsed {\n\t\ttrunc += w.cfg.CycleLength\n\t}\n\treturn w.cfg.Epoch.Add(trunc)"},
			}},
			{Name: "default window length filled in after the clamp", ExpectRule: "C33.R2", ExpectKey: "WindowLength", Edits: []Edit{
				{File: f, Old: "\t// Ensure Epoch is set\n", New: "\tif cfg.WindowLength <= 0 {\n\t\tcfg.WindowLength = 30 * time.Second\n\t}\n\t// Ensure Epoch is set\n"},
			}},
			{Name: "cycle length shortened after the clamp", ExpectRule: "C33.R2", ExpectKey: "WindowLength", Edits: []Edit{
				{File: f, Old: "\t// Ensure Epoch is set\n", New: "\tif cfg.CycleLength > time.Hour {\n\t\tcfg.CycleLength = time.Hour\n\t}\n\t// Ensure Epoch is set\n"},
			}},
			{Name: "clamp applied to a copy, the unclamped configuration is stored", ExpectRule: "C33.R2", ExpectKey: "WindowLength", Edits: []Edit{
				{File: f, Old: "\tif cfg.WindowLength >= cfg.CycleLength {\n\t\tcfg.WindowLength = cfg.CycleLength / 6 // ~16% of cycle\n\t}\n", New: "\tchecked := cfg\n\tif checked.WindowLength >= checked.CycleLength {\n\t\tchecked.WindowLength = checked.CycleLength / 6\n\t}\n"},
			}},
			{Name: "rewrite: Truncate with a floor correction", Edits: []Edit{
				{File: f, Old: "\tcycleNum := elapsed / w.cfg.CycleLength\n" + floorOld + "\t\t// Go's integer division truncates toward zero. For instants before\n\t\t// the epoch that would select the following cycle: take the floor.\n\t\tcycleNum--\n\t}\n\treturn w.cfg.Epoch.Add(cycleNum * w.cfg.CycleLength)", New: "\ttrunc := elapsed.Truncate(w.cfg.CycleLength)\n\tif trunc > elapsed {\n\t\ttrunc -= w.cfg.CycleLength\n\t}\n\treturn w.cfg.Epoch.Add(trunc)"},
			}},
			{Name: "rewrite: defaults filled in before the clamp", Edits: []Edit{
				{File: f, Old: "\t// Ensure WindowLength < CycleLength\n", New: "\tif cfg.WindowLength <= 0 {\n\t\tcfg.WindowLength = 30 * time.Second\n\t}\n\t// Ensure WindowLength < CycleLength\n"},
			}},
			{Name: "rewrite: defaults after a first clamp, clamp repeated", Edits: []Edit{
				{File: f, Old: "\t// Ensure Epoch is set\n", New: "\tif cfg.WindowLength <= 0 {\n\t\tcfg.WindowLength = 30 * time.Second\n\t}\n\tif cfg.WindowLength >= cfg.CycleLength {\n\t\tcfg.WindowLength = cfg.CycleLength / 6\n\t}\n\t// Ensure Epoch is set\n"},
			}},
			{Name: "rewrite: next cycle through cycleStart(now + CycleLength)", Edits: []Edit{
				{File: f, Old: "\tif now.After(windowEnd) {\n\t\tcycleStart = cycleStart.Add(w.cfg.CycleLength)\n", New: "\tif now.After(windowEnd) {\n\t\tcycleStart = w.cycleStart(now.Add(w.cfg.CycleLength))\n"},
			}},
			// round 5: the in-window predicate
			{Name: "IsInWindow decided from the current cycle's window only", ExpectRule: "C33.R4", ExpectKey: "IsInWindow", Edits: []Edit{
				{File: f, Old: "\tinfo := w.GetWindowInfo(agentID, t)\n\treturn info.CurrentlyActive\n", New: "\tstart := w.cycleStart(t).Add(w.windowOffset(agentID))\n\tend := start.Add(w.cfg.WindowLength)\n\tif t.After(end) {\n\t\treturn false\n\t}\n\treturn !t.Before(start.Add(-w.cfg.ClockTolerance)) && t.Before(end.Add(w.cfg.ClockTolerance))\n"},
			}},
			{Name: "CurrentlyActive computed against the current cycle's window", ExpectRule: "C33.R4", ExpectKey: "CurrentlyActive", Edits: []Edit{
				{File: f, Old: "\tcurrentlyActive := !now.Before(safeStart) && now.Before(safeEnd)\n", New: "\tcur := w.cycleStart(now).Add(w.windowOffset(agentID))\n\tcurrentlyActive := !now.Before(cur.Add(-w.cfg.ClockTolerance)) && now.Before(cur.Add(w.cfg.WindowLength+w.cfg.ClockTolerance))\n"},
			}},
			{Name: "rewrite: IsInWindow evaluated directly on NextWindow", Edits: []Edit{
				{File: f, Old: "\tinfo := w.GetWindowInfo(agentID, t)\n\treturn info.CurrentlyActive\n", New: "\tstart, end := w.NextWindow(agentID, t)\n\ttol := w.cfg.ClockTolerance\n\treturn !t.Before(start.Add(-tol)) && t.Before(end.Add(tol))\n"},
			}},
			{Name: "rewrite: IsInWindow tests the current and the following cycle's window", Edits: []Edit{
				{File: f, Old: "\tinfo := w.GetWindowInfo(agentID, t)\n\treturn info.CurrentlyActive\n", New: "\toff, tol := w.windowOffset(agentID), w.cfg.ClockTolerance\n\ts0 := w.cycleStart(t).Add(off)\n\ts1 := s0.Add(w.cfg.CycleLength)\n\treturn (!t.Before(s0.Add(-tol)) && !t.After(s0.Add(w.cfg.WindowLength))) || (!t.Before(s1.Add(-tol)) && t.Before(s1.Add(w.cfg.WindowLength+tol)))\n"},
			}},
			// round 3: refactoring classes
			{Name: "rewrite: window built by a shared helper, early return while the window is open", Edits: []Edit{
				{File: f, Old: "\twindowStart := cycleStart.Add(offset)\n\twindowEnd := windowStart.Add(w.cfg.WindowLength)\n\n\t// If we're past this cycle's window, use next cycle\n\tif now.After(windowEnd) {\n\t\tcycleStart = cycleStart.Add(w.cfg.CycleLength)\n\t\twindowStart = cycleStart.Add(offset)\n\t\twindowEnd = windowStart.Add(w.cfg.WindowLength)\n\t}\n\n\treturn windowStart, windowEnd\n}\n\n// GetWindowInfo", New: "\twindowStart, windowEnd := w.windowInCycle(cycleStart, offset)\n\tif !now.After(windowEnd) {\n\t\treturn windowStart, windowEnd\n\t}\n\treturn w.windowInCycle(cycleStart.Add(w.cfg.CycleLength), offset)\n}\n\nfunc (w *WindowCalculator) windowInCycle(base time.Time, offset time.Duration) (start, end time.Time) {\n\tstart = base.Add(offset)\n\tend = start.Add(w.cfg.WindowLength)\n\treturn start, end\n}\n\n// GetWindowInfo"},
			}},
			{Name: "rewrite: the cycle is selected first, the window is built once", Edits: []Edit{
				{File: f, Old: "\twindowStart := cycleStart.Add(offset)\n\twindowEnd := windowStart.Add(w.cfg.WindowLength)\n\n\t// If we're past this cycle's window, use next cycle\n\tif now.After(windowEnd) {\n\t\tcycleStart = cycleStart.Add(w.cfg.CycleLength)\n\t\twindowStart = cycleStart.Add(offset)\n\t\twindowEnd = windowStart.Add(w.cfg.WindowLength)\n\t}\n\n\treturn windowStart, windowEnd\n}\n\n// GetWindowInfo", New: "\tif thisEnd := cycleStart.Add(offset).Add(w.cfg.WindowLength); thisEnd.Before(now) {\n\t\tcycleStart = cycleStart.Add(w.cfg.CycleLength)\n\t}\n\tstart = cycleStart.Add(offset)\n\tend = start.Add(w.cfg.WindowLength)\n\treturn\n}\n\n// GetWindowInfo"},
			}},
			{Name: "cycle selected first, but one cycle too far", ExpectRule: "C33.R3", Edits: []Edit{
				{File: f, Old: "\twindowStart := cycleStart.Add(offset)\n\twindowEnd := windowStart.Add(w.cfg.WindowLength)\n\n\t// If we're past this cycle's window, use next cycle\n\tif now.After(windowEnd) {\n\t\tcycleStart = cycleStart.Add(w.cfg.CycleLength)\n\t\twindowStart = cycleStart.Add(offset)\n\t\twindowEnd = windowStart.Add(w.cfg.WindowLength)\n\t}\n\n\treturn windowStart, windowEnd\n}\n\n// GetWindowInfo", New: "\tif thisEnd := cycleStart.Add(offset).Add(w.cfg.WindowLength); thisEnd.Before(now) {\n\t\tcycleStart = cycleStart.Add(2 * w.cfg.CycleLength)\n\t}\n\tstart = cycleStart.Add(offset)\n\tend = start.Add(w.cfg.WindowLength)\n\treturn\n}\n\n// GetWindowInfo"},
			}},
			{Name: "rewrite: floor in a cycleIndex(t) helper, test written as index*cycle > elapsed", Edits: []Edit{
				{File: f, Old: "func (w *WindowCalculator) cycleStart(t time.Time) time.Time {\n\telapsed := t.Sub(w.cfg.Epoch)\n\tcycleNum := elapsed / w.cfg.CycleLength\n" + floorOld, New: "func (w *WindowCalculator) cycleStart(t time.Time) time.Time {\n\treturn w.cfg.Epoch.Add(time.Duration(w.cycleIndex(t)) * w.cfg.CycleLength)\n}\n\nfunc (w *WindowCalculator) cycleIndex(t time.Time) int64 {\n\tcycle := w.cfg.CycleLength\n\telapsed := t.Sub(w.cfg.Epoch)\n\tcycleNum := elapsed / cycle\n\tif cycleNum*cycle > elapsed {\n"},
				{File: f, Old: "\t\tcycleNum--\n\t}\n\treturn w.cfg.Epoch.Add(cycleNum * w.cfg.CycleLength)", New: "\t\tcycleNum--\n\t}\n\treturn int64(cycleNum)"},
			}},
			{Name: "cycleIndex helper without the floor correction", ExpectRule: "C33.R1", Edits: []Edit{
				{File: f, Old: "func (w *WindowCalculator) cycleStart(t time.Time) time.Time {\n\telapsed := t.Sub(w.cfg.Epoch)\n\tcycleNum := elapsed / w.cfg.CycleLength\n" + floorOld + "\t\t// Go's integer division truncates toward zero. For instants before\n\t\t// the epoch that would select the following cycle: take the floor.\n\t\tcycleNum--\n\t}\n\treturn w.cfg.Epoch.Add(cycleNum * w.cfg.CycleLength)", New: "func (w *WindowCalculator) cycleStart(t time.Time) time.Time {\n\treturn w.cfg.Epoch.Add(time.Duration(w.cycleIndex(t)) * w.cfg.CycleLength)\n}\n\nfunc (w *WindowCalculator) cycleIndex(t time.Time) int64 {\n\treturn int64(t.Sub(w.cfg.Epoch) / w.cfg.CycleLength)"},
			}},
			// rewrites
			{Name: "rewrite: floor via sign test and remainder", Edits: []Edit{
				{File: f, Old: floorOld, New: "\tif !(elapsed >= 0) && elapsed%w.cfg.CycleLength != 0 {\n"},
			}},
			{Name: "rewrite: floor via t.Before(epoch) (also adjusts exact multiples; NextWindow heals those)", Edits: []Edit{
				{File: f, Old: floorOld, New: "\tif t.Before(w.cfg.Epoch) {\n"},
			}},
			{Name: "rewrite: floor through the remainder, no quotient", Edits: []Edit{
				{File: f, Old: "\tcycleNum := elapsed / w.cfg.CycleLength\n" + floorOld + "\t\t// Go's integer division truncates toward zero. For instants before\n\t\t// the epoch that would select the following cycle: take the floor.\n\t\tcycleNum--\n\t}\n\treturn w.cfg.Epoch.Add(cycleNum * w.cfg.CycleLength)", New: "\trem := elapsed % w.cfg.CycleLength\n\tif rem < 0 {\n\t\trem += w.cfg.CycleLength\n\t}\n\treturn t.Add(-rem)"},
			}},
			{Name: "rewrite: floor in a helper function", Edits: []Edit{
				{File: f, Old: "\tcycleNum := elapsed / w.cfg.CycleLength\n" + floorOld + "\t\t// Go's integer division truncates toward zero. For instants before\n\t\t// the epoch that would select the following cycle: take the floor.\n\t\tcycleNum--\n\t}\n", New: "\tcycleNum := floorDiv(elapsed, w.cfg.CycleLength)\n"},
				{File: f, Old: "// NextWindow calculates the next listening window start and end times for an agent.", New: "func floorDiv(a, b time.Duration) time.Duration {\n\tq := a / b\n\tif a%b < 0 {\n\t\tq -= 1\n\t}\n\treturn q\n}\n\n// NextWindow calculates the next listening window start and end times for an agent."},
			}},
			{Name: "rewrite: NextWindow tests windowEnd.Before(now) and adds to windowStart", Edits: []Edit{
				{File: f, Old: "\tif now.After(windowEnd) {\n\t\tcycleStart = cycleStart.Add(w.cfg.CycleLength)\n\t\twindowStart = cycleStart.Add(offset)\n\t\twindowEnd = windowStart.Add(w.cfg.WindowLength)\n\t}", New: "\tif windowEnd.Before(now) {\n\t\twindowStart = windowStart.Add(w.cfg.CycleLength)\n\t\twindowEnd = windowEnd.Add(w.cfg.CycleLength)\n\t}"},
			}},
			{Name: "rewrite: constructor clamps with > and subtracts", Edits: []Edit{
				{File: f, Old: "\tif cfg.WindowLength >= cfg.CycleLength {\n\t\tcfg.WindowLength = cfg.CycleLength / 6 // ~16% of cycle", New: "\tif !(cfg.CycleLength > cfg.WindowLength) {\n\t\tcfg.WindowLength = cfg.CycleLength / 4"},
			}},
		},
	})
}

type c33ctx struct {
	p                  *kit.Program
	r                  *kit.Report
	wc                 *types.Named
	cycleF, windowF    *types.Var
	tolF               *types.Var    // WindowConfig.ClockTolerance (optional)
	next               *ssa.Function // NextWindow
	epochF, cfgF       *types.Var
	cycleStart, offset *ssa.Function
}

func c33IsTime(t types.Type, name string) bool {
	n, ok := t.(*types.Named)
	return ok && n.Obj().Pkg() != nil && n.Obj().Pkg().Path() == "time" && n.Obj().Name() == name
}

func c33TimeCall(v ssa.Value, name string) *ssa.Call {
	c, ok := v.(*ssa.Call)
	if !ok {
		return nil
	}
	cal := kit.CalleeOf(c)
	if cal.Pkg == "time" && cal.Recv == "Time" && cal.Name == name && len(c.Call.Args) >= 1 {
		return c
	}
	return nil
}

func runC33(p *kit.Program, r *kit.Report) {
	r.Rule("C33.R1", "the cycle containing an instant is computed with floor semantics: the function that divides (or reduces) the elapsed time since the epoch by CycleLength branches on the sign of the elapsed time or of its remainder; where the cycle index is q or q-1 (q the truncating quotient) it is q-1 for negative non-multiples and q from the epoch on")
	r.Rule("C33.R2", "the per-agent offset is 0 or reduced modulo (CycleLength - WindowLength); the constructor replaces WindowLength > CycleLength by a proper fraction of CycleLength before storing the configuration; the configuration is stored only there")
	r.Rule("C33.R3", "NextWindow returns start = cycleStart(now)+offset or exactly one CycleLength later, the later one exactly on the edge where now is after the first candidate's end; end = start + WindowLength")
	cx := &c33ctx{p: p, r: r}
	cx.wc = p.NamedType("internal/sleep", "WindowCalculator")
	if !r.Require(cx.wc != nil, "anchor-unresolved: type sleep.WindowCalculator") {
		return
	}
	cx.cycleF = p.Field("internal/sleep", "WindowConfig", "CycleLength")
	cx.windowF = p.Field("internal/sleep", "WindowConfig", "WindowLength")
	cx.epochF = p.Field("internal/sleep", "WindowConfig", "Epoch")
	for _, f := range kit.StructFields(cx.wc) {
		if n, ok := f.Type().(*types.Named); ok && n.Obj().Name() == "WindowConfig" {
			cx.cfgF = f
		}
	}
	r.Require(cx.cycleF != nil && cx.windowF != nil && cx.epochF != nil, "anchor-unresolved: WindowConfig.CycleLength / WindowLength / Epoch")
	r.Require(cx.cfgF != nil, "anchor-unresolved: WindowConfig field of WindowCalculator")
	methods := p.Methods("internal/sleep", "WindowCalculator")
	for _, m := range methods {
		sig := m.Signature
		if sig.Params().Len() == 1 && sig.Results().Len() == 1 {
			pt, rt := sig.Params().At(0).Type(), sig.Results().At(0).Type()
			if c33IsTime(pt, "Time") && c33IsTime(rt, "Time") {
				cx.cycleStart = m
			}
			if c33IsTime(rt, "Duration") && !c33IsTime(pt, "Time") && !c33IsTime(pt, "Duration") {
				cx.offset = m
			}
		}
	}
	r.Require(cx.cycleStart != nil, "anchor-unresolved: WindowCalculator method (time.Time) time.Time (cycle start)")
	r.Require(cx.offset != nil, "anchor-unresolved: WindowCalculator method (agent id) time.Duration (window offset)")
	next := p.Func("internal/sleep", "WindowCalculator", "NextWindow")
	r.Require(next != nil, "anchor-unresolved: (*WindowCalculator).NextWindow")
	if len(r.Floors) > 0 {
		return
	}
	r.Count("functions_analysed", len(methods))
	cx.ruleFloor()
	cx.ruleFits()
	cx.ruleNext(next)
	cx.next = next
	cx.tolF = p.Field("internal/sleep", "WindowConfig", "ClockTolerance")
	cx.ruleActive()
}

// ---------------- R1

// c33floor analyses one function in which `elapsed` is the signed time since the epoch and
// isCycle recognises the cycle length.
type c33floor struct {
	cx      *c33ctx
	fn      *ssa.Function
	elapsed ssa.Value
	isCycle func(ssa.Value) bool
	tParam  ssa.Value // the instant (only in the method itself)
}

func (fl *c33floor) isElapsed(v ssa.Value) bool { return kit.StripConv(v) == fl.elapsed }

func (fl *c33floor) isRem(v ssa.Value) bool {
	b, ok := kit.StripConv(v).(*ssa.BinOp)
	return ok && b.Op == token.REM && fl.isElapsed(b.X) && fl.isCycle(b.Y)
}

func (fl *c33floor) isQuo(v ssa.Value) bool {
	b, ok := kit.StripConv(v).(*ssa.BinOp)
	return ok && b.Op == token.QUO && fl.isElapsed(b.X) && fl.isCycle(b.Y)
}

// signAtom evaluates cond under (sign of elapsed, remainder zero?). known=false if cond is not
// a recognised sign-sensitive atom.
func (fl *c33floor) signAtom(cond ssa.Value, sign int, remZero bool) (val, known bool) {
	remSign := sign
	if remZero {
		remSign = 0
	}
	switch x := cond.(type) {
	case *ssa.BinOp:
		switch x.Op {
		case token.LSS, token.LEQ, token.GTR, token.GEQ, token.EQL, token.NEQ:
		default:
			return false, false
		}
		op, a, b := x.Op, x.X, x.Y
		if k, ok := kit.ConstInt(a); ok && k == 0 {
			a, b, op = b, a, flipCmp(op)
		}
		if k, ok := kit.ConstInt(b); ok && k == 0 {
			switch {
			case fl.isElapsed(a):
				return cmpHolds(op, sign), true
			case fl.isRem(a):
				return cmpHolds(op, remSign), true
			}
			return false, false
		}
		// q*cycle compared with elapsed: truncation error has the sign of the remainder, negated
		isQC := func(v ssa.Value) bool {
			if fl.isTrunc(v) {
				return true
			}
			fs := kit.FlattenMul(v)
			return len(fs) == 2 && ((fl.isQuo(fs[0]) && fl.isCycle(fs[1])) || (fl.isQuo(fs[1]) && fl.isCycle(fs[0])))
		}
		if isQC(a) && fl.isElapsed(b) {
			return cmpHolds(op, -remSign), true
		}
		if isQC(b) && fl.isElapsed(a) {
			return cmpHolds(op, remSign), true
		}
	case *ssa.Call:
		if fl.tParam == nil {
			return false, false
		}
		for _, name := range []string{"Before", "After"} {
			if c := c33TimeCall(x, name); c != nil {
				recv, arg := c.Call.Args[0], c.Call.Args[1]
				isEpoch := func(v ssa.Value) bool { return kit.IsLoadOfField(v, fl.cx.epochF) }
				switch {
				case recv == fl.tParam && isEpoch(arg): // t.Before(epoch): elapsed<0 ; t.After(epoch): elapsed>0
					return (name == "Before" && sign < 0) || (name == "After" && sign > 0), true
				case isEpoch(recv) && arg == fl.tParam:
					return (name == "Before" && sign > 0) || (name == "After" && sign < 0), true
				}
			}
		}
	}
	return false, false
}

func (cx *c33ctx) ruleFloor() {
	p, r := cx.p, cx.r
	fn := cx.cycleStart
	key := kit.FuncName(fn)
	pos := p.Pos(fn.Pos())
	// elapsed = t.Sub(epoch): in the method itself, or in a helper the instant is handed to
	// (cycleStart -> cycleIndex(t))
	var elapsed *ssa.Call
	var tParam ssa.Value
	var findElapsed func(f *ssa.Function, t ssa.Value, depth int) bool
	findElapsed = func(f *ssa.Function, t ssa.Value, depth int) bool {
		for _, c := range kit.Calls(f) {
			if call, ok := c.(*ssa.Call); ok {
				if sc := c33TimeCall(call, "Sub"); sc != nil && sc.Call.Args[0] == t && kit.IsLoadOfField(sc.Call.Args[1], cx.epochF) {
					fn, elapsed, tParam = f, sc, t
					return true
				}
			}
		}
		if depth >= 2 {
			return false
		}
		for _, c := range kit.Calls(f) {
			cal := kit.CalleeOf(c)
			if cal.Static == nil || cal.Static.Blocks == nil || !kit.IsRepoPkg(cal.Pkg) {
				continue
			}
			for i, a := range c.Common().Args {
				if a == t && i < len(cal.Static.Params) && findElapsed(cal.Static, cal.Static.Params[i], depth+1) {
					return true
				}
			}
		}
		return false
	}
	if len(fn.Params) == 2 {
		findElapsed(fn, fn.Params[1], 0)
	}
	if !r.Require(elapsed != nil, "anchor-unresolved: %s (and the helpers it hands the instant to) does not compute t.Sub(cfg.Epoch)", key) {
		return
	}
	if fn != cx.cycleStart {
		key += " via " + kit.FuncName(fn)
		pos = p.Pos(fn.Pos())
	}
	fl := &c33floor{cx: cx, fn: fn, elapsed: elapsed, tParam: tParam,
		isCycle: func(v ssa.Value) bool { return kit.IsLoadOfField(v, cx.cycleF) }}
	// helper form: elapsed and the cycle length are handed to a repository function
	if !fl.hasDivision() {
		for _, c := range kit.Calls(fn) {
			cal := kit.CalleeOf(c)
			if cal.Static == nil || cal.Static.Blocks == nil || !kit.IsRepoPkg(cal.Pkg) {
				continue
			}
			ei, ci := -1, -1
			for i, a := range c.Common().Args {
				if kit.StripConv(a) == ssa.Value(elapsed) {
					ei = i
				}
				if kit.IsLoadOfField(a, cx.cycleF) {
					ci = i
				}
			}
			if ei >= 0 && ci >= 0 && ei < len(cal.Static.Params) && ci < len(cal.Static.Params) {
				cyc := ssa.Value(cal.Static.Params[ci])
				fl = &c33floor{cx: cx, fn: cal.Static, elapsed: cal.Static.Params[ei],
					isCycle: func(v ssa.Value) bool { return kit.StripConv(v) == cyc }}
				key += " via " + kit.FuncName(cal.Static)
				break
			}
		}
	}
	if !r.Require(fl.hasDivision(), "anchor-unresolved: no division or remainder of the elapsed time by CycleLength in %s", key) {
		return
	}
	// rounding to the nearest multiple can never be a floor
	var rounds *ssa.Call
	kit.Instrs(fl.fn, func(in ssa.Instruction) {
		if v, ok := in.(ssa.Value); ok {
			if c := fl.roundCall(v); c != nil {
				rounds = c
			}
		}
	})
	if rounds != nil {
		r.Violation("C33.R1", key+" rounding", p.Pos(rounds.Pos()), "the elapsed time is rounded to the nearest multiple of CycleLength: in the second half of every cycle the following cycle is selected and NextWindow skips a window that has not ended")
	}
	// tier 1: a sign-sensitive branch exists
	nSign := 0
	kit.Instrs(fl.fn, func(in ssa.Instruction) {
		if ifi, ok := in.(*ssa.If); ok {
			c := ifi.Cond
			for {
				u, ok := c.(*ssa.UnOp)
				if !ok || u.Op != token.NOT {
					break
				}
				c = u.X
			}
			if _, known := fl.signAtom(c, -1, false); known {
				nSign++
			}
		}
	})
	r.Count("sign_sensitive_branches_in_cycle_start", nSign)
	r.Decide(nSign > 0, "C33.R1", key+" sign handling", pos,
		"the cycle computation branches on the sign of the elapsed time / its remainder",
		"the cycle is obtained by truncation toward zero (integer division / Duration.Truncate) of a possibly negative elapsed time with no sign handling: before the epoch the following cycle is selected and NextWindow skips the earliest window that has not ended")
	if nSign == 0 {
		return
	}
	// tier 2: where the index has the form q / q-1, evaluate the choice per class
	type class struct {
		name    string
		sign    int
		remZero bool
		want    []int64 // accepted adjustments of the truncating quotient
	}
	classes := []class{
		{"before the epoch, not on a cycle boundary", -1, false, []int64{-1}},
		{"before the epoch, on a cycle boundary", -1, true, []int64{0, -1}}, // one cycle early is healed by NextWindow's single advance
		{"at the epoch", 0, true, []int64{0}},
		{"after the epoch, on a cycle boundary", 1, true, []int64{0}},
		{"after the epoch, not on a cycle boundary", 1, false, []int64{0}},
	}
	decided := 0
	for _, cl := range classes {
		res := kit.WalkCFG(fl.fn.Blocks[0], func(c ssa.Value) (bool, bool) { return fl.signAtom(c, cl.sign, cl.remZero) }, nil)
		if !res.Known || res.Block == nil || len(res.Block.Instrs) == 0 {
			continue
		}
		ret, ok := res.Block.Instrs[len(res.Block.Instrs)-1].(*ssa.Return)
		if !ok || len(ret.Results) != 1 {
			continue
		}
		adj, ok := fl.adjustment(kit.ReturnResult(ret, 0), res.Path)
		if !ok {
			continue
		}
		decided++
		good := false
		for _, w := range cl.want {
			if adj == w {
				good = true
			}
		}
		r.Decide(good, "C33.R1", key+" floor for instants "+cl.name, pos,
			fmt.Sprintf("cycle index = truncating quotient %+d", adj),
			fmt.Sprintf("cycle index = truncating quotient %+d for instants %s: the cycle start is not the start of the cycle containing the instant, NextWindow returns a window of the wrong cycle", adj, cl.name))
	}
	r.Count("floor_classes_decided_exactly", decided)
}

func (fl *c33floor) hasDivision() bool {
	found := false
	kit.Instrs(fl.fn, func(in ssa.Instruction) {
		if v, ok := in.(ssa.Value); ok && (fl.isQuo(v) || fl.isRem(v) || fl.isTrunc(v) || fl.roundCall(v) != nil) {
			found = true
		}
	})
	return found
}

// durCall: v is elapsed.<name>(cycle) on time.Duration.
func (fl *c33floor) durCall(v ssa.Value, name string) *ssa.Call {
	c, ok := kit.StripConv(v).(*ssa.Call)
	if !ok {
		return nil
	}
	cal := kit.CalleeOf(c)
	if cal.Pkg == "time" && cal.Recv == "Duration" && cal.Name == name && len(c.Call.Args) == 2 && fl.isElapsed(c.Call.Args[0]) && fl.isCycle(c.Call.Args[1]) {
		return c
	}
	return nil
}

// isTrunc: elapsed.Truncate(cycle) = q*cycle with q the quotient truncated toward zero.
func (fl *c33floor) isTrunc(v ssa.Value) bool { return fl.durCall(v, "Truncate") != nil }

// roundCall: elapsed.Round(cycle) rounds to the nearest multiple - never a floor.
func (fl *c33floor) roundCall(v ssa.Value) *ssa.Call { return fl.durCall(v, "Round") }

// adjustment resolves the cycle index in the returned value along path to q+adj.
func (fl *c33floor) adjustment(ret ssa.Value, path []*ssa.BasicBlock) (int64, bool) {
	idx := ret
	// in the method: Epoch.Add(index * cycle)
	if c := c33TimeCall(ret, "Add"); c != nil {
		if !kit.IsLoadOfField(c.Call.Args[0], fl.cx.epochF) {
			return 0, false
		}
		if adj, ok := fl.truncForm(c.Call.Args[1], path); ok {
			return adj, true
		}
		fs := kit.FlattenMul(c.Call.Args[1])
		if len(fs) != 2 {
			return 0, false
		}
		switch {
		case fl.isCycle(fs[0]):
			idx = fs[1]
		case fl.isCycle(fs[1]):
			idx = fs[0]
		default:
			return 0, false
		}
	}
	var adj int64
	for depth := 0; depth < 8; depth++ {
		idx = kit.StripConv(idx)
		if fl.isQuo(idx) {
			return adj, true
		}
		switch x := idx.(type) {
		case *ssa.Phi:
			// incoming edge = the block that precedes the phi's block on the path
			var pred *ssa.BasicBlock
			for i, b := range path {
				if b == x.Block() && i > 0 {
					pred = path[i-1]
				}
			}
			found := false
			for i, pb := range x.Block().Preds {
				if pb == pred {
					idx, found = x.Edges[i], true
				}
			}
			if !found {
				return 0, false
			}
		case *ssa.BinOp:
			k, ok := kit.ConstInt(x.Y)
			if !ok {
				return 0, false
			}
			switch x.Op {
			case token.SUB:
				adj -= k
			case token.ADD:
				adj += k
			default:
				return 0, false
			}
			idx = x.X
		default:
			return 0, false
		}
	}
	return 0, false
}

// truncForm resolves a duration of the shape elapsed.Truncate(cycle) [+- cycle] along path to
// (truncating quotient + adj) * cycle.
func (fl *c33floor) truncForm(d ssa.Value, path []*ssa.BasicBlock) (int64, bool) {
	var adj int64
	for depth := 0; depth < 8; depth++ {
		d = kit.StripConv(d)
		if fl.isTrunc(d) {
			return adj, true
		}
		switch x := d.(type) {
		case *ssa.Phi:
			var pred *ssa.BasicBlock
			for i, b := range path {
				if b == x.Block() && i > 0 {
					pred = path[i-1]
				}
			}
			found := false
			for i, pb := range x.Block().Preds {
				if pb == pred {
					d, found = x.Edges[i], true
				}
			}
			if !found {
				return 0, false
			}
		case *ssa.BinOp:
			if !fl.isCycle(x.Y) {
				return 0, false
			}
			switch x.Op {
			case token.SUB:
				adj--
			case token.ADD:
				adj++
			default:
				return 0, false
			}
			d = x.X
		default:
			return 0, false
		}
	}
	return 0, false
}

// ---------------- R2

func (cx *c33ctx) ruleFits() {
	p, r := cx.p, cx.r
	fn := cx.offset
	// (a) every returned offset is 0 or x % (CycleLength - WindowLength)
	isSpan := func(v ssa.Value) bool {
		v = kit.StripConv(v)
		if c, ok := v.(*ssa.Call); ok {
			cal := kit.CalleeOf(c)
			if cal.Pkg == "time" && cal.Recv == "Duration" && len(c.Call.Args) == 1 {
				v = kit.StripConv(c.Call.Args[0])
			}
		}
		b, ok := v.(*ssa.BinOp)
		return ok && b.Op == token.SUB && kit.IsLoadOfField(b.X, cx.cycleF) && kit.IsLoadOfField(b.Y, cx.windowF)
	}
	var judge func(v ssa.Value, depth int) (bool, string)
	judge = func(v ssa.Value, depth int) (bool, string) {
		v = kit.StripConv(v)
		if k, ok := kit.ConstInt(v); ok && k == 0 {
			return true, "0"
		}
		switch x := v.(type) {
		case *ssa.Phi:
			if depth < 4 {
				for _, e := range x.Edges {
					if ok, w := judge(e, depth+1); !ok {
						return false, w
					}
				}
				return true, "0 or reduced modulo (CycleLength - WindowLength)"
			}
		case *ssa.BinOp:
			if x.Op == token.REM {
				if isSpan(x.Y) {
					return true, "reduced modulo (CycleLength - WindowLength)"
				}
				return false, "reduced modulo something other than (CycleLength - WindowLength)"
			}
		}
		return false, "not reduced modulo (CycleLength - WindowLength)"
	}
	for i, ret := range kit.Returns(fn) {
		ok, why := judge(kit.ReturnResult(ret, 0), 0)
		r.Decide(ok, "C33.R2", fmt.Sprintf("%s offset result #%d", kit.FuncName(fn), i+1), p.Pos(ret.Pos()), "offset is "+why,
			"the window offset is "+why+": offset + WindowLength can exceed CycleLength and the window spills into the next cycle")
	}
	// (b) constructor
	stores := p.FieldAccessesOfKind(cx.cfgF, kit.FieldStore)
	for _, f := range []*types.Var{cx.windowF, cx.cycleF} {
		for _, acc := range p.FieldAccessesOfKind(f, kit.FieldStore) {
			if fa, ok := acc.Base.(*ssa.FieldAddr); ok && kit.FieldOfAddr(fa) == cx.cfgF {
				acc.Kind = kit.FieldAddrUse // marks "written in place after construction"
				stores = append(stores, acc)
			}
		}
	}
	r.Require(len(stores) >= 1, "floor: no store to the WindowCalculator configuration found")
	ord := map[string]int{}
	for _, acc := range stores {
		fname := kit.FuncName(acc.Fn)
		ord[fname]++
		key := fmt.Sprintf("%s stores configuration #%d WindowLength bound", fname, ord[fname])
		pos := p.Pos(acc.Instr.Pos())
		if acc.Kind != kit.FieldStore {
			r.Violation("C33.R2", key, pos, "a stored calculator configuration is modified in place: WindowLength/CycleLength change after the constructor's check and the window may no longer fit its cycle")
			continue
		}
		ok, why := cx.constructorClamps(acc)
		r.Decide(ok, "C33.R2", key, pos, why, why+": a window longer than its cycle is accepted, the offset degenerates to 0 and consecutive windows overlap")
	}
}

// constructorClamps: the configuration stored by acc went through "if WindowLength > CycleLength
// then WindowLength = fraction of CycleLength" on the same local.
func (cx *c33ctx) constructorClamps(acc kit.FieldAccess) (bool, string) {
	// the stored value is a load of a local WindowConfig
	ld, ok := acc.Val.(*ssa.UnOp)
	if !ok || ld.Op != token.MUL {
		return false, "the stored configuration is not a checked local copy"
	}
	local := ld.X
	fieldOf := func(v ssa.Value, f *types.Var) bool {
		lf, base := kit.LoadedField(kit.StripConv(v))
		return lf == f && base == local
	}
	why := "no comparison of WindowLength with CycleLength dominates the store of the configuration"
	var found bool
	var cands []c33clamp
	kit.Instrs(acc.Fn, func(in ssa.Instruction) {
		ifi, ok := in.(*ssa.If)
		if !ok {
			return
		}
		cond, flip := ifi.Cond, false
		for {
			u, ok := cond.(*ssa.UnOp)
			if !ok || u.Op != token.NOT {
				break
			}
			cond, flip = u.X, !flip
		}
		b, ok := cond.(*ssa.BinOp)
		if !ok {
			return
		}
		op := b.Op
		switch {
		case fieldOf(b.X, cx.windowF) && fieldOf(b.Y, cx.cycleF):
		case fieldOf(b.Y, cx.windowF) && fieldOf(b.X, cx.cycleF):
			op = flipCmp(op)
		default:
			return
		}
		switch op {
		case token.LSS, token.LEQ, token.GTR, token.GEQ:
		default:
			return
		}
		if !kit.Precedes(ifi, acc.Instr) {
			return
		}
		// edge taken when WindowLength > CycleLength
		taken := cmpHolds(op, +1) != flip
		blk := ifi.Block().Succs[1]
		if taken {
			blk = ifi.Block().Succs[0]
		}
		if blk == ifi.Block().Succs[0] && blk == ifi.Block().Succs[1] {
			return
		}
		// that block must rewrite WindowLength to a proper fraction of CycleLength, or not reach the store
		if !kit.CanReach(blk.Instrs[0], acc.Instr) && blk != acc.Instr.Block() {
			found, why = true, "an oversized WindowLength does not reach the store of the configuration"
			return
		}
		fixed := false
		detail := "on the WindowLength > CycleLength edge WindowLength is not rewritten"
		for _, in2 := range blk.Instrs {
			st, ok := in2.(*ssa.Store)
			if !ok {
				continue
			}
			fa, ok := st.Addr.(*ssa.FieldAddr)
			if !ok || kit.FieldOfAddr(fa) != cx.windowF || fa.X != local {
				continue
			}
			v, ok := kit.StripConv(st.Val).(*ssa.BinOp)
			if !ok {
				detail = "on the WindowLength > CycleLength edge WindowLength is set to something that is not a fraction of CycleLength"
				continue
			}
			k, isC := kit.ConstInt(v.Y)
			switch {
			case v.Op == token.QUO && fieldOf(v.X, cx.cycleF) && isC && k >= 2:
				fixed = true
			case v.Op == token.SUB && fieldOf(v.X, cx.cycleF) && isC && k > 0:
				fixed = true
			default:
				detail = "on the WindowLength > CycleLength edge WindowLength is set to a value that is not below CycleLength"
			}
		}
		// the edge block must be entered only from this If (otherwise the rewrite is not tied to the test)
		if fixed && len(blk.Preds) == 1 {
			found, why = true, "WindowLength > CycleLength is replaced by a proper fraction of CycleLength before the configuration is stored"
			cands = append(cands, c33clamp{ifi, blk})
		} else if !found {
			why = detail
		}
	})
	if !found || len(cands) == 0 {
		return found, why
	}
	lateWhy := ""
	for _, cd := range cands {
		if w := cx.lateWrites(acc, local, cd.ifi, cd.blk); w == "" {
			return true, why
		} else {
			lateWhy = w
		}
	}
	return false, lateWhy
}

type c33clamp struct {
	ifi *ssa.If
	blk *ssa.BasicBlock
}

// lateWrites reports a write of the checked fields between the clamp and the store of the
// configuration ("" if none).
func (cx *c33ctx) lateWrites(acc kit.FieldAccess, local ssa.Value, clampIf *ssa.If, clampBlk *ssa.BasicBlock) string {
	// the check must be the last word: no write of WindowLength / CycleLength (or of the whole local)
	// between the comparison and the store of the configuration, except the clamp's own rewrite
	late := ""
	kit.Instrs(acc.Fn, func(in ssa.Instruction) {
		st, ok := in.(*ssa.Store)
		if !ok || st.Block() == clampBlk || ssa.Instruction(st) == acc.Instr {
			return
		}
		hit := st.Addr == local
		if fa, ok := st.Addr.(*ssa.FieldAddr); ok && fa.X == local {
			if f := kit.FieldOfAddr(fa); f == cx.windowF || f == cx.cycleF {
				hit = true
			}
		}
		if hit && kit.CanReach(clampIf, st) && kit.CanReach(st, acc.Instr) {
			late = cx.p.Pos(st.Pos())
		}
	})
	// the local's address handed to a callee after the check may rewrite it as well
	kit.Instrs(acc.Fn, func(in ssa.Instruction) {
		c, ok := in.(ssa.CallInstruction)
		if !ok {
			return
		}
		for _, a := range c.Common().Args {
			if a == local && kit.CanReach(clampIf, in) && kit.CanReach(in, acc.Instr) {
				late = cx.p.Pos(in.Pos())
			}
		}
	})
	if late != "" {
		return "WindowLength/CycleLength is written at " + late + " after the WindowLength-vs-CycleLength check and is not checked again"
	}
	return ""
}

// ---------------- R3

type c33lin struct {
	base  ssa.Value // the cycleStart(now) call
	terms map[string]int
}

func (l c33lin) String() string {
	var ks []string
	for k, v := range l.terms {
		if v != 0 {
			ks = append(ks, fmt.Sprintf("%+d*%s", v, k))
		}
	}
	sort.Strings(ks)
	return "cycleStart(now) " + strings.Join(ks, " ")
}

func (l c33lin) eq(m map[string]int) bool {
	for _, k := range []string{"C", "W", "off"} {
		if l.terms[k] != m[k] {
			return false
		}
	}
	return len(l.terms) <= 3
}

// c33env binds the parameters of an inlined helper to the caller's values.
type c33env struct {
	bind   map[*ssa.Parameter]ssa.Value
	parent *c33env
}

func (e *c33env) resolve(v ssa.Value) (ssa.Value, *c33env) {
	for e != nil {
		prm, ok := v.(*ssa.Parameter)
		if !ok {
			return v, e
		}
		b, ok := e.bind[prm]
		if !ok {
			return v, e
		}
		v, e = b, e.parent
	}
	return v, nil
}

func (cx *c33ctx) dur(v ssa.Value, scale int, out map[string]int, depth int, env *c33env) bool {
	if depth > 8 {
		return false
	}
	v, env = env.resolve(kit.StripConv(v))
	v = kit.StripConv(v)
	switch {
	case kit.IsLoadOfField(v, cx.cycleF):
		out["C"] += scale
		return true
	case kit.IsLoadOfField(v, cx.windowF):
		out["W"] += scale
		return true
	case cx.tolF != nil && kit.IsLoadOfField(v, cx.tolF):
		out["T"] += scale
		return true
	}
	switch x := v.(type) {
	case *ssa.Call:
		if cal := kit.CalleeOf(x); cal.Static != nil && cal.Static == cx.offset {
			out["off"] += scale
			return true
		}
	case *ssa.Const:
		if k, ok := kit.ConstInt(x); ok && k == 0 {
			return true
		}
	case *ssa.UnOp:
		if x.Op == token.SUB {
			return cx.dur(x.X, -scale, out, depth+1, env)
		}
	case *ssa.BinOp:
		switch x.Op {
		case token.ADD:
			return cx.dur(x.X, scale, out, depth+1, env) && cx.dur(x.Y, scale, out, depth+1, env)
		case token.SUB:
			return cx.dur(x.X, scale, out, depth+1, env) && cx.dur(x.Y, -scale, out, depth+1, env)
		case token.MUL:
			if k, ok := kit.ConstInt(x.X); ok {
				return cx.dur(x.Y, scale*int(k), out, depth+1, env)
			}
			if k, ok := kit.ConstInt(x.Y); ok {
				return cx.dur(x.X, scale*int(k), out, depth+1, env)
			}
		}
	}
	return false
}

// c33var is one way a time value can be composed: a linear form, the phi edges chosen on the
// way and the conditions of those edges (top-level function only).
type c33var struct {
	l      c33lin
	choice map[*ssa.BasicBlock]int
	gs     []kit.Guard
}

func (v c33var) clone() c33var {
	n := c33var{l: c33lin{base: v.l.base, terms: map[string]int{}}, choice: map[*ssa.BasicBlock]int{}, gs: append([]kit.Guard(nil), v.gs...)}
	for k, x := range v.l.terms {
		n.l.terms[k] = x
	}
	for k, x := range v.choice {
		n.choice[k] = x
	}
	return n
}

// variants expands v into linear forms over cycleStart(now): phis are split (inside the
// expression as well), small repository helpers are inlined.
func (cx *c33ctx) variants(v ssa.Value, now ssa.Value, env *c33env, depth int) ([]c33var, bool) {
	if depth > 10 {
		return nil, false
	}
	v, env = env.resolve(v)
	switch x := v.(type) {
	case *ssa.Phi:
		var out []c33var
		for i, e := range x.Edges {
			vs, ok := cx.variants(e, now, env, depth+1)
			if !ok {
				return nil, false
			}
			for _, one := range vs {
				c := one.clone()
				c.choice[x.Block()] = i
				if env == nil {
					c.gs = append(c.gs, kit.EdgeGuards(x.Block().Preds[i], x.Block())...)
				}
				out = append(out, c)
			}
		}
		return out, true
	case *ssa.Extract:
		if call, ok := x.Tuple.(*ssa.Call); ok {
			// result of the roll-over function for the same instant: kept symbolic
			if cal := kit.CalleeOf(call); cx.next != nil && cal.Static == cx.next && len(call.Call.Args) == 3 && x.Index < 2 {
				if arg, _ := env.resolve(call.Call.Args[2]); arg == now {
					term := "NWs"
					if x.Index == 1 {
						term = "NWe"
					}
					return []c33var{{l: c33lin{base: now, terms: map[string]int{term: 1}}, choice: map[*ssa.BasicBlock]int{}}}, true
				}
				return nil, false
			}
			return cx.inline(call, x.Index, now, env, depth)
		}
	case *ssa.UnOp:
		// field of a local struct (info.SafeStart): the value stored into it
		if x.Op == token.MUL {
			if fa, ok := x.X.(*ssa.FieldAddr); ok {
				if al, ok := fa.X.(*ssa.Alloc); ok && al.Referrers() != nil {
					var val ssa.Value
					n := 0
					for _, rf := range *al.Referrers() {
						fa2, ok := rf.(*ssa.FieldAddr)
						if !ok || fa2.Field != fa.Field || fa2.Referrers() == nil {
							continue
						}
						for _, rr := range *fa2.Referrers() {
							if st, ok := rr.(*ssa.Store); ok && st.Addr == ssa.Value(fa2) {
								val = st.Val
								n++
							}
						}
					}
					if n == 1 {
						return cx.variants(val, now, env, depth+1)
					}
				}
			}
		}
	case *ssa.Call:
		if cal := kit.CalleeOf(x); cal.Static != nil && cal.Static == cx.cycleStart && len(x.Call.Args) == 2 {
			arg, aenv := env.resolve(x.Call.Args[1])
			if arg == now {
				return []c33var{{l: c33lin{base: now, terms: map[string]int{}}, choice: map[*ssa.BasicBlock]int{}}}, true
			}
			// cycleStart(now + k*CycleLength) = cycleStart(now) + k*CycleLength
			if a := c33TimeCall(arg, "Add"); a != nil {
				if r0, _ := aenv.resolve(a.Call.Args[0]); r0 == now {
					terms := map[string]int{}
					if cx.dur(a.Call.Args[1], 1, terms, 0, aenv) && terms["W"] == 0 && terms["off"] == 0 {
						return []c33var{{l: c33lin{base: now, terms: terms}, choice: map[*ssa.BasicBlock]int{}}}, true
					}
				}
			}
			return nil, false
		}
		if a := c33TimeCall(x, "Add"); a != nil {
			vs, ok := cx.variants(a.Call.Args[0], now, env, depth+1)
			if !ok {
				return nil, false
			}
			var out []c33var
			for _, one := range vs {
				c := one.clone()
				if !cx.dur(a.Call.Args[1], 1, c.l.terms, 0, env) {
					return nil, false
				}
				out = append(out, c)
			}
			return out, true
		}
		return cx.inline(x, 0, now, env, depth)
	}
	return nil, false
}

// inline expands result idx of a call to a small repository function with a single return.
func (cx *c33ctx) inline(call *ssa.Call, idx int, now ssa.Value, env *c33env, depth int) ([]c33var, bool) {
	cal := kit.CalleeOf(call)
	h := cal.Static
	if h == nil || h.Blocks == nil || !kit.IsRepoPkg(cal.Pkg) || h == cx.offset || depth > 6 {
		return nil, false
	}
	var rets []*ssa.Return
	for _, ret := range kit.Returns(h) {
		if ret.Block() != h.Recover {
			rets = append(rets, ret)
		}
	}
	if len(rets) != 1 || idx >= len(rets[0].Results) || len(h.Params) != len(call.Call.Args) {
		return nil, false
	}
	ne := &c33env{bind: map[*ssa.Parameter]ssa.Value{}, parent: env}
	for i, prm := range h.Params {
		ne.bind[prm] = call.Call.Args[i]
	}
	if env == nil {
		// arguments are caller values: resolve them in the caller's (empty) environment
		ne.parent = nil
	}
	return cx.variants(kit.ReturnResult(rets[0], idx), now, ne, depth+1)
}

// lin: the single linear form of v (no alternatives).
func (cx *c33ctx) lin(v ssa.Value, now ssa.Value, depth int) (c33lin, bool) {
	vs, ok := cx.variants(v, now, nil, depth)
	if !ok || len(vs) != 1 {
		return c33lin{}, false
	}
	return vs[0].l, true
}

// afterNow: cond==pol means "now is after X" (or not before X). Returns X.
func c33AfterNow(cond ssa.Value, pol bool, now ssa.Value) ssa.Value {
	for {
		u, ok := cond.(*ssa.UnOp)
		if !ok || u.Op != token.NOT {
			break
		}
		cond, pol = u.X, !pol
	}
	if c := c33TimeCall(cond, "After"); c != nil {
		recv, arg := c.Call.Args[0], c.Call.Args[1]
		if recv == now && pol {
			return arg
		}
		if arg == now && !pol { // !X.After(now): now >= X
			return recv
		}
	}
	if c := c33TimeCall(cond, "Before"); c != nil {
		recv, arg := c.Call.Args[0], c.Call.Args[1]
		if arg == now && pol { // X.Before(now)
			return recv
		}
		if recv == now && !pol { // !now.Before(X)
			return arg
		}
	}
	return nil
}

func (cx *c33ctx) ruleNext(fn *ssa.Function) {
	p, r := cx.p, cx.r
	key := kit.FuncName(fn)
	if !r.Require(len(fn.Params) == 3 && fn.Signature.Results().Len() == 2, "anchor-unresolved: NextWindow signature") {
		return
	}
	now := ssa.Value(fn.Params[2])
	nVariants := 0
	haveBase, haveAdv := false, false
	for ri, ret := range kit.Returns(fn) {
		pos := p.Pos(ret.Pos())
		start, end := kit.ReturnResult(ret, 0), kit.ReturnResult(ret, 1)
		type variant struct {
			ls, le c33lin
			gs     []kit.Guard
		}
		var vs []variant
		svs, ok1 := cx.variants(start, now, nil, 0)
		evs, ok2 := cx.variants(end, now, nil, 0)
		if !ok1 || !ok2 {
			nVariants++
			r.Violation("C33.R3", fmt.Sprintf("%s result #%d variant #1", key, ri+1), pos, "the returned window is not cycleStart(now) plus offset, CycleLength and WindowLength terms: the window is not tied to the cycle containing now")
			continue
		}
		paired := true
		for _, sv := range svs {
			var match *c33var
			n := 0
			for i := range evs {
				compatible := true
				for ph, e := range sv.choice {
					if e2, both := evs[i].choice[ph]; both && e2 != e {
						compatible = false
					}
				}
				if compatible {
					match = &evs[i]
					n++
				}
			}
			if n != 1 {
				paired = false
				break
			}
			gs := append(append(append([]kit.Guard(nil), kit.GuardsOf(ret)...), sv.gs...), match.gs...)
			vs = append(vs, variant{sv.l, match.l, gs})
		}
		if !paired || len(svs) != len(evs) {
			r.Violation("C33.R3", fmt.Sprintf("%s result #%d shape", key, ri+1), pos, "start and end of the returned window are not selected together: a start of one cycle can be paired with the end of another")
			continue
		}
		for vi, v := range vs {
			nVariants++
			vkey := fmt.Sprintf("%s result #%d variant #%d", key, ri+1, vi+1)
			ls, le := v.ls, v.le
			adv := ls.terms["C"]
			okStart := ls.terms["off"] == 1 && ls.terms["W"] == 0 && (adv == 0 || adv == 1)
			r.Decide(okStart, "C33.R3", vkey+" start", pos, "start = "+ls.String(),
				"start = "+ls.String()+", expected cycleStart(now)+offset or exactly one CycleLength later: windows are skipped or repeated (not exactly one per cycle)")
			okEnd := le.base == ls.base && le.terms["off"] == ls.terms["off"] && le.terms["C"] == ls.terms["C"] && le.terms["W"] == ls.terms["W"]+1
			r.Decide(okEnd, "C33.R3", vkey+" end", pos, "end = start + WindowLength",
				"end = "+le.String()+" is not start + WindowLength: the reported window does not have the configured length")
			if !okStart {
				continue
			}
			// selection: advanced iff now after base end
			sel := false
			detail := "no test `now after cycleStart(now)+offset+WindowLength` selects this candidate"
			for _, g := range v.gs {
				for _, pol := range []bool{true, false} {
					x := c33AfterNow(g.Cond, pol, now)
					if x == nil {
						continue
					}
					lx, ok := cx.lin(x, now, 0)
					if !ok || !lx.eq(map[string]int{"off": 1, "W": 1}) {
						if ok {
							detail = "the advance test compares now with " + lx.String() + ", not with the end of the current cycle's window"
						}
						continue
					}
					// on this edge the guard has polarity g.Polarity; "now after end" holds iff g.Polarity == pol
					holds := g.Polarity == pol
					if holds == (adv == 1) {
						sel = true
					} else {
						detail = "this candidate is selected on the wrong edge of the `now after window end` test"
					}
				}
			}
			if adv == 1 {
				haveAdv = true
			} else {
				haveBase = true
			}
			want := "while its window has not ended"
			if adv == 1 {
				want = "exactly when now is after the current cycle's window end"
			}
			r.Decide(sel, "C33.R3", vkey+" selection", pos, "selected "+want,
				detail+": NextWindow moves on while the earliest window is still open, or keeps returning a window that has ended")
		}
	}
	r.Count("next_window_candidates", nVariants)
	r.Decide(haveBase && haveAdv, "C33.R3", key+" candidates", p.Pos(fn.Pos()), "the current cycle's window and the next cycle's window are both candidates",
		"NextWindow does not have both the current and the following cycle's window as candidates: after the current window has ended it keeps returning it (or it always skips ahead)")
}

// ---------------- R4: the in-window predicate

// c33atoms collects, from a boolean value, the time values the instant is compared with
// (Before/After), looking through !, &&/|| (phis), and calls of WindowCalculator predicates on the
// same instant. ok=false when the value delegates to something that is not analysed here.
func (cx *c33ctx) atoms(v ssa.Value, now ssa.Value, fn *ssa.Function, depth int, out *[]c33cmp) {
	if depth > 8 || v == nil {
		return
	}
	switch x := v.(type) {
	case *ssa.UnOp:
		if x.Op == token.NOT {
			cx.atoms(x.X, now, fn, depth+1, out)
		}
	case *ssa.Phi:
		for i, e := range x.Edges {
			cx.atoms(e, now, fn, depth+1, out)
			// the branch conditions that select the edge belong to the predicate as well
			for _, g := range kit.EdgeGuards(x.Block().Preds[i], x.Block()) {
				if _, isPhi := g.Cond.(*ssa.Phi); !isPhi {
					cx.atoms(g.Cond, now, fn, depth+1, out)
				}
			}
		}
	case *ssa.BinOp:
		if x.Op == token.EQL || x.Op == token.NEQ || x.Op == token.AND || x.Op == token.OR {
			cx.atoms(x.X, now, fn, depth+1, out)
			cx.atoms(x.Y, now, fn, depth+1, out)
		}
	case *ssa.Call:
		for _, name := range []string{"Before", "After"} {
			if c := c33TimeCall(x, name); c != nil {
				recv, arg := c.Call.Args[0], c.Call.Args[1]
				switch {
				case recv == now:
					*out = append(*out, c33cmp{arg, now, fn, c})
				case arg == now:
					*out = append(*out, c33cmp{recv, now, fn, c})
				}
				return
			}
		}
		// a predicate method of the calculator on the same instant (IsInWindow from GetWindowInfo)
		cal := kit.CalleeOf(x)
		if h := cal.Static; h != nil && h.Blocks != nil && h.Signature.Recv() != nil && c33RecvNamed(h, cx.wc) && h.Signature.Results().Len() == 1 {
			for i, a := range x.Call.Args {
				if a == now && i < len(h.Params) {
					for _, ret := range kit.Returns(h) {
						if ret.Block() == h.Recover {
							continue
						}
						cx.atoms(kit.ReturnResult(ret, 0), h.Params[i], h, depth+1, out)
						for _, g := range kit.GuardsOf(ret) {
							cx.atoms(g.Cond, h.Params[i], h, depth+1, out)
						}
					}
				}
			}
		}
	}
}

type c33cmp struct {
	x    ssa.Value // the time value compared with the instant
	now  ssa.Value
	fn   *ssa.Function
	call *ssa.Call
}

func c33RecvNamed(fn *ssa.Function, n *types.Named) bool {
	rt := fn.Signature.Recv().Type()
	if pt, ok := rt.(*types.Pointer); ok {
		rt = pt.Elem()
	}
	return types.Identical(rt, n)
}

// ruleActive: wherever "is the agent listening at instant t" is decided (the CurrentlyActive
// field of a WindowInfo, a bool-returning method of the calculator taking the instant), the bounds
// t is compared with must come from the rolled-over window: results of NextWindow for the same
// instant, or cycleStart-based bounds that include the following cycle's candidate. Bounds built
// from the current cycle alone miss the tolerance lead-in of the next window that reaches back
// across the cycle boundary (offset < tolerance).
func (cx *c33ctx) ruleActive() {
	p, r := cx.p, cx.r
	r.Rule("C33.R4", "the in-window predicate (WindowInfo.CurrentlyActive, bool methods of the calculator on an instant) compares the instant with bounds of the rolled-over window (NextWindow of the same instant, or cycleStart-based bounds that include the next cycle's candidate), never with the current cycle's window alone")
	type root struct {
		v   ssa.Value
		fn  *ssa.Function
		gs  []kit.Guard
		key string
		pos token.Pos
	}
	var roots []root
	timeParam := func(fn *ssa.Function) ssa.Value {
		var tp ssa.Value
		for _, prm := range fn.Params {
			if c33IsTime(prm.Type(), "Time") {
				tp = prm
			}
		}
		return tp
	}
	if af := p.Field("internal/sleep", "WindowInfo", "CurrentlyActive"); af != nil {
		n := map[string]int{}
		for _, acc := range p.FieldAccessesOfKind(af, kit.FieldStore) {
			fname := kit.FuncName(acc.Fn)
			n[fname]++
			roots = append(roots, root{acc.Val, acc.Fn, kit.GuardsOf(acc.Instr), fmt.Sprintf("%s CurrentlyActive #%d", fname, n[fname]), acc.Instr.Pos()})
		}
	}
	for _, m := range p.Methods("internal/sleep", "WindowCalculator") {
		sig := m.Signature
		if sig.Results().Len() != 1 || timeParam(m) == nil {
			continue
		}
		if b, ok := sig.Results().At(0).Type().Underlying().(*types.Basic); !ok || b.Kind() != types.Bool {
			continue
		}
		for i, ret := range kit.Returns(m) {
			if ret.Block() == m.Recover {
				continue
			}
			roots = append(roots, root{kit.ReturnResult(ret, 0), m, kit.GuardsOf(ret), fmt.Sprintf("%s result #%d", kit.FuncName(m), i+1), ret.Pos()})
		}
	}
	r.Count("in_window_predicate_sites", len(roots))
	for _, rt := range roots {
		now := timeParam(rt.fn)
		if now == nil {
			continue
		}
		var cmps []c33cmp
		cx.atoms(rt.v, now, rt.fn, 0, &cmps)
		for _, g := range rt.gs {
			cx.atoms(g.Cond, now, rt.fn, 0, &cmps)
		}
		// classify the bounds
		nKnown, rolled := 0, false
		example := ""
		for _, c := range cmps {
			vs, ok := cx.variants(c.x, c.now, nil, 0)
			if !ok {
				// not expressible (delegation, other data): nothing is claimed about it
				rolled = true
				continue
			}
			for _, one := range vs {
				nKnown++
				if one.l.terms["NWs"] != 0 || one.l.terms["NWe"] != 0 || one.l.terms["C"] >= 1 {
					rolled = true
				} else if example == "" {
					example = one.l.String() + " at " + p.Pos(c.call.Pos())
				}
			}
		}
		if nKnown == 0 {
			r.OK("C33.R4", rt.key, p.Pos(rt.pos), "no window bound is compared here (delegated)")
			continue
		}
		r.Decide(rolled, "C33.R4", rt.key, p.Pos(rt.pos), "the instant is compared with bounds of the rolled-over window",
			"the instant is only compared with bounds of the current cycle's window ("+example+"): the tolerance lead-in of the next cycle's window that reaches back across the cycle boundary (offset < ClockTolerance) is reported as not in-window while SafeStart/TimeUntil of the same instant say it has started")
	}
}
