package rules

import (
	"fmt"
	"go/token"
	"go/types"
	"sort"
	"strings"

	"golang.org/x/tools/go/ssa"

	"mmverify/kit"
)

// ---------------------------------------------------------------------------------------------
// C16 — concurrent tunnels stay isolated across shared hops.
//
// The subject is the set of demultiplexing tables (map[uint64]… fields) of the agent and its
// exit-side handlers. Stream ids are allocated per peer connection, request ids are chosen by the
// remote requester, so a bare uint64 key is shared by several peers. The frozen, hand-classified
// table list is c16Tables; a map[uint64] field of the anchored packages that is not listed is a
// checker error (floor), never a silent pass.
// ---------------------------------------------------------------------------------------------

// c16Table is one classified demultiplexing table.
type c16Table struct {
	Pkg, Type, Field string
	Class            string // c16PerConn | c16Remote | c16Global | c16Unread
	Prop             string // property whose check reports the table's obligations
	Reason           string // one line: why the table is in this class
}

const (
	c16PerConn  = "per-connection stream id"
	c16Remote   = "requester-chosen request id"
	c16Global   = "co-located allocator"
	c16Unread   = "unread secondary index"
	c16Unlisted = "not in the classified list"
)

// c16Packages are the packages whose struct types are scanned for map[uint64] fields.
var c16Packages = []string{
	"internal/agent", "internal/exit", "internal/forward", "internal/stream",
	"internal/udp", "internal/icmp", "internal/shell",
}

// c16Tables is the frozen table list (DESIGN.md C16), one line of reason per entry.
var c16Tables = []c16Table{
	{"internal/agent", "relayTable", "byUpstream", c16PerConn, "C16", "transit index keyed by the stream id the upstream peer chose on its own connection; one table serves every upstream peer"},
	{"internal/agent", "relayTable", "byDownstream", c16PerConn, "C16", "transit index keyed by conn.NextStreamID() of the downstream connection; one table serves every downstream peer"},
	{"internal/exit", "Handler", "connections", c16PerConn, "C16", "exit TCP connections keyed by the stream id of the STREAM_OPEN frame; every ingress/transit peer uses the same handler"},
	{"internal/forward", "Handler", "connections", c16PerConn, "C16", "port-forward exit connections keyed by the stream id of the STREAM_OPEN frame; shared by all peers"},
	{"internal/udp", "Handler", "associations", c16PerConn, "C16", "exit UDP associations keyed by the stream id of the UDP_OPEN frame; shared by all peers"},
	{"internal/udp", "Handler", "byRequestID", c16Unread, "C16", "secondary index by the requester's random request id; written and deleted, never consulted by non-test code"},
	{"internal/icmp", "Handler", "sessions", c16PerConn, "C16", "exit ICMP sessions keyed by the stream id of the ICMP_OPEN frame; shared by all peers"},
	{"internal/icmp", "Handler", "byRequestID", c16Unread, "C16", "secondary index by the requester's random request id; written and deleted, never consulted by non-test code"},
	{"internal/shell", "Handler", "streams", c16PerConn, "C16", "remote-shell server streams keyed by the stream id of the STREAM_OPEN frame; shared by all peers"},
	{"internal/stream", "Manager", "streams", c16PerConn, "C16", "locally opened streams keyed by conn.NextStreamID() of whichever next-hop connection was used; one manager per agent"},
	{"internal/stream", "Manager", "pendingRequests", c16Global, "C16", "keyed by Manager.nextRequestID.Add(1), one counter per manager"},
	{"internal/agent", "Agent", "fileStreams", c16PerConn, "C16", "file-transfer server streams keyed by the stream id of the STREAM_OPEN frame; shared by all peers"},
	{"internal/agent", "Agent", "shellClientStreams", c16PerConn, "C16", "shell client sessions keyed by conn.NextStreamID() of the next-hop connection used"},
	{"internal/agent", "Agent", "udpIngressByBase", c16Global, "C16", "SOCKS5 UDP associations keyed by Agent.udpNextBaseID.Add(1); ids never appear on the wire"},
	{"internal/agent", "Agent", "udpIngressByLocalStream", c16PerConn, "C16", "ingress UDP exit paths keyed by conn.NextStreamID() of the next-hop connection used"},
	{"internal/agent", "Agent", "icmpIngressByStream", c16PerConn, "C16", "ingress ICMP sessions keyed by conn.NextStreamID() of the next-hop connection used"},
	{"internal/agent", "Agent", "icmpWSSessionByStream", c16PerConn, "C16", "WebSocket ICMP sessions keyed by conn.NextStreamID() of the next-hop connection used"},
	{"internal/agent", "Agent", "pendingControl", c16Global, "C39", "locally issued control requests keyed by Agent.nextControlID (incremented under controlMu)"},
	{"internal/agent", "Agent", "forwardedControl", c16Remote, "C39", "control requests relayed for other agents, keyed by the request id the requester chose"},
}

func init() {
	register(&Check{
		ID: "C16", Level: "other", Patterns: []string{"./internal/agent"},
		Technique: "key provenance, must-pass-through peer validation, guarded insertion over a classified table list",
		Explain:   "Decides, for every classified map[uint64] demultiplexing table of the agent, relay table and exit-side handlers, (R1) that the key either carries a peer identity or is drawn at every insertion from an allocator that lives in the same object as the table, (R2) when R1 fails, that every frame-driven use of a looked-up entry (and every keyed deletion) can only be reached through a comparison of the entry's recorded peer with the sending peer, and (R3) when R1 fails, that an insertion is dominated by a key-absent test. A map[uint64] field of those packages that is not in the classified list is judged by the same key-provenance rule: it is a violation when it maps a wire stream/request id to a per-tunnel record and is consulted on behalf of received frames, informational otherwise. Byte-exact delivery and ordering are not decided.",
		Run:       runC16,
		SelfTests: []SelfTest{
			{Name: "peer test dropped in handleStreamData (upstream side)", ExpectRule: "C16.R2", ExpectKey: "agent.relayTable.byUpstream", Edits: []Edit{
				{File: "internal/agent/agent.go", Old: "if upRelay != nil && peerID == upRelay.UpstreamPeer {", New: "if upRelay != nil {"},
			}},
			{Name: "peer test dropped in handleUDPDatagram (downstream side)", ExpectRule: "C16.R2", ExpectKey: "agent.relayTable.byDownstream", Edits: []Edit{
				{File: "internal/agent/udp.go", Old: "if relayDown != nil && peerID == relayDown.DownstreamPeer {", New: "if relayDown != nil {"},
			}},
			{Name: "PopDownstreamFromPeer no longer checks the peer", ExpectRule: "C16.R2", ExpectKey: "agent.relayTable.byDownstream", Edits: []Edit{
				{File: "internal/agent/relay_table.go", Old: "if e == nil || e.DownstreamPeer != peer {", New: "if e == nil {"},
			}},
			{Name: "PopMatchingPeer validates against the local id instead of the sender", ExpectRule: "C16.R2", ExpectKey: "agent.relayTable.byUpstream", Edits: []Edit{
				{File: "internal/agent/relay_table.go", Old: "up != nil && up.UpstreamPeer == peer {", New: "up != nil && up.UpstreamPeer == up.DownstreamPeer {"},
			}},
			{Name: "ICMP open ack forwarded without peer test", ExpectRule: "C16.R2", ExpectKey: "agent.relayTable.byDownstream", Edits: []Edit{
				{File: "internal/agent/icmp.go", Old: "if relay := a.icmpRelay.LookupDownstream(frame.StreamID); relay != nil && peerID == relay.DownstreamPeer {", New: "if relay := a.icmpRelay.LookupDownstream(frame.StreamID); relay != nil {"},
			}},
			{Name: "upstream hit validated against the downstream peer", ExpectRule: "C16.R2", ExpectKey: "agent.relayTable.byUpstream", Edits: []Edit{
				{File: "internal/agent/agent.go", Old: "if upRelay != nil && peerID == upRelay.UpstreamPeer {", New: "if upRelay != nil && peerID == upRelay.DownstreamPeer {"},
			}},
			{Name: "LookupBoth returns the two indices swapped", ExpectRule: "C16.R2", ExpectKey: "agent.relayTable.by", Edits: []Edit{
				{File: "internal/agent/relay_table.go", Old: "\tup = r.byUpstream[streamID]\n\tdown = r.byDownstream[streamID]\n", New: "\tup = r.byDownstream[streamID]\n\tdown = r.byUpstream[streamID]\n"},
			}},
			{Name: "seed class C16-b: non-destructive lookup helper rejects the wrong side", ExpectRule: "C16.R2", ExpectKey: "agent.relayTable.byDownstream", Edits: []Edit{
				{File: "internal/agent/relay_table.go", Old: "// PopDownstreamFromPeer atomically looks up", New: "func (r *relayTable) LookupDownstreamFromPeer(streamID uint64, peer identity.AgentID) *relayEntry {\n\tr.mu.RLock()\n\tdefer r.mu.RUnlock()\n\te := r.byDownstream[streamID]\n\tif e == nil || e.UpstreamPeer == peer {\n\t\treturn nil\n\t}\n\treturn e\n}\n\n// PopDownstreamFromPeer atomically looks up"},
				{File: "internal/agent/agent.go", Old: "if relay := a.tcpRelay.LookupDownstream(frame.StreamID); relay != nil && peerID == relay.DownstreamPeer {", New: "if relay := a.tcpRelay.LookupDownstreamFromPeer(frame.StreamID, peerID); relay != nil {"},
			}},
			{Name: "seed class C16-a: pop deletes the upstream index under the frame's id", ExpectRule: "C16.R2", ExpectKey: "agent.relayTable.byUpstream", Edits: []Edit{
				{File: "internal/agent/relay_table.go", Old: "\t\tdelete(r.byUpstream, down.UpstreamID)\n", New: "\t\tdelete(r.byUpstream, streamID)\n"},
			}},
			{Name: "seed class C17-a: one lookup with fallback, either peer accepted", ExpectRule: "C16.R2", ExpectKey: "agent.relayTable.by", Edits: []Edit{
				{File: "internal/agent/relay_table.go", Old: "\tif up := r.byUpstream[streamID]; up != nil && up.UpstreamPeer == peer {\n\t\tdelete(r.byUpstream, up.UpstreamID)\n\t\tdelete(r.byDownstream, up.DownstreamID)\n\t\treturn up, true\n\t}\n\tif down := r.byDownstream[streamID]; down != nil && down.DownstreamPeer == peer {\n\t\tdelete(r.byUpstream, down.UpstreamID)\n\t\tdelete(r.byDownstream, down.DownstreamID)\n\t\treturn down, false\n\t}\n\treturn nil, false\n", New: "\te := r.byUpstream[streamID]\n\tif e == nil {\n\t\te = r.byDownstream[streamID]\n\t}\n\tif e == nil {\n\t\treturn nil, false\n\t}\n\tswitch peer {\n\tcase e.UpstreamPeer:\n\t\tfromUpstream = true\n\tcase e.DownstreamPeer:\n\t\tfromUpstream = false\n\tdefault:\n\t\treturn nil, false\n\t}\n\tdelete(r.byUpstream, e.UpstreamID)\n\tdelete(r.byDownstream, e.DownstreamID)\n\treturn e, fromUpstream\n"},
			}},
			{Name: "rewrite: PopMatchingPeer selects the entry first, deletes once", Edits: []Edit{
				{File: "internal/agent/relay_table.go", Old: "\tif up := r.byUpstream[streamID]; up != nil && up.UpstreamPeer == peer {\n\t\tdelete(r.byUpstream, up.UpstreamID)\n\t\tdelete(r.byDownstream, up.DownstreamID)\n\t\treturn up, true\n\t}\n\tif down := r.byDownstream[streamID]; down != nil && down.DownstreamPeer == peer {\n\t\tdelete(r.byUpstream, down.UpstreamID)\n\t\tdelete(r.byDownstream, down.DownstreamID)\n\t\treturn down, false\n\t}\n\treturn nil, false\n", New: "\tup, down := r.byUpstream[streamID], r.byDownstream[streamID]\n\tswitch {\n\tcase up != nil && peer == up.UpstreamPeer:\n\t\tentry, fromUpstream = up, true\n\tcase down != nil && peer == down.DownstreamPeer:\n\t\tentry = down\n\tdefault:\n\t\treturn nil, false\n\t}\n\tdelete(r.byDownstream, entry.DownstreamID)\n\tdelete(r.byUpstream, entry.UpstreamID)\n\treturn entry, fromUpstream\n"},
			}},
			{Name: "pending stream requests keyed by the caller's stream id", ExpectRule: "C16.R1", ExpectKey: "stream.Manager.pendingRequests", Edits: []Edit{
				{File: "internal/stream/manager.go", Old: "m.pendingRequests[requestID] = &PendingRequest{", New: "m.pendingRequests[streamID] = &PendingRequest{"},
			}},
			{Name: "SOCKS5 UDP base id taken from the client port", ExpectRule: "C16.R1", ExpectKey: "agent.Agent.udpIngressByBase", Edits: []Edit{
				{File: "internal/agent/udp.go", Old: "baseStreamID := a.udpNextBaseID.Add(1)", New: "baseStreamID := uint64(clientAddr.Port)"},
			}},
			{Name: "request-id index consulted by a frame handler", ExpectRule: "C16.R1", ExpectKey: "udp.Handler.byRequestID", Edits: []Edit{
				{File: "internal/udp/handler.go", Old: "\th.mu.RLock()\n\tassoc := h.associations[streamID]\n\th.mu.RUnlock()\n\n\tif assoc == nil {\n\t\treturn nil // Already closed\n\t}\n", New: "\th.mu.RLock()\n\tassoc := h.associations[streamID]\n\tif assoc == nil {\n\t\tassoc = h.byRequestID[streamID]\n\t}\n\th.mu.RUnlock()\n\n\tif assoc == nil {\n\t\treturn nil // Already closed\n\t}\n"},
			}},
			{Name: "seed class C20-a: new unlisted table mapping the frame's stream id to a connection", ExpectRule: "C16.R1", ExpectKey: "exit.Handler.opening", Edits: []Edit{
				{File: "internal/exit/handler.go", Old: "\tconnCount   atomic.Int64\n", New: "\tconnCount   atomic.Int64\n\topening     map[uint64]*ActiveConnection\n"},
				{File: "internal/exit/handler.go", Old: "\th.mu.Lock()\n\th.connections[streamID] = ac\n", New: "\th.mu.Lock()\n\tif h.opening == nil {\n\t\th.opening = map[uint64]*ActiveConnection{}\n\t}\n\th.opening[streamID] = ac\n\th.connections[streamID] = ac\n"},
				{File: "internal/exit/handler.go", Old: "\tif ac == nil {\n\t\treturn fmt.Errorf(\"unknown stream %d\", streamID)\n\t}\n", New: "\tif ac == nil {\n\t\th.mu.RLock()\n\t\tac = h.opening[streamID]\n\t\th.mu.RUnlock()\n\t}\n\tif ac == nil {\n\t\treturn fmt.Errorf(\"unknown stream %d\", streamID)\n\t}\n"},
			}},
			{Name: "rewrite: unlisted map[uint64] counter map that is no demultiplexing table", Edits: []Edit{
				{File: "internal/exit/handler.go", Old: "\tconnCount   atomic.Int64\n", New: "\tconnCount   atomic.Int64\n\tbytesByPort map[uint64]int64\n"},
				{File: "internal/exit/handler.go", Old: "\th.mu.Lock()\n\th.connections[streamID] = ac\n", New: "\th.mu.Lock()\n\tif h.bytesByPort == nil {\n\t\th.bytesByPort = map[uint64]int64{}\n\t}\n\th.bytesByPort[uint64(destPort)]++\n\th.connections[streamID] = ac\n"},
			}},
			{Name: "seed class C16-d: exit-handler test moved in front of the relay lookup in handleStreamData", ExpectRule: "C16.R4", ExpectKey: "handleStreamData relay lookup first", Edits: []Edit{
				{File: "internal/agent/agent.go", Old: "\tupRelay, downRelay := a.tcpRelay.LookupBoth(frame.StreamID)\n", New: "\tif a.exitHandler != nil && a.exitHandler.GetConnection(frame.StreamID) != nil {\n\t\ta.exitHandler.HandleStreamData(peerID, frame.StreamID, frame.Payload, frame.Flags)\n\t\treturn\n\t}\n\tupRelay, downRelay := a.tcpRelay.LookupBoth(frame.StreamID)\n"},
			}},
			{Name: "stream manager consulted before the relay table in handleStreamClose", ExpectRule: "C16.R4", ExpectKey: "handleStreamClose relay lookup first", Edits: []Edit{
				{File: "internal/agent/agent.go", Old: "\t// Check if this is a relay stream - PopMatchingPeer atomically looks up,\n\t// peer-disambiguates direction, and removes the entry under one Lock.\n\tif entry, fromUpstream := a.tcpRelay.PopMatchingPeer(frame.StreamID, peerID); entry != nil {\n\t\tdstPeer, dstID := entry.UpstreamPeer, entry.UpstreamID\n\t\tif fromUpstream {\n\t\t\tdstPeer, dstID = entry.DownstreamPeer, entry.DownstreamID\n\t\t}\n\t\tfwdFrame := &protocol.Frame{\n\t\t\tType:     protocol.FrameStreamClose,", New: "\tif a.streamMgr.GetStream(frame.StreamID) != nil {\n\t\ta.streamMgr.HandleStreamClose(frame.StreamID)\n\t\treturn\n\t}\n\tif entry, fromUpstream := a.tcpRelay.PopMatchingPeer(frame.StreamID, peerID); entry != nil {\n\t\tdstPeer, dstID := entry.UpstreamPeer, entry.UpstreamID\n\t\tif fromUpstream {\n\t\t\tdstPeer, dstID = entry.DownstreamPeer, entry.DownstreamID\n\t\t}\n\t\tfwdFrame := &protocol.Frame{\n\t\t\tType:     protocol.FrameStreamClose,"},
			}},
			{Name: "rewrite: operands of the peer comparison swapped", Edits: []Edit{
				{File: "internal/agent/agent.go", Old: "if upRelay != nil && peerID == upRelay.UpstreamPeer {", New: "if upRelay != nil && upRelay.UpstreamPeer == peerID {"},
			}},
			{Name: "rewrite: peer comparison through AgentID.Equal", Edits: []Edit{
				{File: "internal/agent/agent.go", Old: "if downRelay != nil && peerID == downRelay.DownstreamPeer {", New: "if downRelay != nil && downRelay.DownstreamPeer.Equal(peerID) {"},
			}},
			{Name: "rewrite: peer test extracted into a predicate method of the entry", Edits: []Edit{
				{File: "internal/agent/relay_table.go", Old: "// relayTable is a thread-safe bidirectional index", New: "func (e *relayEntry) fromUpstream(p identity.AgentID) bool { return e.UpstreamPeer == p }\n\n// relayTable is a thread-safe bidirectional index"},
				{File: "internal/agent/agent.go", Old: "if upRelay != nil && peerID == upRelay.UpstreamPeer {", New: "if upRelay != nil && upRelay.fromUpstream(peerID) {"},
			}},
			{Name: "rewrite: early returns instead of ||", Edits: []Edit{
				{File: "internal/agent/relay_table.go", Old: "\tif e == nil || e.DownstreamPeer != peer {\n\t\treturn nil\n\t}\n", New: "\tif e == nil {\n\t\treturn nil\n\t}\n\tif !(e.DownstreamPeer == peer) {\n\t\treturn nil\n\t}\n"},
			}},
			{Name: "rewrite: DeleteByPeer with switch and continue", Edits: []Edit{
				{File: "internal/agent/relay_table.go", Old: "\t\tif e.UpstreamPeer == peer || e.DownstreamPeer == peer {\n\t\t\tdelete(r.byUpstream, id)\n\t\t\tdelete(r.byDownstream, e.DownstreamID)\n\t\t\tn++\n\t\t}\n", New: "\t\tswitch peer {\n\t\tcase e.UpstreamPeer, e.DownstreamPeer:\n\t\tdefault:\n\t\t\tcontinue\n\t\t}\n\t\tdelete(r.byDownstream, e.DownstreamID)\n\t\tdelete(r.byUpstream, id)\n\t\tn++\n"},
			}},
			{Name: "rewrite: allocator wrapped in a helper method", Edits: []Edit{
				{File: "internal/stream/manager.go", Old: "\trequestID := m.nextRequestID.Add(1)\n\tstream := NewStream(streamID, m.localID, remoteID, requestID)", New: "\trequestID := m.NextRequestID()\n\tstream := NewStream(streamID, m.localID, remoteID, requestID)"},
			}},
			{Name: "rewrite: forward.Handler.connections re-keyed by (peer, stream id)", Edits: c16ForwardCompositeKeyEdits},
		},
	})
}

// c16ForwardCompositeKeyEdits re-keys forward.Handler.connections by a struct carrying the
// peer: the findings on that table must disappear and nothing new may appear.
var c16ForwardCompositeKeyEdits = []Edit{
	{File: "internal/forward/handler.go", Old: "// Handler handles tunnel exit connections.\ntype Handler struct {", New: "type connKey struct {\n\tpeer identity.AgentID\n\tid   uint64\n}\n\n// Handler handles tunnel exit connections.\ntype Handler struct {"},
	{File: "internal/forward/handler.go", Old: "\tconnections map[uint64]*ActiveConnection\n\tconnCount   atomic.Int64\n", New: "\tconnections map[connKey]*ActiveConnection\n\tconnCount   atomic.Int64\n"},
	{File: "internal/forward/handler.go", Old: "\t\tconnections: make(map[uint64]*ActiveConnection),\n", New: "\t\tconnections: make(map[connKey]*ActiveConnection),\n"},
	{File: "internal/forward/handler.go", Old: "\t\th.connections = make(map[uint64]*ActiveConnection)\n", New: "\t\th.connections = make(map[connKey]*ActiveConnection)\n"},
	{File: "internal/forward/handler.go", Old: "\th.connections[streamID] = ac\n", New: "\th.connections[connKey{remoteID, streamID}] = ac\n"},
	{File: "internal/forward/handler.go", Old: "\t\tac.Close()\n\t\th.removeConnection(streamID)\n", New: "\t\tac.Close()\n\t\th.removeConnection(streamID, remoteID)\n"},
	{File: "internal/forward/handler.go", Old: "\th.mu.RLock()\n\tac := h.connections[streamID]\n\th.mu.RUnlock()\n", New: "\th.mu.RLock()\n\tac := h.connections[connKey{peerID, streamID}]\n\th.mu.RUnlock()\n"},
	{File: "internal/forward/handler.go", Old: "\tac := h.removeConnection(streamID)\n", New: "\tac := h.removeConnection(streamID, peerID)\n"},
	{File: "internal/forward/handler.go", Old: "func (h *Handler) removeConnection(streamID uint64) *ActiveConnection {", New: "func (h *Handler) removeConnection(streamID uint64, peerID identity.AgentID) *ActiveConnection {"},
	{File: "internal/forward/handler.go", Old: "\tac, ok := h.connections[streamID]\n\tif !ok {\n\t\treturn nil\n\t}\n\n\tdelete(h.connections, streamID)\n", New: "\tac, ok := h.connections[connKey{peerID, streamID}]\n\tif !ok {\n\t\treturn nil\n\t}\n\n\tdelete(h.connections, connKey{peerID, streamID})\n"},
}

// ---------------------------------------------------------------------------------------------
// context and table resolution
// ---------------------------------------------------------------------------------------------

type c16Ctx struct {
	p           *kit.Program
	peerParams  map[*ssa.Parameter]bool // parameters that carry the id of the peer whose frame is being handled
	frameDriven map[*ssa.Function]bool  // functions (and their closures) that run on behalf of a received frame
	allocs      map[*types.Var]bool     // when non-nil: allocator fields accepted by keyGlobal are collected here
}

func (cx *c16Ctx) noteAlloc(f *types.Var) {
	if cx.allocs != nil {
		cx.allocs[f] = true
	}
}

func c16IsFramePtr(t types.Type) bool {
	pt, ok := t.(*types.Pointer)
	if !ok {
		return false
	}
	n, ok := pt.Elem().(*types.Named)
	return ok && n.Obj().Name() == "Frame" && n.Obj().Pkg() != nil && n.Obj().Pkg().Path() == kit.PkgPath("internal/protocol")
}

// c16NewCtx computes the frame-driven functions: the agent's frame handlers (functions of
// internal/agent that receive the sending peer's id together with the *protocol.Frame) and
// everything they call, statically, while handing the sending peer's id on.
func c16NewCtx(p *kit.Program) *c16Ctx {
	cx := &c16Ctx{p: p, peerParams: map[*ssa.Parameter]bool{}, frameDriven: map[*ssa.Function]bool{}}
	var work []*ssa.Function
	push := func(fn *ssa.Function) {
		for _, f := range kit.WithClosures(fn) {
			if !cx.frameDriven[f] {
				cx.frameDriven[f] = true
				work = append(work, f)
			}
		}
	}
	for _, fn := range p.FuncsInPkg("internal/agent") {
		if fn.Parent() != nil {
			continue
		}
		hasFrame := false
		for _, pa := range c16ExplicitParams(fn) {
			if c16IsFramePtr(pa.Type()) {
				hasFrame = true
			}
		}
		if !hasFrame {
			continue
		}
		for _, pa := range c16ExplicitParams(fn) {
			if c16IsAgentID(pa.Type()) {
				cx.peerParams[pa] = true
				push(fn)
			}
		}
	}
	for len(work) > 0 {
		fn := work[0]
		work = work[1:]
		for _, c := range kit.Calls(fn) {
			cal := kit.CalleeOf(c)
			if cal.Static == nil || cal.Static.Blocks == nil || !kit.IsRepoPkg(kit.FuncPkgPath(cal.Static)) {
				continue
			}
			for i, a := range c.Common().Args {
				if i < len(cal.Static.Params) && c16IsAgentID(a.Type()) && cx.peerValue(a) {
					pa := cal.Static.Params[i]
					if !cx.peerParams[pa] {
						cx.peerParams[pa] = true
						for _, f := range kit.WithClosures(cal.Static) {
							delete(cx.frameDriven, f) // re-examine with the new peer parameter
						}
					}
					push(cal.Static)
				}
			}
		}
	}
	return cx
}

func c16IsAgentID(t types.Type) bool {
	n, ok := t.(*types.Named)
	return ok && n.Obj().Name() == "AgentID" && n.Obj().Pkg() != nil && n.Obj().Pkg().Path() == kit.PkgPath("internal/identity")
}

// c16ExplicitParams returns the parameters of fn without the receiver.
func c16ExplicitParams(fn *ssa.Function) []*ssa.Parameter {
	ps := fn.Params
	if fn.Signature != nil && fn.Signature.Recv() != nil && len(ps) > 0 {
		ps = ps[1:]
	}
	return ps
}

// hasPeer: fn (or a function enclosing it) is frame-driven and receives the id of the sending
// peer as a parameter: it knows who sent the frame it is handling.
func (cx *c16Ctx) hasPeer(fn *ssa.Function) bool {
	for f := fn; f != nil; f = f.Parent() {
		for _, p := range f.Params {
			if cx.peerParams[p] {
				return true
			}
		}
	}
	return false
}

// peerValue: v is the id of the sending peer as known to the enclosing function: a peer
// parameter (directly, through a captured variable or a local copy).
func (cx *c16Ctx) peerValue(v ssa.Value) bool {
	switch x := v.(type) {
	case *ssa.Parameter:
		return cx.peerParams[x]
	case *ssa.UnOp:
		if x.Op != token.MUL {
			return false
		}
		switch a := x.X.(type) {
		case *ssa.FreeVar:
			if pt, ok := a.Type().(*types.Pointer); ok {
				return c16IsAgentID(pt.Elem()) && cx.frameDriven[a.Parent()]
			}
		case *ssa.Alloc:
			ok := false
			for _, r := range *a.Referrers() {
				if st, isSt := r.(*ssa.Store); isSt && st.Addr == a {
					if !cx.peerValue(st.Val) {
						return false
					}
					ok = true
				}
			}
			return ok
		}
	case *ssa.Phi:
		for _, e := range x.Edges {
			if !cx.peerValue(e) {
				return false
			}
		}
		return len(x.Edges) > 0
	}
	return false
}

func c16Strip(v ssa.Value) ssa.Value {
	for {
		switch x := v.(type) {
		case *ssa.Convert:
			v = x.X
		case *ssa.ChangeType:
			v = x.X
		default:
			return v
		}
	}
}

// c16Eval is the verdict of the three rules on one table.
type c16Eval struct {
	T         c16Table
	Name      string // e.g. "exit.Handler.connections"
	Field     *types.Var
	Owner     *types.Named
	Pos       string
	Composite bool // key type carries a peer identity
	Inserts   int

	R1OK     bool
	R1Detail string
	R2OK     bool
	R2Detail string
	R2Ops    int // frame-driven entry uses / keyed operations examined
	R2BadFns []*ssa.Function
	SidePeer *types.Var // peer field that owns the id space of this index (entries recording several peers)
	R3OK     bool
	R3Detail string
	Readers  []string // non-test readers (unread-index class)
}

func c16TableName(t c16Table) string {
	return strings.TrimPrefix(t.Pkg, "internal/") + "." + t.Type + "." + t.Field
}

// c16ResolveTables resolves the frozen list against the loaded program and scans the anchored
// packages for unclassified map[uint64] fields (floors).
func c16ResolveTables(p *kit.Program, r *kit.Report) []*c16Eval {
	listed := map[string]bool{}
	var out []*c16Eval
	for _, t := range c16Tables {
		listed[t.Pkg+"."+t.Type+"."+t.Field] = true
		n := p.NamedType(t.Pkg, t.Type)
		f := p.Field(t.Pkg, t.Type, t.Field)
		if n == nil || f == nil {
			r.Floor("anchor-unresolved: classified table %s no longer exists (renamed or removed): re-classify the tables of %s", c16TableName(t), t.Pkg)
			continue
		}
		m, ok := f.Type().Underlying().(*types.Map)
		if !ok {
			r.Floor("anchor-unresolved: classified table %s is no longer a map (%s): re-classify", c16TableName(t), f.Type())
			continue
		}
		ev := &c16Eval{T: t, Name: c16TableName(t), Field: f, Owner: n, Pos: p.Pos(f.Pos())}
		if st, ok := m.Key().Underlying().(*types.Struct); ok {
			for i := 0; i < st.NumFields(); i++ {
				if c16IsAgentID(st.Field(i).Type()) {
					ev.Composite = true
				}
			}
			if !ev.Composite {
				r.Floor("unclassified table: %s is keyed by struct %s without a peer identity field: classify it in c16Tables", ev.Name, m.Key())
				continue
			}
		} else if b, ok := m.Key().Underlying().(*types.Basic); !ok || b.Kind() != types.Uint64 {
			r.Floor("unclassified table: key type of %s changed to %s: classify it in c16Tables", ev.Name, m.Key())
			continue
		}
		out = append(out, ev)
	}
	// every map[uint64] field of a struct type declared in the anchored packages must be listed
	n := 0
	for _, pkg := range c16Packages {
		pk := p.Package(pkg)
		if pk == nil || pk.Types == nil {
			r.Floor("anchor-unresolved: package %s not loaded", pkg)
			continue
		}
		sc := pk.Types.Scope()
		for _, name := range sc.Names() {
			tn, ok := sc.Lookup(name).(*types.TypeName)
			if !ok {
				continue
			}
			st, ok := tn.Type().Underlying().(*types.Struct)
			if !ok {
				continue
			}
			for i := 0; i < st.NumFields(); i++ {
				f := st.Field(i)
				m, ok := f.Type().Underlying().(*types.Map)
				if !ok {
					continue
				}
				if b, ok := m.Key().Underlying().(*types.Basic); ok && b.Kind() == types.Uint64 {
					n++
					if !listed[pkg+"."+name+"."+f.Name()] {
						// not stopped on: judged with the generic rules by C16 (a cache or a
						// counter map is harmless, a new table demultiplexing frames by a bare
						// id is a violation)
						if named, isNamed := tn.Type().(*types.Named); isNamed {
							t := c16Table{Pkg: pkg, Type: name, Field: f.Name(), Class: c16Unlisted, Prop: "C16", Reason: "map[uint64] field that is not in the classified table list"}
							out = append(out, &c16Eval{T: t, Name: c16TableName(t), Field: f, Owner: named, Pos: p.Pos(f.Pos())})
						}
					}
				}
			}
		}
	}
	r.Count("map_uint64_fields_in_anchored_packages", n)
	r.Count("classified_tables", len(c16Tables))
	return out
}

// ---------------------------------------------------------------------------------------------
// R1 — collision-free keys
// ---------------------------------------------------------------------------------------------

func c16IsAtomicAdd(c ssa.CallInstruction) (recv ssa.Value, ok bool) {
	cal := kit.CalleeOf(c)
	if cal.Pkg != "sync/atomic" {
		return nil, false
	}
	if cal.Name == "Add" && (cal.Recv == "Uint64" || cal.Recv == "Int64" || cal.Recv == "Uint32" || cal.Recv == "Int32") {
		return kit.Receiver(c), true
	}
	if cal.Recv == "" && strings.HasPrefix(cal.Name, "Add") && len(c.Common().Args) > 0 {
		return c.Common().Args[0], true
	}
	return nil, false
}

// c16FieldOfOwner: addr is &x.f with x of (pointer to) the owner struct type.
func c16FieldOfOwner(addr ssa.Value, owner *types.Named) *types.Var {
	fa, ok := addr.(*ssa.FieldAddr)
	if !ok {
		return nil
	}
	t := fa.X.Type()
	if pt, ok := t.(*types.Pointer); ok {
		t = pt.Elem()
	}
	if n, ok := t.(*types.Named); ok && n.Obj() == owner.Obj() {
		return kit.FieldOfAddr(fa)
	}
	return nil
}

// c16CounterField: every store to f in the repository is f = f + k (k >= 1) or the zero value.
func c16CounterField(p *kit.Program, f *types.Var) bool {
	if b, ok := f.Type().Underlying().(*types.Basic); !ok || b.Info()&types.IsInteger == 0 {
		return false
	}
	n := 0
	for _, acc := range p.FieldAccessesOfKind(f, kit.FieldStore, kit.FieldAddrUse) {
		if acc.Kind == kit.FieldAddrUse {
			return false
		}
		if k, ok := kit.ConstInt(acc.Val); ok && k == 0 {
			continue
		}
		b, ok := acc.Val.(*ssa.BinOp)
		if !ok || b.Op != token.ADD {
			return false
		}
		k, isc := kit.ConstInt(b.Y)
		lf, _ := kit.LoadedField(b.X)
		if !isc || k < 1 || lf != f {
			return false
		}
		n++
	}
	return n > 0
}

// c16KeyGlobal decides whether key value v is drawn from an allocator that lives in the same
// object (struct `owner`) as the table. what describes the first non-conforming leaf.
func (cx *c16Ctx) c16KeyGlobal(v ssa.Value, owner *types.Named, depth int, seen map[ssa.Value]bool) (ok bool, what string) {
	v = c16Strip(v)
	if seen[v] {
		return true, ""
	}
	seen[v] = true
	switch x := v.(type) {
	case *ssa.Phi:
		for _, e := range x.Edges {
			if ok, w := cx.c16KeyGlobal(e, owner, depth, seen); !ok {
				return false, w
			}
		}
		return true, ""
	case *ssa.Extract:
		if c, isCall := x.Tuple.(*ssa.Call); isCall {
			return cx.c16CallGlobal(c, x.Index, owner, depth, seen)
		}
	case *ssa.Call:
		return cx.c16CallGlobal(x, 0, owner, depth, seen)
	case *ssa.UnOp:
		if x.Op == token.MUL {
			if f := c16FieldOfOwner(x.X, owner); f != nil {
				if c16CounterField(cx.p, f) {
					cx.noteAlloc(f)
					return true, ""
				}
				return false, "field " + owner.Obj().Name() + "." + f.Name() + " (not a pure counter)"
			}
			if f, _ := kit.LoadedField(x); f != nil {
				return false, "field " + f.Name() + " of another object"
			}
			if a, isAlloc := x.X.(*ssa.Alloc); isAlloc {
				n := 0
				for _, rf := range *a.Referrers() {
					if st, isSt := rf.(*ssa.Store); isSt && st.Addr == a {
						n++
						if ok, w := cx.c16KeyGlobal(st.Val, owner, depth, seen); !ok {
							return false, w
						}
					}
				}
				if n > 0 {
					return true, ""
				}
			}
			if fv, isFV := x.X.(*ssa.FreeVar); isFV {
				// captured variable: every assignment to it, in the function that declares it
				// and in every closure that captures it, must be collision-free
				stores, resolved := c16CapturedStores(fv)
				if resolved && len(stores) > 0 {
					for _, sv := range stores {
						if ok, w := cx.c16KeyGlobal(sv, owner, depth, seen); !ok {
							return false, w
						}
					}
					return true, ""
				}
				return false, "captured variable " + fv.Name()
			}
		}
	case *ssa.BinOp:
		// next := counter + k, stored back into the counter in the same function
		if x.Op == token.ADD {
			if ld, isLd := x.X.(*ssa.UnOp); isLd && ld.Op == token.MUL {
				if f := c16FieldOfOwner(ld.X, owner); f != nil && c16CounterField(cx.p, f) {
					for _, rf := range *x.Referrers() {
						if st, isSt := rf.(*ssa.Store); isSt && st.Val == x && c16FieldOfOwner(st.Addr, owner) == f {
							cx.noteAlloc(f)
							return true, ""
						}
					}
				}
			}
		}
	case *ssa.Parameter:
		return false, "parameter " + x.Name() + " of " + kit.FuncName(x.Parent()) + " (chosen by the caller)"
	case *ssa.Const:
		return false, "constant"
	}
	return false, fmt.Sprintf("%T value", v)
}

// c16CapturedStores returns the values assigned to the variable captured as fv: stores to its
// cell in the declaring function and, through the corresponding free variable, in every closure
// created there (one level of nesting).
func c16CapturedStores(fv *ssa.FreeVar) (vals []ssa.Value, resolved bool) {
	clo := fv.Parent()
	par := clo.Parent()
	if par == nil {
		return nil, false
	}
	idx := -1
	for i, cand := range clo.FreeVars {
		if cand == fv {
			idx = i
		}
	}
	var cell *ssa.Alloc
	for _, f := range kit.WithClosures(par) {
		kit.Instrs(f, func(in ssa.Instruction) {
			if mc, ok := in.(*ssa.MakeClosure); ok && mc.Fn == clo && idx >= 0 && idx < len(mc.Bindings) {
				if a, isA := mc.Bindings[idx].(*ssa.Alloc); isA {
					cell = a
				}
			}
		})
	}
	if cell == nil {
		return nil, false
	}
	for _, rf := range *cell.Referrers() {
		switch x := rf.(type) {
		case *ssa.Store:
			if x.Addr == cell {
				vals = append(vals, x.Val)
			}
		case *ssa.MakeClosure:
			fn, ok := x.Fn.(*ssa.Function)
			if !ok {
				return nil, false
			}
			for i, b := range x.Bindings {
				if b != cell || i >= len(fn.FreeVars) {
					continue
				}
				inner := fn.FreeVars[i]
				for _, rf2 := range *inner.Referrers() {
					switch y := rf2.(type) {
					case *ssa.Store:
						if y.Addr == inner {
							vals = append(vals, y.Val)
						}
					case *ssa.UnOp, *ssa.DebugRef:
					default:
						return nil, false // address escapes further
					}
				}
			}
		case *ssa.UnOp, *ssa.DebugRef:
		default:
			return nil, false
		}
	}
	return vals, true
}

func (cx *c16Ctx) c16CallGlobal(c *ssa.Call, idx int, owner *types.Named, depth int, seen map[ssa.Value]bool) (bool, string) {
	if recv, isAdd := c16IsAtomicAdd(c); isAdd {
		if f := c16FieldOfOwner(recv, owner); f != nil {
			cx.noteAlloc(f)
			return true, ""
		}
		return false, "atomic counter of another object"
	}
	cal := kit.CalleeOf(c)
	if cal.Static != nil && cal.Static.Blocks != nil && kit.IsRepoPkg(kit.FuncPkgPath(cal.Static)) && depth < 2 {
		rets := kit.Returns(cal.Static)
		for _, ret := range rets {
			if ret.Block() == cal.Static.Recover {
				continue
			}
			rv := kit.ReturnResult(ret, idx)
			if rv == nil {
				return false, "call " + cal.String()
			}
			if ok, w := cx.c16KeyGlobal(rv, owner, depth+1, seen); !ok {
				return false, "call " + cal.String() + " → " + w
			}
		}
		if len(rets) > 0 {
			return true, ""
		}
	}
	return false, "call " + cal.String()
}

func (cx *c16Ctx) c16EvalR1(ev *c16Eval) {
	p := cx.p
	ins := p.FieldAccessesOfKind(ev.Field, kit.MapInsert)
	ev.Inserts = len(ins)
	if ev.Composite {
		ev.R1OK, ev.R1Detail = true, "key type carries a peer identity"
		return
	}
	if ev.T.Class == c16Unread {
		// an index nobody reads cannot misroute anything; it becomes a demultiplexing table as
		// soon as non-test code consults it
		for _, acc := range p.FieldAccessesOfKind(ev.Field, kit.MapLookup, kit.MapRange) {
			if len(p.StaticCallers(kit.TopLevel(acc.Fn))) > 0 || cx.hasPeer(acc.Fn) {
				ev.Readers = append(ev.Readers, kit.FuncName(acc.Fn))
			}
		}
		if len(ev.Readers) == 0 {
			ev.R1OK, ev.R1Detail = true, "index is written and deleted but not consulted by any non-test code path"
			return
		}
	}
	var bad []string
	for _, acc := range ins {
		ok, what := cx.c16KeyGlobal(acc.Key, ev.Owner, 0, map[ssa.Value]bool{})
		if !ok {
			bad = append(bad, kit.FuncName(acc.Fn)+": "+what)
		}
	}
	sort.Strings(bad)
	switch {
	case len(ins) == 0:
		ev.R1OK, ev.R1Detail = true, "no insertion"
	case len(bad) == 0:
		ev.R1OK, ev.R1Detail = true, fmt.Sprintf("all %d insertion(s) take the key from an allocator of %s itself", len(ins), ev.Owner.Obj().Name())
	default:
		ev.R1Detail = fmt.Sprintf("key is a bare uint64 that is not drawn from an allocator of %s: %s", ev.Owner.Obj().Name(), strings.Join(c16Head(bad, 3), "; "))
		if len(ev.Readers) > 0 {
			ev.R1Detail += "; consulted by " + strings.Join(c16Head(ev.Readers, 3), ", ")
		}
	}
}

func c16Head(s []string, n int) []string {
	if len(s) > n {
		return append(append([]string{}, s[:n]...), fmt.Sprintf("… (%d more)", len(s)-n))
	}
	return s
}

// ---------------------------------------------------------------------------------------------
// R2 — peer-validated lookups
// ---------------------------------------------------------------------------------------------

// c16Origins maps an entry-typed SSA value to the lookups it may come from.
type c16Origins map[ssa.Value]map[ssa.Value]bool

func (o c16Origins) add(v, origin ssa.Value) bool {
	m := o[v]
	if m == nil {
		m = map[ssa.Value]bool{}
		o[v] = m
	}
	if m[origin] {
		return false
	}
	m[origin] = true
	return true
}

func c16Intersect(a, b map[ssa.Value]bool) bool {
	for k := range a {
		if b[k] {
			return true
		}
	}
	return false
}

type c16R2State struct {
	cx        *c16Ctx
	ev        *c16Eval
	entries   map[*ssa.Function]c16Origins
	accessor  map[*ssa.Function]map[int]bool // peerless function returning entries at these result indices
	operator  map[*ssa.Function]map[int]bool // peerless function that looks up / deletes by the key passed in these parameters
	directFns map[*ssa.Function]bool
	sidePeer  *types.Var // when the entry records several peers: the one that owns this index's id space
}

func (s *c16R2State) ent(fn *ssa.Function) c16Origins {
	o := s.entries[fn]
	if o == nil {
		o = c16Origins{}
		s.entries[fn] = o
	}
	return o
}

// closePhis propagates entry-ness through phis and local variables of fn.
func (s *c16R2State) closeLocal(fn *ssa.Function) {
	o := s.ent(fn)
	for changed := true; changed; {
		changed = false
		kit.Instrs(fn, func(in ssa.Instruction) {
			switch x := in.(type) {
			case *ssa.Phi:
				for _, e := range x.Edges {
					for org := range o[e] {
						if o.add(x, org) {
							changed = true
						}
					}
				}
			case *ssa.Store:
				// local variable holding an entry: its loads are entries too (except the
				// result-spill reloads feeding a Return, handled through kit.ReturnResult)
				a, ok := x.Addr.(*ssa.Alloc)
				if !ok || len(o[x.Val]) == 0 {
					return
				}
				for _, rf := range *a.Referrers() {
					ld, ok := rf.(*ssa.UnOp)
					if !ok || ld.Op != token.MUL || c16OnlyReturned(ld) {
						continue
					}
					for org := range o[x.Val] {
						if o.add(ld, org) {
							changed = true
						}
					}
				}
			}
		})
	}
}

func c16OnlyReturned(v ssa.Value) bool {
	refs := v.Referrers()
	if refs == nil || len(*refs) == 0 {
		return false
	}
	for _, r := range *refs {
		if _, ok := r.(*ssa.Return); !ok {
			return false
		}
	}
	return true
}

func c16EntryType(ev *c16Eval) types.Type {
	return ev.Field.Type().Underlying().(*types.Map).Elem()
}

func (s *c16R2State) collect() {
	p := s.cx.p
	elem := c16EntryType(s.ev)
	for _, acc := range p.FieldAccessesOfKind(s.ev.Field, kit.MapLookup, kit.MapRange) {
		s.directFns[acc.Fn] = true
		o := s.ent(acc.Fn)
		switch x := acc.Instr.(type) {
		case *ssa.Lookup:
			if x.CommaOk {
				for _, rf := range *x.Referrers() {
					if e, ok := rf.(*ssa.Extract); ok && e.Index == 0 {
						o.add(e, x)
					}
				}
			} else {
				o.add(x, x)
			}
		case *ssa.Range:
			for _, rf := range *x.Referrers() {
				nx, ok := rf.(*ssa.Next)
				if !ok {
					continue
				}
				for _, rf2 := range *nx.Referrers() {
					if e, ok := rf2.(*ssa.Extract); ok && e.Index == 2 && types.Identical(e.Type(), elem) {
						o.add(e, nx)
					}
				}
			}
		}
	}
	for fn := range s.entries {
		s.closeLocal(fn)
	}
	// accessors (peerless functions returning entries) and their callers, to a fixed point
	for round := 0; round < 3; round++ {
		var fns []*ssa.Function
		for fn := range s.entries {
			fns = append(fns, fn)
		}
		for _, fn := range fns {
			if s.cx.hasPeer(fn) || fn.Parent() != nil {
				continue
			}
			o := s.entries[fn]
			for _, ret := range kit.Returns(fn) {
				if ret.Block() == fn.Recover {
					continue
				}
				for i := range ret.Results {
					rv := kit.ReturnResult(ret, i)
					for _, leaf := range kit.PhiLeaves(rv) {
						if len(o[leaf]) > 0 || len(o[rv]) > 0 {
							if s.accessor[fn] == nil {
								s.accessor[fn] = map[int]bool{}
							}
							s.accessor[fn][i] = true
						}
					}
				}
			}
		}
		for fn, idxs := range s.accessor {
			nres := fn.Signature.Results().Len()
			for _, site := range p.StaticCallers(fn) {
				call, ok := site.(*ssa.Call)
				if !ok {
					continue
				}
				co := s.ent(call.Parent())
				if nres == 1 && idxs[0] {
					co.add(call, call)
				} else if call.Referrers() != nil {
					for _, rf := range *call.Referrers() {
						if e, ok := rf.(*ssa.Extract); ok && idxs[e.Index] {
							co.add(e, e)
						}
					}
				}
				s.closeLocal(call.Parent())
			}
		}
	}
}

// c16KeyParam: the lookup/delete key is (a conversion of) a parameter of fn → its index in fn.Params.
func c16KeyParam(fn *ssa.Function, key ssa.Value) int {
	key = c16Strip(key)
	for i, p := range fn.Params {
		if ssa.Value(p) == key {
			return i
		}
	}
	return -1
}

// entryUse classifies a referrer of an entry value.
const (
	c16UseExempt = iota
	c16UseOp
)

func (s *c16R2State) useKind(e ssa.Value, u ssa.Instruction) int {
	switch x := u.(type) {
	case *ssa.DebugRef, *ssa.Phi:
		return c16UseExempt
	case *ssa.BinOp:
		if (x.Op == token.EQL || x.Op == token.NEQ) && (kit.IsNilConst(x.X) || kit.IsNilConst(x.Y)) {
			return c16UseExempt
		}
	case *ssa.FieldAddr:
		if f := kit.FieldOfAddr(x); f != nil && c16IsAgentID(f.Type()) && c16CompareOnly(x) {
			return c16UseExempt
		}
	case *ssa.Store:
		if _, ok := x.Addr.(*ssa.Alloc); ok && x.Val == e {
			return c16UseExempt // local copy; its loads are tracked as entries
		}
	case *ssa.Return:
		return c16UseExempt // judged through kit.ReturnResult in returnsOf
	case *ssa.Call:
		if _, _, _, ok := c16PeerPredicate(kit.CalleeOf(x).Static); ok {
			return c16UseExempt // the peer test itself
		}
	}
	return c16UseOp
}

// c16CompareOnly: the field address is only loaded, and the loaded peer id is only compared.
func c16CompareOnly(fa *ssa.FieldAddr) bool {
	for _, r := range *fa.Referrers() {
		ld, ok := r.(*ssa.UnOp)
		if !ok || ld.Op != token.MUL {
			if _, isDbg := r.(*ssa.DebugRef); isDbg {
				continue
			}
			return false
		}
		for _, r2 := range *ld.Referrers() {
			switch y := r2.(type) {
			case *ssa.BinOp:
				if y.Op != token.EQL && y.Op != token.NEQ {
					return false
				}
			case *ssa.Call:
				if !kit.CalleeOf(y).Is("internal/identity", "AgentID", "Equal") {
					return false
				}
			case *ssa.DebugRef:
			default:
				return false
			}
		}
	}
	return true
}

// c16ValidEdge is a CFG edge on which "entry.peerField == sending peer" is known to hold.
type c16ValidEdge struct {
	edge    kit.Edge
	origins map[ssa.Value]bool
}

// entryPeerLoad: v is a load of an AgentID field of an entry value → that entry's origins.
func (s *c16R2State) entryPeerLoad(fn *ssa.Function, v ssa.Value) map[ssa.Value]bool {
	ld, ok := v.(*ssa.UnOp)
	if !ok || ld.Op != token.MUL {
		return nil
	}
	fa, ok := ld.X.(*ssa.FieldAddr)
	if !ok {
		return nil
	}
	f := kit.FieldOfAddr(fa)
	if f == nil || !c16IsAgentID(f.Type()) {
		return nil
	}
	if s.sidePeer != nil && f != s.sidePeer {
		return nil // recorded peer of the other side: says nothing about who owns this id
	}
	return s.entries[fn][fa.X]
}

func (s *c16R2State) validEdges(fn *ssa.Function) []c16ValidEdge {
	var out []c16ValidEdge
	addIfs := func(cond ssa.Value, trueMeansEqual bool, origins map[ssa.Value]bool) {
		type item struct {
			v   ssa.Value
			pos bool
		}
		work := []item{{cond, trueMeansEqual}}
		for len(work) > 0 {
			it := work[0]
			work = work[1:]
			if it.v.Referrers() == nil {
				continue
			}
			for _, r := range *it.v.Referrers() {
				switch y := r.(type) {
				case *ssa.If:
					b := y.Block()
					if len(b.Succs) != 2 || b.Succs[0] == b.Succs[1] {
						continue
					}
					succ := b.Succs[0]
					if !it.pos {
						succ = b.Succs[1]
					}
					out = append(out, c16ValidEdge{kit.Edge{From: b, To: succ}, origins})
				case *ssa.UnOp:
					if y.Op == token.NOT {
						work = append(work, item{y, !it.pos})
					}
				case *ssa.Phi:
					// a && b / a || b evaluated as a value (case clauses of a tagless switch,
					// assignments to a bool): the other edges are the short-circuit constants
					allFalse, allTrue := true, true
					for _, e := range y.Edges {
						if e == it.v {
							continue
						}
						bv, isConst := kit.ConstBool(e)
						if !isConst {
							allFalse, allTrue = false, false
						} else if bv {
							allFalse = false
						} else {
							allTrue = false
						}
					}
					if allFalse && it.pos {
						work = append(work, item{y, true}) // (… && equal) true ⇒ equal
					}
					if allTrue && !it.pos {
						work = append(work, item{y, false}) // (… || notEqual) false ⇒ equal
					}
				}
			}
		}
	}
	kit.Instrs(fn, func(in ssa.Instruction) {
		switch x := in.(type) {
		case *ssa.BinOp:
			if x.Op != token.EQL && x.Op != token.NEQ {
				return
			}
			for _, pair := range [][2]ssa.Value{{x.X, x.Y}, {x.Y, x.X}} {
				if org := s.entryPeerLoad(fn, pair[0]); len(org) > 0 && s.cx.peerValue(pair[1]) {
					addIfs(x, x.Op == token.EQL, org)
				}
			}
		case *ssa.Call:
			if kit.CalleeOf(x).Is("internal/identity", "AgentID", "Equal") && len(x.Call.Args) == 2 {
				a, b := x.Call.Args[0], x.Call.Args[1]
				for _, pair := range [][2]ssa.Value{{a, b}, {b, a}} {
					if org := s.entryPeerLoad(fn, pair[0]); len(org) > 0 && s.cx.peerValue(pair[1]) {
						addIfs(x, true, org)
					}
				}
				return
			}
			// predicate helper: func (e *entry) from(p AgentID) bool { return e.Peer == p }
			if ei, pi, eq, pf, ok := c16PeerPredicateField(kit.CalleeOf(x).Static); ok && ei < len(x.Call.Args) && pi < len(x.Call.Args) && (s.sidePeer == nil || pf == s.sidePeer) {
				if org := s.entries[fn][x.Call.Args[ei]]; len(org) > 0 && s.cx.peerValue(x.Call.Args[pi]) {
					addIfs(x, eq, org)
				}
			}
		}
	})
	return out
}

// c16PeerPredicate recognises a repository function whose only result is the comparison of an
// AgentID field of one parameter with another (AgentID) parameter: returns the two parameter
// indices and whether true means equal.
func c16PeerPredicate(fn *ssa.Function) (entryIdx, peerIdx int, trueMeansEqual, ok bool) {
	entryIdx, peerIdx, trueMeansEqual, _, ok = c16PeerPredicateField(fn)
	return
}

func c16PeerPredicateField(fn *ssa.Function) (entryIdx, peerIdx int, trueMeansEqual bool, field *types.Var, ok bool) {
	if fn == nil || fn.Blocks == nil || fn.Signature.Results().Len() != 1 || !kit.IsRepoPkg(kit.FuncPkgPath(fn)) {
		return 0, 0, false, nil, false
	}
	rets := kit.Returns(fn)
	if len(rets) != 1 || len(rets[0].Results) != 1 {
		return 0, 0, false, nil, false
	}
	v, pos := rets[0].Results[0], true
	for {
		u, isNot := v.(*ssa.UnOp)
		if !isNot || u.Op != token.NOT {
			break
		}
		v, pos = u.X, !pos
	}
	var a, b ssa.Value
	switch x := v.(type) {
	case *ssa.BinOp:
		if x.Op != token.EQL && x.Op != token.NEQ {
			return 0, 0, false, nil, false
		}
		a, b = x.X, x.Y
		if x.Op == token.NEQ {
			pos = !pos
		}
	case *ssa.Call:
		if !kit.CalleeOf(x).Is("internal/identity", "AgentID", "Equal") || len(x.Call.Args) != 2 {
			return 0, 0, false, nil, false
		}
		a, b = x.Call.Args[0], x.Call.Args[1]
	default:
		return 0, 0, false, nil, false
	}
	paramIdx := func(v ssa.Value) int {
		for i, pa := range fn.Params {
			if ssa.Value(pa) == v {
				return i
			}
		}
		return -1
	}
	for _, pair := range [][2]ssa.Value{{a, b}, {b, a}} {
		f, base := kit.LoadedField(pair[0])
		if f == nil || !c16IsAgentID(f.Type()) {
			continue
		}
		ei, pi := paramIdx(base), paramIdx(pair[1])
		if ei >= 0 && pi >= 0 && c16IsAgentID(fn.Params[pi].Type()) {
			return ei, pi, pos, f, true
		}
	}
	return 0, 0, false, nil, false
}

// computeOperators finds peerless functions that act on the table by a key they are handed.
func (s *c16R2State) computeOperators() {
	p := s.cx.p
	mark := func(fn *ssa.Function, idx int) bool {
		if s.operator[fn] == nil {
			s.operator[fn] = map[int]bool{}
		}
		if s.operator[fn][idx] {
			return false
		}
		s.operator[fn][idx] = true
		return true
	}
	for _, acc := range p.FieldAccessesOfKind(s.ev.Field, kit.MapLookup, kit.MapDelete) {
		fn := acc.Fn
		if s.cx.hasPeer(fn) || fn.Parent() != nil {
			continue
		}
		idx := c16KeyParam(fn, acc.Key)
		if idx < 0 {
			continue
		}
		if acc.Kind == kit.MapDelete {
			mark(fn, idx)
			continue
		}
		// lookup by parameter: operator if the entry is used inside beyond nil test / return
		for v := range s.entries[fn] {
			if v.Referrers() == nil {
				continue
			}
			for _, u := range *v.Referrers() {
				if s.useKind(v, u) == c16UseOp {
					mark(fn, idx)
				}
			}
		}
	}
	for round := 0; round < 3; round++ {
		for fn, idxs := range s.operator {
			for _, site := range p.StaticCallers(fn) {
				caller := site.Parent()
				if s.cx.hasPeer(caller) || caller.Parent() != nil {
					continue
				}
				args := site.Common().Args
				for idx := range idxs {
					if idx < len(args) {
						if k := c16KeyParam(caller, args[idx]); k >= 0 {
							mark(caller, k)
						}
					}
				}
			}
		}
	}
}

// ownKey: the key is data of the table itself — a field of a value of the table's entry type
// (the use of that entry is judged where it was looked up) or the key of a range over a map.
func (s *c16R2State) ownKey(key ssa.Value) bool {
	key = c16Strip(key)
	if _, base := kit.LoadedField(key); base != nil && types.Identical(base.Type(), c16EntryType(s.ev)) {
		return true
	}
	if e, ok := key.(*ssa.Extract); ok && e.Index == 1 {
		if _, isNext := e.Tuple.(*ssa.Next); isNext {
			return true
		}
	}
	return false
}

type c16Op struct {
	blk     *ssa.BasicBlock // where the (unvalidated) value must not arrive
	to      *ssa.BasicBlock // for a phi edge: the block the value flows on to (the edge blk→to may itself validate)
	in      ssa.Instruction
	origins map[ssa.Value]bool // nil: keyed operation (any validated entry of the table counts)
	what    string
}

func (s *c16R2State) opsOf(fn *ssa.Function) []c16Op {
	var ops []c16Op
	o := s.entries[fn]
	// deterministic order over entry values
	var vals []ssa.Value
	for v := range o {
		vals = append(vals, v)
	}
	sort.Slice(vals, func(i, j int) bool {
		return vals[i].Pos() < vals[j].Pos() || (vals[i].Pos() == vals[j].Pos() && vals[i].Name() < vals[j].Name())
	})
	// flow(v, at): the places where v, as it arrives at block `at`, must already be validated. A
	// phi is judged edge by edge (the value that flows in from a predecessor must have been
	// validated on the way to that predecessor), so "entry = up" in one arm and "entry = down" in
	// another are each held against their own comparison.
	var flow func(v ssa.Value, at, to *ssa.BasicBlock, u ssa.Instruction, what string, seen map[ssa.Value]bool)
	flow = func(v ssa.Value, at, to *ssa.BasicBlock, u ssa.Instruction, what string, seen map[ssa.Value]bool) {
		if phi, isPhi := v.(*ssa.Phi); isPhi {
			if seen[v] {
				return
			}
			seen[v] = true
			for i, e := range phi.Edges {
				if len(o[e]) > 0 && i < len(phi.Block().Preds) {
					flow(e, phi.Block().Preds[i], phi.Block(), u, what, seen)
				}
			}
			return
		}
		// a local variable (named result, captured or address-taken local): judge each
		// assignment that can still be the current one where it was made
		if ld, isLd := v.(*ssa.UnOp); isLd && ld.Op == token.MUL {
			if a, isAlloc := ld.X.(*ssa.Alloc); isAlloc {
				if seen[v] {
					return
				}
				seen[v] = true
				stores := map[ssa.Instruction]bool{}
				for _, rf := range *a.Referrers() {
					if st, isSt := rf.(*ssa.Store); isSt && st.Addr == a {
						stores[st] = true
					}
				}
				found := false
				for sti := range stores {
					st := sti.(*ssa.Store)
					if len(o[st.Val]) == 0 {
						continue
					}
					others := map[ssa.Instruction]bool{}
					for x := range stores {
						if x != sti {
							others[x] = true
						}
					}
					if kit.CanReachAvoiding(st, ld, others) {
						found = true
						flow(st.Val, st.Block(), nil, u, what, seen)
					}
				}
				if found {
					return
				}
			}
		}
		ops = append(ops, c16Op{at, to, u, o[v], what})
	}
	for _, v := range vals {
		if v.Referrers() == nil {
			continue
		}
		for _, u := range *v.Referrers() {
			if s.useKind(v, u) == c16UseOp {
				flow(v, u.Block(), nil, u, "entry used", map[ssa.Value]bool{})
			}
		}
	}
	for _, ret := range kit.Returns(fn) {
		if ret.Block() == fn.Recover {
			continue
		}
		for i := range ret.Results {
			rv := kit.ReturnResult(ret, i)
			if org := o[rv]; len(org) > 0 {
				flow(rv, ret.Block(), nil, ret, "entry returned", map[ssa.Value]bool{})
			}
		}
	}
	kit.Instrs(fn, func(in ssa.Instruction) {
		c, ok := in.(ssa.CallInstruction)
		if !ok {
			return
		}
		cal := kit.CalleeOf(c)
		if cal.Built == "delete" && len(c.Common().Args) == 2 && !s.ownKey(c.Common().Args[1]) {
			for _, leaf := range kit.PhiLeaves(c.Common().Args[0]) {
				if f, _ := kit.LoadedField(leaf); f == s.ev.Field {
					ops = append(ops, c16Op{in.Block(), nil, in, nil, "keyed delete"})
				}
			}
		}
		if cal.Static != nil && len(s.operator[cal.Static]) > 0 {
			ops = append(ops, c16Op{in.Block(), nil, in, nil, "call of " + kit.FuncName(cal.Static)})
		}
	})
	return ops
}

func (cx *c16Ctx) c16EvalR2(ev *c16Eval) {
	s := &c16R2State{cx: cx, ev: ev, entries: map[*ssa.Function]c16Origins{}, accessor: map[*ssa.Function]map[int]bool{},
		operator: map[*ssa.Function]map[int]bool{}, directFns: map[*ssa.Function]bool{}}
	s.sidePeer = cx.c16SidePeer(ev)
	ev.SidePeer = s.sidePeer
	ev.R2BadFns, ev.R2Ops = nil, 0
	s.collect()
	s.computeOperators()
	// candidate functions: every peer-aware function that holds an entry, deletes by key or calls an operator
	cand := map[*ssa.Function]bool{}
	for fn := range s.entries {
		cand[fn] = true
	}
	for _, acc := range cx.p.FieldAccessesOfKind(ev.Field, kit.MapDelete) {
		cand[acc.Fn] = true
	}
	for fn := range s.operator {
		for _, site := range cx.p.StaticCallers(fn) {
			cand[site.Parent()] = true
		}
	}
	var fns []*ssa.Function
	for fn := range cand {
		if cx.hasPeer(fn) && len(fn.Blocks) > 0 {
			fns = append(fns, fn)
		}
	}
	sort.Slice(fns, func(i, j int) bool { return kit.FuncName(fns[i]) < kit.FuncName(fns[j]) })
	var bad []string
	for _, fn := range fns {
		ops := s.opsOf(fn)
		if len(ops) == 0 {
			continue
		}
		edges := s.validEdges(fn)
		fnBad := map[string]bool{}
		for _, op := range ops {
			ev.R2Ops++
			blocked := map[kit.Edge]bool{}
			for _, ve := range edges {
				if op.origins == nil || c16Intersect(op.origins, ve.origins) {
					blocked[ve.edge] = true
				}
			}
			if kit.Reach(fn.Blocks[0], blocked, nil)[op.blk] && (op.to == nil || !blocked[kit.Edge{From: op.blk, To: op.to}]) {
				fnBad[op.what] = true
			}
		}
		if len(fnBad) > 0 {
			var ws []string
			for w := range fnBad {
				ws = append(ws, w)
			}
			sort.Strings(ws)
			ev.R2BadFns = append(ev.R2BadFns, fn)
			side := "the entry's recorded peer"
			if s.sidePeer != nil {
				side = "the entry's " + s.sidePeer.Name() + " (the peer whose connection numbered this index)"
			}
			bad = append(bad, kit.FuncName(fn)+" ("+strings.Join(ws, ", ")+" without comparing "+side+" with the sending peer)")
		}
	}
	if len(bad) == 0 {
		ev.R2OK = true
		ev.R2Detail = fmt.Sprintf("%d frame-driven use(s) in %d peer-aware function(s), each reachable only through a recorded-peer == sending-peer edge", ev.R2Ops, len(fns))
		return
	}
	ev.R2Detail = "a frame from one peer acts on another peer's entry: " + strings.Join(c16Head(bad, 4), "; ")
}

// ---------------------------------------------------------------------------------------------
// R3 — insertion does not clobber
// ---------------------------------------------------------------------------------------------

func c16SameKey(a, b ssa.Value) bool {
	a, b = c16Strip(a), c16Strip(b)
	if a == b {
		return true
	}
	fa, ba := kit.LoadedField(a)
	fb, bb := kit.LoadedField(b)
	if fa != nil && fa == fb && ba == bb {
		return true
	}
	// composite-literal keys / struct values: compare field-wise when both are loads of fresh allocs — not needed for uint64
	return false
}

// c16AbsentGuard: g establishes "key is absent from the table field" for the insertion.
func c16AbsentGuard(g kit.Guard, field *types.Var, key ssa.Value) (ssa.Instruction, bool) {
	cond, pol := g.Cond, g.Polarity
	for {
		u, ok := cond.(*ssa.UnOp)
		if !ok || u.Op != token.NOT {
			break
		}
		cond, pol = u.X, !pol
	}
	isLookup := func(v ssa.Value) *ssa.Lookup {
		lk, ok := v.(*ssa.Lookup)
		if !ok {
			return nil
		}
		for _, leaf := range kit.PhiLeaves(lk.X) {
			if f, _ := kit.LoadedField(leaf); f == field && c16SameKey(lk.Index, key) {
				return lk
			}
		}
		return nil
	}
	switch x := cond.(type) {
	case *ssa.Extract:
		if lk := isLookup(x.Tuple); lk != nil && lk.CommaOk && x.Index == 1 && !pol {
			return lk, true
		}
	case *ssa.BinOp:
		if x.Op != token.EQL && x.Op != token.NEQ {
			return nil, false
		}
		var other ssa.Value
		if kit.IsNilConst(x.Y) {
			other = x.X
		} else if kit.IsNilConst(x.X) {
			other = x.Y
		} else {
			return nil, false
		}
		var lk *ssa.Lookup
		if e, ok := other.(*ssa.Extract); ok && e.Index == 0 {
			lk = isLookup(e.Tuple)
		} else {
			lk = isLookup(other)
		}
		if lk != nil && (x.Op == token.EQL) == pol {
			return lk, true
		}
	}
	return nil, false
}

func (cx *c16Ctx) c16EvalR3(ev *c16Eval) {
	var bad []string
	ins := cx.p.FieldAccessesOfKind(ev.Field, kit.MapInsert)
	for _, acc := range ins {
		ok := false
		li := kit.Locks(acc.Fn)
		for _, g := range kit.GuardsOf(acc.Instr) {
			lk, isAbs := c16AbsentGuard(g, ev.Field, acc.Key)
			if !isAbs {
				continue
			}
			held := li.AnyHeldAt(acc.Instr)
			same := true
			for _, mu := range held {
				if !li.SameRegion(lk, acc.Instr, mu) {
					same = false
				}
			}
			if same {
				ok = true
			}
		}
		if !ok {
			bad = append(bad, kit.FuncName(acc.Fn))
		}
	}
	sort.Strings(bad)
	if len(bad) == 0 {
		ev.R3OK, ev.R3Detail = true, fmt.Sprintf("%d insertion(s), each dominated by a key-absent test in the same lock region", len(ins))
		return
	}
	ev.R3Detail = "insertion overwrites whatever entry another peer registered under the same number (no key-absent test): " + strings.Join(c16Head(bad, 4), "; ")
}

// c16SidePeer: for a table whose entries record more than one peer (the relay entry has an
// upstream and a downstream peer) only one of them owns the id space of a given index: the peer
// on whose connection the index key was numbered. It is derived from the places that build an
// entry: the key field filled from the received frame pairs with the peer field filled with the
// sending peer; the key field filled by a call on a connection pairs with the peer field filled
// with the value that connection was obtained for. Falls back to the longest common field-name
// prefix. Returns nil when the entry records at most one peer (nothing to tell apart).
func (cx *c16Ctx) c16SidePeer(ev *c16Eval) *types.Var {
	pt, ok := c16EntryType(ev).(*types.Pointer)
	if !ok {
		return nil
	}
	named, _ := pt.Elem().(*types.Named)
	st, ok := pt.Elem().Underlying().(*types.Struct)
	if !ok || named == nil {
		return nil
	}
	var peers, ids []*types.Var
	for i := 0; i < st.NumFields(); i++ {
		f := st.Field(i)
		if c16IsAgentID(f.Type()) {
			peers = append(peers, f)
		} else if b, isB := f.Type().Underlying().(*types.Basic); isB && b.Kind() == types.Uint64 {
			ids = append(ids, f)
		}
	}
	if len(peers) < 2 {
		return nil
	}
	// the entry field this index is keyed by
	var keyField *types.Var
	for _, acc := range cx.p.FieldAccessesOfKind(ev.Field, kit.MapInsert) {
		if f, base := kit.LoadedField(c16Strip(acc.Key)); f != nil && base != nil && types.Identical(base.Type(), c16EntryType(ev)) {
			keyField = f
		}
	}
	if keyField == nil {
		return nil
	}
	votes := map[*types.Var]int{}
	for _, fn := range cx.p.RepoFuncs() {
		kit.Instrs(fn, func(in ssa.Instruction) {
			a, isAlloc := in.(*ssa.Alloc)
			if !isAlloc || !types.Identical(a.Type(), c16EntryType(ev)) {
				return
			}
			vals := map[*types.Var]ssa.Value{}
			for _, rf := range *a.Referrers() {
				fa, isFA := rf.(*ssa.FieldAddr)
				if !isFA {
					continue
				}
				for _, rf2 := range *fa.Referrers() {
					if stv, isSt := rf2.(*ssa.Store); isSt && stv.Addr == fa {
						vals[kit.FieldOfAddr(fa)] = stv.Val
					}
				}
			}
			kv := vals[keyField]
			if kv == nil {
				return
			}
			kv = c16Strip(kv)
			for _, pf := range peers {
				pv := vals[pf]
				if pv == nil {
					continue
				}
				// key read from the received frame ↔ peer field holding the sender
				if _, base := kit.LoadedField(kv); base != nil && c16IsFramePtr(base.Type()) && cx.peerValue(pv) {
					votes[pf]++
				}
				// key allocated on a connection ↔ peer field holding what that connection was looked up by
				if c, _, isCall := kit.ResultOf(kv); isCall {
					if recv := kit.Receiver(c); recv != nil {
						if c2, _, isCall2 := kit.ResultOf(recv); isCall2 {
							for _, arg := range c2.Call.Args {
								if arg == pv {
									votes[pf]++
								}
							}
						}
					}
				}
			}
		})
	}
	var best *types.Var
	for pf, n := range votes {
		if best == nil || n > votes[best] {
			best = pf
		} else if n == votes[best] {
			best = nil
		}
	}
	if best != nil {
		return best
	}
	// fallback: longest common name prefix between the key field and a peer field
	bestLen := 2
	for _, pf := range peers {
		n := 0
		for n < len(pf.Name()) && n < len(keyField.Name()) && pf.Name()[n] == keyField.Name()[n] {
			n++
		}
		if n > bestLen {
			best, bestLen = pf, n
		} else if n == bestLen {
			best = nil
		}
	}
	return best
}

// c16IsWireID: v is a stream or request id as it travels on the wire: a uint64 field of a
// protocol message/frame, the result of a uint64-returning method of a peer connection or
// stream-id allocator, or a parameter / stored field fed from one of those (three levels).
func (cx *c16Ctx) c16IsWireID(v ssa.Value, depth int, seen map[ssa.Value]bool) bool {
	isU64 := func(t types.Type) bool {
		b, ok := t.Underlying().(*types.Basic)
		return ok && b.Kind() == types.Uint64
	}
	for {
		cv, ok := v.(*ssa.Convert)
		if !ok || !isU64(cv.X.Type()) {
			break
		}
		v = cv.X
	}
	if v == nil || seen[v] || depth > 3 || !isU64(v.Type()) {
		return false
	}
	seen[v] = true
	pkgOf := func(t types.Type) string {
		if pt, ok := t.(*types.Pointer); ok {
			t = pt.Elem()
		}
		if n, ok := t.(*types.Named); ok && n.Obj().Pkg() != nil {
			return n.Obj().Pkg().Path()
		}
		return ""
	}
	switch x := v.(type) {
	case *ssa.Phi:
		for _, e := range x.Edges {
			if cx.c16IsWireID(e, depth, seen) {
				return true
			}
		}
	case *ssa.Extract:
		if c, ok := x.Tuple.(*ssa.Call); ok {
			return cx.c16IsWireID(c, depth, seen) || cx.wireCall(c)
		}
	case *ssa.Call:
		return cx.wireCall(x)
	case *ssa.Parameter:
		for _, site := range cx.p.StaticCallers(x.Parent()) {
			for i, pa := range x.Parent().Params {
				if pa == x && i < len(site.Common().Args) && cx.c16IsWireID(site.Common().Args[i], depth+1, seen) {
					return true
				}
			}
		}
	case *ssa.UnOp:
		if x.Op != token.MUL {
			return false
		}
		if a, ok := x.X.(*ssa.Alloc); ok {
			for _, rf := range *a.Referrers() {
				if st, isSt := rf.(*ssa.Store); isSt && st.Addr == a && cx.c16IsWireID(st.Val, depth, seen) {
					return true
				}
			}
			return false
		}
		if fv, ok := x.X.(*ssa.FreeVar); ok {
			vals, _ := c16CapturedStores(fv)
			for _, sv := range vals {
				if cx.c16IsWireID(sv, depth, seen) {
					return true
				}
			}
			return false
		}
		f, base := kit.LoadedField(x)
		if f == nil {
			return false
		}
		if pkgOf(base.Type()) == kit.PkgPath("internal/protocol") {
			return true
		}
		for _, acc := range cx.p.FieldAccessesOfKind(f, kit.FieldStore) {
			if cx.c16IsWireID(acc.Val, depth+1, seen) {
				return true
			}
		}
	}
	return false
}

// wireCall: a uint64-returning method of a peer connection / transport allocator (stream ids).
func (cx *c16Ctx) wireCall(c *ssa.Call) bool {
	cal := kit.CalleeOf(c)
	if cal.Recv == "" {
		return false
	}
	return cal.Pkg == kit.PkgPath("internal/peer") || cal.Pkg == kit.PkgPath("internal/transport")
}

// c16Evaluate runs the three rules on one table.
func (cx *c16Ctx) c16Evaluate(ev *c16Eval) {
	cx.c16EvalR1(ev)
	if ev.R1OK {
		ev.R2OK, ev.R2Detail = true, "not applicable: keys are collision-free (R1)"
		ev.R3OK, ev.R3Detail = true, "not applicable: keys are collision-free (R1)"
		return
	}
	cx.c16EvalR2(ev)
	cx.c16EvalR3(ev)
}

// c16DispatchOrder (R4): in the per-frame dispatchers of the stream family the peer-validated
// relay lookup comes first; a table keyed by the bare numeric id (exit, forward, file, shell,
// stream-manager tables — known findings of R1) may only be consulted after it. Otherwise, on an
// agent that is transit and exit at once, a relayed tunnel's frame whose number equals a local
// connection's number is handed to the local handler. HEAD's UDP/ICMP dispatchers use the
// other order (that is part of the composite-key findings), so the rule is decided as sibling
// agreement among the stream-family handlers: the order kept by at least one sibling must be
// kept by all of them.
func (cx *c16Ctx) c16DispatchOrder(r *kit.Report, evs []*c16Eval) {
	p := cx.p
	r.Rule("C16.R4", "dispatch precedence: in every stream-family frame handler that consults both, the peer-validated relay lookup dominates every consultation of a table keyed by the bare stream id (decided as agreement among the sibling handlers)")
	_, arms := c17FrameDispatch(p)
	if len(arms) == 0 {
		return // C17 reports the missing dispatcher
	}
	relayFns, bareFns := map[*ssa.Function]bool{}, map[*ssa.Function]bool{}
	bareField := map[*types.Var]bool{}
	for _, ev := range evs {
		if ev.T.Prop != "C16" || ev.Composite {
			continue
		}
		isRelay := ev.T.Type == "relayTable"
		if !isRelay && ev.T.Class != c16PerConn && ev.T.Class != c16Unlisted {
			continue
		}
		if !isRelay {
			bareField[ev.Field] = true
		}
		for _, acc := range p.FieldAccessesOfKind(ev.Field, kit.MapLookup, kit.MapDelete) {
			if isRelay {
				if acc.Kind == kit.MapLookup {
					relayFns[kit.TopLevel(acc.Fn)] = true
				}
			} else {
				bareFns[kit.TopLevel(acc.Fn)] = true
			}
		}
	}
	reachOf := func(seed map[*ssa.Function]bool) map[*ssa.Function]bool {
		out := map[*ssa.Function]bool{}
		for f := range seed {
			out[f] = true
		}
		for round := 0; round < 2; round++ {
			for f := range out {
				for _, site := range p.StaticCallers(f) {
					out[kit.TopLevel(site.Parent())] = true
				}
			}
		}
		return out
	}
	relayReach, bareReach := reachOf(relayFns), reachOf(bareFns)
	type verdict struct {
		h    *ssa.Function
		name string
		ok   bool
		bad  string
	}
	var vs []verdict
	var names []string
	for name := range arms {
		if strings.HasPrefix(name, "Stream") {
			names = append(names, name)
		}
	}
	sort.Strings(names)
	for _, name := range names {
		h := arms[name]
		var rs, bs []ssa.Instruction
		kit.Instrs(h, func(in ssa.Instruction) {
			switch x := in.(type) {
			case *ssa.Lookup:
				for _, leaf := range kit.PhiLeaves(x.X) {
					if f, _ := kit.LoadedField(leaf); f != nil && bareField[f] {
						bs = append(bs, in)
					}
				}
			case ssa.CallInstruction:
				cal := kit.CalleeOf(x)
				if cal.Static == nil || cal.Static == h {
					return
				}
				inR, inB := relayReach[cal.Static], bareReach[cal.Static]
				if inR && !inB {
					rs = append(rs, in)
				} else if inB && !inR {
					bs = append(bs, in)
				}
			}
		})
		if len(rs) == 0 || len(bs) == 0 {
			continue
		}
		v := verdict{h: h, name: name, ok: true}
		for _, b := range bs {
			dominated := false
			for _, rr := range rs {
				if kit.Precedes(rr, b) {
					dominated = true
				}
			}
			if !dominated {
				v.ok = false
				v.bad = p.Pos(b.Pos())
			}
		}
		vs = append(vs, v)
	}
	agree := 0
	for _, v := range vs {
		if v.ok {
			agree++
		}
	}
	r.Count("stream_dispatchers_consulting_relay_and_bare_tables", len(vs))
	for _, v := range vs {
		key := kit.FuncName(v.h) + " relay lookup first"
		switch {
		case v.ok:
			r.OK("C16.R4", key, p.Pos(v.h.Pos()), "every bare-id table consultation in the handler of %s is dominated by the peer-validated relay lookup", v.name)
		case agree > 0:
			r.Violation("C16.R4", key, v.bad, "the handler of %s consults a table keyed by the bare stream id (at %s) before the peer-validated relay lookup has missed, unlike its %d sibling handler(s): on an agent that is transit and exit at once a relayed tunnel's frame whose number equals a local connection's number is handed to the local handler — bytes, closes and resets of one tunnel reach another", v.name, v.bad, agree)
		default:
			r.Infof("C16.R4", key, p.Pos(v.h.Pos()), "no stream-family handler consults the relay table first: no order to agree on")
		}
	}
}

func runC16(p *kit.Program, r *kit.Report) {
	r.Rule("C16.R1", "collision-free keys: the key of a demultiplexing table carries a peer identity, or every insertion draws it from an allocator that lives in the same object as the table (never a bare per-connection stream id or a requester-chosen id)")
	r.Rule("C16.R2", "peer-validated lookups: where R1 fails, every use of a looked-up entry, keyed deletion or keyed helper call in a function that knows the sending peer is reachable only through an edge on which the entry's recorded peer equals that peer")
	r.Rule("C16.R3", "insert does not clobber: where R1 fails, every insertion is dominated by a key-absent test on the same key in the same lock region")
	cx := c16NewCtx(p)
	r.Count("frame_driven_functions", len(cx.frameDriven))
	evs := c16ResolveTables(p, r)
	n := 0
	for _, ev := range evs {
		if ev.T.Prop != "C16" {
			continue
		}
		if ev.T.Class == c16Unlisted {
			// a table nobody classified: decide from what the code does with it
			cx.c16EvalR1(ev)
			frameOps := 0
			if !ev.R1OK {
				cx.c16EvalR2(ev)
				frameOps = ev.R2Ops
			}
			wire := false
			for _, acc := range p.FieldAccessesOfKind(ev.Field, kit.MapInsert) {
				if cx.c16IsWireID(acc.Key, 0, map[ssa.Value]bool{}) {
					wire = true
				}
			}
			record := false
			switch c16EntryType(ev).Underlying().(type) {
			case *types.Pointer, *types.Struct, *types.Interface, *types.Chan, *types.Signature, *types.Slice, *types.Map:
				record = true
			}
			switch {
			case ev.R1OK:
				r.Infof("C16.R1", ev.Name, ev.Pos, "unlisted map[uint64] table, keys collision-free: %s", ev.R1Detail)
			case !wire || !record:
				r.Infof("C16.R1", ev.Name, ev.Pos, "unlisted map[uint64] table that does not map a stream/request id to a per-tunnel record (key from the wire: %v, record-valued: %v): not a demultiplexing table", wire, record)
			case frameOps == 0:
				r.Infof("C16.R1", ev.Name, ev.Pos, "unlisted map[uint64] table keyed by a bare id but never looked up, deleted from or handed out on behalf of a received frame: not a demultiplexing table (%s)", ev.R1Detail)
			default:
				r.Violation("C16.R1", ev.Name, ev.Pos, "new demultiplexing table keyed by a bare id: %s; it is consulted on behalf of received frames (%d use(s)), so two peers that use the same number share one slot: frames, closes and resets of one tunnel reach the other", ev.R1Detail, frameOps)
			}
			r.Count("unlisted_tables_judged", 1)
			continue
		}
		n++
		cx.c16Evaluate(ev)
		cons := "two peers that use the same number share one slot: frames, closes and resets of one tunnel reach the other"
		r.Decide(ev.R1OK, "C16.R1", ev.Name, ev.Pos, ev.R1Detail, ev.R1Detail+" ("+ev.T.Class+": "+ev.T.Reason+"); "+cons)
		r.Decide(ev.R2OK, "C16.R2", ev.Name, ev.Pos, ev.R2Detail, ev.R2Detail)
		r.Decide(ev.R3OK, "C16.R3", ev.Name, ev.Pos, ev.R3Detail, ev.R3Detail+"; the first tunnel's record is orphaned and its frames are delivered to the second")
		r.Count("insert_sites", ev.Inserts)
		r.Count("frame_driven_uses_examined", ev.R2Ops)
	}
	cx.c16DispatchOrder(r, evs)
	r.Count("tables_evaluated", n)
	r.Require(n >= 12, "floor: fewer than 12 C16 tables resolved (%d)", n)
	// positive floor: the relay table must expose peer-validated uses, otherwise R2 sees nothing
	for _, ev := range evs {
		if ev.T.Type == "relayTable" && !ev.R1OK {
			r.Require(ev.R2Ops >= 4, "floor: only %d frame-driven uses of %s found (expected the relay handlers)", ev.R2Ops, ev.Name)
		}
	}
}
