package rules

import (
	"fmt"
	"go/token"
	"go/types"
	"sort"
	"strings"

	"golang.org/x/tools/go/ssa"

	"mmverify/kit"
)

func init() {
	const ag = "internal/agent/agent.go"
	const fl = "internal/flood/flood.go"
	const fr = "internal/protocol/frame.go"
	register(&Check{
		ID: "C28", Level: "other",
		Explain:   "Decides that every call of (*sleep.Manager).Sleep/Wake, every construction of a SLEEP/WAKE_COMMAND frame and every store of a pending wake command that the call graph reaches from the agent's wire-command decoders is dominated (in its function, or at all of its in-scope callers) by a successful result of a verifying predicate; that Flooder.HandleSleepCommand/HandleWakeCommand can return true only after the verifier returned nil; that the verifier (the flood function calling crypto.Verify), evaluated abstractly with a key configured, rejects every out-of-window timestamp and every invalid signature, and hands crypto.Verify the configured key, the command's SignableBytes and its Signature; that SignableBytes reads origin, id and timestamp and crypto.Verify is ed25519.Verify; and that the agent passes the configured public key into the flooder it constructs. Ed25519 unforgeability is trusted; command freshness (replay) is C29.",
		Technique: "call-graph scoping + dominance by verification guards; finite truth table of the verifier by path-sensitive abstract evaluation; provenance of crypto.Verify arguments",
		Run:       runC28,
		SelfTests: []SelfTest{
			{Name: "queued sleep applied without verification", ExpectRule: "C28.R1", ExpectKey: "handleQueuedState", Edits: []Edit{
				{File: ag, Old: "state.SleepCmd != nil && a.sleepMgr != nil && a.flooder.HandleSleepCommand(peerID, state.SleepCmd)", New: "state.SleepCmd != nil && a.sleepMgr != nil"},
			}},
			{Name: "queued wake applied when verification fails", ExpectRule: "C28.R1", ExpectKey: "handleQueuedState", Edits: []Edit{
				{File: ag, Old: "state.WakeCmd != nil && a.sleepMgr != nil && a.flooder.HandleWakeCommand(peerID, state.WakeCmd)", New: "state.WakeCmd != nil && a.sleepMgr != nil && !a.flooder.HandleWakeCommand(peerID, state.WakeCmd)"},
			}},
			{Name: "Sleep() before HandleSleepCommand", ExpectRule: "C28.R1", ExpectKey: "handleSleepCommand", Edits: []Edit{
				{File: ag, Old: "\t// Process through flooder for deduplication and forwarding\n\tif !a.flooder.HandleSleepCommand(peerID, cmd) {\n\t\treturn\n\t}\n", New: "\tif a.sleepMgr != nil {\n\t\ta.sleepMgr.Sleep()\n\t}\n\tif !a.flooder.HandleSleepCommand(peerID, cmd) {\n\t\treturn\n\t}\n"},
			}},
			{Name: "wake handler ignores the flooder's verdict", ExpectRule: "C28.R1", ExpectKey: "handleWakeCommand", Edits: []Edit{
				{File: ag, Old: "\tif !a.flooder.HandleWakeCommand(peerID, cmd) {\n\t\treturn\n\t}\n", New: "\ta.flooder.HandleWakeCommand(peerID, cmd)\n"},
			}},
			{Name: "verification failure only logged", ExpectRule: "C28.R2", ExpectKey: "HandleSleepCommand", Edits: []Edit{
				{File: fl, Old: "\t\t\tlogging.KeyError, err)\n\t\treturn false\n\t}\n\n\t// Only an authenticated command is recorded as seen: marking before", New: "\t\t\tlogging.KeyError, err)\n\t}\n\n\t// Only an authenticated command is recorded as seen: marking before"},
			}},
			{Name: "wake forwarded before verification", ExpectRule: "C28.R2", ExpectKey: "floodWakeCommand", Edits: []Edit{
				{File: fl, Old: "\t// Verify signature if signing key is configured\n\tif err := f.verifyWakeCommand(cmd); err != nil {", New: "\tf.floodWakeCommand(fromPeer, cmd, append(cmd.SeenBy, f.localID))\n\tif err := f.verifyWakeCommand(cmd); err != nil {"},
			}},
			{Name: "future timestamps unbounded (abs dropped)", ExpectRule: "C28.R3", ExpectKey: "HandleSleepCommand", Edits: []Edit{
				{File: fl, Old: "\tif timeDiff < 0 {\n\t\ttimeDiff = -timeDiff\n\t}\n\tif timeDiff > f.timestampWindow {\n\t\treturn fmt.Errorf(\"timestamp outside validity window (%v old, max %v)\", timeDiff, f.timestampWindow)\n\t}\n\n\t// Verify Ed25519 signature\n\tif !crypto.Verify(*f.signingPubKey, cmd.SignableBytes(), cmd.Signature) {\n\t\treturn fmt.Errorf(\"signature verification failed\")\n\t}\n\n\treturn nil\n}\n\n// verifyWakeCommand", New: "\tif timeDiff > f.timestampWindow {\n\t\treturn fmt.Errorf(\"timestamp outside validity window (%v old, max %v)\", timeDiff, f.timestampWindow)\n\t}\n\n\t// Verify Ed25519 signature\n\tif !crypto.Verify(*f.signingPubKey, cmd.SignableBytes(), cmd.Signature) {\n\t\treturn fmt.Errorf(\"signature verification failed\")\n\t}\n\n\treturn nil\n}\n\n// verifyWakeCommand"},
			}},
			{Name: "window comparison inverted", ExpectRule: "C28.R3", ExpectKey: "HandleWakeCommand", Edits: []Edit{
				{File: fl, Old: "\tif timeDiff > f.timestampWindow {\n\t\treturn fmt.Errorf(\"timestamp outside validity window (%v old, max %v)\", timeDiff, f.timestampWindow)\n\t}\n\n\t// Verify Ed25519 signature\n\tif !crypto.Verify(*f.signingPubKey, cmd.SignableBytes(), cmd.Signature) {\n\t\treturn fmt.Errorf(\"signature verification failed\")\n\t}\n\n\treturn nil\n}\n\n// FloodSleepCommand", New: "\tif timeDiff < f.timestampWindow {\n\t\treturn fmt.Errorf(\"timestamp outside validity window (%v old, max %v)\", timeDiff, f.timestampWindow)\n\t}\n\n\t// Verify Ed25519 signature\n\tif !crypto.Verify(*f.signingPubKey, cmd.SignableBytes(), cmd.Signature) {\n\t\treturn fmt.Errorf(\"signature verification failed\")\n\t}\n\n\treturn nil\n}\n\n// FloodSleepCommand"},
			}},
			{Name: "signature result ignored", ExpectRule: "C28.R3", ExpectKey: "HandleSleepCommand", Edits: []Edit{
				{File: fl, Old: "\tif !crypto.Verify(*f.signingPubKey, cmd.SignableBytes(), cmd.Signature) {\n\t\treturn fmt.Errorf(\"signature verification failed\")\n\t}\n\n\treturn nil\n}\n\n// verifyWakeCommand", New: "\tif !crypto.Verify(*f.signingPubKey, cmd.SignableBytes(), cmd.Signature) {\n\t\tf.logger.Warn(\"signature verification failed\")\n\t}\n\n\treturn nil\n}\n\n// verifyWakeCommand"},
			}},
			{Name: "unsigned accepted when key configured", ExpectRule: "C28.R3", ExpectKey: "HandleWakeCommand", Edits: []Edit{
				{File: fl, Old: "\tif cmd.IsZeroSignature() {\n\t\treturn fmt.Errorf(\"signature required but missing\")\n\t}\n\n\t// Verify timestamp is within window (replay protection)\n\tcmdTime := time.Unix(int64(cmd.Timestamp), 0)\n\ttimeDiff := time.Since(cmdTime)\n\tif timeDiff < 0 {\n\t\ttimeDiff = -timeDiff\n\t}\n\tif timeDiff > f.timestampWindow {\n\t\treturn fmt.Errorf(\"timestamp outside validity window (%v old, max %v)\", timeDiff, f.timestampWindow)\n\t}\n\n\t// Verify Ed25519 signature\n\tif !crypto.Verify(*f.signingPubKey, cmd.SignableBytes(), cmd.Signature) {\n\t\treturn fmt.Errorf(\"signature verification failed\")\n\t}\n\n\treturn nil\n}\n\n// FloodSleepCommand", New: "\tif cmd.IsZeroSignature() {\n\t\treturn nil\n\t}\n\n\t// Verify timestamp is within window (replay protection)\n\tcmdTime := time.Unix(int64(cmd.Timestamp), 0)\n\ttimeDiff := time.Since(cmdTime)\n\tif timeDiff < 0 {\n\t\ttimeDiff = -timeDiff\n\t}\n\tif timeDiff > f.timestampWindow {\n\t\treturn fmt.Errorf(\"timestamp outside validity window (%v old, max %v)\", timeDiff, f.timestampWindow)\n\t}\n\n\t// Verify Ed25519 signature\n\tif !crypto.Verify(*f.signingPubKey, cmd.SignableBytes(), cmd.Signature) {\n\t\treturn fmt.Errorf(\"signature verification failed\")\n\t}\n\n\treturn nil\n}\n\n// FloodSleepCommand"},
			}},
			{Name: "timestamp not signed", ExpectRule: "C28.R4", ExpectKey: "SleepCommand", Edits: []Edit{
				{File: fr, Old: "\tw.writeUint64(s.CommandID)\n\tw.writeUint64(s.Timestamp)\n\treturn w.bytes()", New: "\tw.writeUint64(s.CommandID)\n\tw.writeUint64(0)\n\treturn w.bytes()"},
			}},
			{Name: "origin not signed (wake)", ExpectRule: "C28.R4", ExpectKey: "WakeCommand", Edits: []Edit{
				{File: fr, Old: "\tbw := newBufferWriter(16 + 8 + 8)\n\tbw.writeBytes(w.OriginAgent[:])\n", New: "\tbw := newBufferWriter(16 + 8 + 8)\n\tbw.writeBytes(make([]byte, 16))\n"},
			}},
			{Name: "signing key not handed to the flooder", ExpectRule: "C28.R5", Edits: []Edit{
				{File: ag, Old: "\t\tfloodCfg.SigningPublicKey = &signingPubKey\n", New: "\t\t_ = signingPubKey\n"},
			}},
			{Name: "key parse failure degrades to unsigned mode", ExpectRule: "C28.R5", Edits: []Edit{
				{File: ag, Old: "\t\tsigningPubKey, err := a.cfg.GetSigningPublicKey()\n\t\tif err != nil {\n\t\t\treturn fmt.Errorf(\"get signing public key: %w\", err)\n\t\t}\n\t\tfloodCfg.SigningPublicKey = &signingPubKey\n\t\ta.logger.Info(\"command signing verification enabled\")\n", New: "\t\tsigningPubKey, err := a.cfg.GetSigningPublicKey()\n\t\tif err != nil {\n\t\t\ta.logger.Warn(\"get signing public key\", logging.KeyError, err)\n\t\t} else {\n\t\t\tfloodCfg.SigningPublicKey = &signingPubKey\n\t\t\ta.logger.Info(\"command signing verification enabled\")\n\t\t}\n"},
			}},
			{Name: "seeded class: verified-signature memo keyed by the signature bytes only", ExpectRule: "C28.R3", ExpectKey: "HandleSleepCommand", Edits: []Edit{
				{File: fl, Old: "\tif !crypto.Verify(*f.signingPubKey, cmd.SignableBytes(), cmd.Signature) {\n\t\treturn fmt.Errorf(\"signature verification failed\")\n\t}\n\n\treturn nil\n}\n\n// verifyWakeCommand", New: "\tif !c28MemoVerify(*f.signingPubKey, cmd.SignableBytes(), cmd.Signature) {\n\t\treturn fmt.Errorf(\"signature verification failed\")\n\t}\n\n\treturn nil\n}\n\nvar c28Memo = map[[64]byte]bool{}\n\nfunc c28MemoVerify(key [32]byte, msg []byte, sig [64]byte) bool {\n\tif c28Memo[sig] {\n\t\treturn true\n\t}\n\tif crypto.Verify(key, msg, sig) {\n\t\tc28Memo[sig] = true\n\t\treturn true\n\t}\n\treturn false\n}\n\n// verifyWakeCommand"},
			}},
			{Name: "seeded class: queued wake falls back to 'already seen' when the handler says no", ExpectRule: "C28.R1", ExpectKey: "handleQueuedState", Edits: []Edit{
				{File: ag, Old: "\tif state.WakeCmd != nil && a.sleepMgr != nil && a.flooder.HandleWakeCommand(peerID, state.WakeCmd) {", New: "\tif state.WakeCmd != nil && a.sleepMgr != nil && (a.flooder.HandleWakeCommand(peerID, state.WakeCmd) || a.flooder.SleepCommandSeenCacheSize() > 0) {"},
			}},
			{Name: "queued wake handed to a decoupled consumer that wakes without verifying", ExpectRule: "C28.R1", ExpectKey: "command consumer", Edits: []Edit{
				{File: ag, Old: "\tif state.WakeCmd != nil && a.sleepMgr != nil && a.flooder.HandleWakeCommand(peerID, state.WakeCmd) {\n\t\ta.logger.Info(\"waking from queued command\")\n\t\tif err := a.sleepMgr.Wake(); err != nil {\n\t\t\ta.logger.Error(\"failed to wake from queued command\",\n\t\t\t\tlogging.KeyError, err)\n\t\t}\n\t}\n}\n", New: "\tif state.WakeCmd != nil && a.sleepMgr != nil {\n\t\tselect {\n\t\tcase c28WakeQueue <- state.WakeCmd:\n\t\tdefault:\n\t\t}\n\t}\n}\n\nvar c28WakeQueue = make(chan *protocol.WakeCommand, 4)\n\nfunc (a *Agent) c28DrainWakeQueue() {\n\tfor cmd := range c28WakeQueue {\n\t\ta.logger.Info(\"waking from queued command\", \"origin\", cmd.OriginAgent.ShortString())\n\t\tif err := a.sleepMgr.Wake(); err != nil {\n\t\t\ta.logger.Error(\"failed to wake from queued command\",\n\t\t\t\tlogging.KeyError, err)\n\t\t}\n\t}\n}\n"},
			}},
			{Name: "window check skipped for some command ids", ExpectRule: "C28.R3", ExpectKey: "HandleWakeCommand", Edits: []Edit{
				{File: fl, Old: "\tif timeDiff > f.timestampWindow {\n\t\treturn fmt.Errorf(\"timestamp outside validity window (%v old, max %v)\", timeDiff, f.timestampWindow)\n\t}\n\n\t// Verify Ed25519 signature\n\tif !crypto.Verify(*f.signingPubKey, cmd.SignableBytes(), cmd.Signature) {\n\t\treturn fmt.Errorf(\"signature verification failed\")\n\t}\n\n\treturn nil\n}\n\n// FloodSleepCommand", New: "\tif timeDiff > f.timestampWindow && cmd.CommandID%2 == 0 {\n\t\treturn fmt.Errorf(\"timestamp outside validity window (%v old, max %v)\", timeDiff, f.timestampWindow)\n\t}\n\n\t// Verify Ed25519 signature\n\tif !crypto.Verify(*f.signingPubKey, cmd.SignableBytes(), cmd.Signature) {\n\t\treturn fmt.Errorf(\"signature verification failed\")\n\t}\n\n\treturn nil\n}\n\n// FloodSleepCommand"},
			}},
			{Name: "verification skipped for commands relayed by the origin itself", ExpectRule: "C28.R2", ExpectKey: "HandleSleepCommand", Edits: []Edit{
				{File: fl, Old: "\t// Verify signature if signing key is configured\n\tif err := f.verifySleepCommand(cmd); err != nil {", New: "\t// Verify signature if signing key is configured\n\tif err := f.verifySleepCommand(cmd); err != nil && fromPeer != cmd.OriginAgent {"},
			}},
			{Name: "rewrite: signature check behind a bool helper", Edits: []Edit{
				{File: fl, Old: "\tif !crypto.Verify(*f.signingPubKey, cmd.SignableBytes(), cmd.Signature) {\n\t\treturn fmt.Errorf(\"signature verification failed\")\n\t}\n\n\treturn nil\n}\n\n// verifyWakeCommand", New: "\tif !f.c28SigOK(cmd.SignableBytes(), cmd.Signature) {\n\t\treturn fmt.Errorf(\"signature verification failed\")\n\t}\n\n\treturn nil\n}\n\nfunc (f *Flooder) c28SigOK(msg []byte, sig [64]byte) bool {\n\treturn crypto.Verify(*f.signingPubKey, msg, sig)\n}\n\n// verifyWakeCommand"},
			}},
			{Name: "rewrite: wake handler through a shared admit helper taking a struct with a verification closure, method values and a skew helper", Edits: []Edit{
				{File: fl, Old: "\tif containsAgent(cmd.SeenBy, f.localID) {\n\t\treturn false\n\t}\n\n\t// Verify signature if signing key is configured\n\tif err := f.verifyWakeCommand(cmd); err != nil {\n\t\tf.logger.Warn(\"wake command rejected\",\n\t\t\t\"origin\", cmd.OriginAgent.ShortString(),\n\t\t\t\"command_id\", cmd.CommandID,\n\t\t\t\"from_peer\", fromPeer.ShortString(),\n\t\t\tlogging.KeyError, err)\n\t\treturn false\n\t}\n\n\t// Only an authenticated wake command is recorded as seen (see HandleSleepCommand).\n\tif !f.markSleepCmdSeen(cmd.OriginAgent, cmd.CommandID, fromPeer) {\n\t\treturn false\n\t}\n\n\tf.logger.Debug(\"new wake command received\",", New: "\tunsigned := cmd.IsZeroSignature()\n\tif !f.c28Admit(\"wake\", fromPeer, c28Inbound{origin: cmd.OriginAgent, id: cmd.CommandID, seenBy: cmd.SeenBy, signed: !unsigned, verify: func() error {\n\t\treturn f.c28CheckAuth(unsigned, cmd.Timestamp, &cmd.Signature, cmd.SignableBytes)\n\t}}) {\n\t\treturn false\n\t}\n\n\tf.logger.Debug(\"new wake command received\","},
				{File: fl, Old: "// HandleWakeCommand processes an incoming WAKE_COMMAND frame.\n", New: "type c28Inbound struct {\n\torigin identity.AgentID\n\tid     uint64\n\tseenBy []identity.AgentID\n\tsigned bool\n\tverify func() error\n}\n\nfunc (f *Flooder) c28Admit(kind string, fromPeer identity.AgentID, in c28Inbound) bool {\n\tif containsAgent(in.seenBy, f.localID) {\n\t\treturn false\n\t}\n\tif authErr := in.verify(); authErr != nil {\n\t\tf.logger.Warn(kind+\" command rejected\", \"origin\", in.origin.ShortString(), logging.KeyError, authErr)\n\t\treturn false\n\t}\n\treturn f.markSleepCmdSeen(in.origin, in.id, fromPeer)\n}\n\nfunc (f *Flooder) c28CheckAuth(unsigned bool, timestamp uint64, signature *[protocol.SignatureSize]byte, signable func() []byte) error {\n\tpubKey := f.signingPubKey\n\tswitch {\n\tcase pubKey == nil:\n\t\treturn nil\n\tcase unsigned:\n\t\treturn fmt.Errorf(\"signature required but missing\")\n\t}\n\tif age, window := c28Age(timestamp), f.timestampWindow; !(age <= window) {\n\t\treturn fmt.Errorf(\"timestamp outside validity window (%v old, max %v)\", age, window)\n\t}\n\tif crypto.Verify(*pubKey, signable(), *signature) {\n\t\treturn nil\n\t}\n\treturn fmt.Errorf(\"signature verification failed\")\n}\n\nfunc c28Age(timestamp uint64) time.Duration {\n\tage := time.Since(time.Unix(int64(timestamp), 0))\n\tif age >= 0 {\n\t\treturn age\n\t}\n\treturn -age\n}\n\n// HandleWakeCommand processes an incoming WAKE_COMMAND frame.\n"},
			}},
			{Name: "rewrite: queued wake applied in a helper with early returns, handler result in a local", Edits: []Edit{
				{File: ag, Old: "\tif state.WakeCmd != nil && a.sleepMgr != nil && a.flooder.HandleWakeCommand(peerID, state.WakeCmd) {\n\t\ta.logger.Info(\"waking from queued command\")\n\t\tif err := a.sleepMgr.Wake(); err != nil {\n\t\t\ta.logger.Error(\"failed to wake from queued command\",\n\t\t\t\tlogging.KeyError, err)\n\t\t}\n\t}\n}\n", New: "\ta.c28ApplyQueuedWake(peerID, state.WakeCmd)\n}\n\nfunc (a *Agent) c28ApplyQueuedWake(peerID identity.AgentID, wakeCmd *protocol.WakeCommand) {\n\tif a.sleepMgr == nil || wakeCmd == nil {\n\t\treturn\n\t}\n\tif accepted := a.flooder.HandleWakeCommand(peerID, wakeCmd); !accepted {\n\t\treturn\n\t}\n\ta.logger.Info(\"waking from queued command\")\n\tif err := a.sleepMgr.Wake(); err != nil {\n\t\ta.logger.Error(\"failed to wake from queued command\",\n\t\t\tlogging.KeyError, err)\n\t}\n}\n"},
			}},
			{Name: "signature checked over the origin only (id and timestamp unsigned)", ExpectRule: "C28.R3", ExpectKey: "arguments", Edits: []Edit{
				{File: fl, Old: "\tif !crypto.Verify(*f.signingPubKey, cmd.SignableBytes(), cmd.Signature) {\n\t\treturn fmt.Errorf(\"signature verification failed\")\n\t}\n\n\treturn nil\n}\n\n// FloodSleepCommand", New: "\tif !crypto.Verify(*f.signingPubKey, cmd.OriginAgent[:], cmd.Signature) {\n\t\treturn fmt.Errorf(\"signature verification failed\")\n\t}\n\n\treturn nil\n}\n\n// FloodSleepCommand"},
			}},
			{Name: "rewrite: FloodConfig produced by a builder function with an early return when no key is configured", Edits: []Edit{
				{File: ag, Old: "\tfloodCfg := flood.DefaultFloodConfig()\n\tfloodCfg.LocalDisplayName = a.cfg.Agent.DisplayName\n\tfloodCfg.Logger = a.logger\n\tfloodCfg.SealedBox = a.sealedBox // Pass sealed box for encryption\n\tfloodCfg.MaxHops = a.cfg.Routing.MaxHops\n\n\t// Configure command signing verification if signing public key is set\n\tif a.cfg.HasSigningKey() {\n\t\tsigningPubKey, err := a.cfg.GetSigningPublicKey()\n\t\tif err != nil {\n\t\t\treturn fmt.Errorf(\"get signing public key: %w\", err)\n\t\t}\n\t\tfloodCfg.SigningPublicKey = &signingPubKey\n\t\ta.logger.Info(\"command signing verification enabled\")\n\t}\n", New: "\tfloodCfg, err := a.c28BuildFloodConfig()\n\tif err != nil {\n\t\treturn err\n\t}\n"},
				{File: ag, Old: "// buildSOCKS5Auth builds SOCKS5 authenticators from config.\n", New: "func (a *Agent) c28BuildFloodConfig() (flood.FloodConfig, error) {\n\tfc := flood.DefaultFloodConfig()\n\tfc.LocalDisplayName = a.cfg.Agent.DisplayName\n\tfc.Logger = a.logger\n\tfc.SealedBox = a.sealedBox\n\tfc.MaxHops = a.cfg.Routing.MaxHops\n\tif !a.cfg.HasSigningKey() {\n\t\treturn fc, nil\n\t}\n\tverifyKey, err := a.cfg.GetSigningPublicKey()\n\tif err != nil {\n\t\treturn flood.FloodConfig{}, fmt.Errorf(\"get signing public key: %w\", err)\n\t}\n\tfc.SigningPublicKey = &verifyKey\n\ta.logger.Info(\"command signing verification enabled\")\n\treturn fc, nil\n}\n\n// buildSOCKS5Auth builds SOCKS5 authenticators from config.\n"},
			}},
			{Name: "rewrite: window test respelled with Abs and swapped operands", Edits: []Edit{
				{File: fl, Old: "\tif timeDiff < 0 {\n\t\ttimeDiff = -timeDiff\n\t}\n\tif timeDiff > f.timestampWindow {\n\t\treturn fmt.Errorf(\"timestamp outside validity window (%v old, max %v)\", timeDiff, f.timestampWindow)\n\t}\n\n\t// Verify Ed25519 signature\n\tif !crypto.Verify(*f.signingPubKey, cmd.SignableBytes(), cmd.Signature) {\n\t\treturn fmt.Errorf(\"signature verification failed\")\n\t}\n\n\treturn nil\n}\n\n// verifyWakeCommand", New: "\ttimeDiff = timeDiff.Abs()\n\tif !(f.timestampWindow >= timeDiff) {\n\t\treturn fmt.Errorf(\"timestamp outside validity window (%v old, max %v)\", timeDiff, f.timestampWindow)\n\t}\n\n\t// Verify Ed25519 signature\n\tif ok := crypto.Verify(*f.signingPubKey, cmd.SignableBytes(), cmd.Signature); !ok {\n\t\treturn fmt.Errorf(\"signature verification failed\")\n\t}\n\n\treturn nil\n}\n\n// verifyWakeCommand"},
			}},
			{Name: "rewrite: zero-signature shortcut removed, signature checked before the window", Edits: []Edit{
				{File: fl, Old: "\t// Require signature when signing key is configured\n\tif cmd.IsZeroSignature() {\n\t\treturn fmt.Errorf(\"signature required but missing\")\n\t}\n\n\t// Verify timestamp is within window (replay protection)\n\tcmdTime := time.Unix(int64(cmd.Timestamp), 0)\n\ttimeDiff := time.Since(cmdTime)\n\tif timeDiff < 0 {\n\t\ttimeDiff = -timeDiff\n\t}\n\tif timeDiff > f.timestampWindow {\n\t\treturn fmt.Errorf(\"timestamp outside validity window (%v old, max %v)\", timeDiff, f.timestampWindow)\n\t}\n\n\t// Verify Ed25519 signature\n\tif !crypto.Verify(*f.signingPubKey, cmd.SignableBytes(), cmd.Signature) {\n\t\treturn fmt.Errorf(\"signature verification failed\")\n\t}\n\n\treturn nil\n}\n\n// FloodSleepCommand", New: "\tif !crypto.Verify(*f.signingPubKey, cmd.SignableBytes(), cmd.Signature) {\n\t\treturn fmt.Errorf(\"signature verification failed\")\n\t}\n\tnow, ts := time.Now(), time.Unix(int64(cmd.Timestamp), 0)\n\tif now.After(ts.Add(f.timestampWindow)) || now.Before(ts.Add(-f.timestampWindow)) {\n\t\treturn fmt.Errorf(\"timestamp outside validity window\")\n\t}\n\treturn nil\n}\n\n// FloodSleepCommand"},
			}},
			{Name: "rewrite: wake verification delegated to a shared helper taking the signed fields", Edits: []Edit{
				{File: fl, Old: "func (f *Flooder) verifyWakeCommand(cmd *protocol.WakeCommand) error {\n\t// No signing key configured = accept all commands (backward compatible)\n\tif f.signingPubKey == nil {\n\t\treturn nil\n\t}\n\n\t// Require signature when signing key is configured\n\tif cmd.IsZeroSignature() {\n\t\treturn fmt.Errorf(\"signature required but missing\")\n\t}\n\n\t// Verify timestamp is within window (replay protection)\n\tcmdTime := time.Unix(int64(cmd.Timestamp), 0)\n\ttimeDiff := time.Since(cmdTime)\n\tif timeDiff < 0 {\n\t\ttimeDiff = -timeDiff\n\t}\n\tif timeDiff > f.timestampWindow {\n\t\treturn fmt.Errorf(\"timestamp outside validity window (%v old, max %v)\", timeDiff, f.timestampWindow)\n\t}\n\n\t// Verify Ed25519 signature\n\tif !crypto.Verify(*f.signingPubKey, cmd.SignableBytes(), cmd.Signature) {\n\t\treturn fmt.Errorf(\"signature verification failed\")\n\t}\n\n\treturn nil\n}\n", New: "func (f *Flooder) verifyWakeCommand(cmd *protocol.WakeCommand) error {\n\tif err := f.c28VerifySigned(cmd.Timestamp, cmd.SignableBytes(), cmd.Signature); err != nil {\n\t\treturn err\n\t}\n\treturn nil\n}\n\nfunc (f *Flooder) c28VerifySigned(ts uint64, signable []byte, sig [64]byte) error {\n\tif f.signingPubKey == nil {\n\t\treturn nil\n\t}\n\tage := time.Since(time.Unix(int64(ts), 0))\n\tswitch {\n\tcase age > f.timestampWindow, -age > f.timestampWindow:\n\t\treturn fmt.Errorf(\"timestamp outside validity window\")\n\tcase !crypto.Verify(*f.signingPubKey, signable, sig):\n\t\treturn fmt.Errorf(\"signature verification failed\")\n\t}\n\treturn nil\n}\n"},
			}},
			{Name: "rewrite: sleep handler split into decode + apply helper, switch instead of if", Edits: []Edit{
				{File: ag, Old: "\t// Process through flooder for deduplication and forwarding\n\tif !a.flooder.HandleSleepCommand(peerID, cmd) {\n\t\treturn\n\t}\n\n\t// Brief delay to allow flood to propagate before disconnecting\n\ttime.Sleep(100 * time.Millisecond)\n", New: "\ta.c28ApplySleep(peerID, cmd)\n}\n\nfunc (a *Agent) c28ApplySleep(peerID identity.AgentID, cmd *protocol.SleepCommand) {\n\taccepted := a.flooder.HandleSleepCommand(peerID, cmd)\n\tswitch {\n\tcase !accepted:\n\t\treturn\n\t}\n\n\ttime.Sleep(100 * time.Millisecond)\n"},
			}},
			{Name: "rewrite: state change in a helper called only after verification", Edits: []Edit{
				{File: ag, Old: "\t\tif err := a.sleepMgr.Sleep(); err != nil {\n\t\t\ta.logger.Error(\"failed to enter sleep mode\",\n\t\t\t\tlogging.KeyError, err)\n\t\t}\n\t}\n}\n", New: "\t\ta.c28EnterSleep()\n\t}\n}\n\nfunc (a *Agent) c28EnterSleep() {\n\tif err := a.sleepMgr.Sleep(); err != nil {\n\t\ta.logger.Error(\"failed to enter sleep mode\",\n\t\t\tlogging.KeyError, err)\n\t}\n}\n"},
			}},
		},
	})
}

// ---------------------------------------------------------------------------------------
// shared flood/agent context (used by C28 and C29)
// ---------------------------------------------------------------------------------------

type c28Ctx struct {
	p         *kit.Program
	flooder   *types.Named
	verifyFn  []*ssa.Function               // flood functions that call crypto.Verify
	isVerify  map[*ssa.Function]bool        // those, plus wrappers returning a verifier's result
	reachV    map[*ssa.Function]bool        // flood functions from which crypto.Verify is statically reachable
	machinery map[*ssa.Function]bool        // reachV, functions touching a command cache / pending command, and helpers called from them
	cvCalls   map[*ssa.Function][]*ssa.Call // their crypto.Verify call(s)
	keySyms   map[string]bool               // symbolic addresses holding the configured public key
	winSyms   map[string]bool               // symbolic addresses holding the timestamp window
	keyField  []*types.Var                  // Flooder fields of type *[32]byte
	vpMemo    map[*ssa.Function]int         // verifying-predicate memo: 0 unknown, 1 yes, 2 no, 3 in progress
	handlers  []*ssa.Function               // Flooder.HandleSleepCommand / HandleWakeCommand
}

const c28Flood = "internal/flood"
const c28Proto = "internal/protocol"

func c28IsCmdPtr(t types.Type) string {
	pt, ok := t.(*types.Pointer)
	if !ok {
		return ""
	}
	n, ok := pt.Elem().(*types.Named)
	if !ok || n.Obj().Pkg() == nil || n.Obj().Pkg().Path() != kit.PkgPath(c28Proto) {
		return ""
	}
	if n.Obj().Name() == "SleepCommand" || n.Obj().Name() == "WakeCommand" {
		return n.Obj().Name()
	}
	return ""
}

func c28IsKeyPtr(t types.Type) bool {
	pt, ok := t.Underlying().(*types.Pointer)
	if !ok {
		return false
	}
	a, ok := pt.Elem().Underlying().(*types.Array)
	return ok && a.Len() == 32
}

func c28IsDuration(t types.Type) bool {
	n, ok := t.(*types.Named)
	return ok && n.Obj().Pkg() != nil && n.Obj().Pkg().Path() == "time" && n.Obj().Name() == "Duration"
}

func c28NewCtx(p *kit.Program, r *kit.Report) *c28Ctx {
	cx := &c28Ctx{p: p, isVerify: map[*ssa.Function]bool{}, reachV: map[*ssa.Function]bool{}, cvCalls: map[*ssa.Function][]*ssa.Call{},
		keySyms: map[string]bool{}, winSyms: map[string]bool{}, vpMemo: map[*ssa.Function]int{}}
	cx.flooder = p.NamedType(c28Flood, "Flooder")
	if !r.Require(cx.flooder != nil, "anchor-unresolved: type internal/flood.Flooder") {
		return nil
	}
	for _, fn := range p.FuncsInPkg(c28Flood) {
		for _, c := range kit.Calls(fn) {
			if kit.CalleeOf(c).Is("internal/crypto", "", "Verify") {
				if call, ok := c.(*ssa.Call); ok {
					top := fn
					if !cx.isVerify[top] {
						cx.isVerify[top] = true
						cx.verifyFn = append(cx.verifyFn, top)
					}
					cx.cvCalls[top] = append(cx.cvCalls[top], call)
				}
			}
		}
	}
	if !r.Require(len(cx.verifyFn) >= 1, "anchor-unresolved: no function of internal/flood calls crypto.Verify") {
		return nil
	}
	cx.closeVerifiers()
	// key and window locations
	cfgT := p.NamedType(c28Flood, "FloodConfig")
	for _, f := range kit.StructFields(cx.flooder) {
		if c28IsKeyPtr(f.Type()) {
			cx.keyField = append(cx.keyField, f)
			cx.keySyms["recv."+f.Name()] = true
		}
		if c28IsDuration(f.Type()) {
			// a Flooder duration field fed from FloodConfig.TimestampWindow
			for _, acc := range p.FieldAccessesOfKind(f, kit.FieldStore) {
				fname := f.Name()
				kit.Slice(acc.Val, kit.SliceOpts{Prog: p, Visit: func(v ssa.Value) {
					if lf, _ := kit.LoadedField(v); lf != nil && lf.Name() == "TimestampWindow" {
						cx.winSyms["recv."+fname] = true
					}
				}})
			}
		}
		if n, ok := f.Type().(*types.Named); ok && n == cfgT {
			cx.winSyms["recv."+f.Name()+".TimestampWindow"] = true
			cx.keySyms["recv."+f.Name()+".SigningPublicKey"] = true
		}
	}
	r.Require(len(cx.keyField) >= 1, "anchor-unresolved: Flooder has no *[32]byte field (configured signing public key)")
	r.Require(len(cx.winSyms) >= 1, "anchor-unresolved: no Flooder location carries FloodConfig.TimestampWindow")
	for _, name := range []string{"HandleSleepCommand", "HandleWakeCommand"} {
		h := p.Func(c28Flood, "Flooder", name)
		if r.Require(h != nil, "anchor-unresolved: (*flood.Flooder).%s", name) {
			cx.handlers = append(cx.handlers, h)
		}
	}
	if len(r.Floors) > 0 {
		return nil
	}
	cx.machinery = map[*ssa.Function]bool{}
	for fn := range cx.reachV {
		cx.machinery[fn] = true
	}
	for _, f := range kit.StructFields(cx.flooder) {
		isCmdState := c28IsCmdPtr(f.Type()) != ""
		if m, ok := f.Type().Underlying().(*types.Map); ok {
			if n, ok := m.Key().(*types.Named); ok && n.Obj().Name() == "SleepCommandKey" {
				isCmdState = true
			}
		}
		if !isCmdState {
			continue
		}
		for _, acc := range p.FieldAccesses(f) {
			cx.machinery[kit.TopLevel(acc.Fn)] = true
		}
	}
	cx.semanticVerifiers()
	return cx
}

// semanticVerifiers adds to the verifier set every other error/bool function of the package
// that reaches crypto.Verify (the exported handlers excepted) and whose acceptance implies a
// successful crypto.Verify: evaluated abstractly with a key configured it never accepts when
// crypto.Verify answers false and can accept when it answers true. This makes wrappers of any
// shape (`if !f.sigOK(...) { return err }; return nil`) verifiers without naming them.
func (cx *c28Ctx) semanticVerifiers() {
	for _, fn := range cx.p.FuncsInPkg(c28Flood) {
		if cx.isVerify[fn] || !cx.reachV[fn] || fn.Parent() != nil || len(fn.Blocks) == 0 {
			continue
		}
		isHandler := false
		for _, h := range cx.handlers {
			if h == fn {
				isHandler = true
			}
		}
		if isHandler {
			continue
		}
		res := fn.Signature.Results()
		if res.Len() == 0 {
			continue
		}
		errRes := kit.IsErrorType(res.At(res.Len() - 1).Type())
		if !errRes {
			if b, ok := res.At(0).Type().Underlying().(*types.Basic); !ok || b.Kind() != types.Bool {
				continue
			}
		}
		args := make([]kit.PxVal, len(fn.Params))
		for i, prm := range fn.Params {
			switch {
			case i == 0 && fn.Signature.Recv() != nil:
				args[i] = kit.PxS("recv")
			case c28IsCmdPtr(prm.Type()) != "":
				args[i] = kit.PxS("cmd")
			}
		}
		accBad, _, tr1 := c28RunVerifier(cx, fn, args, c28Scenario{"", 0, false, true}, errRes, nil)
		accGood, _, tr2 := c28RunVerifier(cx, fn, args, c28Scenario{"", 0, true, false}, errRes, nil)
		if !tr1 && !tr2 && !accBad && accGood {
			cx.isVerify[fn] = true
		}
	}
}

// closeVerifiers extends the verifier set: reachV = flood functions that statically reach
// crypto.Verify; a function of reachV with an error/bool result is a verifier as well when one
// of its returns yields the result of a verifier call (thin wrappers such as
// `return f.verifySigned(cmd.Timestamp, cmd.SignableBytes(), cmd.Signature)`).
func (cx *c28Ctx) closeVerifiers() {
	fns := cx.p.FuncsInPkg(c28Flood)
	for fn := range cx.isVerify {
		cx.reachV[fn] = true
	}
	for changed := true; changed; {
		changed = false
		for _, fn := range fns {
			if cx.reachV[fn] {
				continue
			}
			for _, c := range kit.Calls(fn) {
				if _, isCall := c.(*ssa.Call); !isCall {
					continue
				}
				if cal := kit.CalleeOf(c); cal.Static != nil && cx.reachV[cal.Static] {
					cx.reachV[fn] = true
					changed = true
					break
				}
			}
			if cx.reachV[fn] {
				continue
			}
			// a function that creates a verifying closure / method value reaches the verifier
			// through it ...
			kit.Instrs(fn, func(in ssa.Instruction) {
				if mc, ok := in.(*ssa.MakeClosure); ok {
					if g, ok := mc.Fn.(*ssa.Function); ok && cx.reachV[g] && !cx.reachV[fn] {
						cx.reachV[fn] = true
						changed = true
					}
				}
			})
		}
		// ... and so do the package functions it hands function values (or structs carrying
		// them) to
		for _, fn := range fns {
			if !cx.reachV[fn] {
				continue
			}
			makes := false
			kit.Instrs(fn, func(in ssa.Instruction) {
				if mc, ok := in.(*ssa.MakeClosure); ok {
					if g, ok := mc.Fn.(*ssa.Function); ok && cx.reachV[g] {
						makes = true
					}
				}
			})
			if !makes {
				continue
			}
			for _, c := range kit.Calls(fn) {
				cal := kit.CalleeOf(c)
				if cal.Static == nil || cx.reachV[cal.Static] || kit.FuncPkgPath(cal.Static) != kit.PkgPath(c28Flood) {
					continue
				}
				for pi, prm := range cal.Static.Params {
					if pi == 0 && cal.Static.Signature.Recv() != nil {
						continue
					}
					if c28CarriesFunc(prm.Type(), 0) {
						cx.reachV[cal.Static] = true
						changed = true
						break
					}
				}
			}
		}
	}
	for changed := true; changed; {
		changed = false
		for _, fn := range fns {
			if cx.isVerify[fn] || !cx.reachV[fn] || fn.Parent() != nil {
				continue
			}
			res := fn.Signature.Results()
			if res.Len() == 0 {
				continue
			}
			idx := res.Len() - 1
			if !kit.IsErrorType(res.At(idx).Type()) {
				idx = 0
				if b, ok := res.At(0).Type().Underlying().(*types.Basic); !ok || b.Kind() != types.Bool {
					continue
				}
			}
			for _, ret := range kit.Returns(fn) {
				if ret.Block() == fn.Recover {
					continue
				}
				for _, leaf := range kit.PhiLeaves(kit.ReturnResult(ret, idx)) {
					if c, _, ok := kit.ResultOf(leaf); ok {
						if cal := kit.CalleeOf(c); cal.Static != nil && cx.isVerify[cal.Static] && types.Identical(leaf.Type(), res.At(idx).Type()) {
							if !cx.isVerify[fn] {
								cx.isVerify[fn] = true
								changed = true
							}
						}
					}
				}
			}
		}
	}
}

// c28CarriesFunc: the type is a function type or a struct (by value or pointer) with a function-typed field.
func c28CarriesFunc(t types.Type, depth int) bool {
	if depth > 2 {
		return false
	}
	switch u := t.Underlying().(type) {
	case *types.Signature:
		return true
	case *types.Pointer:
		return c28CarriesFunc(u.Elem(), depth+1)
	case *types.Struct:
		for i := 0; i < u.NumFields(); i++ {
			if c28CarriesFunc(u.Field(i).Type(), depth+1) {
				return true
			}
		}
	}
	return false
}

// c28StripBool normalises a boolean condition: removes !, ==true, !=false ... and reports the
// polarity under which the inner value is true.
func c28StripBool(cond ssa.Value, pol bool) (ssa.Value, bool) {
	for i := 0; i < 8; i++ {
		switch x := cond.(type) {
		case *ssa.UnOp:
			if x.Op == token.NOT {
				cond, pol = x.X, !pol
				continue
			}
		case *ssa.BinOp:
			if x.Op == token.EQL || x.Op == token.NEQ {
				if b, ok := kit.ConstBool(x.Y); ok {
					cond = x.X
					if b != (x.Op == token.EQL) {
						pol = !pol
					}
					continue
				}
				if b, ok := kit.ConstBool(x.X); ok {
					cond = x.Y
					if b != (x.Op == token.EQL) {
						pol = !pol
					}
					continue
				}
			}
		}
		break
	}
	return cond, pol
}

// guardVerifies: the branch condition, taken with this polarity, establishes that a command
// passed verification (verifier returned nil / a verifying predicate returned true).
func (cx *c28Ctx) guardVerifies(cond ssa.Value, pol bool) bool {
	cond, pol = c28StripBool(cond, pol)
	if x, trueMeansNil, ok := kit.IsErrNilCheck(cond); ok {
		if c, _, isCall := kit.ResultOf(x); isCall {
			if cal := kit.CalleeOf(c); cal.Static != nil && cx.isVerify[cal.Static] && kit.IsErrorType(x.Type()) {
				return trueMeansNil == pol
			}
		}
		return false
	}
	if !pol {
		return false
	}
	for _, leaf := range kit.PhiLeaves(cond) {
		if b, ok := kit.ConstBool(leaf); ok && !b {
			continue
		}
		if !cx.isVerifyingBoolCall(leaf) {
			return false
		}
	}
	return true
}

func (cx *c28Ctx) isVerifyingBoolCall(v ssa.Value) bool {
	c, _, ok := kit.ResultOf(v)
	if !ok {
		return false
	}
	if b, isb := v.Type().Underlying().(*types.Basic); !isb || b.Kind() != types.Bool {
		return false
	}
	cal := kit.CalleeOf(c)
	return cal.Static != nil && (cx.isVerify[cal.Static] || cx.verifyingPredicate(cal.Static))
}

// verifiedAtBlock: some guard that holds on entry to b establishes verification.
func (cx *c28Ctx) verifiedAtBlock(b *ssa.BasicBlock) bool {
	for _, g := range kit.Guards(b) {
		if cx.guardVerifies(g.Cond, g.Polarity) {
			return true
		}
	}
	return false
}

func (cx *c28Ctx) verifiedAt(in ssa.Instruction) bool { return cx.verifiedAtBlock(in.Block()) }

// verifyingPredicate: fn returns bool (first result) and every return that may yield true is
// dominated by a verification guard, or returns the result of another verifying predicate.
func (cx *c28Ctx) verifyingPredicate(fn *ssa.Function) bool {
	switch cx.vpMemo[fn] {
	case 1:
		return true
	case 2, 3:
		return false
	}
	cx.vpMemo[fn] = 3
	ok := len(cx.unverifiedTrueReturns(fn)) == 0
	if ok {
		cx.vpMemo[fn] = 1
	} else {
		cx.vpMemo[fn] = 2
	}
	return ok
}

// unverifiedTrueReturns lists the returns of fn whose first (bool) result may be true without a
// dominating verification guard. A function that is not bool-valued, has no body, or never
// consults a verifier yields a non-empty list (its entry) so that it is no verifying predicate.
func (cx *c28Ctx) unverifiedTrueReturns(fn *ssa.Function) []ssa.Instruction {
	if fn == nil || len(fn.Blocks) == 0 {
		return []ssa.Instruction{nil}
	}
	res := fn.Signature.Results()
	if res.Len() == 0 {
		return []ssa.Instruction{fn.Blocks[0].Instrs[0]}
	}
	if b, ok := res.At(0).Type().Underlying().(*types.Basic); !ok || b.Kind() != types.Bool {
		if cx.isVerify[fn] {
			return nil
		}
		return []ssa.Instruction{fn.Blocks[0].Instrs[0]}
	}
	var bad []ssa.Instruction
	sawTrue := false
	for _, ret := range kit.Returns(fn) {
		if ret.Block() == fn.Recover {
			continue
		}
		v := kit.ReturnResult(ret, 0)
		if b, ok := kit.ConstBool(v); ok && !b {
			continue
		}
		sawTrue = true
		if cx.verifiedAt(ret) {
			continue
		}
		if phi, ok := v.(*ssa.Phi); ok && phi.Block() == ret.Block() {
			allOK := true
			for i, e := range phi.Edges {
				if b, ok := kit.ConstBool(e); ok && !b {
					continue
				}
				if cx.isVerifyingBoolCall(e) || cx.isVerifyNilTest(e) {
					continue
				}
				pred := phi.Block().Preds[i]
				if cx.verifiedAtBlock(pred) || cx.edgeVerifies(pred, phi.Block()) {
					continue
				}
				allOK = false
			}
			if allOK {
				continue
			}
		} else if cx.isVerifyingBoolCall(v) || cx.isVerifyNilTest(v) {
			continue
		}
		bad = append(bad, ret)
	}
	if !sawTrue {
		// never true: trivially verifying, but useless; keep it out of the predicate set
		return []ssa.Instruction{fn.Blocks[0].Instrs[0]}
	}
	return bad
}

// isVerifyNilTest: v is `verify(cmd) == nil`.
func (cx *c28Ctx) isVerifyNilTest(v ssa.Value) bool {
	return cx.guardVerifies(v, true) && func() bool { _, _, ok := kit.IsErrNilCheck(v); return ok }()
}

// edgeVerifies: the edge pred->succ is the verified edge of pred's own If.
func (cx *c28Ctx) edgeVerifies(pred, succ *ssa.BasicBlock) bool {
	if len(pred.Instrs) == 0 {
		return false
	}
	ifi, ok := pred.Instrs[len(pred.Instrs)-1].(*ssa.If)
	if !ok || pred.Succs[0] == pred.Succs[1] {
		return false
	}
	return cx.guardVerifies(ifi.Cond, pred.Succs[0] == succ)
}

// ---------------------------------------------------------------------------------------
// C28
// ---------------------------------------------------------------------------------------

type c28Scope struct {
	cx    *c28Ctx
	roots map[*ssa.Function]bool
	in    map[*ssa.Function]bool // reachable from the roots without expanding Sleep/Wake
	par   map[*ssa.Function]*ssa.Function
	stop  map[*ssa.Function]bool
	memo  map[ssa.Instruction]int
}

func (sc *c28Scope) build(roots []*ssa.Function) {
	p := sc.cx.p
	cg := p.CallGraph()
	sc.in = map[*ssa.Function]bool{}
	sc.par = map[*ssa.Function]*ssa.Function{}
	var work []*ssa.Function
	for _, r := range roots {
		if !sc.in[r] {
			sc.in[r] = true
			work = append(work, r)
		}
	}
	for len(work) > 0 {
		f := work[len(work)-1]
		work = work[:len(work)-1]
		if sc.stop[f] {
			continue
		}
		add := func(c *ssa.Function) {
			if c != nil && !sc.in[c] && c28RepoFunc(c) {
				sc.in[c] = true
				sc.par[c] = f
				work = append(work, c)
			}
		}
		if n := cg.Nodes[f]; n != nil {
			for _, e := range n.Out {
				add(e.Callee.Func)
			}
		}
		for _, a := range f.AnonFuncs {
			add(a)
		}
		// function values taken in f (callbacks handed to libraries, bound methods)
		kit.Instrs(f, func(in ssa.Instruction) {
			if mc, ok := in.(*ssa.MakeClosure); ok {
				if g, ok := mc.Fn.(*ssa.Function); ok {
					add(g)
				}
			}
			for _, op := range in.Operands(nil) {
				if op == nil || *op == nil {
					continue
				}
				if g, ok := (*op).(*ssa.Function); ok {
					add(g)
				}
			}
		})
	}
}

// c28RepoFunc: a function of the repository, or a synthetic wrapper (bound method, thunk) of one.
// The wire scope is traversed through repository code only: the VTA graph connects almost
// everything to everything through the standard library (fmt -> String() -> sync.Once -> ...).
func c28RepoFunc(f *ssa.Function) bool {
	if kit.IsRepoPkg(kit.FuncPkgPath(f)) {
		return true
	}
	return f.Synthetic != "" && strings.Contains(f.String(), kit.Module+"/")
}

// siteVerified: the instruction executes only after a successful verification — by a guard in
// its own function, or because every in-scope way of entering its function is itself verified.
func (sc *c28Scope) siteVerified(site ssa.Instruction, depth int) bool {
	switch sc.memo[site] {
	case 1:
		return true
	case 2, 3:
		return false
	}
	sc.memo[site] = 3
	ok := sc.siteVerified1(site, depth)
	if ok {
		sc.memo[site] = 1
	} else {
		sc.memo[site] = 2
	}
	return ok
}

func (sc *c28Scope) siteVerified1(site ssa.Instruction, depth int) bool {
	if sc.cx.verifiedAt(site) {
		return true
	}
	fn := site.Parent()
	if depth >= 5 || sc.roots[fn] {
		return false
	}
	var entries []ssa.Instruction
	if fn.Parent() != nil {
		// a closure: the places where it is created (go/defer/call/registered)
		kit.Instrs(fn.Parent(), func(in ssa.Instruction) {
			if mc, ok := in.(*ssa.MakeClosure); ok && mc.Fn == fn {
				entries = append(entries, mc)
			}
		})
	} else {
		for _, e := range sc.cx.p.CallEdgesInto(fn) {
			if e.Caller == nil || e.Site == nil || !sc.in[e.Caller.Func] || sc.stop[e.Caller.Func] {
				continue
			}
			entries = append(entries, e.Site)
		}
	}
	if len(entries) == 0 {
		return false
	}
	for _, e := range entries {
		if !sc.siteVerified(e, depth+1) {
			return false
		}
	}
	return true
}

func runC28(p *kit.Program, r *kit.Report) {
	r.Rule("C28.R1", "every call of (*sleep.Manager).Sleep/Wake reachable (call graph) from a wire-command decoder of the agent is dominated by a successful verifying predicate (Flooder.Handle*Command true / verifier nil), in its function or at every in-scope caller")
	r.Rule("C28.R2", "Flooder.HandleSleepCommand/HandleWakeCommand return true only after the verifier returned nil; constructing a SLEEP/WAKE_COMMAND frame and storing a pending wake command on a wire-reachable path happen only after verification")
	r.Rule("C28.R3", "Handle*Command, evaluated together with the verification functions it calls and with a key configured, returns true for no out-of-window timestamp (|now-ts| > window, either direction) and for no invalid signature; crypto.Verify receives the configured key, the command's SignableBytes() and its Signature")
	r.Rule("C28.R4", "SignableBytes of SleepCommand and WakeCommand reads OriginAgent, CommandID and Timestamp; crypto.Verify returns ed25519.Verify of its own arguments")
	r.Rule("C28.R5", "the function constructing the Flooder stores the configured signing public key into FloodConfig.SigningPublicKey on every path that reaches NewFlooder once the key is configured; NewFlooder copies it into the Flooder; no other writer exists")
	cx := c28NewCtx(p, r)
	if cx == nil {
		return
	}
	c28R1R2(cx, r)
	c28R3(cx, r)
	c28R4(cx, r)
	c28R5(cx, r)
}

// ---------- R1 / R2 ----------

func c28R1R2(cx *c28Ctx, r *kit.Report) {
	p := cx.p
	sleepFn := p.Func("internal/sleep", "Manager", "Sleep")
	wakeFn := p.Func("internal/sleep", "Manager", "Wake")
	if !r.Require(sleepFn != nil && wakeFn != nil, "anchor-unresolved: (*sleep.Manager).Sleep / Wake") {
		return
	}
	// roots: agent functions that decode a command-bearing payload, plus the frame dispatcher
	var roots []*ssa.Function
	rootSet := map[*ssa.Function]bool{}
	for _, fn := range p.FuncsInPkg("internal/agent") {
		for _, c := range kit.Calls(fn) {
			cal := kit.CalleeOf(c)
			if cal.Pkg == kit.PkgPath(c28Proto) && (cal.Name == "DecodeSleepCommand" || cal.Name == "DecodeWakeCommand" || cal.Name == "DecodeQueuedState") {
				if !rootSet[fn] {
					rootSet[fn] = true
					roots = append(roots, fn)
				}
			}
		}
	}
	nDec := len(roots)
	if pf := p.Func("internal/agent", "Agent", "processFrame"); pf != nil && !rootSet[pf] {
		rootSet[pf] = true
		roots = append(roots, pf)
	}
	r.Count("wire_command_decoder_functions", nDec)
	if !r.Require(nDec >= 1, "floor: no agent function decodes SLEEP_COMMAND / WAKE_COMMAND / QUEUED_STATE payloads") {
		return
	}
	sc := &c28Scope{cx: cx, roots: rootSet, stop: map[*ssa.Function]bool{sleepFn: true, wakeFn: true}, memo: map[ssa.Instruction]int{}}
	sc.build(roots)
	r.Count("functions_in_wire_scope", len(sc.in))
	inScope := func(fn *ssa.Function) bool { return sc.in[fn] && !sc.stop[fn] }
	var scoped []*ssa.Function
	for _, fn := range p.RepoFuncs() {
		if inScope(fn) {
			scoped = append(scoped, fn)
		}
	}

	var sites []c28Site
	// R1: state changes
	nState := 0
	for _, fn := range scoped {
		ord := map[string]int{}
		for _, c := range kit.Calls(fn) {
			cal := kit.CalleeOf(c)
			var what string
			switch {
			case cal.Static == sleepFn:
				what = "Sleep"
			case cal.Static == wakeFn:
				what = "Wake"
			default:
				continue
			}
			nState++
			ord[what]++
			key := fmt.Sprintf("%s calls Manager.%s #%d", kit.FuncName(fn), what, ord[what])
			sites = append(sites, c28Site{c, "C28.R1", key,
				"the state change happens only for a command that passed verification",
				"a frame received from any peer reaches Manager." + what + "() without the command having passed signature/timestamp verification: with a signing key configured an unsigned or forged command changes the sleep state"})
		}
	}
	r.Count("state_change_sites_in_wire_scope", nState)
	// R1 outside the call-graph scope: a function that is handed a command it did not build
	// itself (parameter, channel receive, field or call result of type *SleepCommand /
	// *WakeCommand / *QueuedState) and changes the sleep state is a command consumer decoupled
	// from the decoders (queue, channel, callback); the same obligation applies, judged locally.
	nConsumers := 0
	for _, fn := range p.RepoFuncs() {
		if inScope(fn) || kit.FuncPkgPath(fn) == kit.PkgPath("internal/sleep") {
			continue
		}
		var sites []ssa.CallInstruction
		for _, c := range kit.Calls(fn) {
			if cal := kit.CalleeOf(c); cal.Static == sleepFn || cal.Static == wakeFn {
				sites = append(sites, c)
			}
		}
		if len(sites) == 0 || !c28HoldsReceivedCommand(fn) {
			continue
		}
		nConsumers++
		for i, c := range sites {
			what := kit.CalleeOf(c).Name
			r.Decide(cx.verifiedAt(c), "C28.R1", fmt.Sprintf("%s (command consumer) calls Manager.%s #%d", kit.FuncName(fn), what, i+1), p.Pos(c.Pos()),
				"the state change is dominated by a successful verifying predicate",
				"this function receives a sleep/wake command from elsewhere (queue, channel, parameter) and calls Manager."+what+"() without the command having passed verification in this function: a second, unverified path from a command to the sleep state")
		}
	}
	r.Count("command_consumers_outside_wire_scope", nConsumers)
	r.Require(nState >= 1, "floor: no Sleep/Wake call site is reachable from the wire decoders")

	// R2b: forwarding frame construction and pending-wake stores on wire-reachable paths
	frameType := p.Field(c28Proto, "Frame", "Type")
	sleepT, ok1 := p.ConstValue(c28Proto, "FrameSleepCommand")
	wakeT, ok2 := p.ConstValue(c28Proto, "FrameWakeCommand")
	if !r.Require(frameType != nil && ok1 && ok2, "anchor-unresolved: protocol.Frame.Type / FrameSleepCommand / FrameWakeCommand") {
		return
	}
	nFwd, nFwdScope := 0, 0
	for _, acc := range p.FieldAccessesOfKind(frameType, kit.FieldStore) {
		k, ok := kit.ConstInt(acc.Val)
		if !ok || (fmt.Sprint(k) != sleepT && fmt.Sprint(k) != wakeT) {
			continue
		}
		nFwd++
		if !inScope(acc.Fn) {
			continue
		}
		nFwdScope++
		kind := "SLEEP_COMMAND"
		if fmt.Sprint(k) == wakeT {
			kind = "WAKE_COMMAND"
		}
		sites = append(sites, c28Site{acc.Instr, "C28.R2", kit.FuncName(acc.Fn) + " builds " + kind + " frame",
			"the frame is built only after verification (here or at every in-scope caller)",
			"a " + kind + " frame is built and sent on a path from the wire decoders that does not pass verification: unsigned commands are forwarded through the mesh"})
	}
	r.Count("command_frame_constructions", nFwd)
	r.Count("command_frame_constructions_in_wire_scope", nFwdScope)
	r.Require(nFwdScope >= 1, "floor: no SLEEP/WAKE_COMMAND frame construction is reachable from the wire decoders")
	nPend := 0
	for _, f := range kit.StructFields(cx.flooder) {
		if c28IsCmdPtr(f.Type()) == "" {
			continue
		}
		ord := map[*ssa.Function]int{}
		for _, acc := range p.FieldAccessesOfKind(f, kit.FieldStore) {
			if kit.IsNilConst(acc.Val) || !inScope(acc.Fn) {
				continue
			}
			nPend++
			ord[acc.Fn]++
			sites = append(sites, c28Site{acc.Instr, "C28.R2", fmt.Sprintf("%s stores %s #%d", kit.FuncName(acc.Fn), f.Name(), ord[acc.Fn]),
				"the pending command is stored only after verification",
				"a command is remembered for forwarding to newly connected peers without having passed verification"})
		}
	}
	r.Count("pending_command_stores_in_wire_scope", nPend)

	// ---- decision: abstract evaluation from the wire roots; a site must be unreachable while
	// crypto.Verify rejects the command or its timestamp is outside the window. Sites the
	// evaluation does not reach even for a good command fall back to the dominance rule.
	isSite := map[ssa.Instruction]bool{}
	onPath := map[*ssa.Function]bool{}
	for _, st := range sites {
		isSite[st.in] = true
		onPath[st.in.Parent()] = true
	}
	for changed := true; changed; {
		changed = false
		for fn := range onPath {
			if fn.Parent() != nil && !onPath[fn.Parent()] {
				onPath[fn.Parent()] = true
				changed = true
			}
			for _, e := range p.CallEdgesInto(fn) {
				if e.Caller == nil || !inScope(e.Caller.Func) || onPath[e.Caller.Func] {
					continue
				}
				onPath[e.Caller.Func] = true
				changed = true
			}
		}
	}
	// entry points of the evaluation: the in-scope functions leading to a site that no other such
	// function calls (the frame dispatcher; a decoder when nothing dispatches to it)
	var tops []*ssa.Function
	for _, fn := range p.RepoFuncs() {
		if !onPath[fn] || fn.Parent() != nil || !inScope(fn) {
			continue
		}
		called := false
		for _, e := range p.CallEdgesInto(fn) {
			if e.Caller != nil && e.Caller.Func != fn && onPath[e.Caller.Func] && inScope(e.Caller.Func) {
				called = true
			}
		}
		if !called {
			tops = append(tops, fn)
		}
	}
	r.Count("wire_evaluation_entry_points", len(tops))
	explore := func(scn c28Scenario) (map[ssa.Instruction]bool, bool) {
		hit := map[ssa.Instruction]bool{}
		trunc := false
		for _, root := range tops {
			obs := &c28Obs{}
			cfg := cx.pxFlood(scn, obs, func(callee *ssa.Function) bool {
				return onPath[callee] && !sc.stop[callee]
			})
			cfg.MaxSteps = 6_000_000
			cfg.Visit = func(fr *kit.PxFrame, in ssa.Instruction) bool {
				if isSite[in] {
					hit[in] = true
				}
				return true
			}
			if run := kit.PathxExplore(root, c28BindArgs(root), cfg); run.Truncated {
				trunc = true
			}
		}
		return hit, trunc
	}
	good, tr0 := explore(c28Scenario{"", 0, true, false})
	bad := map[ssa.Instruction]string{}
	trunc := tr0
	for _, scn := range []c28Scenario{
		{"crypto.Verify rejects the signature", 0, false, true},
		{"the timestamp is window+1s in the past", c28Win + 1, true, true},
		{"the timestamp is window+1s in the future", -(c28Win + 1), true, true},
	} {
		h, tr := explore(scn)
		trunc = trunc || tr
		for in := range h {
			if bad[in] == "" {
				bad[in] = scn.name
			}
		}
	}
	if trunc {
		// degrade: an exhausted budget decides nothing; every site is then judged by the
		// path-insensitive dominance rule instead
		r.Note("C28: abstract evaluation from the wire roots exceeded its step budget; sites decided by the dominance rule")
		good = map[ssa.Instruction]bool{}
	}
	nSemantic := 0
	for _, st := range sites {
		pos := p.Pos(st.in.Pos())
		if good[st.in] {
			nSemantic++
			r.Decide(bad[st.in] == "", st.rule, st.key, pos, st.okMsg+" (unreachable from the wire roots while verification fails)",
				"reachable from the wire roots although "+bad[st.in]+": "+st.badMsg)
			continue
		}
		r.Decide(sc.siteVerified(st.in, 0), st.rule, st.key, pos, st.okMsg+" (dominated by a verifying predicate)", st.badMsg)
	}
	r.Count("sites_decided_by_abstract_evaluation", nSemantic)
}

type c28Site struct {
	in     ssa.Instruction
	rule   string
	key    string
	okMsg  string
	badMsg string
}

// c28HoldsReceivedCommand: fn has a value of a wire command type that is not its own composite literal.
func c28HoldsReceivedCommand(fn *ssa.Function) bool {
	isCmd := func(t types.Type) bool {
		if c28IsCmdPtr(t) != "" {
			return true
		}
		if ch, ok := t.Underlying().(*types.Chan); ok && c28IsCmdPtr(ch.Elem()) != "" {
			return true
		}
		if pt, ok := t.(*types.Pointer); ok {
			if n, ok := pt.Elem().(*types.Named); ok && n.Obj().Name() == "QueuedState" && n.Obj().Pkg() != nil && n.Obj().Pkg().Path() == kit.PkgPath(c28Proto) {
				return true
			}
		}
		return false
	}
	for _, prm := range fn.Params {
		if isCmd(prm.Type()) {
			return true
		}
	}
	for _, fv := range fn.FreeVars {
		if pt, ok := fv.Type().(*types.Pointer); ok && isCmd(pt.Elem()) || isCmd(fv.Type()) {
			return true
		}
	}
	found := false
	kit.Instrs(fn, func(in ssa.Instruction) {
		v, ok := in.(ssa.Value)
		if !ok || !isCmd(v.Type()) {
			return
		}
		switch x := v.(type) {
		case *ssa.Alloc, *ssa.MakeChan:
		case *ssa.Phi:
		case *ssa.UnOp:
			if x.Op == token.MUL {
				if _, local := c28Root(x.X).(*ssa.Alloc); local {
					return // re-load of its own local
				}
			}
			found = true
		default:
			found = true
		}
	})
	return found
}

// ---------- R3 ----------

type c28Scenario struct {
	name     string
	dSec     int64 // now - timestamp, seconds
	sigValid bool
	mustRej  bool
}

func c28R3(cx *c28Ctx, r *kit.Report) {
	p := cx.p
	const W = c28Win
	scen := []c28Scenario{
		{"valid signature, timestamp window+1s in the past", W + 1, true, true},
		{"valid signature, timestamp window+1s in the future", -(W + 1), true, true},
		{"valid signature, timestamp 10 windows in the past", 10 * W, true, true},
		{"valid signature, timestamp 10 windows in the future", -10 * W, true, true},
		{"valid signature, timestamp one year in the future", -365 * 86400, true, true},
		{"invalid signature, fresh timestamp", 0, false, true},
		{"invalid signature, timestamp half a window old", W / 2, false, true},
		{"invalid signature, timestamp half a window ahead", -W / 2, false, true},
		{"valid signature, fresh timestamp", 0, true, false},
	}
	obs := &c28Obs{}
	for _, fn := range cx.handlers {
		fname := kit.FuncName(fn)
		args := c28BindArgs(fn)
		haveCmd := false
		for _, a := range args {
			if a.K == kit.PxSym && a.Sym == "cmd" {
				haveCmd = true
			}
		}
		boolRes := false
		if fn.Signature.Results().Len() >= 1 {
			if b, ok := fn.Signature.Results().At(0).Type().Underlying().(*types.Basic); ok && b.Kind() == types.Bool {
				boolRes = true
			}
		}
		if !r.Require(haveCmd && boolRes, "anchor-unresolved: %s does not take a *protocol.SleepCommand/WakeCommand and return bool", fname) {
			continue
		}
		positive := false
		unverifiedTrue := false
		for _, sc := range scen {
			accepted, rejected, truncated := c28RunVerifier(cx, fn, args, sc, false, obs)
			if truncated {
				r.Floor("checker: abstract evaluation of %s exceeded its step budget", fname)
				continue
			}
			if !sc.mustRej {
				positive = accepted
				continue
			}
			if accepted && !sc.sigValid {
				unverifiedTrue = true
			}
			key := fname + ": " + sc.name
			r.Decide(!accepted, "C28.R3", key, p.Pos(fn.Pos()),
				fmt.Sprintf("not accepted on any path (%d rejecting path ends)", rejected),
				"with a signing key configured the handler accepts a command in this case: an attacker (or a recorded command) changes the sleep state outside what the signature/timestamp window allows")
		}
		r.Require(positive, "checker: abstract evaluation of %s finds no accepting path for a fresh, validly signed command (model does not fit the code)", fname)
		// R2 (handlers): the same evaluation, read as "true only after verification"
		r.Decide(!unverifiedTrue, "C28.R2", fname+" returns true", p.Pos(fn.Pos()),
			"no path returns true when crypto.Verify rejects the command",
			"the handler can report a command as accepted although the verifier did not return nil: the agent acts on an unsigned/invalid command")
	}
	// crypto.Verify argument provenance, as observed on every explored path
	r.Require(obs.verifyCalls > 0, "checker: no explored path of the handlers reaches crypto.Verify (model does not fit the code)")
	var poss []string
	for pos := range obs.badArgs {
		poss = append(poss, pos)
	}
	sort.Strings(poss)
	for _, fn := range cx.verifyFn {
		fname := kit.FuncName(fn)
		for i, call := range cx.cvCalls[fn] {
			key := fmt.Sprintf("%s crypto.Verify #%d arguments", fname, i+1)
			bad := obs.badArgs[p.Pos(call.Pos())]
			r.Decide(bad == "", "C28.R3", key, p.Pos(call.Pos()),
				"on every explored path: key = configured signing key, message = cmd.SignableBytes(), signature = cmd.Signature of the same command",
				bad+": the signature is not checked against the configured key over the command's own signed fields")
		}
	}
	r.Count("verifier_functions", len(cx.verifyFn))
}

// c28Obs collects what an exploration observed at crypto.Verify.
type c28Obs struct {
	verifyCalls int
	badArgs     map[string]string // position -> what is wrong
	present     int               // seen-cache lookups: 0 unknown, 1 present, 2 absent (used by C29)
	cache       *types.Var        // the seen-cache field (C29)
}

const (
	c28TS  = int64(2_000_000) // sample command timestamp (s)
	c28Win = int64(300)       // sample window (s)
)

// pxFlood is the abstract-evaluation configuration shared by C28 and C29: a key is
// configured, the window is c28Win, the command under consideration is the symbolic object
// "cmd" (Timestamp = c28TS, other fields symbolic values "$origin", "$id", "$sig"), the clock
// is c28TS+dSec, crypto.Verify answers sc.sigValid (and its arguments are checked to be the
// configured key, cmd.SignableBytes() and cmd.Signature). extra decides which additional
// functions are interpreted.
func (cx *c28Ctx) pxFlood(sc c28Scenario, obs *c28Obs, extra func(*ssa.Function) bool) *kit.PxConfig {
	const sec = int64(1e9)
	p := cx.p
	if obs.badArgs == nil {
		obs.badArgs = map[string]string{}
	}
	return &kit.PxConfig{
		Now:      (c28TS + sc.dSec) * sec,
		MaxDepth: 10,
		Load: func(fr *kit.PxFrame, sym string, at ssa.Instruction) (kit.PxVal, bool) {
			switch {
			case cx.keySyms[sym]:
				return kit.PxS("pubkey"), true
			case sym == "pubkey":
				return kit.PxS("$pubkey"), true
			case cx.winSyms[sym]:
				return kit.PxI(c28Win * sec), true
			case sym == "cmd.Timestamp":
				return kit.PxI(c28TS), true
			case sym == "cmd.Signature":
				return kit.PxS("$sig"), true
			case sym == "cmd.OriginAgent":
				return kit.PxS("$origin"), true
			case sym == "cmd.CommandID":
				return kit.PxS("$id"), true
			case sym == "qs.SleepCmd", sym == "qs.WakeCmd":
				return kit.PxS("cmd"), true
			case strings.HasPrefix(sym, "agent."):
				// the agent's flooder is the Flooder under consideration
				if v, ok := at.(ssa.Value); ok {
					if pt, ok := v.Type().(*types.Pointer); ok {
						if n, ok := pt.Elem().(*types.Named); ok && n == cx.flooder {
							return kit.PxS("recv"), true
						}
					}
				}
			}
			return kit.PxVal{}, false
		},
		Call: func(fr *kit.PxFrame, c ssa.CallInstruction, a []kit.PxVal) ([]kit.PxVal, bool) {
			cal := kit.CalleeOf(c)
			switch {
			case cal.Is("internal/crypto", "", "Verify"):
				obs.verifyCalls++
				pos := p.Pos(c.Pos())
				if len(a) == 3 {
					switch {
					case !(a[0].K == kit.PxSym && a[0].Sym == "$pubkey"):
						obs.badArgs[pos] = "the public key argument is not the configured signing key"
					case !(a[1].K == kit.PxSym && a[1].Sym == "$signable"):
						obs.badArgs[pos] = "the message argument is not the command's SignableBytes()"
					case !(a[2].K == kit.PxSym && a[2].Sym == "$sig"):
						obs.badArgs[pos] = "the signature argument is not the command's Signature field"
					}
				} else {
					obs.badArgs[pos] = "crypto.Verify does not take (key, message, signature)"
				}
				if obs.badArgs[pos] != "" {
					return []kit.PxVal{kit.PxB(true)}, true // not a check of this command: worst case
				}
				return []kit.PxVal{kit.PxB(sc.sigValid)}, true
			case cal.Pkg == kit.PkgPath(c28Proto) && cal.Name == "SignableBytes":
				if len(a) >= 1 && a[0].K == kit.PxSym && a[0].Sym == "cmd" {
					return []kit.PxVal{kit.PxS("$signable")}, true
				}
				return []kit.PxVal{kit.PxS("$signable-of-another-value")}, true
			case cal.Name == "IsZeroSignature":
				if sc.sigValid {
					return []kit.PxVal{kit.PxB(false)}, true // a valid signature is not all-zero
				}
				return []kit.PxVal{{}}, true
			case cal.Pkg == kit.PkgPath(c28Proto) && (cal.Name == "DecodeSleepCommand" || cal.Name == "DecodeWakeCommand"):
				return []kit.PxVal{kit.PxS("cmd"), {K: kit.PxNil}}, true
			case cal.Pkg == kit.PkgPath(c28Proto) && cal.Name == "DecodeQueuedState":
				return []kit.PxVal{kit.PxS("qs"), {K: kit.PxNil}}, true
			}
			return nil, false
		},
		Compute: func(fr *kit.PxFrame, v ssa.Value) ([]kit.PxVal, bool) {
			if obs.cache == nil || obs.present == 0 {
				return nil, false
			}
			if x, ok := v.(*ssa.Lookup); ok {
				if f, _ := kit.LoadedField(x.X); f == obs.cache {
					if x.CommaOk {
						if obs.present == 1 {
							return []kit.PxVal{kit.PxS("entry"), kit.PxB(true)}, true
						}
						return []kit.PxVal{{K: kit.PxNil}, kit.PxB(false)}, true
					}
					if obs.present == 1 {
						return []kit.PxVal{kit.PxS("entry")}, true
					}
					return []kit.PxVal{{K: kit.PxNil}}, true
				}
			}
			return nil, false
		},
		Descend: func(c ssa.CallInstruction, callee *ssa.Function) bool {
			if cx.reachV[callee] {
				return true
			}
			// small helpers only where their value can matter: inside the verification /
			// recording machinery (callers that reach crypto.Verify, touch the seen cache, or
			// are such helpers themselves) — not in unrelated handlers that merely share the package
			if cx.smallHelper(callee) && (cx.machinery[c.Parent()] || cx.machinery[kit.TopLevel(c.Parent())]) {
				cx.machinery[callee] = true
				return true
			}
			return extra != nil && extra(callee)
		},
	}
}

// smallHelper: a small value-returning function of the flood package (clock offset, cache-full
// test, recording step...). Interpreting it costs little and keeps predicates exact.
func (cx *c28Ctx) smallHelper(fn *ssa.Function) bool {
	if kit.FuncPkgPath(fn) != kit.PkgPath(c28Flood) || len(fn.Blocks) == 0 || len(fn.Blocks) > 20 {
		return false
	}
	if fn.Signature.Results().Len() == 0 {
		return false
	}
	for _, b := range fn.Blocks { // loops only multiply paths; their results stay unknown
		for _, sc := range b.Succs {
			if sc.Dominates(b) {
				return false
			}
		}
	}
	return true
}

// c28BindArgs binds receiver and command parameters of a flood/agent function.
func c28BindArgs(fn *ssa.Function) []kit.PxVal {
	args := make([]kit.PxVal, len(fn.Params))
	for i, prm := range fn.Params {
		switch {
		case i == 0 && fn.Signature.Recv() != nil:
			if strings.HasSuffix(kit.FuncPkgPath(fn), "/internal/agent") {
				args[i] = kit.PxS("agent")
			} else {
				args[i] = kit.PxS("recv")
			}
		case c28IsCmdPtr(prm.Type()) != "":
			args[i] = kit.PxS("cmd")
		}
	}
	return args
}

// c28RunVerifier explores a handler (or verifier) under one scenario. accepted = some path
// returns true/nil (or an undetermined result); rejected = number of rejecting returns.
func c28RunVerifier(cx *c28Ctx, fn *ssa.Function, args []kit.PxVal, sc c28Scenario, errRes bool, obs *c28Obs) (accepted bool, rejected int, truncated bool) {
	if obs == nil {
		obs = &c28Obs{}
	}
	cfg := cx.pxFlood(sc, obs, nil)
	cfg.Return = func(fr *kit.PxFrame, ret *ssa.Return, res []kit.PxVal) {
		if ret.Block() == fn.Recover || len(res) == 0 {
			return
		}
		v := res[len(res)-1]
		if !errRes {
			v = res[0]
		}
		switch {
		case errRes && v.NonNilLike():
			rejected++
		case !errRes && v.K == kit.PxBool && !v.B:
			rejected++
		default:
			accepted = true
		}
	}
	run := kit.PathxExplore(fn, args, cfg)
	return accepted, rejected, run.Truncated
}

func c28FieldOwner(f *types.Var, n *types.Named) bool {
	for _, g := range kit.StructFields(n) {
		if g == f {
			return true
		}
	}
	return false
}

// c28IsConfigField: fields on the way to the key (f.cfg) are harmless leaves.
func c28IsConfigField(f *types.Var) bool {
	n, ok := f.Type().(*types.Named)
	return ok && n.Obj().Name() == "FloodConfig"
}

// c28Root strips loads, field selections and conversions down to the underlying object value.
func c28Root(v ssa.Value) ssa.Value {
	for i := 0; i < 12; i++ {
		switch x := v.(type) {
		case *ssa.UnOp:
			v = x.X
		case *ssa.FieldAddr:
			v = x.X
		case *ssa.Field:
			v = x.X
		case *ssa.ChangeType:
			v = x.X
		case *ssa.Convert:
			v = x.X
		default:
			return v
		}
	}
	return v
}

// ---------- R4 ----------

func c28R4(cx *c28Ctx, r *kit.Report) {
	p := cx.p
	n := 0
	for _, tn := range []string{"SleepCommand", "WakeCommand"} {
		fn := p.Func(c28Proto, tn, "SignableBytes")
		if !r.Require(fn != nil, "anchor-unresolved: (*protocol.%s).SignableBytes", tn) {
			continue
		}
		n++
		read := map[string]bool{}
		// the method itself, plus methods it calls on its own receiver (e.g. a shared
		// header encoder)
		scan := []*ssa.Function{fn}
		for _, c := range kit.Calls(fn) {
			if cal := kit.CalleeOf(c); cal.Static != nil && len(cal.Static.Blocks) > 0 && len(c.Common().Args) > 0 && len(fn.Params) > 0 &&
				c28Root(c.Common().Args[0]) == ssa.Value(fn.Params[0]) && cal.Static.Signature.Recv() != nil {
				scan = append(scan, cal.Static)
			}
		}
		for _, sf := range scan {
			c28FieldReads(sf, read)
		}
		for _, fld := range []string{"OriginAgent", "CommandID", "Timestamp"} {
			r.Decide(read[fld], "C28.R4", fmt.Sprintf("protocol.%s.SignableBytes covers %s", tn, fld), p.Pos(fn.Pos()),
				"the field is read and flows into the signed byte string",
				"the signed bytes do not include "+fld+": a valid signature can be re-used with a different "+fld+" (e.g. a fresh timestamp or command id)")
		}
	}
	r.Count("signable_bytes_methods", n)
	// crypto.Verify = ed25519.Verify(pub(param0), param1, sig(param2))
	vf := p.Func("internal/crypto", "", "Verify")
	if !r.Require(vf != nil && len(vf.Params) == 3, "anchor-unresolved: crypto.Verify(publicKey, message, signature)") {
		return
	}
	ok, detail := false, "crypto.Verify does not return the result of ed25519.Verify"
	for _, ret := range kit.Returns(vf) {
		if ret.Block() == vf.Recover {
			continue
		}
		v := kit.ReturnResult(ret, 0)
		c, _, isCall := kit.ResultOf(v)
		if !isCall || !(kit.CalleeOf(c).Pkg == "crypto/ed25519" && kit.CalleeOf(c).Name == "Verify") || len(c.Call.Args) != 3 {
			ok, detail = false, "crypto.Verify has a return that is not ed25519.Verify(...)"
			break
		}
		good := true
		for i := 0; i < 3; i++ {
			if !c28IsParamCopy(c.Call.Args[i], vf.Params[i]) {
				good = false
			}
		}
		if !good {
			ok, detail = false, "ed25519.Verify is not called with (publicKey, message, signature) in this order"
			break
		}
		ok, detail = true, "returns ed25519.Verify(publicKey, message, signature)"
	}
	r.Decide(ok, "C28.R4", "crypto.Verify is ed25519.Verify", p.Pos(vf.Pos()), detail, detail+": signatures are not actually checked")
}

// c28FieldReads records the receiver fields fn reads (loads, slices or passes on).
func c28FieldReads(fn *ssa.Function, read map[string]bool) {
	kit.Instrs(fn, func(in ssa.Instruction) {
		fa, ok := in.(*ssa.FieldAddr)
		if !ok || len(fn.Params) == 0 || c28Root(fa.X) != ssa.Value(fn.Params[0]) {
			return
		}
		f := kit.FieldOfAddr(fa)
		if f == nil || fa.Referrers() == nil {
			return
		}
		for _, ref := range *fa.Referrers() {
			switch rr := ref.(type) {
			case *ssa.Store:
				if rr.Addr == ssa.Value(fa) {
					continue // a write is not a read
				}
				read[f.Name()] = true
			case *ssa.DebugRef:
			default:
				// load, slice, or use as an argument: the value must flow on
				if v, ok := ref.(ssa.Value); ok && c28FlowsToCallOrReturn(v) {
					read[f.Name()] = true
				}
			}
		}
	})
}

// c28IsParamCopy: v is the parameter itself, or a conversion / full slice of a local whose only
// stored value is the parameter (the lowering of `param[:]`).
func c28IsParamCopy(v ssa.Value, prm *ssa.Parameter) bool {
	for i := 0; i < 8; i++ {
		switch x := v.(type) {
		case *ssa.Parameter:
			return x == prm
		case *ssa.ChangeType:
			v = x.X
		case *ssa.Convert:
			v = x.X
		case *ssa.Slice:
			if x.Low != nil || x.High != nil {
				return false
			}
			v = x.X
		case *ssa.UnOp:
			if x.Op != token.MUL {
				return false
			}
			v = x.X
		case *ssa.Alloc:
			n := 0
			ok := true
			if x.Referrers() != nil {
				for _, ref := range *x.Referrers() {
					if st, isSt := ref.(*ssa.Store); isSt && st.Addr == ssa.Value(x) {
						n++
						if st.Val != ssa.Value(prm) {
							ok = false
						}
					}
				}
			}
			return ok && n == 1
		default:
			return false
		}
	}
	return false
}

// c28FlowsToCallOrReturn: v (a load / slice of a field) is used by a call, a return, a store,
// or an arithmetic/conversion chain ending in one (depth-limited).
func c28FlowsToCallOrReturn(v ssa.Value) bool {
	seen := map[ssa.Value]bool{}
	var rec func(v ssa.Value, d int) bool
	rec = func(v ssa.Value, d int) bool {
		if d > 6 || seen[v] || v.Referrers() == nil {
			return false
		}
		seen[v] = true
		for _, ref := range *v.Referrers() {
			switch rr := ref.(type) {
			case ssa.CallInstruction:
				return true
			case *ssa.Return, *ssa.Store, *ssa.MapUpdate, *ssa.Send:
				return true
			case ssa.Value:
				if rec(rr, d+1) {
					return true
				}
			}
		}
		return false
	}
	return rec(v, 0)
}

// ---------- R5 ----------

func c28R5(cx *c28Ctx, r *kit.Report) {
	p := cx.p
	newFl := p.Func(c28Flood, "", "NewFlooder")
	spk := p.Field(c28Flood, "FloodConfig", "SigningPublicKey")
	if !r.Require(newFl != nil && spk != nil, "anchor-unresolved: flood.NewFlooder / FloodConfig.SigningPublicKey") {
		return
	}
	// (a) construction sites outside the flood package
	nSites := 0
	for _, site := range p.StaticCallers(newFl) {
		fn := site.Parent()
		if kit.FuncPkgPath(fn) == kit.PkgPath(c28Flood) {
			continue
		}
		nSites++
		key := kit.FuncName(fn) + " constructs Flooder"
		pos := p.Pos(site.Pos())
		// the config argument's backing local
		cfgArg := site.Common().Args[0]
		var cfgAlloc ssa.Value
		if u, ok := cfgArg.(*ssa.UnOp); ok && u.Op == token.MUL {
			cfgAlloc = u.X
		}
		var stores []*ssa.Store
		kit.Instrs(fn, func(in ssa.Instruction) {
			st, ok := in.(*ssa.Store)
			if !ok {
				return
			}
			fa, ok := st.Addr.(*ssa.FieldAddr)
			if !ok || kit.FieldOfAddr(fa) != spk || kit.IsNilConst(st.Val) {
				return
			}
			if cfgAlloc != nil && fa.X != cfgAlloc {
				return
			}
			stores = append(stores, st)
		})
		// target of the must-pass-through check: the NewFlooder call, or — when the
		// configuration is produced by a builder function — the builder's successful returns
		judgeFn, target := fn, ssa.Instruction(site)
		if len(stores) == 0 {
			for _, src := range kit.Slice(cfgArg, kit.SliceOpts{Prog: p}) {
				if src.Kind != kit.SrcCall {
					continue
				}
				b := kit.CalleeOf(src.Call).Static
				if b == nil || len(b.Blocks) == 0 {
					continue
				}
				kit.Instrs(b, func(in ssa.Instruction) {
					if st, ok := in.(*ssa.Store); ok {
						if fa, ok := st.Addr.(*ssa.FieldAddr); ok && kit.FieldOfAddr(fa) == spk && !kit.IsNilConst(st.Val) {
							stores = append(stores, st)
							judgeFn, target = b, nil
						}
					}
				})
			}
		}
		if len(stores) == 0 {
			r.Violation("C28.R5", key, pos, "the FloodConfig passed to NewFlooder never receives SigningPublicKey: the flooder runs in accept-everything mode although a signing key is configured")
			continue
		}
		// reaches: the store can be followed by the target; bypass: from block `from` the target
		// is reachable without passing the store's block
		reaches := func(st *ssa.Store) bool {
			if target != nil {
				return kit.CanReach(st, target)
			}
			for _, ret := range kit.Returns(judgeFn) {
				if kit.CanReach(st, ret) {
					return true
				}
			}
			return false
		}
		bypass := func(from *ssa.BasicBlock, st *ssa.Store) bool {
			if from == st.Block() {
				return false
			}
			reach := kit.Reach(from, nil, map[*ssa.BasicBlock]bool{st.Block(): true})
			if target != nil {
				return reach[target.Block()]
			}
			for _, ret := range kit.Returns(judgeFn) {
				if ret.Block() == judgeFn.Recover || !reach[ret.Block()] || ret.Block() == st.Block() {
					continue
				}
				if res := judgeFn.Signature.Results(); res.Len() > 0 && kit.IsErrorType(res.At(res.Len()-1).Type()) && !kit.ReturnsNilError(ret) {
					continue // the builder fails: no Flooder is constructed from it
				}
				return true
			}
			return false
		}
		dominates := func(st *ssa.Store) bool {
			if target != nil {
				return kit.Precedes(st, target)
			}
			for _, ret := range kit.Returns(judgeFn) {
				if ret.Block() == judgeFn.Recover {
					continue
				}
				if res := judgeFn.Signature.Results(); res.Len() > 0 && kit.IsErrorType(res.At(res.Len()-1).Type()) && !kit.ReturnsNilError(ret) {
					continue
				}
				if !kit.Precedes(st, ret) {
					return false
				}
			}
			return true
		}
		okAll, detail := true, ""
		for _, st := range stores {
			// value: address of a local filled from Config.GetSigningPublicKey (or a config accessor)
			fromCfg := false
			for _, s := range kit.Slice(st.Val, kit.SliceOpts{Prog: p}) {
				if s.Kind == kit.SrcCall && strings.Contains(kit.CalleeOf(s.Call).Name, "SigningPublicKey") {
					fromCfg = true
				}
			}
			if a, ok := st.Val.(*ssa.Alloc); ok && !fromCfg {
				for _, s := range kit.Slice(&ssa.UnOp{Op: token.MUL, X: a}, kit.SliceOpts{Prog: p}) {
					if s.Kind == kit.SrcCall && strings.Contains(kit.CalleeOf(s.Call).Name, "SigningPublicKey") {
						fromCfg = true
					}
				}
				if !fromCfg {
					fromCfg = c28AllocFedBy(a, "SigningPublicKey")
				}
			}
			if !fromCfg {
				okAll, detail = false, "the value stored into SigningPublicKey does not come from the configuration's signing public key accessor"
				break
			}
			if !reaches(st) {
				okAll, detail = false, "SigningPublicKey is stored after the flooder has been constructed"
				break
			}
			// bypass: once the innermost guard of the store is taken, NewFlooder must not be
			// reachable around the store (silent degradation to unsigned mode)
			gs := kit.GuardsOf(st)
			if len(gs) == 0 {
				if !dominates(st) {
					okAll, detail = false, "the store of SigningPublicKey does not dominate NewFlooder"
				}
				continue
			}
			// innermost guard that mentions the configured key
			var g *kit.Guard
			for i := range gs {
				if c28MentionsSigningKey(gs[i].Cond) {
					g = &gs[i]
					break
				}
			}
			if g == nil {
				continue // guarded by something unrelated (e.g. flooder enabled): not judged
			}
			ifBlk := g.If.Block()
			taken := ifBlk.Succs[0]
			if !g.Polarity {
				taken = ifBlk.Succs[1]
			}
			if bypass(taken, st) {
				// site reachable from the taken edge without passing the store's block
				okAll, detail = false, "with a signing key configured NewFlooder is reachable on a path that skips the SigningPublicKey store (e.g. a logged-and-ignored key error)"
			}
		}
		r.Decide(okAll, "C28.R5", key, pos, "the configured key is stored into FloodConfig.SigningPublicKey on every configured-key path to NewFlooder", detail+": the agent silently verifies nothing")
	}
	r.Count("flooder_construction_sites", nSites)
	r.Require(nSites >= 1, "floor: no call of flood.NewFlooder outside internal/flood")
	// (b) inside the flood package: the key field is written from cfg.SigningPublicKey only
	for _, kf := range cx.keyField {
		n, bad := 0, ""
		for _, acc := range p.FieldAccessesOfKind(kf, kit.FieldStore, kit.FieldAddrUse) {
			n++
			good := false
			if acc.Kind == kit.FieldStore {
				for _, s := range kit.Slice(acc.Val, kit.SliceOpts{Prog: p}) {
					if s.Kind == kit.SrcField && s.Field == spk {
						good = true
					}
				}
				kit.Slice(acc.Val, kit.SliceOpts{Prog: p, Visit: func(v ssa.Value) {
					if lf, _ := kit.LoadedField(v); lf == spk {
						good = true
					}
				}})
			}
			if !good {
				bad = kit.FuncName(acc.Fn) + " at " + p.Pos(acc.Instr.Pos())
			}
		}
		r.Decide(n >= 1 && bad == "", "C28.R5", "writers of Flooder."+kf.Name(), p.Pos(newFl.Pos()),
			fmt.Sprintf("%d writer(s), all copying FloodConfig.SigningPublicKey", n),
			"the Flooder's verification key is not (only) the configured FloodConfig.SigningPublicKey ("+bad+")")
	}
}

func c28MentionsSigningKey(cond ssa.Value) bool {
	hit := false
	kit.Slice(cond, kit.SliceOpts{Visit: func(v ssa.Value) {
		if c, ok := v.(*ssa.Call); ok {
			n := kit.CalleeOf(c).Name
			if strings.Contains(n, "SigningKey") || strings.Contains(n, "SigningPublicKey") {
				hit = true
			}
		}
		if f, _ := kit.LoadedField(v); f != nil && strings.Contains(f.Name(), "SigningPublicKey") {
			hit = true
		}
	}})
	return hit
}

// c28AllocFedBy: some store into the alloc takes its value from a call whose name contains sub.
func c28AllocFedBy(a *ssa.Alloc, sub string) bool {
	if a.Referrers() == nil {
		return false
	}
	for _, ref := range *a.Referrers() {
		if st, ok := ref.(*ssa.Store); ok && st.Addr == ssa.Value(a) {
			if c, _, ok := kit.ResultOf(st.Val); ok && strings.Contains(kit.CalleeOf(c).Name, sub) {
				return true
			}
		}
	}
	return false
}
