package rules

import (
	"fmt"
	"go/token"
	"go/types"
	"strings"

	"golang.org/x/tools/go/ssa"

	"mmverify/kit"
)

func init() {
	const d = "internal/routing/domain.go"
	const fw = "internal/routing/forward.go"
	const ag = "internal/routing/agent.go"
	register(&Check{
		ID: "C09", Level: "other", Patterns: []string{"./internal/routing"},
		Technique: "abstract CFG walk of the lookups over hit/miss scenarios, key provenance idioms, invariant maintenance and comparator truth tables",
		Explain:   "Decides, by abstractly walking DomainTable's lookup under every exact-hit/wildcard-hit/dot-present scenario, that an exact hit returns element 0 of the exact bucket even when a wildcard would match, that the wildcard map is looked up once (no loop, no range) with the suffix after the first dot of the case-folded name and never for a name without a dot, and that insertion keys and lookup keys are folded by the same function. For DomainTable, ForwardTable and AgentTable it decides sortedness maintenance and the comparator as in C08, and that the keyed lookups return element 0 of the bucket of exactly the requested key under the lock and nil otherwise. Equivalence with a reference model over histories is not decided.",
		Run:       runC09,
		SelfTests: []SelfTest{
			{Name: "wildcard consulted before exact", ExpectRule: "C09.R1", Edits: []Edit{
				{File: d, Old: "\t// 1. Check exact match first\n\tif routes, ok := t.exactRoutes[domain]; ok && len(routes) > 0 {\n\t\treturn routes[0].Clone() // First is best due to sorting by metric\n\t}\n", New: ""},
				{File: d, Old: "\t\t\treturn routes[0].Clone()\n\t\t}\n\t}\n\n\treturn nil\n}", New: "\t\t\treturn routes[0].Clone()\n\t\t}\n\t}\n\tif routes, ok := t.exactRoutes[domain]; ok && len(routes) > 0 {\n\t\treturn routes[0].Clone()\n\t}\n\n\treturn nil\n}"},
			}},
			{Name: "exact hit returns the last element", ExpectRule: "C09.R1", Edits: []Edit{
				{File: d, Old: "\t\treturn routes[0].Clone() // First is best due to sorting by metric\n", New: "\t\treturn routes[len(routes)-1].Clone()\n"},
			}},
			{Name: "wildcard hit ignored", ExpectRule: "C09.R1", Edits: []Edit{
				{File: d, Old: "\t\tif routes, ok := t.wildcardBase[baseDomain]; ok && len(routes) > 0 {\n\t\t\treturn routes[0].Clone()\n\t\t}\n", New: "\t\tif routes, ok := t.wildcardBase[baseDomain]; ok && len(routes) > 1 {\n\t\t\treturn routes[0].Clone()\n\t\t}\n"},
			}},
			{Name: "wildcard matches any depth (loop over suffixes)", ExpectRule: "C09.R2", Edits: []Edit{
				{File: d, Old: "\tidx := strings.Index(domain, \".\")\n\tif idx > 0 && idx < len(domain)-1 {\n\t\tbaseDomain := domain[idx+1:]\n\t\tif routes, ok := t.wildcardBase[baseDomain]; ok && len(routes) > 0 {\n\t\t\treturn routes[0].Clone()\n\t\t}\n\t}\n", New: "\tfor idx := strings.Index(domain, \".\"); idx > 0 && idx < len(domain)-1; idx = strings.Index(domain, \".\") {\n\t\tdomain = domain[idx+1:]\n\t\tif routes, ok := t.wildcardBase[domain]; ok && len(routes) > 0 {\n\t\t\treturn routes[0].Clone()\n\t\t}\n\t}\n"},
			}},
			{Name: "wildcard matched by suffix scan", ExpectRule: "C09.R2", Edits: []Edit{
				{File: d, Old: "\t\tbaseDomain := domain[idx+1:]\n\t\tif routes, ok := t.wildcardBase[baseDomain]; ok && len(routes) > 0 {\n\t\t\treturn routes[0].Clone()\n\t\t}\n", New: "\t\tfor base, routes := range t.wildcardBase {\n\t\t\tif strings.HasSuffix(domain, \".\"+base) && len(routes) > 0 {\n\t\t\t\treturn routes[0].Clone()\n\t\t\t}\n\t\t}\n"},
			}},
			{Name: "wildcard key after the last dot", ExpectRule: "C09.R2", Edits: []Edit{
				{File: d, Old: "\tidx := strings.Index(domain, \".\")\n", New: "\tidx := strings.LastIndex(domain[:len(domain)-1], \".\")\n"},
			}},
			{Name: "wildcard key skips two labels", ExpectRule: "C09.R2", Edits: []Edit{
				{File: d, Old: "\t\tbaseDomain := domain[idx+1:]\n", New: "\t\tbaseDomain := domain[idx+1:]\n\t\tif j := strings.Index(baseDomain, \".\"); j > 0 {\n\t\t\tbaseDomain = baseDomain[j+1:]\n\t\t}\n"},
			}},
			{Name: "dot-less name matches a wildcard of itself", ExpectRule: "C09.R2", Edits: []Edit{
				{File: d, Old: "\tif idx > 0 && idx < len(domain)-1 {\n", New: "\tif idx < len(domain)-1 {\n"},
			}},
			{Name: "case folding dropped on the lookup side", ExpectRule: "C09.R3", Edits: []Edit{
				{File: d, Old: "\tdomain = strings.ToLower(domain)\n\n\t// 1. Check exact match first\n", New: "\t// 1. Check exact match first\n"},
			}},
			{Name: "case folding dropped for wildcard insertion keys", ExpectRule: "C09.R3", Edits: []Edit{
				{File: d, Old: "\t\treturn t.wildcardBase, strings.ToLower(baseDomain)\n", New: "\t\treturn t.wildcardBase, baseDomain\n"},
			}},
			{Name: "case folding dropped for exact insertion keys", ExpectRule: "C09.R3", Edits: []Edit{
				{File: d, Old: "\treturn t.exactRoutes, strings.ToLower(pattern)\n", New: "\treturn t.exactRoutes, strings.TrimSpace(pattern)\n"},
			}},
			{Name: "different folding on the two sides", ExpectRule: "C09.R3", Edits: []Edit{
				{File: d, Old: "\tdomain = strings.ToLower(domain)\n\n\t// 1. Check exact match first\n", New: "\tdomain = strings.ToUpper(domain)\n\n\t// 1. Check exact match first\n"},
			}},
			{Name: "domain sort dropped after update", ExpectRule: "C09.R4", ExpectKey: "AddRoute bucket replace", Edits: []Edit{
				{File: d, Old: "\t\t\t\ttargetMap[key][i] = cloned\n\t\t\t\tt.sortRoutesInMap(targetMap, key)\n", New: "\t\t\t\ttargetMap[key][i] = cloned\n"},
			}},
			{Name: "domain sort applied to the other map", ExpectRule: "C09.R4", ExpectKey: "AddRoute bucket insert", Edits: []Edit{
				{File: d, Old: "\ttargetMap[key] = append(targetMap[key], cloned)\n\tt.sortRoutesInMap(targetMap, key)\n", New: "\ttargetMap[key] = append(targetMap[key], cloned)\n\tt.sortRoutesInMap(t.exactRoutes, route.Pattern)\n"},
			}},
			{Name: "forward sort dropped after insertion", ExpectRule: "C09.R4", ExpectKey: "ForwardTable).AddRoute bucket insert", Edits: []Edit{
				{File: fw, Old: "\tt.routes[key] = append(t.routes[key], cloned)\n\tt.sortRoutes(key)\n", New: "\tt.routes[key] = append(t.routes[key], cloned)\n"},
			}},
			{Name: "agent comparator descending", ExpectRule: "C09.R4", ExpectKey: "AgentTable).sortRoutes sort", Edits: []Edit{
				{File: ag, Old: "\t\treturn routes[i].Metric < routes[j].Metric\n", New: "\t\treturn routes[j].Metric < routes[i].Metric\n"},
			}},
			{Name: "agent disconnect filter prepends (reverses the bucket)", ExpectRule: "C09.R4", ExpectKey: "AgentTable).RemoveRoutesFromPeer", Edits: []Edit{
				{File: ag, Old: "\t\t\tif r.NextHop != peerID {\n\t\t\t\tfiltered = append(filtered, r)\n", New: "\t\t\tif r.NextHop != peerID {\n\t\t\t\tfiltered = append([]*AgentRoute{r}, filtered...)\n"},
				{File: ag, Old: "\t\tfiltered := routes[:0]\n", New: "\t\tvar filtered []*AgentRoute\n"},
			}},
			{Name: "forward lookup returns the last element", ExpectRule: "C09.R5", ExpectKey: "ForwardTable", Edits: []Edit{
				{File: fw, Old: "\t\treturn routes[0].Clone() // First is best due to sorting by metric\n", New: "\t\treturn routes[len(routes)-1].Clone()\n"},
			}},
			{Name: "agent lookup falls back to another bucket", ExpectRule: "C09.R5", ExpectKey: "AgentTable", Edits: []Edit{
				{File: ag, Old: "\t\treturn routes[0].Clone() // First is best due to sorting by metric\n\t}\n\treturn nil\n}", New: "\t\treturn routes[0].Clone() // First is best due to sorting by metric\n\t}\n\tfor _, routes := range t.routes {\n\t\tif len(routes) > 0 {\n\t\t\treturn routes[0].Clone()\n\t\t}\n\t}\n\treturn nil\n}"},
			}},
			{Name: "forward lookup without the lock", ExpectRule: "C09.R5", ExpectKey: "ForwardTable", Edits: []Edit{
				{File: fw, Old: "func (t *ForwardTable) Lookup(key string) *ForwardRoute {\n\tt.mu.RLock()\n\tdefer t.mu.RUnlock()\n\n", New: "func (t *ForwardTable) Lookup(key string) *ForwardRoute {\n"},
			}},
			{Name: "round2: domain lookup served from a result cache", ExpectRule: "C09.R1", ExpectKey: "every result is the head", Edits: []Edit{
				{File: d, Old: "\tdomain = strings.ToLower(domain)\n\n\t// 1. Check exact match first\n", New: "\tdomain = strings.ToLower(domain)\n\tif r, ok := domainHot.Load(domain); ok {\n\t\treturn r.(*DomainRoute).Clone()\n\t}\n\n\t// 1. Check exact match first\n"},
				{File: d, Old: "// lookupUnlocked performs lookup without locking (caller must hold lock).\nfunc (t *DomainTable) lookupUnlocked", New: "var domainHot sync.Map\n\n// lookupUnlocked performs lookup without locking (caller must hold lock).\nfunc (t *DomainTable) lookupUnlocked"},
			}},
			{Name: "round2: long names rejected before any lookup", ExpectRule: "C09.R1", ExpectKey: "every result is the head", Edits: []Edit{
				{File: d, Old: "\tdomain = strings.ToLower(domain)\n\n\t// 1. Check exact match first\n", New: "\tdomain = strings.ToLower(domain)\n\tif len(domain) > 64 {\n\t\treturn nil\n\t}\n\n\t// 1. Check exact match first\n"},
			}},
			{Name: "round2: exact map probed with an alias key first", ExpectRule: "C09.R1", Edits: []Edit{
				{File: d, Old: "\tdomain = strings.ToLower(domain)\n\n\t// 1. Check exact match first\n", New: "\tdomain = strings.ToLower(domain)\n\tif routes := t.exactRoutes[\"www.\"+domain]; len(domain) > 64 && len(routes) > 0 {\n\t\treturn routes[0].Clone()\n\t}\n\n\t// 1. Check exact match first\n"},
			}},
			{Name: "round2: forward lookup alias fast path", ExpectRule: "C09.R5", ExpectKey: "ForwardTable", Edits: []Edit{
				{File: fw, Old: "\tif routes, ok := t.routes[key]; ok && len(routes) > 0 {\n\t\treturn routes[0].Clone() // First is best due to sorting by metric\n\t}\n\treturn nil\n}", New: "\tif routes := t.routes[key+\".local\"]; len(key) > 64 && len(routes) > 0 {\n\t\treturn routes[0].Clone()\n\t}\n\tif routes, ok := t.routes[key]; ok && len(routes) > 0 {\n\t\treturn routes[0].Clone() // First is best due to sorting by metric\n\t}\n\treturn nil\n}"},
			}},
			{Name: "round2: agent lookup refuses the local id", ExpectRule: "C09.R5", ExpectKey: "AgentTable", Edits: []Edit{
				{File: ag, Old: "func (t *AgentTable) Lookup(agentID identity.AgentID) *AgentRoute {\n\tt.mu.RLock()", New: "func (t *AgentTable) Lookup(agentID identity.AgentID) *AgentRoute {\n\tif agentID == t.localID {\n\t\treturn nil\n\t}\n\tt.mu.RLock()"},
			}},
			{Name: "round2: forward RemoveRoute swap-delete", ExpectRule: "C09.R4", ExpectKey: "ForwardTable).RemoveRoute", Edits: []Edit{
				{File: fw, Old: "\t\t\tt.routes[key] = append(routes[:i], routes[i+1:]...)\n\t\t\tif len(t.routes[key]) == 0 {\n\t\t\t\tdelete(t.routes, key)\n\t\t\t}\n", New: "\t\t\tlast := len(routes) - 1\n\t\t\troutes[i] = routes[last]\n\t\t\troutes[last] = nil\n\t\t\tif last == 0 {\n\t\t\t\tdelete(t.routes, key)\n\t\t\t} else {\n\t\t\t\tt.routes[key] = routes[:last]\n\t\t\t}\n"},
			}},
			{Name: "round2: folding hoisted onto the wrong variable", ExpectRule: "C09.R3", Edits: []Edit{
				{File: d, Old: "\tif isWildcard {\n\t\treturn t.wildcardBase, strings.ToLower(baseDomain)\n\t}\n\treturn t.exactRoutes, strings.ToLower(pattern)\n", New: "\tpattern = strings.ToLower(strings.TrimSpace(pattern))\n\tif isWildcard {\n\t\treturn t.wildcardBase, baseDomain\n\t}\n\treturn t.exactRoutes, pattern\n"},
			}},
			{Name: "round2 rewrite: empty-argument guards", Edits: []Edit{
				{File: d, Old: "func (t *DomainTable) Lookup(domain string) *DomainRoute {\n\tt.mu.RLock()", New: "func (t *DomainTable) Lookup(domain string) *DomainRoute {\n\tif domain == \"\" {\n\t\treturn nil\n\t}\n\tt.mu.RLock()"},
				{File: fw, Old: "\tif routes, ok := t.routes[key]; ok && len(routes) > 0 {\n\t\treturn routes[0].Clone() // First is best due to sorting by metric\n\t}\n\treturn nil\n}", New: "\tif key == \"\" || len(t.routes) == 0 {\n\t\treturn nil\n\t}\n\tif routes, ok := t.routes[key]; ok && len(routes) > 0 {\n\t\treturn routes[0].Clone() // First is best due to sorting by metric\n\t}\n\treturn nil\n}"},
			}},
			{Name: "round3 rewrite: wildcard parent and case folding extracted into helpers", Edits: []Edit{
				{File: d, Old: "\tidx := strings.Index(domain, \".\")\n\tif idx > 0 && idx < len(domain)-1 {\n\t\tbaseDomain := domain[idx+1:]\n\t\tif routes, ok := t.wildcardBase[baseDomain]; ok && len(routes) > 0 {\n\t\t\treturn routes[0].Clone()\n\t\t}\n\t}\n", New: "\tif parent, ok := wildcardParent(domain); ok {\n\t\tif routes := t.wildcardBase[parent]; len(routes) > 0 {\n\t\t\treturn routes[0].Clone()\n\t\t}\n\t}\n"},
				{File: d, Old: "// lookupUnlocked performs lookup without locking (caller must hold lock).\nfunc (t *DomainTable) lookupUnlocked", New: "func wildcardParent(name string) (string, bool) {\n\tdot := strings.Index(name, \".\")\n\tif dot <= 0 || dot >= len(name)-1 {\n\t\treturn \"\", false\n\t}\n\treturn name[dot+1:], true\n}\n\nfunc normalizeDomain(s string) string {\n\treturn strings.ToLower(strings.TrimSpace(s))\n}\n\n// lookupUnlocked performs lookup without locking (caller must hold lock).\nfunc (t *DomainTable) lookupUnlocked"},
				{File: d, Old: "\tdomain = strings.ToLower(domain)\n\n\t// 1. Check exact match first\n", New: "\tdomain = normalizeDomain(domain)\n\n\t// 1. Check exact match first\n"},
				{File: d, Old: "\t\treturn t.wildcardBase, strings.ToLower(baseDomain)\n\t}\n\treturn t.exactRoutes, strings.ToLower(pattern)\n", New: "\t\treturn t.wildcardBase, normalizeDomain(baseDomain)\n\t}\n\treturn t.exactRoutes, normalizeDomain(pattern)\n"},
			}},
			{Name: "round3: extracted wildcard-parent helper cuts at the last dot", ExpectRule: "C09.R2", Edits: []Edit{
				{File: d, Old: "\tidx := strings.Index(domain, \".\")\n\tif idx > 0 && idx < len(domain)-1 {\n\t\tbaseDomain := domain[idx+1:]\n\t\tif routes, ok := t.wildcardBase[baseDomain]; ok && len(routes) > 0 {\n\t\t\treturn routes[0].Clone()\n\t\t}\n\t}\n", New: "\tif parent, ok := wildcardParent(domain); ok {\n\t\tif routes := t.wildcardBase[parent]; len(routes) > 0 {\n\t\t\treturn routes[0].Clone()\n\t\t}\n\t}\n"},
				{File: d, Old: "// lookupUnlocked performs lookup without locking (caller must hold lock).\nfunc (t *DomainTable) lookupUnlocked", New: "func wildcardParent(name string) (string, bool) {\n\tdot := strings.LastIndex(name, \".\")\n\tif dot <= 0 || dot >= len(name)-1 {\n\t\treturn \"\", false\n\t}\n\treturn name[dot+1:], true\n}\n\nfunc normalizeDomain(s string) string {\n\treturn strings.ToLower(strings.TrimSpace(s))\n}\n\n// lookupUnlocked performs lookup without locking (caller must hold lock).\nfunc (t *DomainTable) lookupUnlocked"},
				{File: d, Old: "\tdomain = strings.ToLower(domain)\n\n\t// 1. Check exact match first\n", New: "\tdomain = normalizeDomain(domain)\n\n\t// 1. Check exact match first\n"},
				{File: d, Old: "\t\treturn t.wildcardBase, strings.ToLower(baseDomain)\n\t}\n\treturn t.exactRoutes, strings.ToLower(pattern)\n", New: "\t\treturn t.wildcardBase, normalizeDomain(baseDomain)\n\t}\n\treturn t.exactRoutes, normalizeDomain(pattern)\n"},
			}},
			{Name: "round3: extracted normaliser no longer folds case", ExpectRule: "C09.R3", Edits: []Edit{
				{File: d, Old: "\tidx := strings.Index(domain, \".\")\n\tif idx > 0 && idx < len(domain)-1 {\n\t\tbaseDomain := domain[idx+1:]\n\t\tif routes, ok := t.wildcardBase[baseDomain]; ok && len(routes) > 0 {\n\t\t\treturn routes[0].Clone()\n\t\t}\n\t}\n", New: "\tif parent, ok := wildcardParent(domain); ok {\n\t\tif routes := t.wildcardBase[parent]; len(routes) > 0 {\n\t\t\treturn routes[0].Clone()\n\t\t}\n\t}\n"},
				{File: d, Old: "// lookupUnlocked performs lookup without locking (caller must hold lock).\nfunc (t *DomainTable) lookupUnlocked", New: "func wildcardParent(name string) (string, bool) {\n\tdot := strings.Index(name, \".\")\n\tif dot <= 0 || dot >= len(name)-1 {\n\t\treturn \"\", false\n\t}\n\treturn name[dot+1:], true\n}\n\nfunc normalizeDomain(s string) string {\n\treturn strings.TrimSpace(s)\n}\n\n// lookupUnlocked performs lookup without locking (caller must hold lock).\nfunc (t *DomainTable) lookupUnlocked"},
				{File: d, Old: "\tdomain = strings.ToLower(domain)\n\n\t// 1. Check exact match first\n", New: "\tdomain = normalizeDomain(domain)\n\n\t// 1. Check exact match first\n"},
				{File: d, Old: "\t\treturn t.wildcardBase, strings.ToLower(baseDomain)\n\t}\n\treturn t.exactRoutes, strings.ToLower(pattern)\n", New: "\t\treturn t.wildcardBase, normalizeDomain(baseDomain)\n\t}\n\treturn t.exactRoutes, normalizeDomain(pattern)\n"},
			}},
			{Name: "round3 rewrite: wildcard parent helper with empty-string sentinel (strings.Cut)", Edits: []Edit{
				{File: d, Old: "\tidx := strings.Index(domain, \".\")\n\tif idx > 0 && idx < len(domain)-1 {\n\t\tbaseDomain := domain[idx+1:]\n\t\tif routes, ok := t.wildcardBase[baseDomain]; ok && len(routes) > 0 {\n\t\t\treturn routes[0].Clone()\n\t\t}\n\t}\n", New: "\tif parent := wildcardParentOf(domain); parent != \"\" {\n\t\tif routes := t.wildcardBase[parent]; len(routes) > 0 {\n\t\t\treturn routes[0].Clone()\n\t\t}\n\t}\n"},
				{File: d, Old: "// lookupUnlocked performs lookup without locking (caller must hold lock).\nfunc (t *DomainTable) lookupUnlocked", New: "func wildcardParentOf(name string) string {\n\t_, rest, found := strings.Cut(name, \".\")\n\tif !found || strings.HasPrefix(name, \".\") {\n\t\treturn \"\"\n\t}\n\treturn rest\n}\n\n// lookupUnlocked performs lookup without locking (caller must hold lock).\nfunc (t *DomainTable) lookupUnlocked"},
			}},
			{Name: "round3b rewrite: generic retain helpers, IndexFunc + slices.Delete (C10/a shape)", Edits: []Edit{
				{File: ag, Old: "import (\n\t\"fmt\"\n", New: "import (\n\t\"slices\"\n\t\"fmt\"\n"},
				{File: ag, Old: "// AddRoute adds or updates an agent presence route in the table.\n// Returns true if the route was added/updated, false if rejected (e.g., loop detected).\nfunc (t *AgentTable) AddRoute(route *AgentRoute) bool {\n\tif route == nil {\n\t\treturn false\n\t}\n\n\t// Check for routing loops (is our ID in the path?)\n\tfor _, id := range route.Path {\n\t\tif id == t.localID {\n\t\t\treturn false // Loop detected\n\t\t}\n\t}\n\n\tt.mu.Lock()\n\tdefer t.mu.Unlock()\n\n\tkey := route.AgentID\n\n\t// Check if we already have a route from this origin via this next hop\n\tfor i, r := range t.routes[key] {\n\t\tif r.OriginAgent == route.OriginAgent && r.NextHop == route.NextHop {\n\t\t\t// Update if newer sequence or better metric\n\t\t\tif route.Sequence > r.Sequence ||\n\t\t\t\t(route.Sequence == r.Sequence && route.Metric < r.Metric) {\n\t\t\t\tcloned := route.Clone()\n\t\t\t\tcloned.LastUpdate = time.Now()\n\t\t\t\tt.routes[key][i] = cloned\n\t\t\t\tt.sortRoutes(key)\n\t\t\t\treturn true\n\t\t\t}\n\t\t\treturn false // Older/worse route\n\t\t}\n\t}\n\n\t// New route from this origin/nexthop\n\tcloned := route.Clone()\n\tcloned.LastUpdate = time.Now()\n\tt.routes[key] = append(t.routes[key], cloned)\n\tt.sortRoutes(key)\n\treturn true\n}\n\n// sortRoutes sorts routes for an agent by metric (lowest first).\nfunc (t *AgentTable) sortRoutes(key identity.AgentID) {\n\troutes := t.routes[key]\n\tsort.Slice(routes, func(i, j int) bool {\n\t\treturn routes[i].Metric < routes[j].Metric\n\t})\n}\n\n// RemoveRoute removes an agent presence route from a specific origin.\nfunc (t *AgentTable) RemoveRoute(agentID, originAgent identity.AgentID) bool {\n\tt.mu.Lock()\n\tdefer t.mu.Unlock()\n\n\troutes := t.routes[agentID]\n\tfor i, r := range routes {\n\t\tif r.OriginAgent == originAgent {\n\t\t\tt.routes[agentID] = append(routes[:i], routes[i+1:]...)\n\t\t\tif len(t.routes[agentID]) == 0 {\n\t\t\t\tdelete(t.routes, agentID)\n\t\t\t}\n\t\t\treturn true\n\t\t}\n\t}\n\treturn false\n}\n\n// RemoveRoutesFromPeer removes all agent routes learned from a specific peer.\nfunc (t *AgentTable) RemoveRoutesFromPeer(peerID identity.AgentID) int {\n\tt.mu.Lock()\n\tdefer t.mu.Unlock()\n\n\tcount := 0\n\tfor agentID, routes := range t.routes {\n\t\tfiltered := routes[:0]\n\t\tfor _, r := range routes {\n\t\t\tif r.NextHop != peerID {\n\t\t\t\tfiltered = append(filtered, r)\n\t\t\t} else {\n\t\t\t\tcount++\n\t\t\t}\n\t\t}\n\t\tif len(filtered) == 0 {\n\t\t\tdelete(t.routes, agentID)\n\t\t} else {\n\t\t\tt.routes[agentID] = filtered\n\t\t}\n\t}\n\treturn count\n}\n", New: "// AddRoute adds or updates an agent presence route in the table.\n// Returns true if the route was added/updated, false if rejected (e.g., loop detected).\nfunc (t *AgentTable) AddRoute(route *AgentRoute) bool {\n\tif route == nil {\n\t\treturn false\n\t}\n\n\t// Check for routing loops (is our ID in the path?)\n\tif pathHasLoop(route.Path, t.localID) {\n\t\treturn false\n\t}\n\n\tt.mu.Lock()\n\tdefer t.mu.Unlock()\n\n\tkey := route.AgentID\n\n\t// Check if we already have a route from this origin via this next hop\n\tbucket := t.routes[key]\n\tidx := slices.IndexFunc(bucket, func(r *AgentRoute) bool {\n\t\treturn r.OriginAgent == route.OriginAgent && r.NextHop == route.NextHop\n\t})\n\tif idx >= 0 {\n\t\t// Update only if newer sequence or better metric\n\t\tstored := bucket[idx]\n\t\tif !supersedes(route.Sequence, route.Metric, stored.Sequence, stored.Metric) {\n\t\t\treturn false // Older/worse route\n\t\t}\n\t}\n\n\tcloned := route.Clone()\n\tcloned.LastUpdate = time.Now()\n\tif idx >= 0 {\n\t\tbucket[idx] = cloned\n\t} else {\n\t\t// New route from this origin/nexthop\n\t\tt.routes[key] = append(bucket, cloned)\n\t}\n\tt.sortRoutes(key)\n\treturn true\n}\n\n// sortRoutes sorts routes for an agent by metric (lowest first).\nfunc (t *AgentTable) sortRoutes(key identity.AgentID) {\n\troutes := t.routes[key]\n\tsort.Slice(routes, func(i, j int) bool {\n\t\treturn routes[i].Metric < routes[j].Metric\n\t})\n}\n\n// RemoveRoute removes an agent presence route from a specific origin.\nfunc (t *AgentTable) RemoveRoute(agentID, originAgent identity.AgentID) bool {\n\tt.mu.Lock()\n\tdefer t.mu.Unlock()\n\n\tbucket := t.routes[agentID]\n\tidx := slices.IndexFunc(bucket, func(r *AgentRoute) bool {\n\t\treturn r.OriginAgent == originAgent\n\t})\n\tif idx < 0 {\n\t\treturn false\n\t}\n\n\tbucket = slices.Delete(bucket, idx, idx+1)\n\tif len(bucket) == 0 {\n\t\tdelete(t.routes, agentID)\n\t} else {\n\t\tt.routes[agentID] = bucket\n\t}\n\treturn true\n}\n\n// RemoveRoutesFromPeer removes all agent routes learned from a specific peer.\nfunc (t *AgentTable) RemoveRoutesFromPeer(peerID identity.AgentID) int {\n\tt.mu.Lock()\n\tdefer t.mu.Unlock()\n\n\tnotViaPeer := func(r *AgentRoute) bool { return r.NextHop != peerID }\n\n\tcount := 0\n\tfor agentID, routes := range t.routes {\n\t\tremaining, dropped := retainInPlace(routes, notViaPeer)\n\t\tcount += dropped\n\t\tif len(remaining) == 0 {\n\t\t\tdelete(t.routes, agentID)\n\t\t} else {\n\t\t\tt.routes[agentID] = remaining\n\t\t}\n\t}\n\treturn count\n}\n\n// pathHasLoop reports whether the local agent already appears in an\n// advertised path, i.e. accepting the route would create a routing loop.\nfunc pathHasLoop(path []identity.AgentID, localID identity.AgentID) bool {\n\treturn slices.Contains(path, localID)\n}\n\n// supersedes reports whether an advertisement carrying (newSeq, newMetric)\n// replaces a stored entry carrying (oldSeq, oldMetric): a newer sequence always\n// wins, the same sequence wins only with a strictly better metric.\nfunc supersedes(newSeq uint64, newMetric uint16, oldSeq uint64, oldMetric uint16) bool {\n\tif newSeq != oldSeq {\n\t\treturn newSeq > oldSeq\n\t}\n\treturn newMetric < oldMetric\n}\n\n// retainInPlace keeps the entries for which keep returns true, reusing the\n// backing array of routes. It returns the kept entries and how many were dropped.\nfunc retainInPlace[R any](routes []R, keep func(R) bool) ([]R, int) {\n\tkept := routes[:0]\n\tdropped := 0\n\tfor _, r := range routes {\n\t\tif keep(r) {\n\t\t\tkept = append(kept, r)\n\t\t} else {\n\t\t\tdropped++\n\t\t}\n\t}\n\treturn kept, dropped\n}\n\n// retainCopy keeps the entries for which keep returns true in a freshly\n// allocated slice (nil when nothing is kept), leaving routes untouched.\n// It returns the kept entries and how many were dropped.\nfunc retainCopy[R any](routes []R, keep func(R) bool) ([]R, int) {\n\tvar kept []R\n\tdropped := 0\n\tfor _, r := range routes {\n\t\tif keep(r) {\n\t\t\tkept = append(kept, r)\n\t\t} else {\n\t\t\tdropped++\n\t\t}\n\t}\n\treturn kept, dropped\n}\n"},
				{File: ag, Old: "// CleanupStaleRoutes removes agent routes that haven't been updated within maxAge.\n// Local routes (where OriginAgent == localID) are never removed.\n// Returns the number of routes removed.\nfunc (t *AgentTable) CleanupStaleRoutes(maxAge time.Duration) int {\n\tt.mu.Lock()\n\tdefer t.mu.Unlock()\n\n\tnow := time.Now()\n\tremoved := 0\n\n\tfor agentID, routes := range t.routes {\n\t\tvar kept []*AgentRoute\n\t\tfor _, r := range routes {\n\t\t\tif r.OriginAgent == t.localID || now.Sub(r.LastUpdate) <= maxAge {\n\t\t\t\tkept = append(kept, r)\n\t\t\t} else {\n\t\t\t\tremoved++\n\t\t\t}\n\t\t}\n\t\tif len(kept) > 0 {\n\t\t\tt.routes[agentID] = kept\n\t\t} else {\n\t\t\tdelete(t.routes, agentID)\n\t\t}\n\t}\n\treturn removed\n}\n", New: "// CleanupStaleRoutes removes agent routes that haven't been updated within maxAge.\n// Local routes (where OriginAgent == localID) are never removed.\n// Returns the number of routes removed.\nfunc (t *AgentTable) CleanupStaleRoutes(maxAge time.Duration) int {\n\tt.mu.Lock()\n\tdefer t.mu.Unlock()\n\n\tnow := time.Now()\n\tlocalOrFresh := func(r *AgentRoute) bool {\n\t\treturn r.OriginAgent == t.localID || now.Sub(r.LastUpdate) <= maxAge\n\t}\n\n\tremoved := 0\n\tfor agentID, routes := range t.routes {\n\t\tkept, dropped := retainCopy(routes, localOrFresh)\n\t\tremoved += dropped\n\t\tif len(kept) > 0 {\n\t\t\tt.routes[agentID] = kept\n\t\t} else {\n\t\t\tdelete(t.routes, agentID)\n\t\t}\n\t}\n\treturn removed\n}\n"},
			}},
			{Name: "round3b: AddRoute in IndexFunc form no longer sorts after an update", ExpectRule: "C09.R4", ExpectKey: "AgentTable", Edits: []Edit{
				{File: ag, Old: "import (\n\t\"fmt\"\n", New: "import (\n\t\"slices\"\n\t\"fmt\"\n"},
				{File: ag, Old: "// AddRoute adds or updates an agent presence route in the table.\n// Returns true if the route was added/updated, false if rejected (e.g., loop detected).\nfunc (t *AgentTable) AddRoute(route *AgentRoute) bool {\n\tif route == nil {\n\t\treturn false\n\t}\n\n\t// Check for routing loops (is our ID in the path?)\n\tfor _, id := range route.Path {\n\t\tif id == t.localID {\n\t\t\treturn false // Loop detected\n\t\t}\n\t}\n\n\tt.mu.Lock()\n\tdefer t.mu.Unlock()\n\n\tkey := route.AgentID\n\n\t// Check if we already have a route from this origin via this next hop\n\tfor i, r := range t.routes[key] {\n\t\tif r.OriginAgent == route.OriginAgent && r.NextHop == route.NextHop {\n\t\t\t// Update if newer sequence or better metric\n\t\t\tif route.Sequence > r.Sequence ||\n\t\t\t\t(route.Sequence == r.Sequence && route.Metric < r.Metric) {\n\t\t\t\tcloned := route.Clone()\n\t\t\t\tcloned.LastUpdate = time.Now()\n\t\t\t\tt.routes[key][i] = cloned\n\t\t\t\tt.sortRoutes(key)\n\t\t\t\treturn true\n\t\t\t}\n\t\t\treturn false // Older/worse route\n\t\t}\n\t}\n\n\t// New route from this origin/nexthop\n\tcloned := route.Clone()\n\tcloned.LastUpdate = time.Now()\n\tt.routes[key] = append(t.routes[key], cloned)\n\tt.sortRoutes(key)\n\treturn true\n}\n\n// sortRoutes sorts routes for an agent by metric (lowest first).\nfunc (t *AgentTable) sortRoutes(key identity.AgentID) {\n\troutes := t.routes[key]\n\tsort.Slice(routes, func(i, j int) bool {\n\t\treturn routes[i].Metric < routes[j].Metric\n\t})\n}\n\n// RemoveRoute removes an agent presence route from a specific origin.\nfunc (t *AgentTable) RemoveRoute(agentID, originAgent identity.AgentID) bool {\n\tt.mu.Lock()\n\tdefer t.mu.Unlock()\n\n\troutes := t.routes[agentID]\n\tfor i, r := range routes {\n\t\tif r.OriginAgent == originAgent {\n\t\t\tt.routes[agentID] = append(routes[:i], routes[i+1:]...)\n\t\t\tif len(t.routes[agentID]) == 0 {\n\t\t\t\tdelete(t.routes, agentID)\n\t\t\t}\n\t\t\treturn true\n\t\t}\n\t}\n\treturn false\n}\n\n// RemoveRoutesFromPeer removes all agent routes learned from a specific peer.\nfunc (t *AgentTable) RemoveRoutesFromPeer(peerID identity.AgentID) int {\n\tt.mu.Lock()\n\tdefer t.mu.Unlock()\n\n\tcount := 0\n\tfor agentID, routes := range t.routes {\n\t\tfiltered := routes[:0]\n\t\tfor _, r := range routes {\n\t\t\tif r.NextHop != peerID {\n\t\t\t\tfiltered = append(filtered, r)\n\t\t\t} else {\n\t\t\t\tcount++\n\t\t\t}\n\t\t}\n\t\tif len(filtered) == 0 {\n\t\t\tdelete(t.routes, agentID)\n\t\t} else {\n\t\t\tt.routes[agentID] = filtered\n\t\t}\n\t}\n\treturn count\n}\n", New: "// AddRoute adds or updates an agent presence route in the table.\n// Returns true if the route was added/updated, false if rejected (e.g., loop detected).\nfunc (t *AgentTable) AddRoute(route *AgentRoute) bool {\n\tif route == nil {\n\t\treturn false\n\t}\n\n\t// Check for routing loops (is our ID in the path?)\n\tif pathHasLoop(route.Path, t.localID) {\n\t\treturn false\n\t}\n\n\tt.mu.Lock()\n\tdefer t.mu.Unlock()\n\n\tkey := route.AgentID\n\n\t// Check if we already have a route from this origin via this next hop\n\tbucket := t.routes[key]\n\tidx := slices.IndexFunc(bucket, func(r *AgentRoute) bool {\n\t\treturn r.OriginAgent == route.OriginAgent && r.NextHop == route.NextHop\n\t})\n\tif idx >= 0 {\n\t\t// Update only if newer sequence or better metric\n\t\tstored := bucket[idx]\n\t\tif !supersedes(route.Sequence, route.Metric, stored.Sequence, stored.Metric) {\n\t\t\treturn false // Older/worse route\n\t\t}\n\t}\n\n\tcloned := route.Clone()\n\tcloned.LastUpdate = time.Now()\n\tif idx >= 0 {\n\t\tbucket[idx] = cloned\n\t} else {\n\t\t// New route from this origin/nexthop\n\t\tt.routes[key] = append(bucket, cloned)\n\t\tt.sortRoutes(key)\n\t}\n\treturn true\n}\n\n// sortRoutes sorts routes for an agent by metric (lowest first).\nfunc (t *AgentTable) sortRoutes(key identity.AgentID) {\n\troutes := t.routes[key]\n\tsort.Slice(routes, func(i, j int) bool {\n\t\treturn routes[i].Metric < routes[j].Metric\n\t})\n}\n\n// RemoveRoute removes an agent presence route from a specific origin.\nfunc (t *AgentTable) RemoveRoute(agentID, originAgent identity.AgentID) bool {\n\tt.mu.Lock()\n\tdefer t.mu.Unlock()\n\n\tbucket := t.routes[agentID]\n\tidx := slices.IndexFunc(bucket, func(r *AgentRoute) bool {\n\t\treturn r.OriginAgent == originAgent\n\t})\n\tif idx < 0 {\n\t\treturn false\n\t}\n\n\tbucket = slices.Delete(bucket, idx, idx+1)\n\tif len(bucket) == 0 {\n\t\tdelete(t.routes, agentID)\n\t} else {\n\t\tt.routes[agentID] = bucket\n\t}\n\treturn true\n}\n\n// RemoveRoutesFromPeer removes all agent routes learned from a specific peer.\nfunc (t *AgentTable) RemoveRoutesFromPeer(peerID identity.AgentID) int {\n\tt.mu.Lock()\n\tdefer t.mu.Unlock()\n\n\tnotViaPeer := func(r *AgentRoute) bool { return r.NextHop != peerID }\n\n\tcount := 0\n\tfor agentID, routes := range t.routes {\n\t\tremaining, dropped := retainInPlace(routes, notViaPeer)\n\t\tcount += dropped\n\t\tif len(remaining) == 0 {\n\t\t\tdelete(t.routes, agentID)\n\t\t} else {\n\t\t\tt.routes[agentID] = remaining\n\t\t}\n\t}\n\treturn count\n}\n\n// pathHasLoop reports whether the local agent already appears in an\n// advertised path, i.e. accepting the route would create a routing loop.\nfunc pathHasLoop(path []identity.AgentID, localID identity.AgentID) bool {\n\treturn slices.Contains(path, localID)\n}\n\n// supersedes reports whether an advertisement carrying (newSeq, newMetric)\n// replaces a stored entry carrying (oldSeq, oldMetric): a newer sequence always\n// wins, the same sequence wins only with a strictly better metric.\nfunc supersedes(newSeq uint64, newMetric uint16, oldSeq uint64, oldMetric uint16) bool {\n\tif newSeq != oldSeq {\n\t\treturn newSeq > oldSeq\n\t}\n\treturn newMetric < oldMetric\n}\n\n// retainInPlace keeps the entries for which keep returns true, reusing the\n// backing array of routes. It returns the kept entries and how many were dropped.\nfunc retainInPlace[R any](routes []R, keep func(R) bool) ([]R, int) {\n\tkept := routes[:0]\n\tdropped := 0\n\tfor _, r := range routes {\n\t\tif keep(r) {\n\t\t\tkept = append(kept, r)\n\t\t} else {\n\t\t\tdropped++\n\t\t}\n\t}\n\treturn kept, dropped\n}\n\n// retainCopy keeps the entries for which keep returns true in a freshly\n// allocated slice (nil when nothing is kept), leaving routes untouched.\n// It returns the kept entries and how many were dropped.\nfunc retainCopy[R any](routes []R, keep func(R) bool) ([]R, int) {\n\tvar kept []R\n\tdropped := 0\n\tfor _, r := range routes {\n\t\tif keep(r) {\n\t\t\tkept = append(kept, r)\n\t\t} else {\n\t\t\tdropped++\n\t\t}\n\t}\n\treturn kept, dropped\n}\n"},
				{File: ag, Old: "// CleanupStaleRoutes removes agent routes that haven't been updated within maxAge.\n// Local routes (where OriginAgent == localID) are never removed.\n// Returns the number of routes removed.\nfunc (t *AgentTable) CleanupStaleRoutes(maxAge time.Duration) int {\n\tt.mu.Lock()\n\tdefer t.mu.Unlock()\n\n\tnow := time.Now()\n\tremoved := 0\n\n\tfor agentID, routes := range t.routes {\n\t\tvar kept []*AgentRoute\n\t\tfor _, r := range routes {\n\t\t\tif r.OriginAgent == t.localID || now.Sub(r.LastUpdate) <= maxAge {\n\t\t\t\tkept = append(kept, r)\n\t\t\t} else {\n\t\t\t\tremoved++\n\t\t\t}\n\t\t}\n\t\tif len(kept) > 0 {\n\t\t\tt.routes[agentID] = kept\n\t\t} else {\n\t\t\tdelete(t.routes, agentID)\n\t\t}\n\t}\n\treturn removed\n}\n", New: "// CleanupStaleRoutes removes agent routes that haven't been updated within maxAge.\n// Local routes (where OriginAgent == localID) are never removed.\n// Returns the number of routes removed.\nfunc (t *AgentTable) CleanupStaleRoutes(maxAge time.Duration) int {\n\tt.mu.Lock()\n\tdefer t.mu.Unlock()\n\n\tnow := time.Now()\n\tlocalOrFresh := func(r *AgentRoute) bool {\n\t\treturn r.OriginAgent == t.localID || now.Sub(r.LastUpdate) <= maxAge\n\t}\n\n\tremoved := 0\n\tfor agentID, routes := range t.routes {\n\t\tkept, dropped := retainCopy(routes, localOrFresh)\n\t\tremoved += dropped\n\t\tif len(kept) > 0 {\n\t\t\tt.routes[agentID] = kept\n\t\t} else {\n\t\t\tdelete(t.routes, agentID)\n\t\t}\n\t}\n\treturn removed\n}\n"},
			}},
			{Name: "round5 rewrite: lookup inlined, strings.Cut predicate, bestDomainRoute(list) helper (C09/a shape)", Edits: []Edit{
				{File: d, Old: "// Lookup finds the best domain route for a domain name.\n// First checks exact matches, then single-level wildcards.\nfunc (t *DomainTable) Lookup(domain string) *DomainRoute {\n\tt.mu.RLock()\n\tdefer t.mu.RUnlock()\n\n\treturn t.lookupUnlocked(domain)\n}\n\n// lookupUnlocked performs lookup without locking (caller must hold lock).\nfunc (t *DomainTable) lookupUnlocked(domain string) *DomainRoute {\n\tdomain = strings.ToLower(domain)\n\n\t// 1. Check exact match first\n\tif routes, ok := t.exactRoutes[domain]; ok && len(routes) > 0 {\n\t\treturn routes[0].Clone() // First is best due to sorting by metric\n\t}\n\n\t// 2. Check single-level wildcard\n\t// Split at first dot to get parent domain\n\tidx := strings.Index(domain, \".\")\n\tif idx > 0 && idx < len(domain)-1 {\n\t\tbaseDomain := domain[idx+1:]\n\t\tif routes, ok := t.wildcardBase[baseDomain]; ok && len(routes) > 0 {\n\t\t\treturn routes[0].Clone()\n\t\t}\n\t}\n\n\treturn nil\n}\n", New: "// Lookup finds the best domain route for a domain name.\n// First checks exact matches, then single-level wildcards.\nfunc (t *DomainTable) Lookup(domain string) *DomainRoute {\n\tname := strings.ToLower(domain)\n\n\tt.mu.RLock()\n\tdefer t.mu.RUnlock()\n\n\t// 1. Check exact match first (first entry is best due to sorting by metric)\n\tif best := bestDomainRoute(t.exactRoutes[name]); best != nil {\n\t\treturn best\n\t}\n\n\t// 2. Check single-level wildcard\n\t// Split at first dot to get parent domain; both the leading label and\n\t// the parent must be non-empty.\n\tlabel, parent, hasDot := strings.Cut(name, \".\")\n\tif !hasDot || label == \"\" || parent == \"\" {\n\t\treturn nil\n\t}\n\treturn bestDomainRoute(t.wildcardBase[parent])\n}\n\n// bestDomainRoute returns a copy of the head of a metric-sorted route list,\n// or nil when the list is empty.\nfunc bestDomainRoute(sorted []*DomainRoute) *DomainRoute {\n\tif len(sorted) == 0 {\n\t\treturn nil\n\t}\n\treturn sorted[0].Clone()\n}\n"},
			}},
			{Name: "round5 rewrite: candidate list chosen first, head cloned once, wildcardCandidates helper, explicit RUnlock (C09/b shape)", Edits: []Edit{
				{File: d, Old: "// Lookup finds the best domain route for a domain name.\n// First checks exact matches, then single-level wildcards.\nfunc (t *DomainTable) Lookup(domain string) *DomainRoute {\n\tt.mu.RLock()\n\tdefer t.mu.RUnlock()\n\n\treturn t.lookupUnlocked(domain)\n}\n\n// lookupUnlocked performs lookup without locking (caller must hold lock).\nfunc (t *DomainTable) lookupUnlocked(domain string) *DomainRoute {\n\tdomain = strings.ToLower(domain)\n\n\t// 1. Check exact match first\n\tif routes, ok := t.exactRoutes[domain]; ok && len(routes) > 0 {\n\t\treturn routes[0].Clone() // First is best due to sorting by metric\n\t}\n\n\t// 2. Check single-level wildcard\n\t// Split at first dot to get parent domain\n\tidx := strings.Index(domain, \".\")\n\tif idx > 0 && idx < len(domain)-1 {\n\t\tbaseDomain := domain[idx+1:]\n\t\tif routes, ok := t.wildcardBase[baseDomain]; ok && len(routes) > 0 {\n\t\t\treturn routes[0].Clone()\n\t\t}\n\t}\n\n\treturn nil\n}\n", New: "// Lookup finds the best domain route for a domain name.\n// First checks exact matches, then single-level wildcards.\nfunc (t *DomainTable) Lookup(domain string) *DomainRoute {\n\tt.mu.RLock()\n\tbest := t.lookupUnlocked(domain)\n\tt.mu.RUnlock()\n\n\treturn best\n}\n\n// lookupUnlocked performs lookup without locking (caller must hold lock).\nfunc (t *DomainTable) lookupUnlocked(domain string) *DomainRoute {\n\tlowered := strings.ToLower(domain)\n\n\t// 1. Exact match first, 2. then the single-level wildcard\n\tcandidates := t.exactRoutes[lowered]\n\tif len(candidates) == 0 {\n\t\tcandidates = t.wildcardCandidates(lowered)\n\t}\n\n\tif len(candidates) == 0 {\n\t\treturn nil\n\t}\n\treturn candidates[0].Clone() // First is best due to sorting by metric\n}\n\n// wildcardCandidates returns the routes of the wildcard pattern that covers\n// the (lowercase) domain, i.e. \"*.\" + everything after the first dot.\n// A domain without a dot, with an empty first label or with nothing after the\n// first dot is covered by no wildcard.\nfunc (t *DomainTable) wildcardCandidates(lowered string) []*DomainRoute {\n\t// Split at first dot to get parent domain\n\tdot := strings.IndexByte(lowered, '.')\n\tswitch {\n\tcase dot <= 0:\n\t\treturn nil\n\tcase dot >= len(lowered)-1:\n\t\treturn nil\n\t}\n\treturn t.wildcardBase[lowered[dot+1:]]\n}\n"},
			}},
			{Name: "round5 rewrite: stored-entry finder + generic headOf, clone in Lookup, parentDomain via SplitN (C09/c shape)", Edits: []Edit{
				{File: d, Old: "// Lookup finds the best domain route for a domain name.\n// First checks exact matches, then single-level wildcards.\nfunc (t *DomainTable) Lookup(domain string) *DomainRoute {\n\tt.mu.RLock()\n\tdefer t.mu.RUnlock()\n\n\treturn t.lookupUnlocked(domain)\n}\n\n// lookupUnlocked performs lookup without locking (caller must hold lock).\nfunc (t *DomainTable) lookupUnlocked(domain string) *DomainRoute {\n\tdomain = strings.ToLower(domain)\n\n\t// 1. Check exact match first\n\tif routes, ok := t.exactRoutes[domain]; ok && len(routes) > 0 {\n\t\treturn routes[0].Clone() // First is best due to sorting by metric\n\t}\n\n\t// 2. Check single-level wildcard\n\t// Split at first dot to get parent domain\n\tidx := strings.Index(domain, \".\")\n\tif idx > 0 && idx < len(domain)-1 {\n\t\tbaseDomain := domain[idx+1:]\n\t\tif routes, ok := t.wildcardBase[baseDomain]; ok && len(routes) > 0 {\n\t\t\treturn routes[0].Clone()\n\t\t}\n\t}\n\n\treturn nil\n}\n", New: "// Lookup finds the best domain route for a domain name.\n// First checks exact matches, then single-level wildcards.\nfunc (t *DomainTable) Lookup(domain string) *DomainRoute {\n\tt.mu.RLock()\n\tdefer t.mu.RUnlock()\n\n\tif best := t.bestStoredRoute(strings.ToLower(domain)); best != nil {\n\t\treturn best.Clone()\n\t}\n\treturn nil\n}\n\n// bestStoredRoute returns the table's own entry (not a copy) that a lookup of\n// the lowercase name selects, or nil. The caller must hold the lock.\nfunc (t *DomainTable) bestStoredRoute(name string) *DomainRoute {\n\t// 1. Check exact match first; the head of a list is best due to sorting by metric\n\tif exact := headOf(t.exactRoutes[name]); exact != nil {\n\t\treturn exact\n\t}\n\n\t// 2. Check single-level wildcard\n\tif parent, ok := parentDomain(name); ok {\n\t\treturn headOf(t.wildcardBase[parent])\n\t}\n\treturn nil\n}\n\n// parentDomain splits name at its first dot and returns what follows it.\n// ok is false when there is no dot or when either side of it is empty.\nfunc parentDomain(name string) (parent string, ok bool) {\n\tparts := strings.SplitN(name, \".\", 2)\n\tif len(parts) != 2 {\n\t\treturn \"\", false\n\t}\n\tif parts[0] == \"\" || parts[1] == \"\" {\n\t\treturn \"\", false\n\t}\n\treturn parts[1], true\n}\n\n// headOf returns the first entry of a list, or nil for an empty (or missing) list.\nfunc headOf[R any](entries []*R) *R {\n\tif len(entries) > 0 {\n\t\treturn entries[0]\n\t}\n\treturn nil\n}\n"},
				{File: ag, Old: "// Lookup finds the best agent presence route for a target agent.\nfunc (t *AgentTable) Lookup(agentID identity.AgentID) *AgentRoute {\n\tt.mu.RLock()\n\tdefer t.mu.RUnlock()\n\n\tif routes, ok := t.routes[agentID]; ok && len(routes) > 0 {\n\t\treturn routes[0].Clone() // First is best due to sorting by metric\n\t}\n\treturn nil\n}\n", New: "// Lookup finds the best agent presence route for a target agent.\nfunc (t *AgentTable) Lookup(agentID identity.AgentID) *AgentRoute {\n\tt.mu.RLock()\n\tdefer t.mu.RUnlock()\n\n\t// The head of a list is best due to sorting by metric\n\tbest := headOf(t.routes[agentID])\n\tif best == nil {\n\t\treturn nil\n\t}\n\treturn best.Clone()\n}\n"},
			}},
			{Name: "round5: generic headOf returns the last entry", ExpectRule: "C09.R1", Edits: []Edit{
				{File: d, Old: "// Lookup finds the best domain route for a domain name.\n// First checks exact matches, then single-level wildcards.\nfunc (t *DomainTable) Lookup(domain string) *DomainRoute {\n\tt.mu.RLock()\n\tdefer t.mu.RUnlock()\n\n\treturn t.lookupUnlocked(domain)\n}\n\n// lookupUnlocked performs lookup without locking (caller must hold lock).\nfunc (t *DomainTable) lookupUnlocked(domain string) *DomainRoute {\n\tdomain = strings.ToLower(domain)\n\n\t// 1. Check exact match first\n\tif routes, ok := t.exactRoutes[domain]; ok && len(routes) > 0 {\n\t\treturn routes[0].Clone() // First is best due to sorting by metric\n\t}\n\n\t// 2. Check single-level wildcard\n\t// Split at first dot to get parent domain\n\tidx := strings.Index(domain, \".\")\n\tif idx > 0 && idx < len(domain)-1 {\n\t\tbaseDomain := domain[idx+1:]\n\t\tif routes, ok := t.wildcardBase[baseDomain]; ok && len(routes) > 0 {\n\t\t\treturn routes[0].Clone()\n\t\t}\n\t}\n\n\treturn nil\n}\n", New: "// Lookup finds the best domain route for a domain name.\n// First checks exact matches, then single-level wildcards.\nfunc (t *DomainTable) Lookup(domain string) *DomainRoute {\n\tt.mu.RLock()\n\tdefer t.mu.RUnlock()\n\n\tif best := t.bestStoredRoute(strings.ToLower(domain)); best != nil {\n\t\treturn best.Clone()\n\t}\n\treturn nil\n}\n\n// bestStoredRoute returns the table's own entry (not a copy) that a lookup of\n// the lowercase name selects, or nil. The caller must hold the lock.\nfunc (t *DomainTable) bestStoredRoute(name string) *DomainRoute {\n\t// 1. Check exact match first; the head of a list is best due to sorting by metric\n\tif exact := headOf(t.exactRoutes[name]); exact != nil {\n\t\treturn exact\n\t}\n\n\t// 2. Check single-level wildcard\n\tif parent, ok := parentDomain(name); ok {\n\t\treturn headOf(t.wildcardBase[parent])\n\t}\n\treturn nil\n}\n\n// parentDomain splits name at its first dot and returns what follows it.\n// ok is false when there is no dot or when either side of it is empty.\nfunc parentDomain(name string) (parent string, ok bool) {\n\tparts := strings.SplitN(name, \".\", 2)\n\tif len(parts) != 2 {\n\t\treturn \"\", false\n\t}\n\tif parts[0] == \"\" || parts[1] == \"\" {\n\t\treturn \"\", false\n\t}\n\treturn parts[1], true\n}\n\n// headOf returns the first entry of a list, or nil for an empty (or missing) list.\nfunc headOf[R any](entries []*R) *R {\n\tif len(entries) > 0 {\n\t\treturn entries[len(entries)-1]\n\t}\n\treturn nil\n}\n"},
				{File: ag, Old: "// Lookup finds the best agent presence route for a target agent.\nfunc (t *AgentTable) Lookup(agentID identity.AgentID) *AgentRoute {\n\tt.mu.RLock()\n\tdefer t.mu.RUnlock()\n\n\tif routes, ok := t.routes[agentID]; ok && len(routes) > 0 {\n\t\treturn routes[0].Clone() // First is best due to sorting by metric\n\t}\n\treturn nil\n}\n", New: "// Lookup finds the best agent presence route for a target agent.\nfunc (t *AgentTable) Lookup(agentID identity.AgentID) *AgentRoute {\n\tt.mu.RLock()\n\tdefer t.mu.RUnlock()\n\n\t// The head of a list is best due to sorting by metric\n\tbest := headOf(t.routes[agentID])\n\tif best == nil {\n\t\treturn nil\n\t}\n\treturn best.Clone()\n}\n"},
			}},
			{Name: "round5: list helper prefers the second entry when there is one", ExpectRule: "C09.R1", Edits: []Edit{
				{File: d, Old: "// Lookup finds the best domain route for a domain name.\n// First checks exact matches, then single-level wildcards.\nfunc (t *DomainTable) Lookup(domain string) *DomainRoute {\n\tt.mu.RLock()\n\tdefer t.mu.RUnlock()\n\n\treturn t.lookupUnlocked(domain)\n}\n\n// lookupUnlocked performs lookup without locking (caller must hold lock).\nfunc (t *DomainTable) lookupUnlocked(domain string) *DomainRoute {\n\tdomain = strings.ToLower(domain)\n\n\t// 1. Check exact match first\n\tif routes, ok := t.exactRoutes[domain]; ok && len(routes) > 0 {\n\t\treturn routes[0].Clone() // First is best due to sorting by metric\n\t}\n\n\t// 2. Check single-level wildcard\n\t// Split at first dot to get parent domain\n\tidx := strings.Index(domain, \".\")\n\tif idx > 0 && idx < len(domain)-1 {\n\t\tbaseDomain := domain[idx+1:]\n\t\tif routes, ok := t.wildcardBase[baseDomain]; ok && len(routes) > 0 {\n\t\t\treturn routes[0].Clone()\n\t\t}\n\t}\n\n\treturn nil\n}\n", New: "// Lookup finds the best domain route for a domain name.\n// First checks exact matches, then single-level wildcards.\nfunc (t *DomainTable) Lookup(domain string) *DomainRoute {\n\tname := strings.ToLower(domain)\n\n\tt.mu.RLock()\n\tdefer t.mu.RUnlock()\n\n\t// 1. Check exact match first (first entry is best due to sorting by metric)\n\tif best := bestDomainRoute(t.exactRoutes[name]); best != nil {\n\t\treturn best\n\t}\n\n\t// 2. Check single-level wildcard\n\t// Split at first dot to get parent domain; both the leading label and\n\t// the parent must be non-empty.\n\tlabel, parent, hasDot := strings.Cut(name, \".\")\n\tif !hasDot || label == \"\" || parent == \"\" {\n\t\treturn nil\n\t}\n\treturn bestDomainRoute(t.wildcardBase[parent])\n}\n\n// bestDomainRoute returns a copy of the head of a metric-sorted route list,\n// or nil when the list is empty.\nfunc bestDomainRoute(sorted []*DomainRoute) *DomainRoute {\n\tif len(sorted) == 0 {\n\t\treturn nil\n\t}\n\tif len(sorted) > 1 {\n\t\treturn sorted[1].Clone()\n\t}\n\treturn sorted[0].Clone()\n}\n"},
			}},
			{Name: "round5: candidate list falls back to every wildcard bucket", ExpectRule: "C09.R1", Edits: []Edit{
				{File: d, Old: "// Lookup finds the best domain route for a domain name.\n// First checks exact matches, then single-level wildcards.\nfunc (t *DomainTable) Lookup(domain string) *DomainRoute {\n\tt.mu.RLock()\n\tdefer t.mu.RUnlock()\n\n\treturn t.lookupUnlocked(domain)\n}\n\n// lookupUnlocked performs lookup without locking (caller must hold lock).\nfunc (t *DomainTable) lookupUnlocked(domain string) *DomainRoute {\n\tdomain = strings.ToLower(domain)\n\n\t// 1. Check exact match first\n\tif routes, ok := t.exactRoutes[domain]; ok && len(routes) > 0 {\n\t\treturn routes[0].Clone() // First is best due to sorting by metric\n\t}\n\n\t// 2. Check single-level wildcard\n\t// Split at first dot to get parent domain\n\tidx := strings.Index(domain, \".\")\n\tif idx > 0 && idx < len(domain)-1 {\n\t\tbaseDomain := domain[idx+1:]\n\t\tif routes, ok := t.wildcardBase[baseDomain]; ok && len(routes) > 0 {\n\t\t\treturn routes[0].Clone()\n\t\t}\n\t}\n\n\treturn nil\n}\n", New: "// Lookup finds the best domain route for a domain name.\n// First checks exact matches, then single-level wildcards.\nfunc (t *DomainTable) Lookup(domain string) *DomainRoute {\n\tt.mu.RLock()\n\tbest := t.lookupUnlocked(domain)\n\tt.mu.RUnlock()\n\n\treturn best\n}\n\n// lookupUnlocked performs lookup without locking (caller must hold lock).\nfunc (t *DomainTable) lookupUnlocked(domain string) *DomainRoute {\n\tlowered := strings.ToLower(domain)\n\n\t// 1. Exact match first, 2. then the single-level wildcard\n\tcandidates := t.exactRoutes[lowered]\n\tif len(candidates) == 0 {\n\t\tcandidates = t.wildcardCandidates(lowered)\n\t}\n\n\tif len(candidates) == 0 {\n\t\treturn nil\n\t}\n\treturn candidates[0].Clone() // First is best due to sorting by metric\n}\n\n// wildcardCandidates returns the routes of the wildcard pattern that covers\n// the (lowercase) domain, i.e. \"*.\" + everything after the first dot.\n// A domain without a dot, with an empty first label or with nothing after the\n// first dot is covered by no wildcard.\nfunc (t *DomainTable) wildcardCandidates(lowered string) []*DomainRoute {\n\t// Split at first dot to get parent domain\n\tdot := strings.IndexByte(lowered, '.')\n\tswitch {\n\tcase dot <= 0:\n\t\treturn nil\n\tcase dot >= len(lowered)-1:\n\t\treturn nil\n\t}\n\tif list := t.wildcardBase[lowered[dot+1:]]; len(list) > 0 {\n\t\treturn list\n\t}\n\tfor _, list := range t.wildcardBase {\n\t\treturn list\n\t}\n\treturn nil\n}\n"},
			}},
			{Name: "round5: stored-entry finder called without the read lock", ExpectRule: "C09.R5", ExpectKey: "lookup under lock", Edits: []Edit{
				{File: d, Old: "// Lookup finds the best domain route for a domain name.\n// First checks exact matches, then single-level wildcards.\nfunc (t *DomainTable) Lookup(domain string) *DomainRoute {\n\tt.mu.RLock()\n\tdefer t.mu.RUnlock()\n\n\treturn t.lookupUnlocked(domain)\n}\n\n// lookupUnlocked performs lookup without locking (caller must hold lock).\nfunc (t *DomainTable) lookupUnlocked(domain string) *DomainRoute {\n\tdomain = strings.ToLower(domain)\n\n\t// 1. Check exact match first\n\tif routes, ok := t.exactRoutes[domain]; ok && len(routes) > 0 {\n\t\treturn routes[0].Clone() // First is best due to sorting by metric\n\t}\n\n\t// 2. Check single-level wildcard\n\t// Split at first dot to get parent domain\n\tidx := strings.Index(domain, \".\")\n\tif idx > 0 && idx < len(domain)-1 {\n\t\tbaseDomain := domain[idx+1:]\n\t\tif routes, ok := t.wildcardBase[baseDomain]; ok && len(routes) > 0 {\n\t\t\treturn routes[0].Clone()\n\t\t}\n\t}\n\n\treturn nil\n}\n", New: "// Lookup finds the best domain route for a domain name.\n// First checks exact matches, then single-level wildcards.\nfunc (t *DomainTable) Lookup(domain string) *DomainRoute {\n\tif best := t.bestStoredRoute(strings.ToLower(domain)); best != nil {\n\t\treturn best.Clone()\n\t}\n\treturn nil\n}\n\n// bestStoredRoute returns the table's own entry (not a copy) that a lookup of\n// the lowercase name selects, or nil. The caller must hold the lock.\nfunc (t *DomainTable) bestStoredRoute(name string) *DomainRoute {\n\t// 1. Check exact match first; the head of a list is best due to sorting by metric\n\tif exact := headOf(t.exactRoutes[name]); exact != nil {\n\t\treturn exact\n\t}\n\n\t// 2. Check single-level wildcard\n\tif parent, ok := parentDomain(name); ok {\n\t\treturn headOf(t.wildcardBase[parent])\n\t}\n\treturn nil\n}\n\n// parentDomain splits name at its first dot and returns what follows it.\n// ok is false when there is no dot or when either side of it is empty.\nfunc parentDomain(name string) (parent string, ok bool) {\n\tparts := strings.SplitN(name, \".\", 2)\n\tif len(parts) != 2 {\n\t\treturn \"\", false\n\t}\n\tif parts[0] == \"\" || parts[1] == \"\" {\n\t\treturn \"\", false\n\t}\n\treturn parts[1], true\n}\n\n// headOf returns the first entry of a list, or nil for an empty (or missing) list.\nfunc headOf[R any](entries []*R) *R {\n\tif len(entries) > 0 {\n\t\treturn entries[0]\n\t}\n\treturn nil\n}\n"},
				{File: ag, Old: "// Lookup finds the best agent presence route for a target agent.\nfunc (t *AgentTable) Lookup(agentID identity.AgentID) *AgentRoute {\n\tt.mu.RLock()\n\tdefer t.mu.RUnlock()\n\n\tif routes, ok := t.routes[agentID]; ok && len(routes) > 0 {\n\t\treturn routes[0].Clone() // First is best due to sorting by metric\n\t}\n\treturn nil\n}\n", New: "// Lookup finds the best agent presence route for a target agent.\nfunc (t *AgentTable) Lookup(agentID identity.AgentID) *AgentRoute {\n\tt.mu.RLock()\n\tdefer t.mu.RUnlock()\n\n\t// The head of a list is best due to sorting by metric\n\tbest := headOf(t.routes[agentID])\n\tif best == nil {\n\t\treturn nil\n\t}\n\treturn best.Clone()\n}\n"},
			}},
			// rewrites
			{Name: "rewrite: strings.Cut, negated conditions", Edits: []Edit{
				{File: d, Old: "\tidx := strings.Index(domain, \".\")\n\tif idx > 0 && idx < len(domain)-1 {\n\t\tbaseDomain := domain[idx+1:]\n\t\tif routes, ok := t.wildcardBase[baseDomain]; ok && len(routes) > 0 {\n\t\t\treturn routes[0].Clone()\n\t\t}\n\t}\n", New: "\tlabel, baseDomain, found := strings.Cut(domain, \".\")\n\tif !found || label == \"\" || baseDomain == \"\" {\n\t\treturn nil\n\t}\n\troutes := t.wildcardBase[baseDomain]\n\tif len(routes) == 0 {\n\t\treturn nil\n\t}\n\treturn routes[0].Clone()\n"},
			}},
			{Name: "rewrite: IndexByte, operands swapped, !(a<=b)", Edits: []Edit{
				{File: d, Old: "\tidx := strings.Index(domain, \".\")\n\tif idx > 0 && idx < len(domain)-1 {\n", New: "\tidx := strings.IndexByte(domain, '.')\n\tif !(idx <= 0) && len(domain)-1 > idx {\n"},
				{File: d, Old: "\tif routes, ok := t.exactRoutes[domain]; ok && len(routes) > 0 {\n", New: "\tif routes := t.exactRoutes[domain]; 0 < len(routes) {\n"},
			}},
			{Name: "rewrite: lookup inlined under the lock, no clone helper change", Edits: []Edit{
				{File: d, Old: "\tdefer t.mu.RUnlock()\n\n\treturn t.lookupUnlocked(domain)\n}\n\n// lookupUnlocked performs lookup without locking (caller must hold lock).\nfunc (t *DomainTable) lookupUnlocked(domain string) *DomainRoute {\n", New: "\tdefer t.mu.RUnlock()\n\n"},
			}},
			{Name: "rewrite: routeMapAndKey inlined into AddRoute", Edits: []Edit{
				{File: d, Old: "\ttargetMap, key := t.routeMapAndKey(route.Pattern, route.IsWildcard, route.BaseDomain)\n\n\t// Check if we already have a route from this origin\n", New: "\ttargetMap, key := t.exactRoutes, strings.ToLower(route.Pattern)\n\tif route.IsWildcard {\n\t\ttargetMap, key = t.wildcardBase, strings.ToLower(route.BaseDomain)\n\t}\n\n\t// Check if we already have a route from this origin\n"},
			}},
			{Name: "rewrite: slices.SortFunc in the three tables' helpers", Edits: []Edit{
				{File: fw, Old: "import (\n\t\"fmt\"\n", New: "import (\n\t\"cmp\"\n\t\"slices\"\n\t\"fmt\"\n"},
				{File: fw, Old: "\troutes := t.routes[key]\n\tsort.Slice(routes, func(i, j int) bool {\n\t\treturn routes[i].Metric < routes[j].Metric\n\t})\n", New: "\tslices.SortStableFunc(t.routes[key], func(a, b *ForwardRoute) int {\n\t\treturn cmp.Compare(a.Metric, b.Metric)\n\t})\n\t_ = sort.Strings\n"},
				{File: ag, Old: "\t\treturn routes[i].Metric < routes[j].Metric\n", New: "\t\treturn !(routes[i].Metric >= routes[j].Metric)\n"},
			}},
			{Name: "rewrite: forward lookup with explicit unlock and plain index", Edits: []Edit{
				{File: fw, Old: "\tt.mu.RLock()\n\tdefer t.mu.RUnlock()\n\n\tif routes, ok := t.routes[key]; ok && len(routes) > 0 {\n\t\treturn routes[0].Clone() // First is best due to sorting by metric\n\t}\n\treturn nil\n}", New: "\tt.mu.RLock()\n\troutes := t.routes[key]\n\tvar out *ForwardRoute\n\tif len(routes) != 0 {\n\t\tout = routes[0].Clone()\n\t}\n\tt.mu.RUnlock()\n\treturn out\n}"},
			}},
		},
	})
}

func runC09(p *kit.Program, r *kit.Report) {
	r.Rule("C09.R1", "DomainTable lookup, walked under every exact-hit x wildcard-hit scenario: an exact hit returns element 0 of the exact bucket of the folded name (also when a wildcard would match), otherwise a wildcard hit returns element 0 of the wildcard bucket, otherwise nil")
	r.Rule("C09.R2", "the wildcard map is accessed by a single map lookup outside any loop whose key is the suffix after the first dot of the folded name (strings.Index/IndexByte + slice, strings.Cut, SplitN(…,2)), and a name without a dot never reaches a wildcard")
	r.Rule("C09.R3", "keys inserted into the DomainTable maps and the keys of its lookup pass through the same case-folding function")
	r.Rule("C09.R4", "DomainTable, ForwardTable, AgentTable: every write that lets a metric enter a bucket is followed on every path by a sort of the same bucket, other bucket writes are order-preserving removals, and the sort comparators order lower metrics first")
	r.Rule("C09.R5", "ForwardTable.Lookup and AgentTable.Lookup (and the DomainTable entry point) run under the table lock and return element 0 of the bucket of exactly the requested key, nil when that bucket is absent or empty")
	m := c08Build(p, r)
	if m == nil {
		return
	}
	cidr := m.cidrTable()
	var dom *c08Table
	var others, keyed []*c08Table
	for _, t := range m.tables {
		if t == cidr {
			continue
		}
		others = append(others, t)
		if t.rf["IsWildcard"] != nil {
			dom = t
		} else {
			keyed = append(keyed, t)
		}
	}
	if !r.Require(dom != nil && len(dom.buckets) == 2, "anchor-unresolved: domain table (route type with IsWildcard, two bucket maps)") {
		return
	}
	r.Require(len(keyed) >= 2, "floor: expected at least 2 keyed tables (forward, agent), found %d", len(keyed))

	// bounded model of the tables (shape-independent): obligations of its own, and second
	// opinion on what the structural rules do not recognise
	sem := m.sem()
	for _, t := range others {
		sem.report(r, "C09.R4", "sorted", "buckets stay sorted by metric under every operation", t,
			"element 0 of a bucket is not the lowest metric, which is the route lookups return")
	}
	sem.report(r, "C09.R1", "domain", "Lookup: exact before single-label wildcard, case-insensitive, lowest metric", dom,
		"the domain lookup does not select the documented best route")
	for _, t := range keyed {
		sem.report(r, "C09.R5", "keyed", "Lookup returns the lowest metric of exactly the requested key", t,
			"the keyed lookup does not return the lowest-metric route of the key")
	}
	defer sem.override(r, func(rule, key, detail string) string {
		switch rule {
		case "C09.R4":
			if (strings.Contains(key, " bucket ") || strings.Contains(key, " sort #")) && !strings.HasSuffix(key, " lock") {
				return "sorted"
			}
		case "C09.R1":
			if strings.HasSuffix(key, "exact before wildcard") {
				return "domain"
			}
		case "C09.R2", "C09.R3":
			return "domain"
		case "C09.R5":
			if strings.HasSuffix(key, " result") {
				return "keyed"
			}
		}
		return ""
	}, func(floor string) (string, *c08Table) {
		if strings.HasPrefix(floor, "floor:") && !strings.Contains(floor, "keyed tables") {
			return "sorted", m.tableNamed(floor)
		}
		return "", nil
	})
	// ---- R4
	counts := m.checkSorted(r, "C09.R4", "C09.R4", others)
	for k, v := range counts {
		r.Count("bucket_writes_"+strings.ReplaceAll(k, " ", "_"), v)
	}
	for _, t := range others {
		r.Require(counts[t.name+" insert"] >= 1, "floor: no insertion into a %s bucket found", t.name)
		r.Require(counts[t.name+" replace"]+counts[t.name+" inplace"] >= 1, "floor: no update of a stored %s route found", t.name)
		r.Require(counts[t.name+" rewrite"] >= 2, "floor: fewer than 2 order-preserving removals on %s buckets", t.name)
		r.Require(counts[t.name+" sort"] >= 1, "floor: no sort of a %s bucket found", t.name)
	}
	r.Count("functions_analysed", len(m.funcs))

	// ---- R5 keyed tables
	for _, t := range keyed {
		m.c09Keyed(r, t)
	}
	// ---- R1-R3 domain
	m.c09Domain(r, dom)
}

// c09Entry resolves Lookup of table t and the function that performs the map lookups.
func (m *c08Model) c09Entry(r *kit.Report, t *c08Table) (entry, scan *ssa.Function, call *ssa.Call) {
	entry = m.p.Func(c08Pkg, t.name, "Lookup")
	if !r.Require(entry != nil, "anchor-unresolved: %s.Lookup", t.name) {
		return nil, nil, nil
	}
	scan = entry
	if c := c08ReturnedCall(entry); c != nil {
		g := kit.CalleeOf(c).Static
		if g != nil && g.Signature.Recv() != nil && len(g.Params) == len(entry.Params) && c08RouteOfPtr(g.Signature.Results().At(0).Type()) == t.route && types.Identical(g.Signature.Recv().Type(), entry.Signature.Recv().Type()) {
			pass := true
			for i := range entry.Params {
				if i >= len(c.Call.Args) || c.Call.Args[i] != ssa.Value(entry.Params[i]) {
					pass = false
				}
			}
			if pass {
				scan, call = g, c
			}
		}
	}
	return
}

func (m *c08Model) c09LockObligation(r *kit.Report, rule string, t *c08Table, entry, scan *ssa.Function, call *ssa.Call) {
	p := m.p
	li := kit.Locks(entry)
	// bucket-map reads of the entry point: direct map lookups and calls of package helpers
	// that (transitively) read the table's bucket maps
	reads := map[*ssa.Function]bool{}
	var hasReads func(g *ssa.Function, d int) bool
	hasReads = func(g *ssa.Function, d int) bool {
		if v, ok := reads[g]; ok {
			return v
		}
		reads[g] = false
		res := false
		kit.Instrs(g, func(in ssa.Instruction) {
			switch x := in.(type) {
			case *ssa.Lookup:
				if c08RouteOfMap(x.X.Type()) == t.route {
					res = true
				}
			case *ssa.Range:
				if c08RouteOfMap(x.X.Type()) == t.route {
					res = true
				}
			case *ssa.Call:
				if h := kit.CalleeOf(x).Static; h != nil && len(h.Blocks) > 0 && d < 4 && kit.FuncPkgPath(h) == kit.PkgPath(c08Pkg) && hasReads(h, d+1) {
					res = true
				}
			}
		})
		reads[g] = res
		return res
	}
	held := true
	n := 0
	kit.Instrs(entry, func(in ssa.Instruction) {
		isRead := false
		switch x := in.(type) {
		case *ssa.Lookup:
			isRead = c08RouteOfMap(x.X.Type()) == t.route
		case *ssa.Range:
			isRead = c08RouteOfMap(x.X.Type()) == t.route
		case *ssa.Call:
			h := kit.CalleeOf(x).Static
			isRead = h != nil && len(h.Blocks) > 0 && kit.FuncPkgPath(h) == kit.PkgPath(c08Pkg) && hasReads(h, 0)
		}
		if isRead {
			n++
			if _, h := li.HeldAt(in, t.mu); !h {
				held = false
			}
		}
	})
	r.Decide(held && n > 0, rule, kit.FuncName(entry)+" lookup under lock", p.Pos(entry.Pos()),
		"the bucket maps are read with the table mutex held",
		"the lookup reads the bucket map without the table mutex: a concurrent AddRoute between append and sort exposes an unsorted bucket (and races on the map)")
}

// c09Walk abstractly executes a lookup function under a hit/miss scenario.
type c09Walk struct {
	m      *c08Model
	t      *c08Table
	fn     *ssa.Function
	hit    map[*types.Var]bool // bucket field -> the looked-up bucket is present and non-empty
	idx    int64               // value of strings.Index(name, ".")
	found  bool                // strings.Cut found
	strLen int64
	why    string
	depth  int
}

func (w *c09Walk) fieldOfBucket(s ssa.Value) *types.Var {
	b := w.m.bucketOf(s)
	if b == nil || b.tbl != w.t {
		return nil
	}
	f, base := c08Field(b.mapVal)
	if f == nil || len(w.fn.Params) == 0 || base != ssa.Value(w.fn.Params[0]) {
		return nil
	}
	return f
}

func (w *c09Walk) evalInt(v ssa.Value) (int64, bool) {
	switch x := v.(type) {
	case *ssa.Const:
		return kit.ConstInt(x)
	case *ssa.Convert:
		return w.evalInt(x.X)
	case *ssa.BinOp:
		a, ok1 := w.evalInt(x.X)
		b, ok2 := w.evalInt(x.Y)
		if !ok1 || !ok2 {
			return 0, false
		}
		switch x.Op {
		case token.ADD:
			return a + b, true
		case token.SUB:
			return a - b, true
		}
	case *ssa.Call:
		cal := kit.CalleeOf(x)
		if cal.Built == "len" && len(x.Call.Args) == 1 {
			a := x.Call.Args[0]
			if c08RouteOfSlice(a.Type()) != nil {
				if f := w.fieldOfBucket(a); f != nil {
					if w.hit[f] {
						return 1, true
					}
					return 0, true
				}
				return 0, false
			}
			if b, ok := a.Type().Underlying().(*types.Basic); ok && b.Kind() == types.String {
				return w.strLen, true
			}
			if c08RouteOfMap(a.Type()) != nil {
				return 1, true // the table is not empty in the scenarios walked
			}
		}
		if cal.Pkg == "strings" && (cal.Name == "Index" || cal.Name == "IndexByte" || cal.Name == "IndexRune") {
			return w.idx, true
		}
	}
	return 0, false
}

func (w *c09Walk) atom(c ssa.Value) (bool, bool) {
	if ex, ok := c.(*ssa.Extract); ok {
		if lk, ok := ex.Tuple.(*ssa.Lookup); ok && lk.CommaOk && ex.Index == 1 {
			if bk := w.m.mkBucket(lk.X, lk.Index, nil); bk != nil && bk.tbl == w.t {
				if f, base := c08Field(lk.X); f != nil && base == ssa.Value(w.fn.Params[0]) {
					return w.hit[f], true
				}
			}
		}
		if cc, ok := ex.Tuple.(*ssa.Call); ok {
			if cal := kit.CalleeOf(cc); cal.Pkg == "strings" && cal.Name == "Cut" && ex.Index == 2 {
				return w.found, true
			}
			// bool result of a package helper (e.g. parent, ok := wildcardParent(name))
			if v, ok := w.helperResult(cc, ex.Index); ok {
				if bv, isc := kit.ConstBool(v); isc {
					return bv, true
				}
			}
		}
		return false, false
	}
	if cc, ok := c.(*ssa.Call); ok {
		// a well-formed multi-label name neither starts nor ends with a dot
		if cal := kit.CalleeOf(cc); cal.Pkg == "strings" && (cal.Name == "HasPrefix" || cal.Name == "HasSuffix") && len(cc.Call.Args) == 2 {
			if sv, isc := kit.ConstString(cc.Call.Args[1]); isc && sv == "." {
				return false, true
			}
		}
		if v, ok := w.helperResult(cc, 0); ok {
			if bv, isc := kit.ConstBool(v); isc {
				return bv, true
			}
		}
		return false, false
	}
	b, ok := c.(*ssa.BinOp)
	if !ok {
		return false, false
	}
	switch b.Op {
	case token.EQL, token.NEQ, token.LSS, token.LEQ, token.GTR, token.GEQ:
	default:
		return false, false
	}
	// nil tests on buckets
	if b.Op == token.EQL || b.Op == token.NEQ {
		var other ssa.Value
		if kit.IsNilConst(b.Y) {
			other = b.X
		} else if kit.IsNilConst(b.X) {
			other = b.Y
		}
		if other != nil {
			if f := w.fieldOfBucket(other); f != nil {
				return (!w.hit[f]) == (b.Op == token.EQL), true
			}
			return b.Op == token.NEQ, true // other pointers: non-nil
		}
		// string against "": labels of a well-formed name are non-empty
		for _, pr := range [][2]ssa.Value{{b.X, b.Y}, {b.Y, b.X}} {
			if s, ok := kit.ConstString(pr[0]); ok && s == "" {
				if bt, ok := pr[1].Type().Underlying().(*types.Basic); ok && bt.Kind() == types.String {
					return w.emptyString(pr[1]) == (b.Op == token.EQL), true
				}
			}
		}
	}
	x, ok1 := w.evalInt(b.X)
	y, ok2 := w.evalInt(b.Y)
	if ok1 && ok2 {
		return kit.CmpUnder(b.Op, c08Sign(x-y)), true
	}
	return false, false
}

// helperResult abstractly runs a helper of the routing package under the walk's scenario and
// returns the value it returns for result idx (a value of the helper's body).
func (w *c09Walk) helperResult(c *ssa.Call, idx int) (ssa.Value, bool) {
	g := kit.CalleeOf(c).Static
	if g == nil || len(g.Blocks) == 0 || kit.FuncPkgPath(g) != kit.PkgPath(c08Pkg) || w.depth > 1 || idx >= g.Signature.Results().Len() {
		return nil, false
	}
	if c08RouteOfPtr(g.Signature.Results().At(idx).Type()) != nil {
		return nil, false
	}
	w.depth++
	res := kit.WalkCFG(g.Blocks[0], w.atom, nil)
	w.depth--
	if !res.Known || res.Block == nil || len(res.Block.Instrs) == 0 {
		return nil, false
	}
	ret, ok := res.Block.Instrs[len(res.Block.Instrs)-1].(*ssa.Return)
	if !ok || idx >= len(ret.Results) {
		return nil, false
	}
	v := kit.ReturnResult(ret, idx)
	for i := len(res.Path) - 1; i >= 1; i-- {
		ph, ok := v.(*ssa.Phi)
		if !ok {
			break
		}
		if ph.Block() == res.Path[i] {
			if in := c08PhiIncoming(ph, res.Path[i-1]); in != nil {
				v = in
				continue
			}
		}
	}
	return v, true
}

// emptyString: is string value v empty under the walk's scenario? Labels of a well-formed name
// are non-empty; the parts of strings.Cut are empty when the separator is absent; a helper's
// string result is what the helper returns under the scenario.
func (w *c09Walk) emptyString(v ssa.Value) bool {
	v = c08Resolve(v)
	if sv, ok := kit.ConstString(v); ok {
		return sv == ""
	}
	if ex, ok := v.(*ssa.Extract); ok {
		if cc, ok := ex.Tuple.(*ssa.Call); ok {
			if cal := kit.CalleeOf(cc); cal.Pkg == "strings" && cal.Name == "Cut" {
				return ex.Index == 1 && !w.found
			}
			if hv, ok := w.helperResult(cc, ex.Index); ok {
				if sv, isc := kit.ConstString(hv); isc {
					return sv == ""
				}
			}
		}
		return false
	}
	if cc, ok := v.(*ssa.Call); ok {
		if hv, ok := w.helperResult(cc, 0); ok {
			if sv, isc := kit.ConstString(hv); isc {
				return sv == ""
			}
		}
	}
	return false
}

type c09Ret struct {
	kind  string     // nil | head | other | unknown
	field *types.Var // head: the bucket field
	key   ssa.Value  // head: the lookup key
	index string
}

func (w *c09Walk) run() c09Ret {
	res := kit.WalkCFG(w.fn.Blocks[0], w.atom, nil)
	if !res.Known || res.Block == nil || len(res.Block.Instrs) == 0 {
		w.why = "condition at " + w.m.p.Pos(c08LastPos(res.Block)) + " is not a hit/miss, emptiness or dot-position test"
		return c09Ret{kind: "unknown"}
	}
	ret, ok := res.Block.Instrs[len(res.Block.Instrs)-1].(*ssa.Return)
	if !ok || len(ret.Results) != 1 {
		w.why = "does not end in a return"
		return c09Ret{kind: "unknown"}
	}
	v := kit.ReturnResult(ret, 0)
	// merged results: pick the edge taken
	for i := len(res.Path) - 1; i >= 1; i-- {
		ph, ok := v.(*ssa.Phi)
		if !ok {
			break
		}
		if ph.Block() == res.Path[i] {
			if in := c08PhiIncoming(ph, res.Path[i-1]); in != nil {
				v = in
				continue
			}
		}
	}
	if _, still := v.(*ssa.Phi); still {
		w.why = "result merges several values that the walk cannot tell apart"
		return c09Ret{kind: "unknown"}
	}
	if kit.IsNilConst(v) {
		return c09Ret{kind: "nil"}
	}
	if c, ok := v.(*ssa.Call); ok && kit.CalleeOf(c).Static != nil && len(c.Call.Args) == 1 && c08RouteOfPtr(c.Call.Args[0].Type()) == w.t.route {
		v = c.Call.Args[0] // Clone
	}
	if u, ok := v.(*ssa.UnOp); ok && u.Op == token.MUL {
		if ia, ok := u.X.(*ssa.IndexAddr); ok {
			if f := w.fieldOfBucket(ia.X); f != nil {
				b := w.m.bucketOf(ia.X)
				idx := "?"
				if k, ok := kit.ConstInt(ia.Index); ok {
					idx = fmt.Sprint(k)
				}
				return c09Ret{kind: "head", field: f, key: b.keyVal, index: idx}
			}
		}
	}
	return c09Ret{kind: "other"}
}

// c09Fr is one level of helper inlining for the return-shape rule: the helper's parameters
// stand for the caller's argument values (which live in the parent frame).
type c09Fr struct {
	sub    map[*ssa.Parameter]c09V
	parent *c09Fr
	fn     *ssa.Function
}

type c09V struct {
	v  ssa.Value
	fr *c09Fr
}

// c09Res resolves a value through single-store cells and helper parameters down to a value of
// an outer frame (nil frame = the lookup function itself).
func c09Res(x c09V) c09V {
	for i := 0; i < 12; i++ {
		x.v = c08Resolve(kit.Unwrap(x.v))
		prm, ok := x.v.(*ssa.Parameter)
		if !ok || x.fr == nil {
			return x
		}
		b, ok := x.fr.sub[prm]
		if !ok {
			return x
		}
		x = b
	}
	return x
}

func c09Enter(c *ssa.Call, g *ssa.Function, fr *c09Fr) *c09Fr {
	nf := &c09Fr{sub: map[*ssa.Parameter]c09V{}, parent: fr, fn: g}
	for i, prm := range g.Params {
		if i < len(c.Call.Args) {
			nf.sub[prm] = c09V{c.Call.Args[i], fr}
		}
	}
	return nf
}

// c09ReturnShape: structural complement of the scenario walk. Every return of lookup function
// fn yields nil or element 0 of a bucket obtained by a map lookup on the receiver's bucket
// maps with an accepted key — directly, through result variables and phis, through a copying
// helper (Clone) or through helpers of the package that themselves return such a head or
// such a bucket (bestRoute(list), headOf(list), wildcardCandidates(name), a stored-entry
// finder ...), their parameters read as the caller's arguments. Every bucket-map read reached
// this way uses an accepted key, none iterates the map, and a nil return that is not preceded
// by a bucket read is justified by an empty argument / empty table only. This excludes fast
// paths, caches and alias keys whatever their guarding condition.
func (m *c08Model) c09ReturnShape(t *c08Table, fn *ssa.Function, keyOK func(f *types.Var, key ssa.Value) bool) []string {
	p := m.p
	var bad []string
	inPkg := func(g *ssa.Function) bool {
		return g != nil && len(g.Blocks) > 0 && kit.FuncPkgPath(g) == kit.PkgPath(c08Pkg)
	}
	// a copying helper: one *R parameter, returns a freshly allocated *R on every path
	isCopy := func(g *ssa.Function) bool {
		if !inPkg(g) || len(g.Params) != 1 || c08RouteOfPtr(g.Params[0].Type()) != t.route || g.Signature.Results().Len() != 1 || c08RouteOfPtr(g.Signature.Results().At(0).Type()) != t.route {
			return false
		}
		for _, ret := range kit.Returns(g) {
			if ret.Block() == g.Recover {
				continue
			}
			if _, fresh := c08Resolve(kit.ReturnResult(ret, 0)).(*ssa.Alloc); !fresh {
				return false
			}
		}
		return true
	}
	// bucket-map reads, in the lookup function and in the helpers it calls
	readsBuckets := map[*ssa.Function]bool{}
	var hasReads func(g *ssa.Function, d int) bool
	hasReads = func(g *ssa.Function, d int) bool {
		if v, ok := readsBuckets[g]; ok {
			return v
		}
		readsBuckets[g] = false
		res := false
		kit.Instrs(g, func(in ssa.Instruction) {
			switch x := in.(type) {
			case *ssa.Lookup:
				if c08RouteOfMap(x.X.Type()) == t.route {
					res = true
				}
			case *ssa.Range:
				if c08RouteOfMap(x.X.Type()) == t.route {
					res = true
				}
			case *ssa.Call:
				if h := kit.CalleeOf(x).Static; inPkg(h) && d < 4 && hasReads(h, d+1) {
					res = true
				}
			}
		})
		readsBuckets[g] = res
		return res
	}
	checkRead := func(x *ssa.Lookup, fr *c09Fr) {
		mv := c09Res(c09V{x.X, fr})
		var f *types.Var
		var rb c09V
		if ld, ok := mv.v.(*ssa.UnOp); ok && ld.Op == token.MUL {
			if fa, ok := ld.X.(*ssa.FieldAddr); ok {
				f = kit.FieldOfAddr(fa)
				rb = c09Res(c09V{fa.X, mv.fr})
			}
		}
		key := c09Res(c09V{x.Index, fr})
		switch {
		case f == nil || len(fn.Params) == 0 || rb.fr != nil || rb.v != ssa.Value(fn.Params[0]):
			bad = append(bad, "the bucket map read at "+p.Pos(x.Pos())+" is not a bucket map of the receiver")
		case key.fr != nil:
			if !keyOK(f, nil) {
				bad = append(bad, "the bucket read at "+p.Pos(x.Pos())+" is keyed by a value computed inside a helper that is not the requested key")
			}
		case !keyOK(f, key.v):
			bad = append(bad, "the bucket read at "+p.Pos(x.Pos())+" is keyed by something other than the requested key (alias / derived key): the route returned need not belong to the requested key")
		}
	}
	seenFn := map[string]bool{}
	var scanReads func(g *ssa.Function, fr *c09Fr, d int)
	scanReads = func(g *ssa.Function, fr *c09Fr, d int) {
		kit.Instrs(g, func(in ssa.Instruction) {
			switch x := in.(type) {
			case *ssa.Lookup:
				if c08RouteOfMap(x.X.Type()) == t.route {
					checkRead(x, fr)
				}
			case *ssa.Range:
				if c08RouteOfMap(x.X.Type()) == t.route {
					bad = append(bad, "the lookup iterates over the bucket map at "+p.Pos(x.Pos())+" instead of reading the bucket of the requested key")
				}
			case *ssa.Call:
				h := kit.CalleeOf(x).Static
				if inPkg(h) && d < 4 && hasReads(h, 0) {
					k := fmt.Sprintf("%p/%p", x, fr)
					if !seenFn[k] {
						seenFn[k] = true
						scanReads(h, c09Enter(x, h, fr), d+1)
					}
				}
			}
		})
	}
	scanReads(fn, nil, 0)

	notHead := "a route that is not the head of a bucket read from the table's map is returned (fast path / cache)"
	var okBucket func(x c09V, d int) string
	var okRoute func(x c09V, d int, seen map[ssa.Value]bool) string
	okBucket = func(x c09V, d int) string {
		x = c09Res(x)
		if d > 8 {
			return notHead
		}
		switch s := x.v.(type) {
		case *ssa.Const:
			if s.Value == nil {
				return ""
			}
		case *ssa.Lookup:
			if !s.CommaOk && c08RouteOfMap(s.X.Type()) == t.route {
				return "" // key and map judged by the read check above
			}
		case *ssa.Extract:
			if lk, ok := s.Tuple.(*ssa.Lookup); ok && s.Index == 0 && c08RouteOfMap(lk.X.Type()) == t.route {
				return ""
			}
			if c, ok := s.Tuple.(*ssa.Call); ok {
				if g := kit.CalleeOf(c).Static; inPkg(g) {
					nf := c09Enter(c, g, x.fr)
					for _, ret := range kit.Returns(g) {
						if ret.Block() != g.Recover && s.Index < len(ret.Results) {
							if why := okBucket(c09V{kit.ReturnResult(ret, s.Index), nf}, d+1); why != "" {
								return why
							}
						}
					}
					return ""
				}
			}
		case *ssa.Phi:
			for _, e := range s.Edges {
				if e == ssa.Value(s) {
					continue
				}
				if why := okBucket(c09V{e, x.fr}, d+1); why != "" {
					return why
				}
			}
			return ""
		case *ssa.Call:
			if g := kit.CalleeOf(s).Static; inPkg(g) && c08RouteOfSlice(s.Type()) == t.route {
				nf := c09Enter(s, g, x.fr)
				for _, ret := range kit.Returns(g) {
					if ret.Block() != g.Recover && len(ret.Results) == 1 {
						if why := okBucket(c09V{kit.ReturnResult(ret, 0), nf}, d+1); why != "" {
							return why
						}
					}
				}
				return ""
			}
		}
		return "the list whose head is returned is not a bucket read from the table's map"
	}
	okRoute = func(x c09V, d int, seen map[ssa.Value]bool) string {
		x = c09Res(x)
		if d > 8 {
			return notHead
		}
		if kit.IsNilConst(x.v) {
			return ""
		}
		switch v := x.v.(type) {
		case *ssa.Phi:
			if seen[v] {
				return ""
			}
			seen[v] = true
			for _, e := range v.Edges {
				if why := okRoute(c09V{e, x.fr}, d+1, seen); why != "" {
					return why
				}
			}
			return ""
		case *ssa.Call:
			g := kit.CalleeOf(v).Static
			if isCopy(g) {
				return okRoute(c09V{v.Call.Args[0], x.fr}, d+1, seen)
			}
			if inPkg(g) && c08RouteOfPtr(v.Type()) == t.route {
				nf := c09Enter(v, g, x.fr)
				for _, ret := range kit.Returns(g) {
					if ret.Block() != g.Recover && len(ret.Results) == 1 {
						if why := okRoute(c09V{kit.ReturnResult(ret, 0), nf}, d+1, map[ssa.Value]bool{}); why != "" {
							return why
						}
					}
				}
				return ""
			}
		case *ssa.Extract:
			if c, ok := v.Tuple.(*ssa.Call); ok {
				if g := kit.CalleeOf(c).Static; inPkg(g) && c08RouteOfPtr(v.Type()) == t.route {
					nf := c09Enter(c, g, x.fr)
					for _, ret := range kit.Returns(g) {
						if ret.Block() != g.Recover && v.Index < len(ret.Results) {
							if why := okRoute(c09V{kit.ReturnResult(ret, v.Index), nf}, d+1, map[ssa.Value]bool{}); why != "" {
								return why
							}
						}
					}
					return ""
				}
			}
		case *ssa.UnOp:
			if v.Op == token.MUL {
				if ia, ok := v.X.(*ssa.IndexAddr); ok && c08RouteOfSlice(ia.X.Type()) == t.route {
					if k, isc := kit.ConstInt(ia.Index); !isc || k != 0 {
						return "an element other than element 0 of the bucket is returned"
					}
					return okBucket(c09V{ia.X, x.fr}, d+1)
				}
				if a, ok := v.X.(*ssa.Alloc); ok && a.Referrers() != nil { // result variable assigned on several paths
					if seen[v] {
						return ""
					}
					seen[v] = true
					for _, ref := range *a.Referrers() {
						if st, ok := ref.(*ssa.Store); ok && st.Addr == ssa.Value(a) {
							if why := okRoute(c09V{st.Val, x.fr}, d+1, seen); why != "" {
								return why
							}
						}
					}
					return ""
				}
			}
		}
		return notHead
	}
	for _, ret := range kit.Returns(fn) {
		if ret.Block() == fn.Recover || len(ret.Results) != 1 {
			continue
		}
		v := kit.ReturnResult(ret, 0)
		if kit.IsNilConst(v) {
			dominated := false
			kit.Instrs(fn, func(in ssa.Instruction) {
				switch x := in.(type) {
				case *ssa.Lookup:
					if c08RouteOfMap(x.X.Type()) == t.route && kit.Precedes(x, ret) {
						dominated = true
					}
				case *ssa.Call:
					if h := kit.CalleeOf(x).Static; inPkg(h) && hasReads(h, 0) && kit.Precedes(x, ret) {
						dominated = true
					}
				}
			})
			if !dominated && !c08TrivialNilReturn(fn, ret) {
				bad = append(bad, "nil is returned at "+p.Pos(ret.Pos())+" before any bucket was read, on a condition other than an empty argument or an empty table (negative cache / filter): a stored route is not reported")
			}
			continue
		}
		if why := okRoute(c09V{v, nil}, 0, map[ssa.Value]bool{}); why != "" {
			bad = append(bad, "return at "+p.Pos(ret.Pos())+": "+why)
		}
	}
	return bad
}

// c09Keyed decides R5 for a single-map keyed table.
func (m *c08Model) c09Keyed(r *kit.Report, t *c08Table) {
	p := m.p
	entry, scan, call := m.c09Entry(r, t)
	if entry == nil {
		return
	}
	if !r.Require(len(t.buckets) == 1, "anchor-unresolved: %s is expected to have one bucket map", t.name) {
		return
	}
	fld := t.buckets[0]
	name := kit.FuncName(entry)
	m.c09LockObligation(r, "C09.R5", t, entry, scan, call)
	bad := ""
	for _, hit := range []bool{true, false} {
		w := &c09Walk{m: m, t: t, fn: scan, hit: map[*types.Var]bool{fld: hit}, strLen: 11, idx: 3, found: true}
		rt := w.run()
		switch {
		case rt.kind == "unknown":
			bad = "the lookup " + w.why
		case hit && !(rt.kind == "head" && rt.field == fld && rt.index == "0" && len(scan.Params) == 2 && rt.key == ssa.Value(scan.Params[1])):
			bad = "with a non-empty bucket for the key the lookup does not return element 0 of that bucket (the lowest metric)"
		case !hit && rt.kind != "nil":
			bad = "with no (or an empty) bucket for the key the lookup still returns a route"
		}
	}
	m.note("C09.R5", name+" result", t)
	r.Decide(bad == "", "C09.R5", name+" result", p.Pos(scan.Pos()),
		"hit: element 0 of the bucket of the requested key; miss: nil", bad)
	shape := m.c09ReturnShape(t, scan, func(f *types.Var, key ssa.Value) bool {
		return len(scan.Params) == 2 && (key == ssa.Value(scan.Params[1]) || c08Canon(key) == c08Canon(scan.Params[1]))
	})
	r.Decide(len(shape) == 0, "C09.R5", name+" every result is the head of the requested bucket", p.Pos(scan.Pos()),
		"every return is nil or element 0 of routes[key] for the key argument; no other bucket, cache or fast path",
		strings.Join(shape, "; "))
}

// c09Fold: v passed through strings.ToLower/ToUpper (possibly inside a helper whose result
// it is): returns the folding function's name, "" when some path is not folded.
func (m *c08Model) c09Fold(v ssa.Value, d int) string { return m.c09FoldCtx(v, d, nil) }

// c09FoldFrame is one level of helper inlining: the helper's parameters stand for the
// caller's arguments.
type c09FoldFrame struct {
	sub    c08Sub
	parent *c09FoldFrame
}

const c09Neutral = "\x00neutral" // a constant "" result: folded whatever the function

func c09Join(a, b string) (string, bool) {
	switch {
	case a == c09Neutral:
		return b, true
	case b == c09Neutral || a == b:
		return a, true
	}
	return "", false
}

func (m *c08Model) c09FoldCtx(v ssa.Value, d int, fr *c09FoldFrame) string {
	if v == nil || d > 8 {
		return ""
	}
	switch x := v.(type) {
	case *ssa.Const:
		if sv, ok := kit.ConstString(x); ok && sv == "" {
			return c09Neutral
		}
	case *ssa.Parameter:
		if fr != nil {
			if a, ok := fr.sub[x]; ok {
				return m.c09FoldCtx(a, d+1, fr.parent)
			}
		}
	case *ssa.Call:
		cal := kit.CalleeOf(x)
		if cal.Pkg == "strings" && (cal.Name == "ToLower" || cal.Name == "ToUpper") {
			return cal.Name
		}
		if cal.Pkg == "strings" && (cal.Name == "TrimSpace" || cal.Name == "TrimSuffix" || cal.Name == "TrimPrefix") && len(x.Call.Args) >= 1 {
			return m.c09FoldCtx(x.Call.Args[0], d+1, fr)
		}
		if cal.Static != nil && kit.FuncPkgPath(cal.Static) == kit.PkgPath(c08Pkg) && cal.Static.Signature.Results().Len() == 1 {
			return m.c09FoldCall(x, 0, d+1, fr)
		}
	case *ssa.Extract:
		if c, ok := x.Tuple.(*ssa.Call); ok {
			if g := kit.CalleeOf(c).Static; g != nil && kit.FuncPkgPath(g) == kit.PkgPath(c08Pkg) {
				return m.c09FoldCall(c, x.Index, d+1, fr)
			}
			if cal := kit.CalleeOf(c); cal.Pkg == "strings" && cal.Name == "Cut" && len(c.Call.Args) == 2 {
				return m.c09FoldCtx(c.Call.Args[0], d+1, fr)
			}
		}
	case *ssa.Phi:
		name := c09Neutral
		for _, e := range x.Edges {
			n := m.c09FoldCtx(e, d+1, fr)
			if n == "" {
				return ""
			}
			j, ok := c09Join(name, n)
			if !ok {
				return ""
			}
			name = j
		}
		return name
	case *ssa.Slice:
		return m.c09FoldCtx(x.X, d+1, fr)
	case *ssa.UnOp:
		if cv, ok := c08CellValue(x); ok {
			return m.c09FoldCtx(cv, d+1, fr)
		}
		if x.Op == token.MUL {
			// element of strings.SplitN(folded, ...)
			if ia, ok := x.X.(*ssa.IndexAddr); ok {
				if c, ok := ia.X.(*ssa.Call); ok {
					if cal := kit.CalleeOf(c); cal.Pkg == "strings" && (cal.Name == "SplitN" || cal.Name == "Split") && len(c.Call.Args) >= 1 {
						return m.c09FoldCtx(c.Call.Args[0], d+1, fr)
					}
				}
			}
		}
	}
	return ""
}

// c09FoldCall folds result idx of a call of a package helper, its parameters bound to the
// call's arguments.
func (m *c08Model) c09FoldCall(c *ssa.Call, idx, d int, fr *c09FoldFrame) string {
	g := kit.CalleeOf(c).Static
	sub := c08Sub{}
	for i, prm := range g.Params {
		if i < len(c.Call.Args) {
			sub[prm] = c.Call.Args[i]
		}
	}
	return m.c09FoldRets(g, idx, d, &c09FoldFrame{sub: sub, parent: fr})
}

// c09FoldResult: result idx of g is folded on every return whatever the arguments.
func (m *c08Model) c09FoldResult(g *ssa.Function, idx, d int) string {
	return m.c09FoldRets(g, idx, d, nil)
}

func (m *c08Model) c09FoldRets(g *ssa.Function, idx, d int, fr *c09FoldFrame) string {
	name := c09Neutral
	n := 0
	for _, ret := range kit.Returns(g) {
		if ret.Block() == g.Recover || idx >= len(ret.Results) {
			continue
		}
		f := m.c09FoldCtx(kit.ReturnResult(ret, idx), d, fr)
		if f == "" {
			return ""
		}
		j, ok := c09Join(name, f)
		if !ok {
			return ""
		}
		name = j
		n++
	}
	if n == 0 || name == c09Neutral {
		return ""
	}
	return name
}

// c09MapRoles decides which DomainTable bucket field is the wildcard map: the field selected
// where the wildcard flag is true at insertion.
func (m *c08Model) c09MapRoles(t *c08Table) (exact, wild *types.Var) {
	isFlag := func(c ssa.Value) bool {
		if prm, ok := c.(*ssa.Parameter); ok {
			b, ok := prm.Type().Underlying().(*types.Basic)
			return ok && b.Kind() == types.Bool
		}
		f, _ := c08Field(c)
		return f != nil && f == t.rf["IsWildcard"]
	}
	assign := func(f *types.Var, blk *ssa.BasicBlock) {
		for _, g := range kit.Guards(blk) {
			c, pol := c08NormCond(g.Cond, g.Polarity)
			if isFlag(c) {
				if pol {
					wild = f
				} else {
					exact = f
				}
				return
			}
		}
	}
	bucketField := func(v ssa.Value) *types.Var {
		f, _ := c08Field(v)
		for _, bf := range t.buckets {
			if bf == f {
				return f
			}
		}
		return nil
	}
	for _, fn := range m.funcs {
		for _, ret := range kit.Returns(fn) {
			for i := range ret.Results {
				if f := bucketField(kit.ReturnResult(ret, i)); f != nil {
					assign(f, ret.Block())
				}
			}
		}
		kit.Instrs(fn, func(in ssa.Instruction) {
			ph, ok := in.(*ssa.Phi)
			if !ok || c08RouteOfMap(ph.Type()) != t.route {
				return
			}
			for i, e := range ph.Edges {
				if f := bucketField(e); f != nil {
					// the edge's predecessor block (or the block defining the load) carries the guard
					assign(f, ph.Block().Preds[i])
					if ld, ok := e.(*ssa.UnOp); ok && ld.Block() != ph.Block().Preds[i] {
						// value computed before the branch: the other edge decides
						continue
					}
				}
			}
		})
	}
	if exact == nil || wild == nil || exact == wild {
		// exactRoutes is referenced by the repository's tests (name-pinned); the other map is the wildcard map
		exact, wild = nil, nil
		for _, bf := range t.buckets {
			if bf.Name() == "exactRoutes" {
				exact = bf
			}
		}
		for _, bf := range t.buckets {
			if exact != nil && bf != exact {
				wild = bf
			}
		}
	}
	return
}

func (m *c08Model) c09Domain(r *kit.Report, t *c08Table) {
	p := m.p
	entry, scan, call := m.c09Entry(r, t)
	if entry == nil {
		return
	}
	exact, wild := m.c09MapRoles(t)
	if !r.Require(exact != nil && wild != nil, "anchor-unresolved: exact / wildcard bucket maps of %s", t.name) {
		return
	}
	m.c09LockObligation(r, "C09.R5", t, entry, scan, call)
	name := kit.FuncName(scan)
	pos := p.Pos(scan.Pos())
	if !r.Require(len(scan.Params) == 2, "anchor-unresolved: %s does not take (receiver, name)", name) {
		return
	}
	nameParam := ssa.Value(scan.Params[1])

	// the folded name: a strings.ToLower/ToUpper call on the name parameter
	var folded *ssa.Call
	kit.Instrs(scan, func(in ssa.Instruction) {
		if c, ok := in.(*ssa.Call); ok {
			// a normalising helper of the package applied to the name
			if g := kit.CalleeOf(c).Static; g != nil && folded == nil && kit.FuncPkgPath(g) == kit.PkgPath(c08Pkg) && g.Signature.Results().Len() == 1 && m.c09FoldResult(g, 0, 1) != "" {
				for _, a := range c.Call.Args {
					if c08Resolve(a) == nameParam {
						folded = c
					}
				}
			}
			if cal := kit.CalleeOf(c); cal.Pkg == "strings" && (cal.Name == "ToLower" || cal.Name == "ToUpper") && len(c.Call.Args) == 1 {
				a := c.Call.Args[0]
				if cc, ok := a.(*ssa.Call); ok && kit.CalleeOf(cc).Pkg == "strings" && kit.CalleeOf(cc).Name == "TrimSpace" {
					a = cc.Call.Args[0]
				}
				if a == nameParam && folded == nil {
					folded = c
				}
			}
		}
	})
	isName := func(v ssa.Value) bool { // the (folded) looked-up name
		v = c08Resolve(v)
		if folded != nil {
			return v == ssa.Value(folded)
		}
		return v == nameParam
	}

	// ---- R1: scenario walk
	type cell struct{ e, w bool }
	var r1bad []string
	for _, c := range []cell{{true, true}, {true, false}, {false, true}, {false, false}} {
		w := &c09Walk{m: m, t: t, fn: scan, hit: map[*types.Var]bool{exact: c.e, wild: c.w}, strLen: 11, idx: 3, found: true}
		rt := w.run()
		desc := fmt.Sprintf("exact-hit=%v wildcard-hit=%v", c.e, c.w)
		switch {
		case rt.kind == "unknown":
			r1bad = append(r1bad, desc+": the lookup "+w.why)
		case c.e && !(rt.kind == "head" && rt.field == exact && rt.index == "0" && isName(rt.key)):
			r1bad = append(r1bad, desc+": does not return element 0 of the exact bucket of the looked-up name")
		case !c.e && c.w && !(rt.kind == "head" && rt.field == wild && rt.index == "0"):
			r1bad = append(r1bad, desc+": does not return element 0 of the wildcard bucket")
		case !c.e && !c.w && rt.kind != "nil":
			r1bad = append(r1bad, desc+": returns a route although nothing matches")
		}
	}
	m.note("C09.R1", name+" exact before wildcard", t)
	m.note("C09.R2", name+" single-label wildcard", t)
	m.note("C09.R3", t.name+" key case folding", t)
	r.Decide(len(r1bad) == 0, "C09.R1", name+" exact before wildcard", pos,
		"4 scenarios: exact hit -> exact[name][0]; else wildcard hit -> wildcard[suffix][0]; else nil",
		"domain lookup does not prefer the exact pattern / lowest metric: "+strings.Join(r1bad, "; "))

	shape := m.c09ReturnShape(t, scan, func(f *types.Var, key ssa.Value) bool {
		if f == exact {
			if cv, ok := c08CellValue(key); ok {
				key = cv
			}
			return isName(key)
		}
		return true // wildcard keys are judged by R2
	})
	r.Decide(len(shape) == 0, "C09.R1", name+" every result is the head of an exact or wildcard bucket", pos,
		"every return is nil or element 0 of exact[name] / wildcard[suffix]; no cache or fast path",
		strings.Join(shape, "; "))

	// ---- R2: wildcard map access
	var r2bad []string
	nWild := 0
	var wildKeys []ssa.Value
	kit.Instrs(scan, func(in ssa.Instruction) {
		switch x := in.(type) {
		case *ssa.Range:
			if f, _ := c08Field(x.X); f == wild {
				r2bad = append(r2bad, "the wildcard map is iterated at "+p.Pos(x.Pos())+" (suffix matching reaches wildcards more than one label up)")
			}
		case *ssa.Lookup:
			if f, _ := c08Field(x.X); f == wild {
				nWild++
				wildKeys = append(wildKeys, x.Index)
				if c08BlockReaches(x.Block(), x.Block()) {
					r2bad = append(r2bad, "the wildcard lookup at "+p.Pos(x.Pos())+" sits in a loop (further suffixes are tried: a wildcard matches names more than one label deep)")
				}
			}
		}
	})
	// other escapes of the wildcard map inside the lookup (passed to a helper)
	kit.Instrs(scan, func(in ssa.Instruction) {
		if c, ok := in.(ssa.CallInstruction); ok {
			for _, a := range c.Common().Args {
				if f, _ := c08Field(a); f == wild {
					r2bad = append(r2bad, "the wildcard map is handed to "+kit.CalleeOf(c).String()+" at "+p.Pos(c.Pos()))
				}
			}
		}
	})
	if nWild == 0 && len(r2bad) == 0 {
		r2bad = append(r2bad, "the lookup never consults the wildcard map")
	}
	if nWild > 1 {
		r2bad = append(r2bad, fmt.Sprintf("%d lookups of the wildcard map (more than one suffix is tried)", nWild))
	}
	for _, k := range wildKeys {
		if why := c09SuffixKey(k, isName); why != "" {
			r2bad = append(r2bad, "wildcard key at "+p.Pos(k.Pos())+": "+why)
		}
	}
	// a name without a dot must not reach a wildcard
	for _, e := range []bool{false} {
		w := &c09Walk{m: m, t: t, fn: scan, hit: map[*types.Var]bool{exact: e, wild: true}, strLen: 11, idx: -1, found: false}
		rt := w.run()
		if rt.kind != "nil" && len(r2bad) == 0 {
			if rt.kind == "unknown" {
				r2bad = append(r2bad, "name without a dot: the lookup "+w.why)
			} else {
				r2bad = append(r2bad, "a name without a dot (Index = -1 / Cut not found) still returns a wildcard route: the bare domain matches *.domain with zero labels")
			}
		}
	}
	r.Decide(len(r2bad) == 0, "C09.R2", name+" single-label wildcard", pos,
		"one wildcard lookup, outside loops, keyed by the suffix after the first dot; dot-less names return nil",
		"wildcard matching is not limited to exactly one label: "+strings.Join(r2bad, "; "))

	// ---- R3: case agreement
	lookFold := ""
	if folded != nil {
		lookFold = m.c09Fold(folded, 0)
	}
	var r3bad []string
	if lookFold == "" {
		r3bad = append(r3bad, "the looked-up name is not case-folded (strings.ToLower) before the map lookups")
	}
	kit.Instrs(scan, func(in ssa.Instruction) {
		if lk, ok := in.(*ssa.Lookup); ok && c08RouteOfMap(lk.X.Type()) == t.route {
			if f := m.c09Fold(lk.Index, 0); f == "" || f != lookFold {
				r3bad = append(r3bad, "lookup key at "+p.Pos(lk.Pos())+" does not derive from the folded name")
			}
		}
	})
	nIns := 0
	for _, ev := range m.events {
		if ev.tbl != t || ev.kind != "insert" || c10RouteParam(ev.fn, t) == nil {
			continue // only writes that introduce a new route choose a key
		}
		nIns++
		f := m.c09Fold(ev.bucket.keyVal, 0)
		if f == "" {
			r3bad = append(r3bad, "insertion key at "+p.Pos(ev.instr.Pos())+" in "+kit.FuncName(ev.fn)+" is not case-folded on every path")
		} else if lookFold != "" && f != lookFold {
			r3bad = append(r3bad, "insertion keys are folded with strings."+f+" but lookups with strings."+lookFold)
		}
	}
	r.Require(nIns >= 1, "floor: no insertion into a %s bucket found", t.name)
	r.Count("domain_insert_sites", nIns)
	r.Decide(len(r3bad) == 0, "C09.R3", t.name+" key case folding", pos,
		"insertion keys and lookup keys are folded by strings."+lookFold,
		"stored keys and looked-up keys disagree on letter case, so a pattern and a name differing only in case do not match: "+strings.Join(r3bad, "; "))
}

// c09SuffixKey: k is the suffix after the first dot of the folded name. Returns "" when it is.
func c09SuffixKey(k ssa.Value, isName func(ssa.Value) bool) string {
	return c09SuffixKeyD(k, isName, 0)
}

func c09SuffixKeyD(k ssa.Value, isName func(ssa.Value) bool, depth int) string {
	k = c08Resolve(k)
	// the suffix computed by a helper of the package: every return yields "" or the suffix of
	// the helper's own name parameter
	if depth < 2 {
		var hc *ssa.Call
		idx := 0
		switch x := k.(type) {
		case *ssa.Call:
			hc = x
		case *ssa.Extract:
			hc, _ = x.Tuple.(*ssa.Call)
			idx = x.Index
		}
		if hc != nil {
			if g := kit.CalleeOf(hc).Static; g != nil && len(g.Blocks) > 0 && kit.FuncPkgPath(g) == kit.PkgPath(c08Pkg) {
				var prm *ssa.Parameter
				for i, a := range hc.Call.Args {
					if isName(a) && i < len(g.Params) {
						prm = g.Params[i]
					}
				}
				if prm != nil {
					n := 0
					for _, ret := range kit.Returns(g) {
						if ret.Block() == g.Recover || idx >= len(ret.Results) {
							continue
						}
						for _, leaf := range kit.PhiLeaves(kit.ReturnResult(ret, idx)) {
							if sv, isc := kit.ConstString(leaf); isc && sv == "" {
								continue
							}
							n++
							if why := c09SuffixKeyD(leaf, func(v ssa.Value) bool { return c08Resolve(v) == ssa.Value(prm) }, depth+1); why != "" {
								return why
							}
						}
					}
					if n > 0 {
						return ""
					}
				}
			}
		}
	}
	const notFirst = "is not the suffix after the FIRST dot of the looked-up name (accepted: name[strings.Index(name, \".\")+1:], strings.Cut(name, \".\") after, strings.SplitN(name, \".\", 2)[1])"
	isDot := func(v ssa.Value) bool {
		if s, ok := kit.ConstString(v); ok {
			return s == "."
		}
		if c, ok := kit.ConstInt(v); ok {
			return c == '.'
		}
		return false
	}
	switch x := k.(type) {
	case *ssa.Slice:
		if !isName(x.X) || x.High != nil || x.Low == nil {
			return notFirst
		}
		add, ok := x.Low.(*ssa.BinOp)
		if !ok || add.Op != token.ADD {
			return notFirst
		}
		one, idx := add.Y, add.X
		if _, isc := kit.ConstInt(idx); isc {
			one, idx = add.X, add.Y
		}
		if c, ok := kit.ConstInt(one); !ok || c != 1 {
			return notFirst
		}
		call, ok := idx.(*ssa.Call)
		if !ok {
			return notFirst
		}
		cal := kit.CalleeOf(call)
		if cal.Pkg != "strings" || !(cal.Name == "Index" || cal.Name == "IndexByte" || cal.Name == "IndexRune") || len(call.Call.Args) != 2 {
			return notFirst
		}
		if !isName(call.Call.Args[0]) || !isDot(call.Call.Args[1]) {
			return notFirst
		}
		return ""
	case *ssa.Extract:
		call, ok := x.Tuple.(*ssa.Call)
		if !ok {
			return notFirst
		}
		cal := kit.CalleeOf(call)
		if cal.Pkg == "strings" && cal.Name == "Cut" && x.Index == 1 && len(call.Call.Args) == 2 && isName(call.Call.Args[0]) && isDot(call.Call.Args[1]) {
			return ""
		}
	case *ssa.UnOp:
		if x.Op == token.MUL {
			if ia, ok := x.X.(*ssa.IndexAddr); ok {
				if i, ok := kit.ConstInt(ia.Index); ok && i == 1 {
					if call, ok := ia.X.(*ssa.Call); ok {
						cal := kit.CalleeOf(call)
						if cal.Pkg == "strings" && cal.Name == "SplitN" && len(call.Call.Args) == 3 && isName(call.Call.Args[0]) && isDot(call.Call.Args[1]) {
							if n, ok := kit.ConstInt(call.Call.Args[2]); ok && n == 2 {
								return ""
							}
						}
					}
				}
			}
		}
	}
	return notFirst
}
