package rules

import (
	"sort"
	"strings"

	"golang.org/x/tools/go/ssa"

	"mmverify/kit"
)

// C04.R6 — a wiped ephemeral private key must not be usable for another key agreement.
//
// The handshake design decided by C02.R6 consumes a stored ephemeral private key by zeroing it in
// place once the session key is derived. A second handshake reply for the same tunnel (any transit
// on the path can inject one, carrying a public key of its choice) then runs the key agreement on
// the all-zero private key. X25519 accepts an all-zero scalar (it is clamped to a fixed, public
// one), so the resulting secret is X25519(a, X25519(0, G)) - computable by whoever chose the
// remote key a*G - and the session key derived from it replaces the tunnel's key: a transit agent
// then holds the key under which the ingress seals application data.
//
// Decided structurally: if C02.R6 finds at least one site that consumes a *stored* private key in
// place, the key-agreement function (the repository function that calls curve25519.ScalarMult /
// X25519, resolved by role) must refuse an all-zero private key on every path to a nil-error
// return. Per-site "already established" guards are not recognised (a tree that guarded every
// such site instead would be reported; stated in DESIGN.md).
func c04ConsumedKey(p *kit.Program, r *kit.Report) {
	r.Rule("C04.R6", "where stored ephemeral private keys are consumed by zeroing them in place (the sites of C02.R6), the key-agreement function refuses an all-zero private key on every path to a nil-error return, so a repeated handshake reply cannot derive a session key from the wiped key that the sender of the reply can compute")
	sub := kit.NewReport("C02", "embedded")
	runC02(p, sub)
	var sites []string
	for _, o := range sub.Obs {
		if o.Rule == "C02.R6" && o.Status == kit.Discharged && strings.Contains(o.Key, " consumes ") {
			sites = append(sites, o.Key)
		}
	}
	sort.Strings(sites)
	r.Count("sites_consuming_a_stored_private_key_in_place", len(sites))
	if len(sites) == 0 {
		r.Note("R6: no site consumes a stored private key by zeroing it in place: nothing to judge")
		return
	}
	var ecdh *ssa.Function
	for _, fn := range p.RepoFuncs() {
		if fn.Pkg == nil || !strings.HasSuffix(fn.Pkg.Pkg.Path(), "internal/crypto") || len(fn.Params) != 2 {
			continue
		}
		for _, c := range kit.Calls(fn) {
			cal := kit.CalleeOf(c)
			if cal.Pkg == "golang.org/x/crypto/curve25519" && (cal.Name == "ScalarMult" || cal.Name == "X25519") {
				ecdh = fn
			}
		}
	}
	if ecdh == nil {
		r.Note("R6: no two-parameter function of internal/crypto calls curve25519.ScalarMult/X25519: key agreement not found, nothing judged")
		return
	}
	priv := ssa.Value(ecdh.Params[0])
	refused, nOK := true, 0
	for _, ret := range kit.Returns(ecdh) {
		if ecdh.Recover != nil && ret.Block() == ecdh.Recover {
			continue
		}
		if !kit.ReturnsNilError(ret) {
			continue
		}
		nOK++
		got := false
		for _, g := range kit.GuardsOf(ret) {
			root, trueMeansZero, ok := c03ZeroTest(g.Cond)
			if ok && g.Polarity != trueMeansZero && root == priv {
				got = true
			}
		}
		if !got {
			refused = false
		}
	}
	if nOK == 0 {
		return // C03.R6 reports a key agreement that never succeeds
	}
	some := sites
	if len(some) > 4 {
		some = append(append([]string{}, some[:4]...), "...")
	}
	r.Decide(refused, "C04.R6", "key agreement on a wiped private key", p.Pos(ecdh.Pos()),
		"every nil-error return of the key-agreement function is dominated by a test that the private key is not all-zero",
		kit.FuncName(ecdh)+" accepts an all-zero private key, and "+itoa(len(sites))+" site(s) consume a stored ephemeral private key by zeroing it in place ("+strings.Join(some, "; ")+"): a second handshake reply carrying a public key chosen by a transit agent derives, from the wiped key, a session key that transit can compute (X25519 clamps the zero scalar to a public constant), and the ingress then seals application data under it")
}

func itoa(n int) string {
	if n == 0 {
		return "0"
	}
	s := ""
	for n > 0 {
		s = string(rune('0'+n%10)) + s
		n /= 10
	}
	return s
}
