package rules

import (
	"fmt"
	"go/token"
	"go/types"
	"sort"
	"strings"

	"golang.org/x/tools/go/ssa"

	"mmverify/kit"
)

// C39 — control responses reach only the agent that asked.

func init() {
	register(&Check{
		ID: "C39", Level: "other", Patterns: []string{"./internal/agent"},
		Technique: "key provenance of the control tables, id-space disjointness, destination provenance, lock region of the id allocator",
		Explain:   "Decides that the table in which a transit records forwarded control requests is not keyed by the bare request id the requester chose (R1); that the function which demultiplexes a control response between locally pending and forwarded requests cannot confuse the two (both tables draw their keys from one allocator of the agent), forwards a relayed response only to the source peer recorded in the matched entry, and that the entry records the peer the request came from (R2); and that ids of locally issued requests come from one agent-global counter that is advanced, read and registered inside one write-lock region (R3). That a target answers from its own state, and removal of stale entries by timeout, are not decided.",
		Run:       runC39,
		SelfTests: []SelfTest{
			{Name: "forwarded requests keyed by the requester's id again", ExpectRule: "C39.R1", ExpectKey: "agent.Agent.forwardedControl", Edits: []Edit{
				{File: "internal/agent/agent.go", Old: "\t\ta.forwardedControl[fwdID] = &forwardedControlRequest{", New: "\t\ta.forwardedControl[req.RequestID] = &forwardedControlRequest{"},
			}},
			{Name: "forwarded ids from a second counter overlap the local ids", ExpectRule: "C39.R2", ExpectKey: "id spaces", Edits: []Edit{
				{File: "internal/agent/agent.go", Old: "\tnextControlID    uint64\n", New: "\tnextControlID    uint64\n\tnextForwardID    uint64\n"},
				{File: "internal/agent/agent.go", Old: "\t\ta.nextControlID++\n\t\tfwdID := a.nextControlID\n", New: "\t\ta.nextForwardID++\n\t\tfwdID := a.nextForwardID\n"},
			}},
			{Name: "relayed response reflected to the peer it came from", ExpectRule: "C39.R2", ExpectKey: "forwards to the recorded source", Edits: []Edit{
				{File: "internal/agent/agent.go", Old: "if err := a.peerMgr.SendToPeer(forwarded.SourcePeer, responseFrame); err != nil {", New: "if err := a.peerMgr.SendToPeer(peerID, responseFrame); err != nil {"},
			}},
			{Name: "forwarded entry records the next hop instead of the requester", ExpectRule: "C39.R2", ExpectKey: "records the requesting peer", Edits: []Edit{
				{File: "internal/agent/agent.go", Old: "\t\t\tSourcePeer: peerID,\n", New: "\t\t\tSourcePeer: nextHop,\n"},
			}},
			{Name: "local request id advanced outside the lock", ExpectRule: "C39.R3", ExpectKey: "SendControlRequestWithData", Edits: []Edit{
				{File: "internal/agent/agent.go", Old: "\ta.controlMu.Lock()\n\ta.nextControlID++\n\trequestID := a.nextControlID\n", New: "\ta.nextControlID++\n\trequestID := a.nextControlID\n\ta.controlMu.Lock()\n"},
			}},
			{Name: "local request registered in a second critical section", ExpectRule: "C39.R3", ExpectKey: "SendControlRequestWithData", Edits: []Edit{
				{File: "internal/agent/agent.go", Old: "\ta.controlMu.Lock()\n\ta.nextControlID++\n\trequestID := a.nextControlID\n", New: "\ta.controlMu.Lock()\n\ta.nextControlID++\n\trequestID := a.nextControlID\n\ta.controlMu.Unlock()\n\ta.controlMu.Lock()\n"},
			}},
			{Name: "pending requests keyed by the control type", ExpectRule: "C39.R3", ExpectKey: "agent.Agent.pendingControl", Edits: []Edit{
				{File: "internal/agent/agent.go", Old: "\ta.pendingControl[requestID] = pending\n", New: "\ta.pendingControl[uint64(controlType)] = pending\n"},
			}},
			{Name: "seed class C39-b: requester's id restored before the pending lookup", ExpectRule: "C39.R4", ExpectKey: "uses the wire id", Edits: []Edit{
				{File: "internal/agent/agent.go", Old: "\tpending, hasPending := a.pendingControl[resp.RequestID]\n\tif hasPending {\n\t\tdelete(a.pendingControl, resp.RequestID)\n\t}\n\n\tforwarded, hasForwarded := a.forwardedControl[resp.RequestID]\n\tif hasForwarded {\n\t\tdelete(a.forwardedControl, resp.RequestID)\n\t}\n", New: "\tforwarded, hasForwarded := a.forwardedControl[resp.RequestID]\n\tif hasForwarded {\n\t\tdelete(a.forwardedControl, resp.RequestID)\n\t\tresp.RequestID = forwarded.RequestID\n\t}\n\n\tpending, hasPending := a.pendingControl[resp.RequestID]\n\tif hasPending {\n\t\tdelete(a.pendingControl, resp.RequestID)\n\t}\n"},
			}},
			{Name: "pending lookup keyed by a local that is overwritten with the stored requester id", ExpectRule: "C39.R4", ExpectKey: "uses the wire id", Edits: []Edit{
				{File: "internal/agent/agent.go", Old: "\tpending, hasPending := a.pendingControl[resp.RequestID]\n\tif hasPending {\n\t\tdelete(a.pendingControl, resp.RequestID)\n\t}\n\n\tforwarded, hasForwarded := a.forwardedControl[resp.RequestID]\n\tif hasForwarded {\n\t\tdelete(a.forwardedControl, resp.RequestID)\n\t}\n", New: "\tid := resp.RequestID\n\tforwarded, hasForwarded := a.forwardedControl[id]\n\tif hasForwarded {\n\t\tdelete(a.forwardedControl, id)\n\t\tid = forwarded.RequestID\n\t}\n\n\tpending, hasPending := a.pendingControl[id]\n\tif hasPending {\n\t\tdelete(a.pendingControl, id)\n\t}\n"},
			}},
			{Name: "relayed response sent on without restoring the requester's id", ExpectRule: "C39.R4", ExpectKey: "carries the requester's id", Edits: []Edit{
				{File: "internal/agent/agent.go", Old: "\t\tresp.RequestID = forwarded.RequestID\n", New: ""},
			}},
			{Name: "forwarded entry stores the allocated id instead of the requester's", ExpectRule: "C39.R4", ExpectKey: "entry keeps the requester's id", Edits: []Edit{
				{File: "internal/agent/agent.go", Old: "\t\t\tRequestID:  req.RequestID,\n\t\t\tSourcePeer: peerID,\n", New: "\t\t\tRequestID:  fwdID,\n\t\t\tSourcePeer: peerID,\n"},
			}},
			{Name: "request forwarded under the requester's id although registered under the allocated one", ExpectRule: "C39.R4", ExpectKey: "carries the allocated id", Edits: []Edit{
				{File: "internal/agent/agent.go", Old: "\t\t\tRequestID:   fwdID,\n", New: "\t\t\tRequestID:   req.RequestID,\n"},
			}},
			{Name: "rewrite: wire id saved in a local, response re-encoded from a fresh literal", Edits: []Edit{
				{File: "internal/agent/agent.go", Old: "\tpending, hasPending := a.pendingControl[resp.RequestID]\n\tif hasPending {\n\t\tdelete(a.pendingControl, resp.RequestID)\n\t}\n\n\tforwarded, hasForwarded := a.forwardedControl[resp.RequestID]\n\tif hasForwarded {\n\t\tdelete(a.forwardedControl, resp.RequestID)\n\t}\n", New: "\twireID := resp.RequestID\n\tforwarded, hasForwarded := a.forwardedControl[wireID]\n\tif hasForwarded {\n\t\tdelete(a.forwardedControl, wireID)\n\t}\n\tpending, hasPending := a.pendingControl[wireID]\n\tif hasPending {\n\t\tdelete(a.pendingControl, wireID)\n\t}\n"},
			}},
			{Name: "seed class C39-d: forwarding failure reported to the source under the transit-allocated id (helper)", ExpectRule: "C39.R4", ExpectKey: "carries that peer's id", Edits: []Edit{
				{File: "internal/agent/agent.go", Old: "\t\t\ta.sendControlResponse(peerID, req.RequestID, req.ControlType, false, []byte(\"failed to forward: \"+err.Error()))\n", New: "\t\t\ta.failForwardedControl(peerID, fwdReq, err)\n"},
				{File: "internal/agent/agent.go", Old: "// handleControlResponse processes a CONTROL_RESPONSE from a peer.\n", New: "func (a *Agent) failForwardedControl(sourcePeer identity.AgentID, fwdReq *protocol.ControlRequest, cause error) {\n\ta.sendControlResponse(sourcePeer, fwdReq.RequestID, fwdReq.ControlType, false, []byte(\"failed to forward: \"+cause.Error()))\n}\n\n// handleControlResponse processes a CONTROL_RESPONSE from a peer.\n"},
			}},
			{Name: "forwarding failure reported under fwdID directly", ExpectRule: "C39.R4", ExpectKey: "carries that peer's id", Edits: []Edit{
				{File: "internal/agent/agent.go", Old: "\t\t\ta.sendControlResponse(peerID, req.RequestID, req.ControlType, false, []byte(\"failed to forward: \"+err.Error()))\n", New: "\t\t\ta.sendControlResponse(peerID, fwdID, req.ControlType, false, []byte(\"failed to forward: \"+err.Error()))\n"},
			}},
			{Name: "rewrite: forwarding failure reported through a helper that is given the request's own id", Edits: []Edit{
				{File: "internal/agent/agent.go", Old: "\t\t\ta.sendControlResponse(peerID, req.RequestID, req.ControlType, false, []byte(\"failed to forward: \"+err.Error()))\n", New: "\t\t\ta.failForwardedControl(peerID, req, err)\n"},
				{File: "internal/agent/agent.go", Old: "// handleControlResponse processes a CONTROL_RESPONSE from a peer.\n", New: "func (a *Agent) failForwardedControl(sourcePeer identity.AgentID, orig *protocol.ControlRequest, cause error) {\n\ta.sendControlResponse(sourcePeer, orig.RequestID, orig.ControlType, false, []byte(\"failed to forward: \"+cause.Error()))\n}\n\n// handleControlResponse processes a CONTROL_RESPONSE from a peer.\n"},
			}},
			{Name: "rewrite: id drawn through an allocator helper called under the same lock", Edits: []Edit{
				{File: "internal/agent/agent.go", Old: "\ta.nextControlID++\n\trequestID := a.nextControlID\n", New: "\trequestID := a.allocControlIDLocked()\n"},
				{File: "internal/agent/agent.go", Old: "// getLocalStatus returns the agent's status as JSON.\n", New: "func (a *Agent) allocControlIDLocked() uint64 {\n\ta.nextControlID++\n\treturn a.nextControlID\n}\n\n// getLocalStatus returns the agent's status as JSON.\n"},
			}},
			{Name: "rewrite: relayed response returned by a helper that takes the matched entry", Edits: []Edit{
				{File: "internal/agent/agent.go", Old: "\t\tresponseFrame := &protocol.Frame{\n\t\t\tType:     protocol.FrameControlResponse,\n\t\t\tStreamID: protocol.ControlStreamID,\n\t\t\tPayload:  resp.Encode(),\n\t\t}\n\t\tif err := a.peerMgr.SendToPeer(forwarded.SourcePeer, responseFrame); err != nil {\n\t\t\ta.logger.Debug(\"failed to forward control response\",\n\t\t\t\tlogging.KeyPeerID, forwarded.SourcePeer.ShortString(),\n\t\t\t\tlogging.KeyError, err)\n\t\t}\n", New: "\t\ta.returnControlResponse(forwarded, resp)\n"},
				{File: "internal/agent/agent.go", Old: "\t\tresp.RequestID = forwarded.RequestID\n", New: ""},
				{File: "internal/agent/agent.go", Old: "// sendControlResponse sends a control response to a peer.\n", New: "func (a *Agent) returnControlResponse(entry *forwardedControlRequest, resp *protocol.ControlResponse) {\n\tresp.RequestID = entry.RequestID\n\tif err := a.sendControlFrame(entry.SourcePeer, protocol.FrameControlResponse, resp.Encode()); err != nil {\n\t\ta.logger.Debug(\"failed to forward control response\", logging.KeyError, err)\n\t}\n}\n\nfunc (a *Agent) sendControlFrame(to identity.AgentID, frameType uint8, payload []byte) error {\n\treturn a.peerMgr.SendToPeer(to, &protocol.Frame{Type: frameType, StreamID: protocol.ControlStreamID, Payload: payload})\n}\n\n// sendControlResponse sends a control response to a peer.\n"},
			}},
			{Name: "relay helper sends the response back to the peer it arrived from", ExpectRule: "C39.R2", ExpectKey: "forwards to the recorded source", Edits: []Edit{
				{File: "internal/agent/agent.go", Old: "\t\tif err := a.peerMgr.SendToPeer(forwarded.SourcePeer, responseFrame); err != nil {", New: "\t\tif err := a.peerMgr.SendToPeer(a.id, responseFrame); err != nil {"},
			}},
			{Name: "rewrite: next id computed first, then stored", Edits: []Edit{
				{File: "internal/agent/agent.go", Old: "\ta.controlMu.Lock()\n\ta.nextControlID++\n\trequestID := a.nextControlID\n", New: "\ta.controlMu.Lock()\n\trequestID := a.nextControlID + 1\n\ta.nextControlID = requestID\n"},
			}},
			{Name: "rewrite: id allocation and registration extracted into a helper", Edits: []Edit{
				{File: "internal/agent/agent.go", Old: "\ta.controlMu.Lock()\n\ta.nextControlID++\n\trequestID := a.nextControlID\n\tpending := &pendingControlRequest{\n\t\tRequestID:   requestID,\n\t\tControlType: controlType,\n\t\tResponseCh:  make(chan *protocol.ControlResponse, 1),\n\t\tTimeout:     time.Now().Add(30 * time.Second),\n\t}\n\ta.pendingControl[requestID] = pending\n\ta.controlMu.Unlock()\n", New: "\trequestID, pending := a.registerPendingControl(controlType)\n"},
				{File: "internal/agent/agent.go", Old: "// getLocalStatus returns the agent's status as JSON.\n", New: "func (a *Agent) registerPendingControl(controlType uint8) (uint64, *pendingControlRequest) {\n\ta.controlMu.Lock()\n\tdefer a.controlMu.Unlock()\n\ta.nextControlID++\n\tid := a.nextControlID\n\tpending := &pendingControlRequest{RequestID: id, ControlType: controlType, ResponseCh: make(chan *protocol.ControlResponse, 1), Timeout: time.Now().Add(30 * time.Second)}\n\ta.pendingControl[id] = pending\n\treturn id, pending\n}\n\n// getLocalStatus returns the agent's status as JSON.\n"},
			}},
			{Name: "rewrite: id allocation inside a locked closure", Edits: []Edit{
				{File: "internal/agent/agent.go", Old: "\ta.controlMu.Lock()\n\ta.nextControlID++\n\trequestID := a.nextControlID\n\tpending := &pendingControlRequest{\n\t\tRequestID:   requestID,\n\t\tControlType: controlType,\n\t\tResponseCh:  make(chan *protocol.ControlResponse, 1),\n\t\tTimeout:     time.Now().Add(30 * time.Second),\n\t}\n\ta.pendingControl[requestID] = pending\n\ta.controlMu.Unlock()\n", New: "\tvar requestID uint64\n\tvar pending *pendingControlRequest\n\tfunc() {\n\t\ta.controlMu.Lock()\n\t\tdefer a.controlMu.Unlock()\n\t\ta.nextControlID++\n\t\trequestID = a.nextControlID\n\t\tpending = &pendingControlRequest{RequestID: requestID, ControlType: controlType, ResponseCh: make(chan *protocol.ControlResponse, 1), Timeout: time.Now().Add(30 * time.Second)}\n\t\ta.pendingControl[requestID] = pending\n\t}()\n"},
			}},
			{Name: "rewrite: source peer copied to a local before sending", Edits: []Edit{
				{File: "internal/agent/agent.go", Old: "if err := a.peerMgr.SendToPeer(forwarded.SourcePeer, responseFrame); err != nil {", New: "dst := forwarded.SourcePeer\n\t\tif err := a.peerMgr.SendToPeer(dst, responseFrame); err != nil {"},
			}},
		},
	})
}

// c39EncodedObject: for a SendToPeer(peer, frame) call, the object whose Encode() result was
// stored into the frame's []byte payload field, and that Encode call.
func c39EncodedObject(c ssa.CallInstruction) (ssa.Value, *ssa.Call) {
	frame := kit.Arg(c, 1)
	if frame == nil || frame.Referrers() == nil {
		return nil, nil
	}
	for _, rf := range *frame.Referrers() {
		fa, ok := rf.(*ssa.FieldAddr)
		if !ok {
			continue
		}
		sl, ok := kit.FieldOfAddr(fa).Type().Underlying().(*types.Slice)
		if !ok {
			continue
		}
		if b, ok := sl.Elem().Underlying().(*types.Basic); !ok || b.Kind() != types.Byte {
			continue
		}
		for _, rf2 := range *fa.Referrers() {
			st, ok := rf2.(*ssa.Store)
			if !ok || st.Addr != fa {
				continue
			}
			if enc, _, isCall := kit.ResultOf(st.Val); isCall {
				if recv := kit.Receiver(enc); recv != nil {
					return recv, enc
				}
			}
		}
	}
	return nil, nil
}

// c39ForeignKey follows the lookup key backwards inside fn (phis, locals, and — for a field of
// the decoded frame — every store to that field that can execute before the lookup). It
// returns a description when the key can be a value read from a stored table entry.
func c39ForeignKey(fn *ssa.Function, key ssa.Value, at ssa.Instruction, isEntryBase func(ssa.Value) bool) string {
	seen := map[ssa.Value]bool{}
	var walk func(v ssa.Value) string
	walk = func(v ssa.Value) string {
		v = c16Strip(v)
		if seen[v] {
			return ""
		}
		seen[v] = true
		switch x := v.(type) {
		case *ssa.Phi:
			for _, e := range x.Edges {
				if w := walk(e); w != "" {
					return w
				}
			}
		case *ssa.UnOp:
			if x.Op != token.MUL {
				return ""
			}
			if a, ok := x.X.(*ssa.Alloc); ok {
				for _, rf := range *a.Referrers() {
					if st, isSt := rf.(*ssa.Store); isSt && st.Addr == a {
						if w := walk(st.Val); w != "" {
							return w
						}
					}
				}
				return ""
			}
			f, base := kit.LoadedField(x)
			if f == nil {
				return ""
			}
			if isEntryBase(base) {
				return "the id stored in a table entry (field " + f.Name() + ")"
			}
			// redefinitions of the same field of the same object before the lookup
			w := ""
			kit.Instrs(fn, func(in ssa.Instruction) {
				st, isSt := in.(*ssa.Store)
				if !isSt || w != "" {
					return
				}
				fa, isFA := st.Addr.(*ssa.FieldAddr)
				if !isFA || kit.FieldOfAddr(fa) != f || fa.X != base {
					return
				}
				if kit.CanReach(st, at) {
					w = walk(st.Val)
				}
			})
			return w
		}
		return ""
	}
	return walk(key)
}

// c39Send is one place where a frame carrying an encoded object is handed to the peer manager:
// a direct SendToPeer(peer, &Frame{Payload: obj.Encode()}) or a call of a small wrapper
// (sendControlFrame(peer, type, obj.Encode())) that builds the frame and calls SendToPeer.
type c39Send struct {
	fn   *ssa.Function
	call ssa.CallInstruction
	peer ssa.Value
	obj  ssa.Value // receiver of Encode; nil when not visible
	enc  *ssa.Call
}

func c39ParamIndex(fn *ssa.Function, v ssa.Value) int {
	for i, pa := range fn.Params {
		if ssa.Value(pa) == v {
			return i
		}
	}
	return -1
}

// c39FramePayload: the value stored into the []byte field of the frame object handed to SendToPeer.
func c39FramePayload(frame ssa.Value) ssa.Value {
	if frame == nil || frame.Referrers() == nil {
		return nil
	}
	for _, rf := range *frame.Referrers() {
		fa, ok := rf.(*ssa.FieldAddr)
		if !ok {
			continue
		}
		sl, ok := kit.FieldOfAddr(fa).Type().Underlying().(*types.Slice)
		if !ok {
			continue
		}
		if b, ok := sl.Elem().Underlying().(*types.Basic); !ok || b.Kind() != types.Byte {
			continue
		}
		for _, rf2 := range *fa.Referrers() {
			if st, ok := rf2.(*ssa.Store); ok && st.Addr == fa {
				return st.Val
			}
		}
	}
	return nil
}

func c39Sends(p *kit.Program) []c39Send {
	var out []c39Send
	encOf := func(payload ssa.Value) (ssa.Value, *ssa.Call) {
		if payload == nil {
			return nil, nil
		}
		if enc, _, isCall := kit.ResultOf(payload); isCall {
			if recv := kit.Receiver(enc); recv != nil {
				return recv, enc
			}
		}
		return nil, nil
	}
	type wrapper struct{ peerIdx, payloadIdx int }
	wrappers := map[*ssa.Function]wrapper{}
	for _, fn := range p.FuncsInPkg("internal/agent") {
		for _, c := range kit.Calls(fn) {
			if !c39IsSendToPeer(c) {
				continue
			}
			peer, payload := kit.Arg(c, 0), c39FramePayload(kit.Arg(c, 1))
			pi, yi := c39ParamIndex(fn, peer), -1
			if payload != nil {
				yi = c39ParamIndex(fn, payload)
			}
			if pi >= 0 && yi >= 0 {
				wrappers[fn] = wrapper{pi, yi}
				continue
			}
			obj, enc := encOf(payload)
			out = append(out, c39Send{fn, c, peer, obj, enc})
		}
	}
	for g, w := range wrappers {
		for _, site := range p.StaticCallers(g) {
			args := site.Common().Args
			if w.peerIdx >= len(args) || w.payloadIdx >= len(args) {
				continue
			}
			obj, enc := encOf(args[w.payloadIdx])
			out = append(out, c39Send{site.Parent(), site, args[w.peerIdx], obj, enc})
		}
	}
	sort.Slice(out, func(i, j int) bool { return out[i].call.Pos() < out[j].call.Pos() })
	return out
}

func c39IsNamedPtr(t types.Type, pkg, name string) bool {
	pt, ok := t.(*types.Pointer)
	if !ok {
		return false
	}
	n, ok := pt.Elem().(*types.Named)
	return ok && n.Obj().Name() == name && n.Obj().Pkg() != nil && n.Obj().Pkg().Path() == kit.PkgPath(pkg)
}

// c39AllocatorRoot follows an id value backwards — through phis, locals, parameters (to the
// arguments at every static call site, three levels) and fields of objects built locally or
// received as parameters (to the values stored into that field) — and returns a description as
// soon as one root is an id drawn from the agent's own allocator (a counter of `owner`).
func c39AllocatorRoot(cx *c16Ctx, owner *types.Named, v ssa.Value, depth int, seen map[ssa.Value]bool) string {
	v = c16Strip(v)
	if v == nil || seen[v] || depth > 3 {
		return ""
	}
	seen[v] = true
	switch x := v.(type) {
	case *ssa.Phi:
		for _, e := range x.Edges {
			if w := c39AllocatorRoot(cx, owner, e, depth, seen); w != "" {
				return w
			}
		}
		return ""
	case *ssa.Parameter:
		fn := x.Parent()
		for i, pa := range fn.Params {
			if pa != x {
				continue
			}
			for _, site := range cx.p.StaticCallers(fn) {
				if i < len(site.Common().Args) {
					if w := c39AllocatorRoot(cx, owner, site.Common().Args[i], depth+1, seen); w != "" {
						return w
					}
				}
			}
		}
		return ""
	case *ssa.UnOp:
		if x.Op != token.MUL {
			return ""
		}
		if a, ok := x.X.(*ssa.Alloc); ok {
			for _, rf := range *a.Referrers() {
				if st, isSt := rf.(*ssa.Store); isSt && st.Addr == a {
					if w := c39AllocatorRoot(cx, owner, st.Val, depth, seen); w != "" {
						return w
					}
				}
			}
			return ""
		}
		if f := c16FieldOfOwner(x.X, owner); f != nil {
			if c16CounterField(cx.p, f) {
				return "an id from this agent's own counter " + f.Name()
			}
			return ""
		}
		fa, ok := x.X.(*ssa.FieldAddr)
		if !ok {
			return ""
		}
		fld := kit.FieldOfAddr(fa)
		// the objects the field is read from: the base itself, or what a parameter base was bound to
		var objs []ssa.Value
		var collect func(b ssa.Value, d int)
		collect = func(b ssa.Value, d int) {
			switch y := b.(type) {
			case *ssa.Alloc:
				objs = append(objs, y)
			case *ssa.Phi:
				for _, e := range y.Edges {
					collect(e, d)
				}
			case *ssa.Parameter:
				if d > 3 {
					return
				}
				for i, pa := range y.Parent().Params {
					if pa != y {
						continue
					}
					for _, site := range cx.p.StaticCallers(y.Parent()) {
						if i < len(site.Common().Args) {
							collect(site.Common().Args[i], d+1)
						}
					}
				}
			}
		}
		collect(fa.X, depth)
		for _, obj := range objs {
			if obj.Referrers() == nil {
				continue
			}
			for _, rf := range *obj.Referrers() {
				fa2, isFA := rf.(*ssa.FieldAddr)
				if !isFA || kit.FieldOfAddr(fa2) != fld {
					continue
				}
				for _, rf2 := range *fa2.Referrers() {
					if st, isSt := rf2.(*ssa.Store); isSt && st.Addr == fa2 {
						if w := c39AllocatorRoot(cx, owner, st.Val, depth+1, seen); w != "" {
							return w + " (through field " + fld.Name() + " of a locally built object)"
						}
					}
				}
			}
		}
		return ""
	case *ssa.BinOp:
		if ok, _ := cx.c16KeyGlobal(x, owner, 0, map[ssa.Value]bool{}); ok {
			return "an id computed from this agent's own counter"
		}
	case *ssa.Call:
		if ok, _ := cx.c16KeyGlobal(x, owner, 0, map[ssa.Value]bool{}); ok {
			return "an id from this agent's own allocator (" + kit.CalleeOf(x).String() + ")"
		}
	}
	return ""
}

// c39ForeignKeyIP is c39ForeignKey that follows a key parameter to the arguments at the static
// call sites of the function (two levels), judging each argument where the call is made.
func c39ForeignKeyIP(p *kit.Program, fn *ssa.Function, key ssa.Value, at ssa.Instruction, isEntryBase func(ssa.Value) bool, depth int) string {
	if w := c39ForeignKey(fn, key, at, isEntryBase); w != "" {
		return w
	}
	if depth >= 2 {
		return ""
	}
	for _, leaf := range kit.PhiLeaves(c16Strip(key)) {
		i := c39ParamIndex(fn, c16Strip(leaf))
		if i < 0 {
			continue
		}
		for _, site := range p.StaticCallers(fn) {
			if i < len(site.Common().Args) {
				if w := c39ForeignKeyIP(p, site.Parent(), site.Common().Args[i], site, isEntryBase, depth+1); w != "" {
					return w
				}
			}
		}
	}
	return ""
}

func c39IsSendToPeer(c ssa.CallInstruction) bool {
	cal := kit.CalleeOf(c)
	return cal.Name == "SendToPeer" && cal.Pkg == kit.PkgPath("internal/peer")
}

func runC39(p *kit.Program, r *kit.Report) {
	r.Rule("C39.R1", "forward table key: the table recording forwarded control requests carries a peer identity in its key or is keyed at every insertion by an id the transit allocates itself (never the bare id chosen by the requester)")
	r.Rule("C39.R2", "unambiguous response demultiplexing: locally pending and forwarded requests draw their ids from the same allocator of the agent; a relayed response is sent only to the source peer recorded in the matched forwarded entry; that entry records the peer the request was received from")
	r.Rule("C39.R4", "id translation discipline: each control table is looked up with the id as it arrived on the wire (never a value taken from a stored entry); the relayed response is re-encoded with the requester's id restored from the matched forwarded entry; the forwarded request carries the transit-allocated id under which the entry was registered, and the entry stores the requester's id")
	r.Rule("C39.R3", "local request ids come from one agent-global counter; the counter is advanced, read and the pending entry registered inside one write-lock region, and the counter is never written outside that lock")
	cx := c16NewCtx(p)
	var fwd, pend *c16Eval
	for _, ev := range c16ResolveTablesQuiet(p) {
		if ev.T.Prop != "C39" {
			continue
		}
		switch ev.T.Class {
		case c16Global:
			pend = ev
		default:
			fwd = ev
		}
	}
	if !r.Require(fwd != nil && pend != nil, "anchor-unresolved: Agent.forwardedControl / Agent.pendingControl not among the classified tables") {
		return
	}
	// ---- R1
	cx.allocs = map[*types.Var]bool{}
	cx.c16Evaluate(fwd)
	fwdAllocs := cx.allocs
	r.Count("forwarded_insert_sites", fwd.Inserts)
	r.Require(fwd.Inserts >= 1, "floor: no insertion into %s found", fwd.Name)
	r.Decide(fwd.R1OK, "C39.R1", fwd.Name, fwd.Pos, fwd.R1Detail,
		fwd.R1Detail+": two agents whose requests carry the same id through this transit share one slot — the second insertion overwrites the first and both responses are routed to the second requester")
	// ---- R3 (key provenance part)
	cx.allocs = map[*types.Var]bool{}
	cx.c16EvalR1(pend)
	pendAllocs := cx.allocs
	cx.allocs = nil
	r.Count("pending_insert_sites", pend.Inserts)
	r.Require(pend.Inserts >= 1, "floor: no insertion into %s found", pend.Name)
	r.Decide(pend.R1OK, "C39.R3", pend.Name, pend.Pos, pend.R1Detail,
		pend.R1Detail+": two local requests can be registered under one id, the response to the first is handed to the second caller")

	// ---- R2a: id spaces of the two tables
	demux := map[*ssa.Function]bool{}
	fwdLook := map[*ssa.Function][]kit.FieldAccess{}
	for _, acc := range p.FieldAccessesOfKind(fwd.Field, kit.MapLookup) {
		fwdLook[acc.Fn] = append(fwdLook[acc.Fn], acc)
	}
	for _, acc := range p.FieldAccessesOfKind(pend.Field, kit.MapLookup) {
		if len(fwdLook[acc.Fn]) > 0 {
			demux[acc.Fn] = true
		}
	}
	var demuxFns []*ssa.Function
	for fn := range demux {
		demuxFns = append(demuxFns, fn)
	}
	sort.Slice(demuxFns, func(i, j int) bool { return kit.FuncName(demuxFns[i]) < kit.FuncName(demuxFns[j]) })
	r.Count("response_demux_functions", len(demuxFns))
	idSpaceKeys := []string{}
	for _, fn := range demuxFns {
		idSpaceKeys = append(idSpaceKeys, kit.FuncName(fn)+" id spaces")
	}
	if len(idSpaceKeys) == 0 {
		idSpaceKeys = []string{"control tables id spaces"} // lookups split over several functions
	}
	names := func(m map[*types.Var]bool) string {
		var s []string
		for f := range m {
			s = append(s, f.Name())
		}
		sort.Strings(s)
		return "{" + strings.Join(s, ",") + "}"
	}
	for _, idKey := range idSpaceKeys {
		same := fwd.R1OK && pend.R1OK && len(fwdAllocs) > 0 && len(pendAllocs) > 0
		if same {
			for f := range fwdAllocs {
				if !pendAllocs[f] {
					same = false
				}
			}
			for f := range pendAllocs {
				if !fwdAllocs[f] {
					same = false
				}
			}
		}
		ok := same || fwd.Composite
		r.Decide(ok, "C39.R2", idKey, fwd.Pos,
			"pending and forwarded ids are drawn from the same allocator "+names(pendAllocs)+": an id is in at most one table",
			fmt.Sprintf("the response id is looked up in %s (allocator %s) and in %s (%s): the id spaces overlap, so a response meant for a relayed requester is swallowed by a local waiter with the same id (or delivered to both)",
				pend.Name, names(pendAllocs), fwd.Name, func() string {
					if fwd.R1OK {
						return "allocator " + names(fwdAllocs)
					}
					return "requester-chosen ids"
				}()))
	}

	// ---- R2b: a relayed response goes to the recorded source peer of the matched entry.
	// Relayed response = a ControlResponse handed to the peer manager for somebody other than the
	// peer whose frame is being handled (wherever the code that does it lives: the
	// demultiplexer itself, a helper it calls, another file).
	elemFwd := c16EntryType(fwd)
	sends := c39Sends(p)
	fromFwdEntry := func(fn *ssa.Function, v ssa.Value, want func(types.Type) bool) bool {
		var walk func(x ssa.Value, seen map[ssa.Value]bool) bool
		walk = func(x ssa.Value, seen map[ssa.Value]bool) bool {
			x = c16Strip(x)
			if x == nil || seen[x] {
				return true
			}
			seen[x] = true
			switch y := x.(type) {
			case *ssa.Phi:
				for _, e := range y.Edges {
					if !walk(e, seen) {
						return false
					}
				}
				return len(y.Edges) > 0
			case *ssa.UnOp:
				if a, isA := y.X.(*ssa.Alloc); isA {
					n := 0
					for _, rf := range *a.Referrers() {
						if st, isSt := rf.(*ssa.Store); isSt && st.Addr == a {
							n++
							if !walk(st.Val, seen) {
								return false
							}
						}
					}
					return n > 0
				}
				f, base := kit.LoadedField(y)
				return f != nil && base != nil && want(f.Type()) && types.Identical(base.Type(), elemFwd)
			}
			return false
		}
		return walk(v, map[ssa.Value]bool{})
	}
	isU64 := func(t types.Type) bool {
		b, ok := t.Underlying().(*types.Basic)
		return ok && b.Kind() == types.Uint64
	}
	var relayed []c39Send
	for _, sd := range sends {
		if sd.obj != nil && c39IsNamedPtr(sd.obj.Type(), "internal/protocol", "ControlResponse") && !cx.peerValue(sd.peer) {
			relayed = append(relayed, sd)
		}
	}
	r.Count("relayed_response_sends", len(relayed))
	if len(relayed) == 0 {
		r.Violation("C39.R2", "relayed responses forwards to the recorded source", fwd.Pos, "no code hands a ControlResponse to a peer other than the sender of the frame being handled: requesters behind this transit never get an answer")
	}
	{
		ord := map[string]int{}
		for _, sd := range relayed {
			key := kit.FuncName(sd.fn) + " forwards to the recorded source"
			if ord[key]++; ord[key] > 1 {
				key = fmt.Sprintf("%s#%d", key, ord[key])
			}
			r.Decide(fromFwdEntry(sd.fn, sd.peer, c16IsAgentID), "C39.R2", key, p.Pos(sd.call.Pos()),
				"the relayed response is addressed to the AgentID recorded in a "+fwd.Name+" entry",
				"the send at "+p.Pos(sd.call.Pos())+" is not addressed to the source peer recorded in the matched forwarded entry: the response reaches an agent that did not ask")
		}
	}

	// ---- R2c: the forwarded entry records the peer the request came from
	for _, acc := range p.FieldAccessesOfKind(fwd.Field, kit.MapInsert) {
		key := kit.FuncName(acc.Fn) + " records the requesting peer"
		ok, n := true, 0
		if a, isAlloc := acc.Val.(*ssa.Alloc); isAlloc {
			for _, rf := range *a.Referrers() {
				fa, isFA := rf.(*ssa.FieldAddr)
				if !isFA {
					continue
				}
				f := kit.FieldOfAddr(fa)
				if f == nil || !c16IsAgentID(f.Type()) {
					continue
				}
				for _, rf2 := range *fa.Referrers() {
					if st, isSt := rf2.(*ssa.Store); isSt && st.Addr == fa {
						n++
						if !cx.peerValue(st.Val) {
							ok = false
						}
					}
				}
			}
		} else {
			ok = false
		}
		r.Decide(ok && n > 0, "C39.R2", key, p.Pos(acc.Instr.Pos()),
			"the entry's AgentID field is set to the id of the peer that delivered the request",
			"the forwarded entry does not record the peer the request was received from: the response is routed to another agent")
	}

	// ---- R4a: every lookup of a control table uses the id as received
	entryTypes := []types.Type{c16EntryType(fwd), c16EntryType(pend)}
	isEntryBase := func(v ssa.Value) bool {
		for _, t := range entryTypes {
			if types.Identical(v.Type(), t) {
				return true
			}
		}
		return false
	}
	// frame-driven functions plus the helpers they call (claimControlResponse(id)), two levels
	onBehalfOfFrame := map[*ssa.Function]bool{}
	for fn, fd := range cx.frameDriven {
		if fd {
			onBehalfOfFrame[fn] = true
		}
	}
	for round := 0; round < 2; round++ {
		for fn := range onBehalfOfFrame {
			for _, c := range kit.Calls(fn) {
				if cal := kit.CalleeOf(c); cal.Static != nil && cal.Static.Blocks != nil && kit.FuncPkgPath(cal.Static) == kit.PkgPath("internal/agent") {
					for _, g := range kit.WithClosures(cal.Static) {
						onBehalfOfFrame[g] = true
					}
				}
			}
		}
	}
	for _, ev := range []*c16Eval{pend, fwd} {
		ord := map[string]int{}
		for _, acc := range p.FieldAccessesOfKind(ev.Field, kit.MapLookup) {
			if !onBehalfOfFrame[acc.Fn] {
				continue // local bookkeeping (timeouts, getters) uses ids the agent issued itself
			}
			bad := c39ForeignKeyIP(p, acc.Fn, acc.Key, acc.Instr, isEntryBase, 0)
			r.Decide(bad == "", "C39.R4", kit.FuncName(acc.Fn)+" "+c17Ord(ord, "lookup "+ev.Field.Name())+" uses the wire id", p.Pos(acc.Instr.Pos()),
				"the lookup key is the id decoded from the frame, not redefined from a stored entry before the lookup",
				"the key of this lookup can be "+bad+": an id from the requester's numbering space is compared with ids this agent allocated, so a relayed response is taken for (or hides) an unrelated request of this agent")
		}
	}

	// ---- R4b: the relayed response carries the requester's id, restored from the matched entry
	{
		ord := map[string]int{}
		for _, sd := range relayed {
			key := kit.FuncName(sd.fn) + " " + c17Ord(ord, "relayed response") + " carries the requester's id"
			ok := false
			kit.Instrs(sd.fn, func(in ssa.Instruction) {
				st, isSt := in.(*ssa.Store)
				if !isSt {
					return
				}
				fa, isFA := st.Addr.(*ssa.FieldAddr)
				if !isFA || fa.X != sd.obj || !isU64(kit.FieldOfAddr(fa).Type()) {
					return
				}
				if !fromFwdEntry(sd.fn, st.Val, isU64) {
					return
				}
				if kit.Precedes(st, sd.enc) {
					ok = true
					return
				}
				// restored in one "if hasForwarded" block, encoded in a later one on the same condition
				if kit.CanReach(st, sd.enc) {
					for _, gs := range kit.GuardsOf(st) {
						for _, ge := range kit.GuardsOf(sd.enc) {
							if gs.Cond == ge.Cond && gs.Polarity == ge.Polarity {
								ok = true
							}
						}
					}
				}
			})
			r.Decide(ok, "C39.R4", key, p.Pos(sd.call.Pos()),
				"before encoding, the response's id field is set from the id stored in the matched forwarded entry",
				"the response is re-encoded without restoring the id the requester chose (no store of the matched entry's id into the encoded object precedes Encode on the forwarding path): the requester receives an id from this transit's numbering space, which matches none — or another — of its pending requests")
		}
	}

	// ---- R4c: the forwarded request carries the allocated id; the entry keeps the requester's id
	for _, acc := range p.FieldAccessesOfKind(fwd.Field, kit.MapInsert) {
		fn := acc.Fn
		if !fwd.R1OK {
			continue // no translation exists; reported by R1
		}
		// entry stores the requester's id, not the allocated one
		if a, isAlloc := acc.Val.(*ssa.Alloc); isAlloc {
			okEntry, n := true, 0
			for _, rf := range *a.Referrers() {
				fa, isFA := rf.(*ssa.FieldAddr)
				if !isFA {
					continue
				}
				if b, isB := kit.FieldOfAddr(fa).Type().Underlying().(*types.Basic); !isB || b.Kind() != types.Uint64 {
					continue
				}
				for _, rf2 := range *fa.Referrers() {
					if st, isSt := rf2.(*ssa.Store); isSt && st.Addr == fa {
						n++
						if c16SameKey(st.Val, acc.Key) {
							okEntry = false
						}
					}
				}
			}
			r.Decide(okEntry && n > 0, "C39.R4", kit.FuncName(fn)+" entry keeps the requester's id", p.Pos(acc.Instr.Pos()),
				"the forwarded entry stores an id different from the key it is registered under (the requester's id)",
				"the forwarded entry does not keep the requester's id (it stores the transit-allocated key or nothing): the response cannot be handed back under the id the requester is waiting for")
		}
		// the request sent on carries the allocated key
		ord := map[string]int{}
		for _, sd := range sends {
			c := sd.call
			if sd.fn != fn || cx.peerValue(sd.peer) || !kit.Precedes(acc.Instr, c) {
				continue
			}
			obj := sd.obj
			if obj == nil || obj.Referrers() == nil {
				continue
			}
			carries, n := false, 0
			for _, rf := range *obj.Referrers() {
				fa, isFA := rf.(*ssa.FieldAddr)
				if !isFA {
					continue
				}
				if b, isB := kit.FieldOfAddr(fa).Type().Underlying().(*types.Basic); !isB || b.Kind() != types.Uint64 {
					continue
				}
				for _, rf2 := range *fa.Referrers() {
					if st, isSt := rf2.(*ssa.Store); isSt && st.Addr == fa {
						n++
						if c16SameKey(st.Val, acc.Key) {
							carries = true
						}
					}
				}
			}
			if n == 0 {
				continue
			}
			r.Decide(carries, "C39.R4", kit.FuncName(fn)+" "+c17Ord(ord, "forwarded request")+" carries the allocated id", p.Pos(c.Pos()),
				"the request sent to the next hop carries the id under which the forwarded entry was registered",
				"the request is sent on under an id other than the key of the forwarded entry (the requester's own id): the response comes back under a number this transit never registered, or one that belongs to another requester")
		}
	}

	// ---- R4d: a response sent back to the peer whose frame is being handled carries an id that
	// peer issued — never one drawn from this agent's own allocator
	{
		ord := map[string]int{}
		n := 0
		{
			for _, sd := range sends {
				fn, obj := sd.fn, sd.obj
				if !cx.peerValue(sd.peer) {
					continue
				}
				if obj == nil || !c39IsNamedPtr(obj.Type(), "internal/protocol", "ControlResponse") || obj.Referrers() == nil {
					continue
				}
				for _, rf := range *obj.Referrers() {
					fa, isFA := rf.(*ssa.FieldAddr)
					if !isFA {
						continue
					}
					if b, isB := kit.FieldOfAddr(fa).Type().Underlying().(*types.Basic); !isB || b.Kind() != types.Uint64 {
						continue
					}
					for _, rf2 := range *fa.Referrers() {
						st, isSt := rf2.(*ssa.Store)
						if !isSt || st.Addr != fa {
							continue
						}
						n++
						root := c39AllocatorRoot(cx, pend.Owner, st.Val, 0, map[ssa.Value]bool{})
						r.Decide(root == "", "C39.R4", kit.FuncName(fn)+" "+c17Ord(ord, "response to the sending peer")+" carries that peer's id", p.Pos(st.Pos()),
							"the id of the response does not come from this agent's own allocator on any path (it is the received request's id or a stored original)",
							"the response sent back to the peer the request came from can carry "+root+": that peer receives a number from this transit's id space, which matches none — or another — of the requests it has outstanding")
					}
				}
			}
		}
		r.Count("responses_to_sending_peer", n)
	}

	// ---- R3: allocation, read and registration in one write-lock region
	for _, acc := range p.FieldAccessesOfKind(pend.Field, kit.MapInsert) {
		fn := acc.Fn
		key := kit.FuncName(fn) + " id allocation"
		pos := p.Pos(acc.Instr.Pos())
		if !pend.R1OK {
			continue // reported above
		}
		li := kit.Locks(fn)
		detail, ok := "", true
		var counter *types.Var
		for f := range pendAllocs {
			counter = f
		}
		if len(pendAllocs) != 1 {
			ok, detail = false, "ids are drawn from "+names(pendAllocs)+", not from one counter"
		}
		var stores, loads []ssa.Instruction
		viaHelper := false
		if ok {
			kit.Instrs(fn, func(in ssa.Instruction) {
				switch x := in.(type) {
				case *ssa.Store:
					if c16FieldOfOwner(x.Addr, pend.Owner) == counter {
						stores = append(stores, in)
					}
				case *ssa.UnOp:
					if f, _ := kit.LoadedField(x); f == counter {
						loads = append(loads, in)
					}
				case ssa.CallInstruction:
					if recv, isAdd := c16IsAtomicAdd(x); isAdd && c16FieldOfOwner(recv, pend.Owner) == counter {
						stores = append(stores, in) // atomic allocator: the Add is advance and read at once
					}
				}
			})
			if len(stores) == 0 {
				// the counter is advanced by an allocator helper (allocControlIDLocked) called here:
				// the call stands for the advance and must share the lock region with the registration
				for _, c := range kit.Calls(fn) {
					cal := kit.CalleeOf(c)
					if cal.Static == nil || cal.Static.Blocks == nil {
						continue
					}
					advances := false
					kit.Instrs(cal.Static, func(in ssa.Instruction) {
						if st, isSt := in.(*ssa.Store); isSt && c16FieldOfOwner(st.Addr, pend.Owner) == counter {
							advances = true
						}
					})
					if advances {
						stores = append(stores, c)
						viaHelper = true
					}
				}
			}
			if len(stores) == 0 {
				ok, detail = false, "the function registering the pending request does not advance the id counter (neither itself nor through a helper it calls)"
			}
		}
		if ok {
			if _, isCall := stores[0].(ssa.CallInstruction); !isCall || viaHelper {
				for _, in := range append(append([]ssa.Instruction{}, stores...), loads...) {
					if _, same := c17WriteRegion(li, in, acc.Instr); !same {
						ok, detail = false, "the counter access at "+p.Pos(in.Pos())+" and the registration of the pending entry are not in one write-lock region: two concurrent requests can obtain the same id"
					}
				}
			}
		}
		if ok {
			// no unlocked writer of the counter anywhere
			for _, w := range p.FieldAccessesOfKind(counter, kit.FieldStore) {
				if k, isc := kit.ConstInt(w.Val); isc && k == 0 {
					continue
				}
				wli := kit.Locks(w.Fn)
				if len(wli.AnyHeldAt(w.Instr)) > 0 {
					continue
				}
				// a "…Locked" helper: no lock operation of its own, every static call site holds a lock
				held := len(wli.Ops) == 0 && len(p.StaticCallers(w.Fn)) > 0
				for _, site := range p.StaticCallers(w.Fn) {
					if len(kit.Locks(site.Parent()).AnyHeldAt(site)) == 0 {
						held = false
					}
				}
				if !held {
					ok, detail = false, "the id counter is written without a lock in "+kit.FuncName(w.Fn)
				}
			}
		}
		r.Decide(ok, "C39.R3", key, pos,
			"counter "+names(pendAllocs)+" is advanced, read and the entry registered in one write-lock region",
			detail+"; the second registration overwrites the first and the first caller receives nothing (or the other target's answer)")
	}
}
