package rules

import (
	"fmt"
	"go/token"
	"go/types"
	"sort"

	"golang.org/x/tools/go/ssa"

	"mmverify/kit"
)

func init() {
	register(&Check{
		ID: "C38", Level: "proof",
		Technique: "closed structural argument over SSA: program-wide write-set of the counter, constant stride/start parity, single atomic read-modify-write, role provenance through every transport",
		Note:      "Proof by induction over allocations, every premise decided on the whole program's SSA: the counter is written only by the constructor (start s, odd for the dialer, even and non-zero otherwise) and by one atomic Add(k) with k a non-zero even constant, the allocator is never copied and belongs to exactly one connection object for life, Next returns the Add result minus 0 or k, the role handed to the constructor is the transport connection's IsDialer(), which every transport sets true exactly on its dial path and false on its accept path. Trusted: Go type checker, go/ssa lowering, linearizability of sync/atomic.Uint64.Add. Not covered: wrap-around after 2^63 allocations.",
		Explain: "Starting from peer.Connection.NextStreamID (where the agent obtains every identifier) the check follows the returned value down to the single 64-bit atomic counter it comes from; if it does not come, unchanged and on every path, from one atomic read-modify-write on one counter owned by the connection, that is reported as the violation. It then proves that the allocator hands out pairwise distinct, non-zero identifiers of the parity of its role: the counter field's program-wide access set is {constructor Store(start), Next's Add(k), Loads}; k is a non-zero even constant and start is odd on the isDialer edge and even non-zero on the other; Next performs exactly one atomic read-modify-write and returns its result minus 0 or k; the allocator is never copied by value; every allocator is created for, stored once into, and used only through one connection object, with the role taken from PeerConn.IsDialer(); and every PeerConn implementation's role flag is constant true exactly where a Transport.Dial constructs it and false where a Listener constructs it. " +
			"Not covered: identifier wrap-around after 2^63 allocations; that every frame's stream id was obtained from NextStreamID.",
		Run: runC38,
		SelfTests: []SelfTest{
			{Name: "stride 1", ExpectRule: "C38.R2", ExpectKey: "stride", Edits: []Edit{
				{File: "internal/transport/transport.go", Old: "return a.next.Add(2) - 2", New: "return a.next.Add(1) - 1"},
			}},
			{Name: "both roles start at 1", ExpectRule: "C38.R2", ExpectKey: "start", Edits: []Edit{
				{File: "internal/transport/transport.go", Old: "start := uint64(2) // even for listener", New: "start := uint64(1)"},
			}},
			{Name: "listener starts at 0", ExpectRule: "C38.R2", ExpectKey: "start", Edits: []Edit{
				{File: "internal/transport/transport.go", Old: "start := uint64(2) // even for listener", New: "start := uint64(0)"},
			}},
			{Name: "returned value off by one from the stride", ExpectRule: "C38.R3", Edits: []Edit{
				{File: "internal/transport/transport.go", Old: "return a.next.Add(2) - 2", New: "return a.next.Add(2) - 1"},
			}},
			{Name: "non-atomic load then store", ExpectRule: "C38.R3", Edits: []Edit{
				{File: "internal/transport/transport.go", Old: "return a.next.Add(2) - 2", New: "v := a.next.Load()\n\ta.next.Store(v + 2)\n\treturn v"},
			}},
			{Name: "value returned is a second load, not the Add result", ExpectRule: "C38.R3", Edits: []Edit{
				{File: "internal/transport/transport.go", Old: "return a.next.Add(2) - 2", New: "a.next.Add(2)\n\treturn a.next.Load() - 2"},
			}},
			{Name: "allocator copied by a value receiver", ExpectRule: "C38.R1", ExpectKey: "copied", Edits: []Edit{
				{File: "internal/transport/transport.go", Old: "func (a *StreamIDAllocator) IsDialer() bool {", New: "func (a StreamIDAllocator) IsDialer() bool {"},
			}},
			{Name: "counter reset by another method", ExpectRule: "C38.R1", Edits: []Edit{
				{File: "internal/transport/transport.go", Old: "func (a *StreamIDAllocator) IsDialer() bool {\n", New: "func (a *StreamIDAllocator) IsDialer() bool {\n\ta.next.CompareAndSwap(1<<62, 1)\n"},
			}},
			{Name: "role negated when the allocator is created", ExpectRule: "C38.R4", Edits: []Edit{
				{File: "internal/peer/connection.go", Old: "transport.NewStreamIDAllocator(conn.IsDialer())", New: "transport.NewStreamIDAllocator(!conn.IsDialer())"},
			}},
			{Name: "websocket accept path marks itself dialer", ExpectRule: "C38.R4", Edits: []Edit{
				{File: "internal/transport/ws.go", Old: "\tpeerConn := &WebSocketPeerConn{\n\t\tconn:     conn,\n\t\tisDialer: false,", New: "\tpeerConn := &WebSocketPeerConn{\n\t\tconn:     conn,\n\t\tisDialer: true,"},
			}},
			{Name: "quic dial path forgets the dialer flag", ExpectRule: "C38.R4", Edits: []Edit{
				{File: "internal/transport/quic.go", Old: "\t\tconn:     conn,\n\t\tisDialer: true,", New: "\t\tconn:     conn,"},
			}},
			{Name: "fresh allocator per call", ExpectRule: "C38.R5", Edits: []Edit{
				{File: "internal/peer/connection.go", Old: "\treturn c.streamAlloc.Next()", New: "\treturn transport.NewStreamIDAllocator(c.isDialer).Next()"},
			}},
			{Name: "allocator replaced on state change", ExpectRule: "C38.R5", Edits: []Edit{
				{File: "internal/peer/connection.go", Old: "\tc.state.Store(int32(state))\n}", New: "\tc.state.Store(int32(state))\n\tc.streamAlloc = transport.NewStreamIDAllocator(c.conn.IsDialer())\n}"},
			}},
			{Name: "lazily seeded counter in the allocator (check-then-Store races with the first allocations)", ExpectRule: "C38.R1", ExpectKey: "Store", Edits: []Edit{
				{File: "internal/transport/transport.go", Old: "return a.next.Add(2) - 2", New: "if a.next.Load() == 0 {\n\t\ta.next.Store(1)\n\t}\n\treturn a.next.Add(2) - 2"},
			}},
			{Name: "NextStreamID switches to its own lazily seeded counter instead of the allocator", ExpectRule: "C38.R1", ExpectKey: "NextStreamID Store", Edits: []Edit{
				{File: "internal/peer/connection.go", Old: "\treturn c.streamAlloc.Next()", New: "\tif c.nextStreamID.Load() == 0 {\n\t\tc.nextStreamID.Store(1)\n\t}\n\treturn c.nextStreamID.Add(2) - 2"},
			}},
			{Name: "NextStreamID uses a never-initialised counter of its own", ExpectRule: "C38.R2", ExpectKey: "start value", Edits: []Edit{
				{File: "internal/peer/connection.go", Old: "\treturn c.streamAlloc.Next()", New: "\treturn c.nextStreamID.Add(2)"},
			}},
			{Name: "32-bit counter (wraps on a long-lived connection)", ExpectRule: "C38.R1", ExpectKey: "counter width", Edits: []Edit{
				{File: "internal/transport/transport.go", Old: "\tnext     atomic.Uint64\n", New: "\tnext     atomic.Uint32\n"},
				{File: "internal/transport/transport.go", Old: "a.next.Store(start)", New: "a.next.Store(uint32(start))"},
				{File: "internal/transport/transport.go", Old: "return a.next.Add(2) - 2", New: "return uint64(a.next.Add(2) - 2)"},
			}},
			{Name: "32-bit sequence number scaled into the identifier", ExpectRule: "C38.R1", ExpectKey: "counter width", Edits: []Edit{
				{File: "internal/transport/transport.go", Old: "\tnext     atomic.Uint64\n", New: "\tnext     atomic.Uint32\n\tfirst    uint64\n"},
				{File: "internal/transport/transport.go", Old: "\ta.next.Store(start)\n", New: "\ta.first = start\n"},
				{File: "internal/transport/transport.go", Old: "return a.next.Add(2) - 2", New: "return a.first + 2*uint64(a.next.Add(1)-1)"},
			}},
			{Name: "identifier taken from the clock instead of the allocator", ExpectRule: "C38.R5", ExpectKey: "identifier source", Edits: []Edit{
				{File: "internal/peer/connection.go", Old: "\treturn c.streamAlloc.Next()", New: "\treturn uint64(time.Now().UnixNano()) | 1"},
			}},
			{Name: "fast path returns a constant identifier when not connected", ExpectRule: "C38.R5", ExpectKey: "identifier source", Edits: []Edit{
				{File: "internal/peer/connection.go", Old: "\treturn c.streamAlloc.Next()", New: "\tif c.State() != StateConnected {\n\t\treturn 0\n\t}\n\treturn c.streamAlloc.Next()"},
			}},
			{Name: "allocator result folded into 32 bits on the way out", ExpectRule: "C38.R5", ExpectKey: "identifier source", Edits: []Edit{
				{File: "internal/peer/connection.go", Old: "\treturn c.streamAlloc.Next()", New: "\treturn c.streamAlloc.Next() & 0xffffffff"},
			}},
			{Name: "CompareAndSwap result ignored: the loaded value is returned even when the swap lost", ExpectRule: "C38.R1", ExpectKey: "CompareAndSwap", Edits: []Edit{
				{File: "internal/transport/transport.go", Old: "return a.next.Add(2) - 2", New: "id := a.next.Load()\n\ta.next.CompareAndSwap(id, id+2)\n\treturn id"},
			}},
			{Name: "CompareAndSwap loop advancing by an odd step", ExpectRule: "C38.R2", ExpectKey: "stride", Edits: []Edit{
				{File: "internal/transport/transport.go", Old: "return a.next.Add(2) - 2", New: "for {\n\t\tid := a.next.Load()\n\t\tif a.next.CompareAndSwap(id, id+1) {\n\t\t\treturn id\n\t\t}\n\t}"},
			}},
			{Name: "rewrite: lock-free CompareAndSwap retry loop instead of Add", Edits: []Edit{
				{File: "internal/transport/transport.go", Old: "return a.next.Add(2) - 2", New: "for {\n\t\tid := a.next.Load()\n\t\tif !a.next.CompareAndSwap(id, id+2) {\n\t\t\tcontinue\n\t\t}\n\t\treturn id\n\t}"},
			}},
			{Name: "rewrite: start value from a switch helper with named constants; Add result in a local", Edits: []Edit{
				{File: "internal/transport/transport.go", Old: "\tstart := uint64(2) // even for listener\n\tif isDialer {\n\t\tstart = 1 // odd for dialer\n\t}", New: "\tstart := firstID(isDialer)"},
				{File: "internal/transport/transport.go", Old: "// NewStreamIDAllocator creates a new allocator.", New: "const (\n\tdialerFirst   uint64 = 1\n\tlistenerFirst uint64 = 2\n\tidStride      uint64 = 2\n)\n\nfunc firstID(dialer bool) uint64 {\n\tswitch dialer {\n\tcase true:\n\t\treturn dialerFirst\n\tdefault:\n\t\treturn listenerFirst\n\t}\n}\n\n// NewStreamIDAllocator creates a new allocator."},
				{File: "internal/transport/transport.go", Old: "return a.next.Add(2) - 2", New: "advanced := a.next.Add(idStride)\n\treturn advanced - idStride"},
			}},
			{Name: "rewrite: constructor with new(), inverted role test and early return; allocator made by a wrapper after the literal", Edits: []Edit{
				{File: "internal/transport/transport.go", Old: "\tstart := uint64(2) // even for listener\n\tif isDialer {\n\t\tstart = 1 // odd for dialer\n\t}\n\ta := &StreamIDAllocator{\n\t\tisDialer: isDialer,\n\t}\n\ta.next.Store(start)\n\treturn a", New: "\ta := new(StreamIDAllocator)\n\ta.isDialer = isDialer\n\tif !isDialer {\n\t\ta.next.Store(2)\n\t\treturn a\n\t}\n\ta.next.Store(1)\n\treturn a"},
				{File: "internal/peer/connection.go", Old: "\t\tstreamAlloc:  transport.NewStreamIDAllocator(conn.IsDialer()),\n", New: ""},
				{File: "internal/peer/connection.go", Old: "\tc.state.Store(int32(StateHandshaking))\n", New: "\tc.streamAlloc = newStreamAllocator(conn)\n\tc.state.Store(int32(StateHandshaking))\n"},
				{File: "internal/peer/connection.go", Old: "// NextStreamID returns the next available stream ID.", New: "func newStreamAllocator(conn transport.PeerConn) *transport.StreamIDAllocator {\n\treturn transport.NewStreamIDAllocator(conn.IsDialer())\n}\n\n// NextStreamID returns the next available stream ID."},
			}},
			{Name: "rewrite: result through locals, switch on the role, role in a local, zero-value accept flag", Edits: []Edit{
				{File: "internal/transport/transport.go", Old: "return a.next.Add(2) - 2", New: "const stride = 2\n\tafter := a.next.Add(stride)\n\tid := after - stride\n\treturn id"},
				{File: "internal/transport/transport.go", Old: "\tstart := uint64(2) // even for listener\n\tif isDialer {\n\t\tstart = 1 // odd for dialer\n\t}", New: "\tvar start uint64\n\tswitch isDialer {\n\tcase true:\n\t\tstart = 1\n\tdefault:\n\t\tstart = 2\n\t}"},
				{File: "internal/peer/connection.go", Old: "\tc := &Connection{\n\t\tLocalID:      cfg.LocalID,\n\t\tconn:         conn,\n\t\tisDialer:     conn.IsDialer(),", New: "\tdialer := conn.IsDialer()\n\tc := &Connection{\n\t\tLocalID:      cfg.LocalID,\n\t\tconn:         conn,\n\t\tisDialer:     dialer,"},
				{File: "internal/peer/connection.go", Old: "transport.NewStreamIDAllocator(conn.IsDialer())", New: "transport.NewStreamIDAllocator(dialer)"},
				{File: "internal/transport/quic.go", Old: "\t\tconn:     conn,\n\t\tisDialer: false,", New: "\t\tconn: conn,"},
			}},
			{Name: "rewrite: post-increment value returned, inverted role test", Edits: []Edit{
				{File: "internal/transport/transport.go", Old: "return a.next.Add(2) - 2", New: "return a.next.Add(2)"},
				{File: "internal/transport/transport.go", Old: "\tstart := uint64(2) // even for listener\n\tif isDialer {\n\t\tstart = 1 // odd for dialer\n\t}", New: "\tstart := uint64(1)\n\tif !isDialer {\n\t\tstart = 2\n\t}"},
			}},
		},
	})
}

type c38Ctx struct {
	p        *kit.Program
	r        *kit.Report
	entry    *ssa.Function // peer.Connection.NextStreamID: where the agent obtains identifiers
	chain    []*types.Var  // owner fields followed from the connection to the allocator (may be empty)
	alloc    *types.Named  // the type that holds the counter
	counter  *types.Var    // its atomic counter field
	ctors    []*ssa.Function
	ctorSite map[*ssa.Function][]*ssa.Call // the Store(start) call(s) per constructor
	casOld   ssa.Value                     // CAS-loop idiom: the loaded value that a successful CompareAndSwap claims
	casCall  *ssa.Call
	next     *ssa.Function
	addCall  *ssa.Call
	stride   int64
	peerConn *types.Interface
}

func c38IsAtomicUint(t types.Type) bool {
	n, ok := types.Unalias(t).(*types.Named)
	if !ok || n.Obj().Pkg() == nil || n.Obj().Pkg().Path() != "sync/atomic" {
		return false
	}
	switch n.Obj().Name() {
	case "Uint64", "Uint32", "Int64", "Int32", "Uintptr":
		return true
	}
	return false
}

func runC38(p *kit.Program, r *kit.Report) {
	r.Rule("C38.R1", "O1: the atomic counter that Connection.NextStreamID draws from is 64 bits wide and is accessed program-wide only by a constructor's Store(start) on a freshly allocated object, by the Add in the allocating method and by Loads; the object holding it is never copied by value")
	r.Rule("C38.R2", "O2: the Add stride is a non-zero even constant; the start value is an odd constant on the isDialer edge and a non-zero even constant on the other edge")
	r.Rule("C38.R3", "O3: the allocating method performs exactly one atomic read-modify-write on the counter and returns that operation's result minus 0 or minus the stride")
	r.Rule("C38.R4", "O4: every allocator is constructed with PeerConn.IsDialer() of the wrapped transport connection; every PeerConn implementation's role flag is constant, true exactly where a Transport.Dial path constructs it and false where a Listener path constructs it, and never changes afterwards")
	r.Rule("C38.R5", "O5: Connection.NextStreamID returns, unchanged and on every path, the result of one allocating method on one allocator owned by the connection (or of one atomic counter of the connection itself); every allocator is created for exactly one owner object (stored once into a field of a freshly allocated struct, never replaced) and identifiers are drawn only through that field")
	cx := &c38Ctx{p: p, r: r, ctorSite: map[*ssa.Function][]*ssa.Call{}}
	cx.peerConn = c38Iface(p.NamedType("internal/transport", "PeerConn"))
	cx.entry = p.Func("internal/peer", "Connection", "NextStreamID")
	if !r.Require(cx.entry != nil && cx.entry.Blocks != nil && len(cx.entry.Params) >= 1, "anchor-unresolved: method (*peer.Connection).NextStreamID (the agent's source of stream identifiers)") {
		return
	}
	if !cx.traceSource() {
		return // the violation says what replaced the allocator
	}
	cx.accessSet()
	if len(r.Floors) > 0 {
		return
	}
	cx.strideAndStart()
	cx.nextShape()
	cx.roles()
	cx.ownership()
}

// ---------- where identifiers come from

type c38Src struct {
	counter  *types.Var    // atomic field of the receiver operated on
	delegate *ssa.Function // allocator method called on an owner field of the receiver
	owner    *types.Var
	call     *ssa.Call
	foreign  string
}

// sourcesOf lists what the values returned by fn are computed from: atomic operations on
// fields of the receiver, calls of repository methods on fields of the receiver, other calls.
func (cx *c38Ctx) sourcesOf(fn *ssa.Function) (srcs []c38Src, consts []string) {
	recv := ssa.Value(fn.Params[0])
	seen := map[ssa.Value]bool{}
	for _, ret := range kit.Returns(fn) {
		if ret.Block() == fn.Recover || len(ret.Results) == 0 {
			continue
		}
		for _, l := range kit.PhiLeaves(kit.ReturnResult(ret, 0)) {
			if c, ok := l.(*ssa.Const); ok {
				consts = append(consts, c.String()+" at "+cx.p.Pos(ret.Pos()))
				continue
			}
			for _, src := range kit.Slice(l, kit.SliceOpts{Prog: cx.p}) {
				if src.Kind != kit.SrcCall || src.Call == nil {
					continue
				}
				call, ok := src.Call.(*ssa.Call)
				if !ok || seen[call] {
					continue
				}
				seen[call] = true
				cal := kit.CalleeOf(call)
				rv := kit.Receiver(call)
				if cal.Pkg == "sync/atomic" && rv != nil {
					if fa, ok := rv.(*ssa.FieldAddr); ok && fa.X == recv {
						srcs = append(srcs, c38Src{counter: kit.FieldOfAddr(fa), call: call})
						continue
					}
				}
				if cal.Static != nil && cal.Static.Blocks != nil && kit.IsRepoPkg(kit.FuncPkgPath(cal.Static)) && rv != nil && cal.Static.Signature.Recv() != nil {
					if f, base := kit.LoadedField(rv); f != nil && base == recv {
						srcs = append(srcs, c38Src{delegate: cal.Static, owner: f, call: call})
						continue
					}
					if fa, ok := rv.(*ssa.FieldAddr); ok && fa.X == recv {
						srcs = append(srcs, c38Src{delegate: cal.Static, owner: kit.FieldOfAddr(fa), call: call})
						continue
					}
				}
				if cal.Built == "" {
					srcs = append(srcs, c38Src{foreign: cal.String(), call: call})
				}
			}
		}
	}
	return
}

// traceSource follows Connection.NextStreamID down to the atomic counter its result comes from.
// When the chain does not end in one atomic counter of one object owned by the connection, that
// is the violation: the mechanism the property relies on has been replaced.
func (cx *c38Ctx) traceSource() bool {
	p, r := cx.p, cx.r
	fn := cx.entry
	key := kit.FuncName(cx.entry) + " identifier source"
	desc := kit.FuncName(fn)
	for depth := 0; depth < 5; depth++ {
		if len(fn.Params) == 0 || fn.Signature.Recv() == nil {
			r.Violation("C38.R5", key, p.Pos(fn.Pos()), "%s obtains identifiers from %s, which is not a method of an allocator object owned by the connection: uniqueness per connection does not follow", kit.FuncName(cx.entry), kit.FuncName(fn))
			return false
		}
		srcs, consts := cx.sourcesOf(fn)
		if len(consts) > 0 {
			r.Violation("C38.R5", key, p.Pos(fn.Pos()), "%s can return the constant %s instead of a freshly allocated identifier (fast path / fallback): two calls return the same, possibly zero, identifier", kit.FuncName(fn), consts[0])
			return false
		}
		counters := map[*types.Var]bool{}
		var delegs []c38Src
		var foreign []string
		for _, s := range srcs {
			switch {
			case s.counter != nil:
				counters[s.counter] = true
			case s.delegate != nil:
				delegs = append(delegs, s)
			default:
				foreign = append(foreign, s.foreign)
			}
		}
		switch {
		case len(counters) == 1 && len(delegs) == 0:
			for k := range counters {
				cx.counter = k
			}
			t := fn.Signature.Recv().Type()
			if ptr, ok := t.Underlying().(*types.Pointer); ok {
				t = ptr.Elem()
			}
			cx.alloc, _ = types.Unalias(t).(*types.Named)
			cx.next = fn
			if cx.alloc == nil {
				r.Floor("anchor-unresolved: receiver type of %s", kit.FuncName(fn))
				return false
			}
			r.OK("C38.R5", key, p.Pos(cx.entry.Pos()), "identifiers come from %s -> atomic counter %s.%s", desc, cx.alloc.Obj().Name(), cx.counter.Name())
			if len(foreign) > 0 {
				r.Violation("C38.R3", kit.FuncName(fn)+" identifier mixes other sources", p.Pos(fn.Pos()), "the identifier returned by %s is also computed from %v, not only from the atomic counter: distinct counter values no longer imply distinct identifiers", kit.FuncName(fn), foreign)
			}
			return true
		case len(counters) == 0 && len(delegs) == 1 && len(foreign) == 0:
			d := delegs[0]
			// the delegating level must hand the allocator's result on unchanged
			for _, ret := range kit.Returns(fn) {
				if ret.Block() == fn.Recover || len(ret.Results) == 0 {
					continue
				}
				for _, l := range kit.PhiLeaves(kit.ReturnResult(ret, 0)) {
					if l != ssa.Value(d.call) {
						r.Violation("C38.R5", key, p.Pos(ret.Pos()), "%s does not return the result of %s unchanged: identifiers that are distinct in the allocator can coincide, change parity or become zero afterwards", kit.FuncName(fn), kit.FuncName(d.delegate))
						return false
					}
				}
			}
			cx.chain = append(cx.chain, d.owner)
			desc += " -> " + d.owner.Name() + "." + d.delegate.Name()
			fn = d.delegate
		default:
			var what []string
			for k := range counters {
				what = append(what, "atomic field "+k.Name())
			}
			for _, d := range delegs {
				what = append(what, kit.FuncName(d.delegate)+" on field "+d.owner.Name())
			}
			what = append(what, foreign...)
			sort.Strings(what)
			if len(what) == 0 {
				what = []string{"no counter at all"}
			}
			r.Violation("C38.R5", key, p.Pos(fn.Pos()), "the identifiers returned by %s do not come from one atomic read-modify-write on one counter owned by the connection but from %v: the uniqueness/parity argument (single counter, constant even stride, role-dependent start) does not apply and identifiers can repeat", kit.FuncName(fn), what)
			return false
		}
	}
	r.Violation("C38.R5", key, p.Pos(cx.entry.Pos()), "the identifier source of %s is delegated through more than 5 levels without reaching an atomic counter", kit.FuncName(cx.entry))
	return false
}

// ---------- O1

func (cx *c38Ctx) accessSet() {
	p, r := cx.p, cx.r
	type site struct {
		fn     *ssa.Function
		call   ssa.CallInstruction
		method string
	}
	var sites []site
	ord := map[string]int{}
	for _, acc := range p.FieldAccesses(cx.counter) {
		fname := kit.FuncName(acc.Fn)
		switch acc.Kind {
		case kit.FieldAddrUse:
			c, ok := acc.Instr.(ssa.CallInstruction)
			cal := kit.Callee{}
			if ok {
				cal = kit.CalleeOf(c)
			}
			if !ok || cal.Pkg != "sync/atomic" || kit.Receiver(c) == nil {
				ord[fname+" addr"]++
				r.Violation("C38.R1", fmt.Sprintf("%s counter address escapes #%d", fname, ord[fname+" addr"]), p.Pos(acc.Instr.Pos()),
					"the address of the counter is used other than as the receiver of a sync/atomic method: writes through it are outside the verified access set, identifiers can repeat")
				continue
			}
			if _, isFA := kit.Receiver(c).(*ssa.FieldAddr); !isFA {
				continue // the field address is an argument, not the receiver: reported above only if not atomic
			}
			sites = append(sites, site{acc.Fn, c, cal.Name})
		case kit.FieldStore:
			ord[fname+" store"]++
			r.Violation("C38.R1", fmt.Sprintf("%s plain store to counter #%d", fname, ord[fname+" store"]), p.Pos(acc.Instr.Pos()),
				"the counter is overwritten by a plain (non-atomic) struct-field store: identifiers already handed out can be handed out again")
		case kit.FieldLoad:
			ord[fname+" load"]++
			r.Violation("C38.R1", fmt.Sprintf("%s counter copied by value #%d", fname, ord[fname+" load"]), p.Pos(acc.Instr.Pos()),
				"the atomic counter is read as a plain value (copied): the copy evolves independently and repeats identifiers")
		}
	}
	r.Count("counter_access_sites", len(sites))
	var stores, rmws []site
	for _, s := range sites {
		fname := kit.FuncName(s.fn)
		ord[fname+" "+s.method]++
		key := fmt.Sprintf("%s %s #%d", fname, s.method, ord[fname+" "+s.method])
		pos := p.Pos(s.call.Pos())
		switch s.method {
		case "Load":
			r.OK("C38.R1", key, pos, "read-only access")
		case "Store":
			stores = append(stores, s)
			// must initialise a freshly allocated allocator
			fa := kit.Receiver(s.call).(*ssa.FieldAddr)
			_, fresh := fa.X.(*ssa.Alloc)
			r.Decide(fresh, "C38.R1", key, pos,
				"Store initialises a freshly allocated allocator (constructor)",
				"the counter of an existing allocator is overwritten by Store: identifiers already handed out are handed out again")
			if call, isCall := s.call.(*ssa.Call); fresh && isCall {
				for _, prev := range cx.ctorSite[s.fn] {
					if kit.CanReach(prev, call) || kit.CanReach(call, prev) {
						r.Violation("C38.R1", key+" second initialisation", pos, "the constructor %s stores the counter twice on one path: the start value in force is not a single role-selected constant", fname)
					}
				}
				if len(cx.ctorSite[s.fn]) == 0 {
					cx.ctors = append(cx.ctors, s.fn)
				}
				cx.ctorSite[s.fn] = append(cx.ctorSite[s.fn], call)
			}
		case "Add":
			rmws = append(rmws, s)
			isMethod := s.fn.Signature.Recv() != nil && c38SameNamed(s.fn.Signature.Recv().Type(), cx.alloc)
			fa := kit.Receiver(s.call).(*ssa.FieldAddr)
			onRecv := isMethod && len(s.fn.Params) > 0 && fa.X == ssa.Value(s.fn.Params[0])
			r.Decide(onRecv, "C38.R1", key, pos,
				"Add on the receiver's counter inside a method of the allocator",
				"the counter is advanced outside the allocator's own allocating method: the stride/parity argument does not cover this write")
			if onRecv {
				if cx.next != s.fn {
					r.Violation("C38.R1", key+" second allocating method", pos, "a second method (%s besides %s) advances the counter: its stride and result are not the verified ones", fname, kit.FuncName(cx.next))
				} else if cx.addCall == nil {
					cx.addCall, _ = s.call.(*ssa.Call)
				}
			}
		case "CompareAndSwap":
			// a load / CompareAndSwap(old, old+k) retry loop that returns old is an atomic fetch-and-add
			okCas, why := false, "it is not inside the allocating method"
			if call, isCall := s.call.(*ssa.Call); isCall && s.fn == cx.next && cx.casCall == nil {
				okCas, why = cx.casLoop(call)
			} else if s.fn == cx.next {
				why = "the allocating method contains more than one CompareAndSwap"
			}
			r.Decide(okCas, "C38.R1", key, pos,
				"CompareAndSwap(old, old+k) on a freshly loaded old value whose success is the only way to return old: an atomic fetch-and-add",
				"the counter is modified by a CompareAndSwap that is not the fetch-and-add retry idiom ("+why+"): the value sequence is no longer start + n*stride with each value handed to one caller")
		default:
			r.Violation("C38.R1", key, pos, "the counter is modified by %s, which is neither the constructor's Store nor the allocating Add: the value sequence is no longer start + n*stride", s.method)
		}
	}
	_ = stores
	_ = rmws
	tname := cx.alloc.Obj().Name() + "." + cx.counter.Name()
	// width: a counter narrower than 64 bits wraps within the life of a connection
	wide := false
	if n, ok := types.Unalias(cx.counter.Type()).(*types.Named); ok {
		wide = n.Obj().Name() == "Uint64" || n.Obj().Name() == "Int64"
	}
	r.Decide(wide, "C38.R1", tname+" counter width", p.Pos(cx.counter.Pos()),
		"the counter is a 64-bit atomic",
		fmt.Sprintf("the counter is a %s, not a 64-bit atomic: after 2^32 (or fewer) allocations on one long-lived connection it wraps and hands out identifiers that are still in use", cx.counter.Type()))
	if len(cx.ctors) == 0 {
		r.Violation("C38.R2", tname+" start value", p.Pos(cx.counter.Pos()),
			"no constructor gives the counter its role-dependent start value while the object is still private (Store on a freshly allocated object): the counter starts at its zero value for both roles or is seeded later, racing with concurrent allocations — the non-zero/parity/uniqueness induction has no base")
	}

	// never copied by value: no SSA value of the struct type itself anywhere
	nCopy := 0
	for _, fn := range p.RepoFuncs() {
		var vals []ssa.Value
		for _, prm := range fn.Params {
			vals = append(vals, prm)
		}
		kit.Instrs(fn, func(in ssa.Instruction) {
			if v, ok := in.(ssa.Value); ok {
				vals = append(vals, v)
			}
		})
		for _, v := range vals {
			if c38SameNamedValue(v.Type(), cx.alloc) {
				nCopy++
				r.Violation("C38.R1", fmt.Sprintf("%s allocator copied by value #%d", kit.FuncName(fn), nCopy), p.Pos(v.Pos()),
					"a %s (the object holding the identifier counter) is held or passed by value (%s): the copy's counter evolves independently and repeats identifiers", cx.alloc.Obj().Name(), v.Name())
			}
		}
	}
	r.OK("C38.R1", "allocator never held by value", p.Pos(cx.alloc.Obj().Pos()), "no SSA value of type %s (non-pointer) in %d functions; %d value copies", cx.alloc.Obj().Name(), len(p.RepoFuncs()), nCopy)
}

func c38SameNamed(t types.Type, n *types.Named) bool {
	if ptr, ok := t.Underlying().(*types.Pointer); ok {
		t = ptr.Elem()
	}
	return c38SameNamedValue(t, n)
}

func c38SameNamedValue(t types.Type, n *types.Named) bool {
	tn, ok := types.Unalias(t).(*types.Named)
	return ok && tn.Obj() == n.Obj()
}

// ---------- O2

// casLoop validates the lock-free fetch-and-add idiom in the allocating method:
//
//	for { old := ctr.Load(); if ctr.CompareAndSwap(old, old+k) { return old } }
//
// old must be a Load of the same counter, the new value old plus a constant, and every return
// of the method must yield old under the guard "this CompareAndSwap succeeded".
func (cx *c38Ctx) casLoop(cas *ssa.Call) (bool, string) {
	fn := cx.next
	old := kit.Arg(cas, 0)
	ld, ok := old.(*ssa.Call)
	if !ok {
		return false, "the expected value is not the result of a Load of the counter"
	}
	if cal := kit.CalleeOf(ld); cal.Pkg != "sync/atomic" || cal.Name != "Load" {
		return false, "the expected value is not the result of a Load of the counter"
	}
	if fa, ok := kit.Receiver(ld).(*ssa.FieldAddr); !ok || kit.FieldOfAddr(fa) != cx.counter || fa.X != ssa.Value(fn.Params[0]) {
		return false, "the expected value is loaded from something other than the receiver's counter"
	}
	lin := kit.LinearOf(kit.Arg(cas, 1))
	if len(lin.Terms) != 1 || lin.Coef(old) != 1 {
		return false, "the new value is not the loaded value plus a constant"
	}
	n := 0
	for _, ret := range kit.Returns(fn) {
		if ret.Block() == fn.Recover {
			continue
		}
		n++
		won := false
		for _, g := range kit.GuardsOf(ret) {
			cond, pol := g.Cond, g.Polarity
			for {
				u, isNot := cond.(*ssa.UnOp)
				if !isNot || u.Op != token.NOT {
					break
				}
				cond, pol = u.X, !pol
			}
			if cond == ssa.Value(cas) && pol {
				won = true
			}
		}
		if !won {
			return false, "a return of the method is reachable without this CompareAndSwap having succeeded"
		}
	}
	if n == 0 {
		return false, "the method never returns"
	}
	cx.casCall, cx.casOld, cx.stride = cas, old, lin.Const
	return true, ""
}

func (cx *c38Ctx) strideAndStart() {
	p, r := cx.p, cx.r
	nname := kit.FuncName(cx.next)
	if cx.addCall == nil && cx.casCall != nil {
		k := cx.stride
		r.Decide(k != 0 && k%2 == 0, "C38.R2", nname+" stride", p.Pos(cx.casCall.Pos()),
			fmt.Sprintf("stride of the CompareAndSwap loop is the constant %d (non-zero, even)", k),
			fmt.Sprintf("the CompareAndSwap loop advances the counter by %d, which is not a non-zero even constant: consecutive identifiers change parity and collide with the other end's, or repeat", k))
	}
	if cx.addCall != nil {
		k, isConst := kit.ConstInt(kit.Arg(cx.addCall, 0))
		cx.stride = k
		r.Decide(isConst && k != 0 && k%2 == 0, "C38.R2", nname+" stride", p.Pos(cx.addCall.Pos()),
			fmt.Sprintf("stride is the constant %d (non-zero, even)", k),
			fmt.Sprintf("the stride handed to Add is not a non-zero even constant (const=%v value=%d): consecutive identifiers change parity and collide with the other end's, or repeat", isConst, k))
	}
	for _, ctor := range cx.ctors {
		cx.startOf(ctor)
	}
}

// isDialerOf: v is PeerConn.IsDialer() of some transport connection value.
func (cx *c38Ctx) isDialerOf(v ssa.Value) (ssa.Value, bool) {
	c, ok := v.(*ssa.Call)
	if !ok || !c.Call.IsInvoke() || c.Call.Method.Name() != "IsDialer" || cx.peerConn == nil {
		return nil, false
	}
	it, ok := c.Call.Value.Type().Underlying().(*types.Interface)
	if !ok || !types.Identical(it, cx.peerConn) {
		return nil, false
	}
	return c.Call.Value, true
}

// roleParam: the constructor's bool parameter, if any.
func c38RoleParam(ctor *ssa.Function) ssa.Value {
	var role ssa.Value
	for _, prm := range ctor.Params {
		if b, ok := prm.Type().Underlying().(*types.Basic); ok && b.Kind() == types.Bool {
			role = prm
		}
	}
	return role
}

// c38Start is one possible start constant together with the role it is selected for.
type c38Start struct {
	val     int64
	isConst bool
	pol     bool
	known   bool
}

// startValues expands the value stored as the start into constants with the role edge that
// selects each: through phis (edge guards) and through repository helpers that map the role
// to a constant (their returns are evaluated under guards on the helper's own parameter).
func (cx *c38Ctx) startValues(v ssa.Value, at ssa.Instruction, isRole func(ssa.Value) bool, depth int) []c38Start {
	var out []c38Start
	for _, l := range kit.GuardedLeaves(v, at) {
		if c, isConst := kit.ConstInt(l.V); isConst {
			pol, known := c38RolePolarity(l.Guards, isRole)
			out = append(out, c38Start{c, true, pol, known})
			continue
		}
		call, isCall := kit.Unwrap(l.V).(*ssa.Call)
		if isCall && depth < 3 {
			cal := kit.CalleeOf(call)
			if f := cal.Static; f != nil && f.Blocks != nil && kit.IsRepoPkg(kit.FuncPkgPath(f)) {
				ridx := -1
				for i, a := range call.Call.Args {
					if isRole(a) && i < len(f.Params) {
						ridx = i
					}
				}
				if ridx >= 0 {
					prm := ssa.Value(f.Params[ridx])
					inner := func(x ssa.Value) bool { return x == prm }
					n := 0
					for _, ret := range kit.Returns(f) {
						if ret.Block() == f.Recover || len(ret.Results) == 0 {
							continue
						}
						n++
						out = append(out, cx.startValues(kit.ReturnResult(ret, 0), ret, inner, depth+1)...)
					}
					if n > 0 {
						continue
					}
				}
			}
		}
		out = append(out, c38Start{})
	}
	return out
}

func (cx *c38Ctx) startOf(ctor *ssa.Function) {
	p, r := cx.p, cx.r
	cname := kit.FuncName(ctor)
	role := c38RoleParam(ctor)
	isRole := func(v ssa.Value) bool {
		if role != nil && v == role {
			return true
		}
		_, ok := cx.isDialerOf(v)
		return ok
	}
	sawDial, sawAccept := false, false
	i := 0
	var lastPos string
	for _, site := range cx.ctorSite[ctor] {
		pos := p.Pos(site.Pos())
		lastPos = pos
		for _, sv := range cx.startValues(kit.Arg(site, 0), site, isRole, 0) {
			i++
			key := fmt.Sprintf("%s start value #%d", cname, i)
			c := sv.val
			switch {
			case !sv.isConst:
				r.Violation("C38.R2", key, pos, "the start value is not a constant on this edge: its parity per role cannot be established, the two ends can allocate the same identifier")
			case !sv.known:
				r.Violation("C38.R2", key, pos, "the start constant %d is not selected by the role (the constructor's bool parameter or PeerConn.IsDialer()): both roles can start with the same parity and allocate the same identifiers", c)
			case sv.pol:
				sawDial = true
				r.Decide(c > 0 && c%2 == 1, "C38.R2", key, pos, fmt.Sprintf("dialer start %d is odd", c),
					fmt.Sprintf("the dialer's start value %d is not odd: both ends allocate even identifiers and collide", c))
			default:
				sawAccept = true
				r.Decide(c > 0 && c%2 == 0, "C38.R2", key, pos, fmt.Sprintf("accepting side start %d is even and non-zero", c),
					fmt.Sprintf("the accepting side's start value %d is not a non-zero even number: identifier 0 is handed out or both ends allocate odd identifiers", c))
			}
		}
	}
	r.Count("start_value_leaves", i)
	r.Decide(sawDial && sawAccept, "C38.R2", cname+" start per role", lastPos,
		"a start constant is selected on each edge of the role",
		"the start value does not distinguish the two roles")
}

// c38RolePolarity finds, among the guards, a test of the role value and returns its truth.
func c38RolePolarity(gs []kit.Guard, isRole func(ssa.Value) bool) (bool, bool) {
	for _, g := range gs {
		cond, pol := g.Cond, g.Polarity
		for {
			if u, ok := cond.(*ssa.UnOp); ok && u.Op == token.NOT {
				cond, pol = u.X, !pol
				continue
			}
			if b, ok := cond.(*ssa.BinOp); ok && (b.Op == token.EQL || b.Op == token.NEQ) {
				if k, isc := kit.ConstBool(b.Y); isc {
					if (b.Op == token.EQL) != k {
						pol = !pol
					}
					cond = b.X
					continue
				}
				if k, isc := kit.ConstBool(b.X); isc {
					if (b.Op == token.EQL) != k {
						pol = !pol
					}
					cond = b.Y
					continue
				}
			}
			break
		}
		if isRole(cond) {
			return pol, true
		}
	}
	return false, false
}

// ---------- O3

func (cx *c38Ctx) nextShape() {
	p, r := cx.p, cx.r
	nname := kit.FuncName(cx.next)
	// atomic operations on the counter inside the allocating method
	nRMW, nOther := 0, 0
	for _, f := range kit.WithClosures(cx.next) {
		for _, c := range kit.Calls(f) {
			cal := kit.CalleeOf(c)
			if cal.Pkg != "sync/atomic" {
				continue
			}
			fa, ok := kit.Receiver(c).(*ssa.FieldAddr)
			if !ok || kit.FieldOfAddr(fa) != cx.counter {
				continue
			}
			switch cal.Name {
			case "Add":
				nRMW++
			case "CompareAndSwap":
				if cx.casCall != nil && c == ssa.CallInstruction(cx.casCall) {
					nRMW++
				} else {
					nOther++
				}
			case "Load":
				// a read is harmless by itself; whether the result depends on it is judged below
			default:
				nOther++
			}
		}
	}
	r.Decide(nRMW == 1 && nOther == 0, "C38.R3", nname+" single atomic read-modify-write", p.Pos(cx.next.Pos()),
		"exactly one read-modify-write (Add, or the CompareAndSwap of a fetch-and-add loop) on the counter, no other modifying operation",
		fmt.Sprintf("the allocating method performs %d Add and %d other modifying atomic operations on the counter: two concurrent calls can observe the same value and return the same identifier", nRMW, nOther))
	n := 0
	for _, ret := range kit.Returns(cx.next) {
		if ret.Block() == cx.next.Recover {
			continue
		}
		for _, l := range kit.PhiLeaves(kit.ReturnResult(ret, 0)) {
			n++
			key := fmt.Sprintf("%s returned value #%d", nname, n)
			ok, detail := false, "the returned identifier does not derive from the result of the atomic Add"
			if cx.addCall == nil && cx.casCall != nil {
				if l == cx.casOld {
					ok, detail = true, fmt.Sprintf("returns the value claimed by the successful CompareAndSwap (start+(n-1)*%d)", cx.stride)
				} else {
					detail = "the returned identifier is not the value claimed by the successful CompareAndSwap"
				}
			}
			if cx.addCall != nil {
				lin := kit.LinearOf(l)
				if len(lin.Terms) == 1 && lin.Coef(cx.addCall) == 1 {
					switch lin.Const {
					case 0:
						ok, detail = true, "returns the Add result (start+n*stride, n>=1)"
					case -cx.stride:
						ok, detail = true, fmt.Sprintf("returns the Add result minus the stride %d (start+(n-1)*stride)", cx.stride)
					default:
						detail = fmt.Sprintf("the returned identifier is the Add result %+d, which is neither the Add result nor the Add result minus the stride %d: its parity or its non-zero lower bound no longer follows from the start value", lin.Const, cx.stride)
					}
				}
			}
			r.Decide(ok, "C38.R3", key, p.Pos(ret.Pos()), detail, detail+": concurrent or successive calls can return equal, zero or wrong-parity identifiers")
		}
	}
	r.Require(n >= 1, "floor: allocating method %s returns nothing", nname)
}

// ---------- O4

type c38Impl struct {
	named *types.Named
	flag  *types.Var // role field returned by IsDialer (nil when IsDialer returns a constant)
	konst *bool
}

func (cx *c38Ctx) implementers(iface *types.Interface) []*types.Named {
	var out []*types.Named
	for _, pk := range cx.p.RepoPackages() {
		sc := pk.Types.Scope()
		for _, name := range sc.Names() {
			tn, ok := sc.Lookup(name).(*types.TypeName)
			if !ok || tn.IsAlias() {
				continue
			}
			n, ok := tn.Type().(*types.Named)
			if !ok || n.TypeParams().Len() > 0 {
				continue
			}
			if _, isIface := n.Underlying().(*types.Interface); isIface {
				continue
			}
			if types.Implements(n, iface) || types.Implements(types.NewPointer(n), iface) {
				out = append(out, n)
			}
		}
	}
	sort.Slice(out, func(i, j int) bool { return out[i].String() < out[j].String() })
	return out
}

func c38Iface(n *types.Named) *types.Interface {
	if n == nil {
		return nil
	}
	i, _ := n.Underlying().(*types.Interface)
	return i
}

const (
	c38Dial    = "dial"
	c38Accept  = "accept"
	c38Mixed   = "mixed"
	c38Unknown = "unknown"
)

func (cx *c38Ctx) roles() {
	p, r := cx.p, cx.r
	peerConn := c38Iface(p.NamedType("internal/transport", "PeerConn"))
	transportI := c38Iface(p.NamedType("internal/transport", "Transport"))
	listenerI := c38Iface(p.NamedType("internal/transport", "Listener"))
	if !r.Require(peerConn != nil && transportI != nil && listenerI != nil, "anchor-unresolved: interfaces transport.PeerConn / Transport / Listener") {
		return
	}
	isTransport := map[*types.TypeName]bool{}
	for _, n := range cx.implementers(transportI) {
		isTransport[n.Obj()] = true
	}
	isListener := map[*types.TypeName]bool{}
	for _, n := range cx.implementers(listenerI) {
		isListener[n.Obj()] = true
	}
	recvObj := func(f *ssa.Function) *types.TypeName {
		if f.Signature.Recv() == nil {
			return nil
		}
		t := f.Signature.Recv().Type()
		if ptr, ok := t.Underlying().(*types.Pointer); ok {
			t = ptr.Elem()
		}
		if n, ok := types.Unalias(t).(*types.Named); ok {
			return n.Obj()
		}
		return nil
	}
	var classify func(f *ssa.Function, depth int, seen map[*ssa.Function]bool) string
	classify = func(f *ssa.Function, depth int, seen map[*ssa.Function]bool) string {
		top := kit.TopLevel(f)
		if seen[top] {
			return ""
		}
		seen[top] = true
		if ro := recvObj(top); ro != nil {
			if isTransport[ro] && top.Name() == "Dial" {
				return c38Dial
			}
			if isListener[ro] {
				return c38Accept
			}
		}
		if depth >= 4 {
			return c38Unknown
		}
		res := ""
		for _, site := range p.StaticCallers(top) {
			c := classify(site.Parent(), depth+1, seen)
			switch {
			case c == "":
			case res == "":
				res = c
			case res != c:
				res = c38Mixed
			}
		}
		if res == "" {
			return c38Unknown
		}
		return res
	}
	classOf := func(f *ssa.Function) string { return classify(f, 0, map[*ssa.Function]bool{}) }

	// ---- constructor call sites: the role argument
	ord := map[string]int{}
	nSites := 0
	for _, ctor := range cx.ctors {
		role := c38RoleParam(ctor)
		if role == nil {
			continue // the constructor reads the role itself; startOf judged how
		}
		ridx := -1
		for i, q := range ctor.Params {
			if ssa.Value(q) == role {
				ridx = i
			}
		}
		sites := p.StaticCallers(ctor)
		nSites += len(sites)
		r.Decide(len(sites) >= 1, "C38.R4", kit.FuncName(ctor)+" is called", p.Pos(ctor.Pos()),
			"the allocator constructor has call sites",
			"the allocator constructor is never called: the owner's allocator is never set up with the connection's role")
		for _, site := range sites {
			fn := site.Parent()
			fname := kit.FuncName(fn)
			ord[fname]++
			key := fmt.Sprintf("%s constructs allocator #%d role", fname, ord[fname])
			ok := false
			if ridx >= 0 && ridx < len(site.Common().Args) {
				conn, isD := cx.isDialerOf(site.Common().Args[ridx])
				if isD {
					// the connection asked is the one this owner wraps: a parameter, or the value stored in the owner
					_, ok = conn.(*ssa.Parameter)
					if f, _ := kit.LoadedField(conn); f != nil {
						ok = true // c.conn.IsDialer(): the owner's own transport connection field
					}
				}
			}
			r.Decide(ok, "C38.R4", key, p.Pos(site.Pos()),
				"the role handed to the allocator is IsDialer() of the wrapped transport connection",
				"the role handed to the allocator constructor is not PeerConn.IsDialer() of the wrapped connection (negated, constant or unrelated): both ends can take the same parity and allocate the same identifiers")
		}
	}
	r.Count("allocator_constructor_call_sites", nSites)

	// ---- PeerConn implementations
	impls := cx.implementers(peerConn)
	r.Count("peerconn_implementations", len(impls))
	r.Require(len(impls) >= 1, "floor: no PeerConn implementation found")
	for _, n := range impls {
		tname := n.Obj().Pkg().Name() + "." + n.Obj().Name()
		m := p.Func(n.Obj().Pkg().Path(), n.Obj().Name(), "IsDialer")
		if !r.Require(m != nil && m.Blocks != nil, "anchor-unresolved: %s.IsDialer has no body", tname) {
			continue
		}
		var flag *types.Var
		var konst *bool
		shapeOK := true
		for _, ret := range kit.Returns(m) {
			if ret.Block() == m.Recover {
				continue
			}
			v := kit.ReturnResult(ret, 0)
			if b, isc := kit.ConstBool(v); isc {
				if konst != nil && *konst != b {
					shapeOK = false
				}
				konst = &b
				continue
			}
			f, base := kit.LoadedField(v)
			if f == nil || len(m.Params) == 0 || base != ssa.Value(m.Params[0]) || (flag != nil && flag != f) {
				shapeOK = false
				continue
			}
			flag = f
		}
		if flag != nil && konst != nil {
			shapeOK = false
		}
		r.Decide(shapeOK && (flag != nil || konst != nil), "C38.R4", tname+" IsDialer reports the role flag", p.Pos(m.Pos()),
			"IsDialer returns the receiver's role flag (or a constant)",
			"IsDialer does not simply return the connection's role flag: the role seen by the allocator is not the one fixed when the connection was made")
		if !shapeOK || (flag == nil && konst == nil) {
			continue
		}
		// construction sites of the implementation
		nAlloc := 0
		dialTrue := 0
		for _, fn := range p.RepoFuncs() {
			kit.Instrs(fn, func(in ssa.Instruction) {
				a, ok := in.(*ssa.Alloc)
				if !ok {
					return
				}
				if !c38SameNamedValue(a.Type().Underlying().(*types.Pointer).Elem(), n) {
					return
				}
				nAlloc++
				fname := kit.FuncName(fn)
				ord[tname+fname]++
				key := fmt.Sprintf("%s constructed in %s #%d", tname, fname, ord[tname+fname])
				pos := p.Pos(a.Pos())
				// effective flag values
				type rv struct {
					val   bool
					known bool
					where *ssa.Function
				}
				var vals []rv
				if konst != nil {
					vals = append(vals, rv{*konst, true, fn})
				} else {
					stored := false
					var resolve func(v ssa.Value, where *ssa.Function, depth int)
					resolve = func(v ssa.Value, where *ssa.Function, depth int) {
						if b, isc := kit.ConstBool(v); isc {
							vals = append(vals, rv{b, true, where})
							return
						}
						if phi, ok := v.(*ssa.Phi); ok {
							for _, e := range phi.Edges {
								if _, again := e.(*ssa.Phi); !again {
									resolve(e, where, depth)
								} else {
									vals = append(vals, rv{false, false, where})
								}
							}
							return
						}
						if prm, ok := v.(*ssa.Parameter); ok && depth < 3 {
							idx := -1
							for i, q := range where.Params {
								if q == prm {
									idx = i
								}
							}
							callers := p.StaticCallers(where)
							if idx >= 0 && len(callers) > 0 {
								for _, s := range callers {
									if idx < len(s.Common().Args) {
										resolve(s.Common().Args[idx], s.Parent(), depth+1)
									}
								}
								return
							}
						}
						vals = append(vals, rv{false, false, where})
					}
					if refs := a.Referrers(); refs != nil {
						for _, ref := range *refs {
							fa, ok := ref.(*ssa.FieldAddr)
							if !ok || kit.FieldOfAddr(fa) != flag || fa.Referrers() == nil {
								continue
							}
							for _, rr := range *fa.Referrers() {
								if st, ok := rr.(*ssa.Store); ok && st.Addr == ssa.Value(fa) {
									stored = true
									resolve(st.Val, fn, 0)
								}
							}
						}
					}
					if !stored {
						vals = append(vals, rv{false, true, fn}) // zero value
					}
				}
				okAll, why := true, ""
				for _, v := range vals {
					cls := classOf(v.where)
					switch {
					case !v.known:
						okAll, why = false, "the role flag is not a constant here"
					case cls == c38Dial && !v.val:
						okAll, why = false, "a connection made on the dial path ("+kit.FuncName(v.where)+") is not marked as dialer"
					case cls == c38Accept && v.val:
						okAll, why = false, "a connection made on the accept path ("+kit.FuncName(v.where)+") is marked as dialer"
					case cls == c38Mixed || cls == c38Unknown:
						okAll, why = false, "the connection is constructed in "+kit.FuncName(v.where)+", which is neither (only) on a Transport.Dial path nor (only) on a Listener path"
					}
					if cls == c38Dial && v.val && v.known {
						dialTrue++
					}
				}
				r.Decide(okAll, "C38.R4", key, pos,
					"role flag is constant and matches the path (dial: true, accept: false)",
					why+": both ends of such a connection allocate identifiers of the same parity and collide")
			})
		}
		r.Count("peerconn_construction_sites", nAlloc)
		r.Require(nAlloc >= 1, "floor: no construction site of %s found", tname)
		// the flag never changes after construction
		if flag != nil {
			nLate := 0
			for _, acc := range p.FieldAccessesOfKind(flag, kit.FieldStore, kit.FieldAddrUse) {
				if acc.Kind == kit.FieldStore {
					if _, fresh := acc.Base.(*ssa.Alloc); fresh {
						continue
					}
				}
				nLate++
				r.Violation("C38.R4", fmt.Sprintf("%s role flag written after construction in %s #%d", tname, kit.FuncName(acc.Fn), nLate), p.Pos(acc.Instr.Pos()),
					"the role flag of an existing connection is written (or its address taken): the parity of later identifiers can change and collide with earlier ones of the other end")
			}
			r.OK("C38.R4", tname+" role flag write-set", p.Pos(flag.Pos()), "written only while constructing a fresh %s (%d later writes)", tname, nLate)
		}
	}
}

// ---------- O5

func (cx *c38Ctx) ownership() {
	p, r := cx.p, cx.r
	// owner fields: struct fields of type *StreamIDAllocator
	var owners []*types.Var
	for _, pk := range p.RepoPackages() {
		sc := pk.Types.Scope()
		for _, name := range sc.Names() {
			tn, ok := sc.Lookup(name).(*types.TypeName)
			if !ok {
				continue
			}
			st, ok := tn.Type().Underlying().(*types.Struct)
			if !ok {
				continue
			}
			for i := 0; i < st.NumFields(); i++ {
				if f := st.Field(i); c38SameNamed(f.Type(), cx.alloc) {
					if _, isPtr := f.Type().Underlying().(*types.Pointer); isPtr {
						owners = append(owners, f)
					}
				}
			}
		}
	}
	isOwner := func(f *types.Var) bool {
		for _, o := range owners {
			if o == f {
				return true
			}
		}
		return false
	}
	r.Count("allocator_owner_fields", len(owners))
	// makers: the constructors, and functions that only return freshly allocated allocators or
	// the results of other makers (wrappers such as newStreamAllocator(conn))
	makerMemo := map[*ssa.Function]bool{}
	var isCtor func(f *ssa.Function) bool
	isCtor = func(f *ssa.Function) bool {
		for _, c := range cx.ctors {
			if c == f {
				return true
			}
		}
		if f == nil || f.Blocks == nil || f.Signature.Results().Len() != 1 || !c38SameNamed(f.Signature.Results().At(0).Type(), cx.alloc) {
			return false
		}
		if v, done := makerMemo[f]; done {
			return v
		}
		makerMemo[f] = false
		n := 0
		for _, ret := range kit.Returns(f) {
			if ret.Block() == f.Recover {
				continue
			}
			for _, l := range kit.PhiLeaves(kit.ReturnResult(ret, 0)) {
				switch x := l.(type) {
				case *ssa.Alloc:
				case *ssa.Call:
					if !isCtor(kit.CalleeOf(x).Static) {
						return false
					}
				default:
					return false
				}
				n++
			}
		}
		makerMemo[f] = n > 0
		return n > 0
	}
	// passThrough: a maker call whose result is only returned by a function that is a maker itself
	passThrough := func(call *ssa.Call) bool {
		if !isCtor(call.Parent()) || call.Referrers() == nil {
			return false
		}
		for _, ref := range *call.Referrers() {
			switch ref.(type) {
			case *ssa.Return, *ssa.DebugRef, *ssa.Phi:
			default:
				return false
			}
		}
		return true
	}
	if len(cx.chain) == 0 {
		// the counter lives in the connection object itself: nothing to own or replace
		r.OK("C38.R5", "counter embedded in "+cx.alloc.Obj().Name(), p.Pos(cx.counter.Pos()), "the identifier counter is a field of the connection object; there is no separate allocator to create, share or replace")
		return
	}

	// every constructor result goes into exactly one owner field of a fresh object
	ord := map[string]int{}
	var makers []*ssa.Function
	for _, f := range p.RepoFuncs() {
		if isCtor(f) {
			makers = append(makers, f)
		}
	}
	for _, ctor := range makers {
		for _, site := range p.StaticCallers(ctor) {
			fn := site.Parent()
			fname := kit.FuncName(fn)
			call, isCall := site.(*ssa.Call)
			if isCall && passThrough(call) {
				continue // ownership is decided where the wrapper's result is used
			}
			ord[fname]++
			key := fmt.Sprintf("%s constructs allocator #%d ownership", fname, ord[fname])
			ok := isCall
			nStores := 0
			if isCall && call.Referrers() != nil {
				for _, ref := range *call.Referrers() {
					switch x := ref.(type) {
					case *ssa.Store:
						fa, isFA := x.Addr.(*ssa.FieldAddr)
						fresh := false
						if isFA {
							_, fresh = fa.X.(*ssa.Alloc)
						}
						if x.Val == ssa.Value(call) && isFA && fresh && isOwner(kit.FieldOfAddr(fa)) {
							nStores++
						} else {
							ok = false
						}
					case *ssa.DebugRef:
					default:
						ok = false
					}
				}
			}
			r.Decide(ok && nStores == 1, "C38.R5", key, p.Pos(site.Pos()),
				"the new allocator is stored once into an owner field of a freshly allocated object and used for nothing else",
				"a newly constructed allocator is not (only) stored into the owner field of a fresh connection object: identifiers drawn from a transient or shared second allocator repeat those of the connection's allocator")
		}
	}
	// owner fields are never replaced
	for _, o := range owners {
		n := 0
		for _, acc := range p.FieldAccessesOfKind(o, kit.FieldStore, kit.FieldAddrUse) {
			fname := kit.FuncName(acc.Fn)
			if acc.Kind == kit.FieldStore {
				_, fresh := acc.Base.(*ssa.Alloc)
				c, _, isCall := kit.ResultOf(acc.Val)
				if fresh && isCall && isCtor(kit.CalleeOf(c).Static) {
					continue
				}
			}
			n++
			r.Violation("C38.R5", fmt.Sprintf("%s replaces allocator field %s #%d", fname, o.Name(), n), p.Pos(acc.Instr.Pos()),
				"the connection's allocator is replaced (or its field address escapes) after construction: the new allocator starts again at the start value and repeats identifiers already in use on this connection")
		}
		r.OK("C38.R5", "owner field "+o.Name()+" write-set", p.Pos(o.Pos()), "assigned only from the constructor while building a fresh owner (%d other writes)", n)
	}
	// identifiers are drawn only through an owner field
	sites := p.StaticCallers(cx.next)
	r.Count("allocating_method_call_sites", len(sites))
	r.Require(len(sites) >= 1, "floor: the allocating method has no call site")
	for _, site := range sites {
		fn := site.Parent()
		fname := kit.FuncName(fn)
		ord["next "+fname]++
		key := fmt.Sprintf("%s draws identifier #%d", fname, ord["next "+fname])
		f, _ := kit.LoadedField(kit.Receiver(site))
		if fa, ok := kit.Receiver(site).(*ssa.FieldAddr); ok && f == nil {
			// allocator embedded by value in its owner
			for _, cf := range cx.chain {
				if kit.FieldOfAddr(fa) == cf {
					f = cf
					owners = append(owners, cf)
				}
			}
		}
		r.Decide(f != nil && isOwner(f), "C38.R5", key, p.Pos(site.Pos()),
			"the identifier is drawn from the owner's allocator field",
			"an identifier is drawn from an allocator that is not read from a connection's owner field: it is not the connection's single allocator")
	}
}
