package rules

// A small path-enumerating symbolic evaluator over go/ssa used by C23. It executes nothing: it
// walks every CFG path of a function (optionally descending into static callees of the same
// package), keeps symbolic terms for values, a model of locally allocated buffers/structs, and
// records per path the sequence of reads, calls, stores and the branch conditions taken. Loops
// are followed at most twice per block and path; a path cut this way is marked truncated.

import (
	"fmt"
	"go/constant"
	"go/token"
	"go/types"
	"strconv"
	"strings"

	"golang.org/x/tools/go/ssa"

	"mmverify/kit"
)

type c23T struct {
	op   string
	s    string
	n    int64
	args []*c23T
	fn   *ssa.Function // op "closure": the function that runs when the value is called
}

// nonNil: the term denotes a value that is certainly not nil (an allocated object, a slice of
// one, a function value, a freshly constructed error).
func (t *c23T) nonNil() bool {
	if t == nil {
		return false
	}
	switch t.op {
	case "obj", "closure", "func":
		return true
	case "sl":
		return t.args[0].nonNil()
	case "call":
		return t.s == "errors.New" || t.s == "fmt.Errorf"
	}
	return false
}

func c23Const(s string) *c23T             { return &c23T{op: "const", s: s} }
func c23Int(n int64) *c23T                { return &c23T{op: "const", s: strconv.FormatInt(n, 10)} }
func c23Unk(s string) *c23T               { return &c23T{op: "unk", s: s} }
func (t *c23T) isConst() bool             { return t != nil && t.op == "const" }
func (t *c23T) isNil() bool               { return t != nil && t.op == "const" && t.s == "nil" }
func (t *c23T) isParam() bool             { return t != nil && t.op == "param" }
func (t *c23T) isObj() bool               { return t != nil && t.op == "obj" }
func (t *c23T) isCallOf(name string) bool { return t != nil && t.op == "call" && t.s == name }

func (t *c23T) intVal() (int64, bool) {
	if !t.isConst() {
		return 0, false
	}
	n, err := strconv.ParseInt(t.s, 10, 64)
	return n, err == nil
}

type c23Obj struct {
	id     int
	kind   string // "bytes", "struct", "var"
	lenT   *c23T
	readNo int
	elems  map[int64]*c23T
	fields map[int]*c23T
	whole  *c23T
	zero   bool
	typ    types.Type
	pooled *c23T // non-nil: obtained from this pool (sync.Pool.Get), contents unknown
	// a byte string assembled by append from an empty slice: its content as ordered segments
	hasSegs bool
	segs    []c23Seg
	root    int // object whose memory this one may share (append result -> appended-to object)
	// kind "map": a locally built lookup table with constant keys
	mapKeys []*c23T
	mapVals []*c23T
	mapOpen bool // an entry with a non-constant key was added: the table is not enumerable
}

// c23Seg is one piece of an appended byte string: a single byte, a byte slice, or a 16-bit
// integer in big/little-endian order.
type c23Seg struct {
	kind string // "byte", "bytes", "u16be", "u16le"
	t    *c23T
}

func (o *c23Obj) clone() *c23Obj {
	c := *o
	c.elems = map[int64]*c23T{}
	for k, v := range o.elems {
		c.elems[k] = v
	}
	c.fields = map[int]*c23T{}
	for k, v := range o.fields {
		c.fields[k] = v
	}
	c.segs = append([]c23Seg{}, o.segs...)
	c.mapKeys = append([]*c23T{}, o.mapKeys...)
	c.mapVals = append([]*c23T{}, o.mapVals...)
	return &c
}

type c23Event struct {
	kind   string // "read", "call", "store", "copy"
	in     ssa.Instruction
	callee string
	static *ssa.Function
	args   []*c23T
	obj    int
	idx    *c23T
	val    *c23T
	readNo int
	full   bool
	lenT   *c23T
	res    *c23T // result term (copy)
	depth  int
	defer_ bool // executed by rundefers at function exit
}

type c23Cond struct {
	t     *c23T
	taken bool
	in    *ssa.If
}

type c23Frame struct {
	fn          *ssa.Function
	vals        map[ssa.Value]*c23T
	block, prev *ssa.BasicBlock
	pc          int
	visits      map[*ssa.BasicBlock]int
	call        *ssa.Call
	defers      []c23Event
}

type c23State struct {
	stack     []*c23Frame
	objs      map[int]*c23Obj
	nextObj   int
	nreads    int
	events    []c23Event
	conds     []c23Cond
	truncated bool
	panicked  bool
}

func (st *c23State) clone() *c23State {
	c := &c23State{objs: map[int]*c23Obj{}, nextObj: st.nextObj, nreads: st.nreads, truncated: st.truncated}
	for _, f := range st.stack {
		nf := *f
		nf.vals = make(map[ssa.Value]*c23T, len(f.vals))
		for k, v := range f.vals {
			nf.vals[k] = v
		}
		nf.visits = map[*ssa.BasicBlock]int{}
		for k, v := range f.visits {
			nf.visits[k] = v
		}
		nf.defers = append([]c23Event{}, f.defers...)
		c.stack = append(c.stack, &nf)
	}
	for k, o := range st.objs {
		c.objs[k] = o.clone()
	}
	c.events = append([]c23Event{}, st.events...)
	c.conds = append([]c23Cond{}, st.conds...)
	return c
}

func (st *c23State) top() *c23Frame { return st.stack[len(st.stack)-1] }

type c23Path struct {
	st      *c23State
	results []*c23T
}

type c23Exec struct {
	p      *kit.Program
	inline func(callee *ssa.Function, depth int) bool
	// fieldTable resolves a struct field (name, index) that holds a constant-key table of methods
	fieldTable func(name string, idx int) (keys []int64, fns []*ssa.Function, ok bool)
	maxPaths   int
	paths      []*c23Path
	overflow   bool
}

// ---------------------------------------------------------------------------------------------
// rendering

func (st *c23State) show(t *c23T) string {
	if t == nil {
		return "<nil>"
	}
	switch t.op {
	case "const":
		return t.s
	case "obj":
		o := st.objs[int(t.n)]
		if o == nil {
			return fmt.Sprintf("obj#%d", t.n)
		}
		switch o.kind {
		case "bytes":
			if o.readNo >= 0 {
				return fmt.Sprintf("R%d", o.readNo)
			}
			if o.zero && len(o.elems) == 0 {
				return "zero[" + st.show(o.lenT) + "]"
			}
			if o.pooled != nil {
				return fmt.Sprintf("pooled#%d", o.id)
			}
			return fmt.Sprintf("buf#%d", o.id)
		case "struct":
			return fmt.Sprintf("new#%d", o.id)
		}
		return fmt.Sprintf("var#%d", o.id)
	case "sl":
		b := st.show(t.args[0])
		lo, hi := t.args[1], t.args[2]
		if lz, ok := lo.intVal(); ok && lz == 0 && hi == nil {
			return b
		}
		if o, l0, h0, ok := st.resolveSlice(t); ok && h0 != nil {
			// a slice covering the whole object prints as the object
			if lz, ok := l0.intVal(); ok && lz == 0 && st.show(h0) == st.show(o.lenT) {
				return st.show(&c23T{op: "obj", n: int64(o.id)})
			}
		}
		hs := ""
		if hi != nil {
			hs = st.show(hi)
		}
		return b + "[" + st.show(lo) + ":" + hs + "]"
	case "rdb":
		return fmt.Sprintf("R%d[%s]", t.n, st.show(t.args[0]))
	case "conv":
		return t.s + "(" + st.show(t.args[0]) + ")"
	case "call":
		var a []string
		for _, x := range t.args {
			a = append(a, st.show(x))
		}
		return t.s + "(" + strings.Join(a, ",") + ")"
	case "res":
		return st.show(t.args[0]) + "#" + strconv.FormatInt(t.n, 10)
	case "tuple":
		var a []string
		for _, x := range t.args {
			a = append(a, st.show(x))
		}
		return "<" + strings.Join(a, ",") + ">"
	case "bin":
		return "(" + st.show(t.args[0]) + t.s + st.show(t.args[1]) + ")"
	case "un":
		return t.s + st.show(t.args[0])
	case "param":
		return "param:" + t.s
	case "global":
		return "global:" + t.s
	case "gload":
		return "*" + t.s
	case "fld":
		return "&" + st.show(t.args[0]) + "." + t.s
	case "fldv":
		return st.show(t.args[0]) + "." + t.s
	case "elem":
		return "&" + st.show(t.args[0]) + "[" + st.show(t.args[1]) + "]"
	case "load":
		if a := t.args[0]; a.op == "fld" {
			return st.show(a.args[0]) + "." + a.s
		}
		return "*(" + st.show(t.args[0]) + ")"
	case "len":
		return "len(" + st.show(t.args[0]) + ")"
	case "rdn":
		return fmt.Sprintf("n%d", t.n)
	case "rderr":
		return fmt.Sprintf("err%d", t.n)
	case "assert":
		return st.show(t.args[0]) + ".(" + t.s + ")"
	case "zero":
		return "zero"
	case "closure":
		return "func:" + t.s
	}
	return "?" + t.s
}

// ---------------------------------------------------------------------------------------------
// arithmetic on terms

func c23BinFold(op token.Token, a, b *c23T) *c23T {
	x, ok1 := a.intVal()
	y, ok2 := b.intVal()
	if ok1 && ok2 {
		boolT := func(v bool) *c23T { return c23Const(strconv.FormatBool(v)) }
		switch op {
		case token.ADD:
			return c23Int(x + y)
		case token.SUB:
			return c23Int(x - y)
		case token.MUL:
			return c23Int(x * y)
		case token.EQL:
			return boolT(x == y)
		case token.NEQ:
			return boolT(x != y)
		case token.LSS:
			return boolT(x < y)
		case token.LEQ:
			return boolT(x <= y)
		case token.GTR:
			return boolT(x > y)
		case token.GEQ:
			return boolT(x >= y)
		}
	}
	if a.isConst() && b.isConst() && (op == token.EQL || op == token.NEQ) && !ok1 && !ok2 {
		return c23Const(strconv.FormatBool((a.s == b.s) == (op == token.EQL)))
	}
	if op == token.EQL || op == token.NEQ {
		// x == nil / x != nil for a value known not to be nil
		if (a.isNil() && b.nonNil()) || (b.isNil() && a.nonNil()) {
			return c23Const(strconv.FormatBool(op == token.NEQ))
		}
	}
	if op == token.ADD {
		if ok1 && x == 0 {
			return b
		}
		if ok2 && y == 0 {
			return a
		}
	}
	if op == token.SUB && ok2 && y == 0 {
		return a
	}
	return &c23T{op: "bin", s: op.String(), args: []*c23T{a, b}}
}

// ---------------------------------------------------------------------------------------------
// memory

func (st *c23State) newObj(kind string, lenT *c23T, typ types.Type) *c23T {
	id := st.nextObj
	st.nextObj++
	st.objs[id] = &c23Obj{id: id, kind: kind, lenT: lenT, readNo: -1, elems: map[int64]*c23T{}, fields: map[int]*c23T{}, zero: true, typ: typ, root: id}
	return &c23T{op: "obj", n: int64(id)}
}

// resolveSlice maps a slice/array-pointer term to (object, low, high) with high==nil meaning
// "to the end of the object".
func (st *c23State) resolveSlice(t *c23T) (*c23Obj, *c23T, *c23T, bool) {
	switch t.op {
	case "obj":
		o := st.objs[int(t.n)]
		if o == nil || o.kind != "bytes" {
			return nil, nil, nil, false
		}
		return o, c23Int(0), nil, true
	case "sl":
		o, lo0, hi0, ok := st.resolveSlice(t.args[0])
		if !ok {
			return nil, nil, nil, false
		}
		lo := c23BinFold(token.ADD, lo0, t.args[1])
		hi := hi0
		if t.args[2] != nil {
			hi = c23BinFold(token.ADD, lo0, t.args[2])
		}
		return o, lo, hi, true
	}
	return nil, nil, nil, false
}

func (st *c23State) lenTerm(t *c23T) *c23T {
	if o, lo, hi, ok := st.resolveSlice(t); ok {
		if hi == nil {
			hi = o.lenT
		}
		if hi != nil {
			return c23BinFold(token.SUB, hi, lo)
		}
	}
	if t.isConst() {
		if t.s == "nil" {
			return c23Int(0)
		}
		if s, err := strconv.Unquote(t.s); err == nil {
			return c23Int(int64(len(s)))
		}
	}
	if t.op == "conv" && (t.s == "string" || t.s == "[]byte") {
		return st.lenTerm(t.args[0])
	}
	return &c23T{op: "len", args: []*c23T{t}}
}

func (st *c23State) store(addr, val *c23T, in ssa.Instruction, depth int) {
	switch addr.op {
	case "elem":
		if o, lo, _, ok := st.resolveSlice(addr.args[0]); ok {
			abs := c23BinFold(token.ADD, lo, addr.args[1])
			if i, ok := abs.intVal(); ok {
				o.elems[i] = val
			}
			st.events = append(st.events, c23Event{kind: "store", in: in, obj: o.id, idx: abs, val: val, depth: depth})
			return
		}
	case "fld":
		if addr.args[0].isObj() {
			if o := st.objs[int(addr.args[0].n)]; o != nil {
				o.fields[int(addr.n)] = val
				return
			}
		}
	case "obj":
		if o := st.objs[int(addr.n)]; o != nil {
			o.whole = val
			o.zero = false
			return
		}
	}
	st.events = append(st.events, c23Event{kind: "store", in: in, obj: -1, idx: addr, val: val, depth: depth})
}

func (st *c23State) load(addr *c23T) *c23T {
	switch addr.op {
	case "elem":
		if o, lo, _, ok := st.resolveSlice(addr.args[0]); ok {
			abs := c23BinFold(token.ADD, lo, addr.args[1])
			if i, ok := abs.intVal(); ok {
				if v, ok := o.elems[i]; ok {
					return v
				}
				if o.readNo >= 0 {
					return &c23T{op: "rdb", n: int64(o.readNo), args: []*c23T{abs}}
				}
				if o.zero {
					return c23Int(0)
				}
			} else if o.readNo >= 0 {
				return &c23T{op: "rdb", n: int64(o.readNo), args: []*c23T{abs}}
			}
		}
	case "fld":
		if addr.args[0].isObj() {
			if o := st.objs[int(addr.args[0].n)]; o != nil {
				if v, ok := o.fields[int(addr.n)]; ok {
					return v
				}
				if o.whole != nil {
					return &c23T{op: "fldv", s: addr.s, n: addr.n, args: []*c23T{o.whole}}
				}
				if o.zero {
					return &c23T{op: "zero"}
				}
			}
		}
	case "obj":
		if o := st.objs[int(addr.n)]; o != nil {
			if o.whole != nil {
				return o.whole
			}
			if o.zero {
				return &c23T{op: "zero"}
			}
		}
	case "global":
		return &c23T{op: "gload", s: addr.s}
	}
	return &c23T{op: "load", args: []*c23T{addr}}
}

// ---------------------------------------------------------------------------------------------
// terms of SSA values

func c23TypeName(t types.Type) string {
	return types.TypeString(t, func(p *types.Package) string { return p.Name() })
}

func (x *c23Exec) term(st *c23State, fr *c23Frame, v ssa.Value) *c23T {
	if t, ok := fr.vals[v]; ok {
		return t
	}
	switch c := v.(type) {
	case *ssa.Const:
		if c.Value == nil {
			return c23Const("nil")
		}
		switch c.Value.Kind() {
		case constant.Int:
			if n, ok := kit.ConstInt(c); ok {
				return c23Int(n)
			}
		case constant.Bool:
			return c23Const(strconv.FormatBool(constant.BoolVal(c.Value)))
		case constant.String:
			return c23Const(strconv.Quote(constant.StringVal(c.Value)))
		}
		return c23Const(c.Value.ExactString())
	case *ssa.Global:
		name := c.Name()
		if c.Pkg != nil {
			name = c.Pkg.Pkg.Path() + "." + name
		}
		return &c23T{op: "global", s: name}
	case *ssa.Function:
		return &c23T{op: "func", s: c.Name()}
	case *ssa.BinOp:
		return c23BinFold(c.Op, x.term(st, fr, c.X), x.term(st, fr, c.Y))
	case *ssa.UnOp:
		a := x.term(st, fr, c.X)
		if c.Op == token.NOT && a.isConst() && (a.s == "true" || a.s == "false") {
			return c23Const(strconv.FormatBool(a.s == "false"))
		}
		if c.Op == token.MUL {
			return st.load(a) // a load that was not executed as an instruction of this path
		}
		return &c23T{op: "un", s: c.Op.String(), args: []*c23T{a}}
	case *ssa.Convert:
		a := x.term(st, fr, c.X)
		if _, ok := a.intVal(); ok {
			if b, ok := c.Type().Underlying().(*types.Basic); ok && b.Info()&types.IsInteger != 0 {
				return a
			}
		}
		return &c23T{op: "conv", s: c23TypeName(c.Type()), args: []*c23T{a}}
	case *ssa.ChangeType:
		return x.term(st, fr, c.X)
	case *ssa.ChangeInterface:
		return x.term(st, fr, c.X)
	case *ssa.MakeInterface:
		return x.term(st, fr, c.X)
	case *ssa.IndexAddr:
		return &c23T{op: "elem", args: []*c23T{x.term(st, fr, c.X), x.term(st, fr, c.Index)}}
	case *ssa.FieldAddr:
		name := ""
		if f := kit.FieldOfAddr(c); f != nil {
			name = f.Name()
		}
		return &c23T{op: "fld", s: name, n: int64(c.Field), args: []*c23T{x.term(st, fr, c.X)}}
	case *ssa.Field:
		name := ""
		if f := kit.FieldOfAddr(c); f != nil {
			name = f.Name()
		}
		return &c23T{op: "fldv", s: name, n: int64(c.Field), args: []*c23T{x.term(st, fr, c.X)}}
	case *ssa.Slice:
		lo := c23Int(0)
		if c.Low != nil {
			lo = x.term(st, fr, c.Low)
		}
		var hi *c23T
		if c.High != nil {
			hi = x.term(st, fr, c.High)
		}
		return &c23T{op: "sl", args: []*c23T{x.term(st, fr, c.X), lo, hi}}
	case *ssa.Extract:
		tu := x.term(st, fr, c.Tuple)
		if tu.op == "tuple" && c.Index < len(tu.args) {
			return tu.args[c.Index]
		}
		return &c23T{op: "res", n: int64(c.Index), args: []*c23T{tu}}
	case *ssa.TypeAssert:
		return &c23T{op: "assert", s: c23TypeName(c.AssertedType), args: []*c23T{x.term(st, fr, c.X)}}
	}
	return c23Unk(fmt.Sprintf("%T:%s", v, v.Name()))
}

// ---------------------------------------------------------------------------------------------
// execution

func (x *c23Exec) run(fn *ssa.Function) {
	st := &c23State{objs: map[int]*c23Obj{}}
	fr := &c23Frame{fn: fn, vals: map[ssa.Value]*c23T{}, visits: map[*ssa.BasicBlock]int{}}
	for i, prm := range fn.Params {
		fr.vals[prm] = &c23T{op: "param", s: prm.Name(), n: int64(i)}
	}
	st.stack = []*c23Frame{fr}
	if len(fn.Blocks) == 0 {
		return
	}
	fr.block = fn.Blocks[0]
	fr.visits[fr.block] = 1
	x.exec(st)
}

func (x *c23Exec) finish(st *c23State, results []*c23T) {
	x.paths = append(x.paths, &c23Path{st: st, results: results})
}

func (x *c23Exec) gotoBlock(st *c23State, to *ssa.BasicBlock) bool {
	fr := st.top()
	fr.visits[to]++
	if fr.visits[to] > 2 {
		st.truncated = true
		x.finish(st, nil)
		return false
	}
	from := fr.block
	// evaluate phis with the old environment
	var phis []*ssa.Phi
	var vals []*c23T
	for _, in := range to.Instrs {
		ph, ok := in.(*ssa.Phi)
		if !ok {
			break
		}
		for i, pr := range to.Preds {
			if pr == from {
				phis = append(phis, ph)
				vals = append(vals, x.term(st, fr, ph.Edges[i]))
				break
			}
		}
	}
	for i, ph := range phis {
		fr.vals[ph] = vals[i]
	}
	fr.prev, fr.block, fr.pc = from, to, 0
	return true
}

func (x *c23Exec) exec(st *c23State) {
	for {
		if len(x.paths) >= x.maxPaths {
			x.overflow = true
			return
		}
		fr := st.top()
		if fr.pc >= len(fr.block.Instrs) {
			x.finish(st, nil)
			return
		}
		switch in := fr.block.Instrs[fr.pc].(type) {
		case *ssa.Phi:
			fr.pc++
		case *ssa.If:
			c := x.term(st, fr, in.Cond)
			if c.isConst() && (c.s == "true" || c.s == "false") {
				succ := fr.block.Succs[0]
				if c.s == "false" {
					succ = fr.block.Succs[1]
				}
				if !x.gotoBlock(st, succ) {
					return
				}
				continue
			}
			// a condition already decided on this path (e.g. the error a callee returned on its
			// err != nil branch, tested again by the caller) keeps its truth value
			if truth, ok := st.decided(c); ok {
				succ := fr.block.Succs[0]
				if !truth {
					succ = fr.block.Succs[1]
				}
				if !x.gotoBlock(st, succ) {
					return
				}
				continue
			}
			st2 := st.clone()
			st2.conds = append(st2.conds, c23Cond{t: c, taken: false, in: in})
			if x.gotoBlock(st2, st2.top().block.Succs[1]) {
				x.exec(st2)
			}
			st.conds = append(st.conds, c23Cond{t: c, taken: true, in: in})
			if !x.gotoBlock(st, fr.block.Succs[0]) {
				return
			}
		case *ssa.Jump:
			if !x.gotoBlock(st, fr.block.Succs[0]) {
				return
			}
		case *ssa.Return:
			var res []*c23T
			for i := range in.Results {
				res = append(res, x.term(st, fr, kit.ReturnResult(in, i)))
			}
			if len(st.stack) == 1 {
				x.finish(st, res)
				return
			}
			call := fr.call
			st.stack = st.stack[:len(st.stack)-1]
			caller := st.top()
			if len(res) == 1 {
				caller.vals[call] = res[0]
			} else {
				caller.vals[call] = &c23T{op: "tuple", args: res}
			}
			caller.pc++
		case *ssa.Panic:
			st.panicked = true
			x.finish(st, nil)
			return
		case *ssa.Lookup:
			// a lookup in a locally built constant-key table is a finite case distinction on the
			// key: one path per entry (key == k) and one for "no entry"
			mt := x.term(st, fr, in.X)
			var tbl *c23Obj
			if mt.isObj() {
				tbl = st.objs[int(mt.n)]
			} else if mt.op == "load" && mt.args[0].op == "fld" && x.fieldTable != nil {
				// a table kept in a struct field, filled once by a constructor with constant keys
				if keys, fns, ok := x.fieldTable(mt.args[0].s, int(mt.args[0].n)); ok {
					tbl = &c23Obj{kind: "map"}
					for i, k := range keys {
						tbl.mapKeys = append(tbl.mapKeys, c23Int(k))
						tbl.mapVals = append(tbl.mapVals, &c23T{op: "closure", s: kit.FuncName(fns[i]), fn: fns[i], args: []*c23T{mt.args[0].args[0]}})
					}
				}
			}
			if tbl == nil || tbl.kind != "map" || tbl.mapOpen || len(tbl.mapKeys) == 0 || len(tbl.mapKeys) > 16 {
				fr.pc++
				continue
			}
			key := x.term(st, fr, in.Index)
			bind := func(s2 *c23State, val *c23T, found bool) {
				f2 := s2.top()
				if in.CommaOk {
					f2.vals[in] = &c23T{op: "tuple", args: []*c23T{val, c23Const(strconv.FormatBool(found))}}
				} else {
					f2.vals[in] = val
				}
				f2.pc++
			}
			if _, isConstKey := key.intVal(); isConstKey || key.isConst() {
				hit := -1
				for i, k := range tbl.mapKeys {
					if k.s == key.s {
						hit = i
					}
				}
				if hit >= 0 {
					bind(st, tbl.mapVals[hit], true)
				} else {
					bind(st, c23Const("nil"), false)
				}
				continue
			}
			for i, k := range tbl.mapKeys {
				s2 := st.clone()
				for j := 0; j < i; j++ {
					s2.conds = append(s2.conds, c23Cond{t: &c23T{op: "bin", s: "==", args: []*c23T{key, tbl.mapKeys[j]}}, taken: false})
				}
				s2.conds = append(s2.conds, c23Cond{t: &c23T{op: "bin", s: "==", args: []*c23T{key, k}}, taken: true})
				bind(s2, tbl.mapVals[i], true)
				x.exec(s2)
			}
			for _, k := range tbl.mapKeys {
				st.conds = append(st.conds, c23Cond{t: &c23T{op: "bin", s: "==", args: []*c23T{key, k}}, taken: false})
			}
			bind(st, c23Const("nil"), false)
		default:
			if x.step(st, fr, in) {
				fr.pc++
			}
		}
	}
}

// step executes one straight-line instruction; it returns false when a callee frame was pushed.
func (x *c23Exec) step(st *c23State, fr *c23Frame, in ssa.Instruction) bool {
	depth := len(st.stack) - 1
	switch i := in.(type) {
	case *ssa.Alloc:
		et := i.Type().Underlying().(*types.Pointer).Elem()
		switch u := et.Underlying().(type) {
		case *types.Array:
			fr.vals[i] = st.newObj("bytes", c23Int(u.Len()), et)
		case *types.Struct:
			fr.vals[i] = st.newObj("struct", nil, et)
		default:
			fr.vals[i] = st.newObj("var", nil, et)
		}
	case *ssa.MakeSlice:
		o := st.newObj("bytes", x.term(st, fr, i.Len), i.Type())
		fr.vals[i] = &c23T{op: "sl", args: []*c23T{o, c23Int(0), nil}}
	case *ssa.MakeMap:
		fr.vals[i] = st.newObj("map", nil, i.Type())
	case *ssa.MapUpdate:
		if mt := x.term(st, fr, i.Map); mt.isObj() {
			if o := st.objs[int(mt.n)]; o != nil && o.kind == "map" {
				k := x.term(st, fr, i.Key)
				if k.isConst() {
					o.mapKeys = append(o.mapKeys, k)
					o.mapVals = append(o.mapVals, x.term(st, fr, i.Value))
				} else {
					o.mapOpen = true
				}
			}
		}
	case *ssa.Store:
		st.store(x.term(st, fr, i.Addr), x.term(st, fr, i.Val), in, depth)
	case *ssa.UnOp:
		if i.Op == token.MUL {
			fr.vals[i] = st.load(x.term(st, fr, i.X))
		}
	case *ssa.Call:
		return x.call(st, fr, i)
	case *ssa.MakeClosure:
		if f, ok := i.Fn.(*ssa.Function); ok {
			var bs []*c23T
			for _, b := range i.Bindings {
				bs = append(bs, x.term(st, fr, b))
			}
			target, isBound := c23BoundTarget(f)
			if !isBound {
				target = f
			}
			t := &c23T{op: "closure", s: kit.FuncName(target), fn: target}
			if isBound {
				t.args = bs // the receiver: first argument of the method
			}
			fr.vals[i] = t
		}
	case *ssa.Go:
		cal := kit.CalleeOf(i)
		st.events = append(st.events, c23Event{kind: "go", in: in, callee: cal.String(), static: cal.Static, args: x.callArgs(st, fr, i), depth: depth})
	case *ssa.Defer:
		// arguments are evaluated now, the call runs at rundefers (LIFO)
		cal := kit.CalleeOf(i)
		args := x.callArgs(st, fr, i)
		if mc, ok := i.Call.Value.(*ssa.MakeClosure); ok {
			for _, b := range mc.Bindings {
				args = append(args, x.term(st, fr, b))
			}
		}
		fr.defers = append(fr.defers, c23Event{kind: "call", in: in, callee: cal.String(), static: cal.Static, args: args, depth: depth, defer_: true})
	case *ssa.RunDefers:
		for k := len(fr.defers) - 1; k >= 0; k-- {
			st.events = append(st.events, fr.defers[k])
		}
		fr.defers = nil
	case *ssa.Send:
		st.events = append(st.events, c23Event{kind: "send", in: in, val: x.term(st, fr, i.X), obj: -1, depth: depth})
	case *ssa.TypeAssert:
		// a buffer taken from a sync.Pool: a distinct object whose contents are unknown and whose
		// ownership ends when it is put back
		xt := x.term(st, fr, i.X)
		if xt.isCallOf("sync.Pool.Get") {
			var ot *c23T
			at := i.AssertedType
			if pt, ok := at.Underlying().(*types.Pointer); ok {
				if arr, ok := pt.Elem().Underlying().(*types.Array); ok {
					ot = st.newObj("bytes", c23Int(arr.Len()), pt.Elem())
				}
			} else if _, ok := at.Underlying().(*types.Slice); ok {
				ot = st.newObj("bytes", &c23T{op: "len", args: []*c23T{xt}}, at)
			}
			if ot != nil {
				o := st.objs[int(ot.n)]
				o.zero = false
				o.pooled = xt
				if _, isSlice := at.Underlying().(*types.Slice); isSlice {
					ot = &c23T{op: "sl", args: []*c23T{ot, c23Int(0), nil}}
				}
				if i.CommaOk {
					fr.vals[i] = &c23T{op: "tuple", args: []*c23T{ot, c23Const("true")}}
				} else {
					fr.vals[i] = ot
				}
			}
		}
	}
	return true
}

// refsObj: term t mentions object id (as the object, a slice or an element address of it).
func (st *c23State) refsObj(t *c23T, id int) bool {
	if t == nil {
		return false
	}
	if t.op == "obj" {
		if int(t.n) == id {
			return true
		}
		if a, b := st.objs[int(t.n)], st.objs[id]; a != nil && b != nil && a.root == b.root {
			return true
		}
	}
	for _, a := range t.args {
		if st.refsObj(a, id) {
			return true
		}
	}
	return false
}

func (x *c23Exec) callArgs(st *c23State, fr *c23Frame, c ssa.CallInstruction) []*c23T {
	cc := c.Common()
	var args []*c23T
	if cc.IsInvoke() {
		args = append(args, x.term(st, fr, cc.Value))
	}
	for _, a := range cc.Args {
		args = append(args, x.term(st, fr, a))
	}
	return args
}

// c23ReadKind classifies stream reads: 2 = fills the whole buffer or fails (io.ReadFull),
// 1 = may return fewer bytes (Read, ReadAtLeast), 0 = not a read.
func c23ReadKind(c ssa.CallInstruction) int {
	cal := kit.CalleeOf(c)
	switch {
	case cal.Pkg == "io" && cal.Name == "ReadFull":
		return 2
	case cal.Pkg == "io" && cal.Name == "ReadAtLeast":
		return 1
	case cal.Iface && cal.Name == "Read" && (cal.Pkg == "io" || cal.Pkg == "net"):
		return 1
	case cal.Pkg == "bufio" && cal.Recv == "Reader" && cal.Name == "Read":
		return 1
	}
	return 0
}

func (x *c23Exec) call(st *c23State, fr *c23Frame, c *ssa.Call) bool {
	depth := len(st.stack) - 1
	cal := kit.CalleeOf(c)
	args := x.callArgs(st, fr, c)
	switch cal.Built {
	case "len", "cap":
		fr.vals[c] = st.lenTerm(args[0])
		return true
	case "copy":
		ev := c23Event{kind: "copy", in: c, obj: -1, val: args[1], depth: depth}
		if o, lo, _, ok := st.resolveSlice(args[0]); ok {
			ev.obj, ev.idx = o.id, lo
			o.zero = false
		}
		ev.lenT = st.lenTerm(args[0])
		res := &c23T{op: "call", s: "copy", args: args}
		// the number of bytes copied is min(len(dst), len(src)): folded when both are known
		if d, ok1 := ev.lenT.intVal(); ok1 {
			if n, ok2 := st.lenTerm(args[1]).intVal(); ok2 {
				if n < d {
					d = n
				}
				res = c23Int(d)
			}
		}
		ev.res = res
		st.events = append(st.events, ev)
		fr.vals[c] = res
		return true
	case "append":
		if len(args) == 2 {
			if r := st.appendSegs(args[0], st.segsOf(args[1]), st.lenTerm(args[1])); r != nil {
				fr.vals[c] = r
				return true
			}
		}
		fr.vals[c] = &c23T{op: "call", s: "append", args: args}
		return true
	}
	if cal.Pkg == "encoding/binary" && cal.Name == "AppendUint16" && len(args) == 3 {
		kind := "u16be"
		if cal.Recv == "littleEndian" {
			kind = "u16le"
		}
		if r := st.appendSegs(args[1], []c23Seg{{kind: kind, t: args[2]}}, c23Int(2)); r != nil {
			st.events = append(st.events, c23Event{kind: "call", in: c, callee: cal.String(), static: cal.Static, args: args, depth: depth})
			fr.vals[c] = r
			return true
		}
	}
	// a call of a function value whose target is known on this path (method value, func literal)
	if cc := c.Common(); !cc.IsInvoke() && cal.Static == nil && cal.Built == "" {
		if ft := x.term(st, fr, cc.Value); ft.op == "closure" && ft.fn != nil {
			cal = kit.CalleeOf(c)
			cal.Static, cal.Name, cal.Pkg, cal.Recv = ft.fn, ft.fn.Name(), kit.FuncPkgPath(ft.fn), ""
			if ft.fn.Signature.Recv() != nil {
				cal.Recv = c23RecvName(ft.fn)
			}
			args = append(append([]*c23T{}, ft.args...), args...)
		}
	}
	if rk := c23ReadKind(c); rk > 0 && len(args) >= 2 {
		no := st.nreads
		st.nreads++
		ev := c23Event{kind: "read", in: c, callee: cal.String(), args: args, readNo: no, full: rk == 2, obj: -1, depth: depth}
		if o, lo, hi, ok := st.resolveSlice(args[1]); ok {
			ev.obj = o.id
			ev.lenT = st.lenTerm(args[1])
			whole := hi == nil || st.show(hi) == st.show(o.lenT)
			if z, isInt := lo.intVal(); isInt && z == 0 && whole {
				o.readNo = no
				o.elems = map[int64]*c23T{}
				o.zero = false
			} else {
				o.readNo = -1
				o.zero = false
				o.elems = map[int64]*c23T{}
				ev.full = false // partial-buffer reads are not modelled: treated as a short read
			}
		}
		st.events = append(st.events, ev)
		fr.vals[c] = &c23T{op: "tuple", args: []*c23T{{op: "rdn", n: int64(no)}, {op: "rderr", n: int64(no)}}}
		return true
	}
	if cal.Static != nil && cal.Static.Blocks != nil && x.inline != nil && depth < 4 && x.inline(cal.Static, depth) {
		nf := &c23Frame{fn: cal.Static, vals: map[ssa.Value]*c23T{}, visits: map[*ssa.BasicBlock]int{}, call: c}
		for i, prm := range cal.Static.Params {
			if i < len(args) {
				nf.vals[prm] = args[i]
			}
		}
		nf.block = cal.Static.Blocks[0]
		nf.visits[nf.block] = 1
		st.stack = append(st.stack, nf)
		return false
	}
	st.events = append(st.events, c23Event{kind: "call", in: c, callee: cal.String(), static: cal.Static, args: args, depth: depth})
	fr.vals[c] = &c23T{op: "call", s: cal.String(), args: args}
	return true
}

// condKey renders a condition in a canonical positive form; neg reports that the condition is the
// negation of the rendered form.
func (st *c23State) condKey(t *c23T) (string, bool) {
	switch {
	case t.op == "un" && t.s == "!":
		k, n := st.condKey(t.args[0])
		return k, !n
	case t.op == "bin" && t.s == "!=":
		return "(" + st.show(t.args[0]) + "==" + st.show(t.args[1]) + ")", true
	}
	return st.show(t), false
}

// decided: the truth value the path conditions already fix for t.
func (st *c23State) decided(t *c23T) (bool, bool) {
	k, n := st.condKey(t)
	for _, c := range st.conds {
		if ck, cn := st.condKey(c.t); ck == k {
			return (c.taken != cn) != n, true
		}
	}
	return false, false
}

// ---------------------------------------------------------------------------------------------
// evaluation of integer/boolean terms under a substitution of rendered atoms

func (st *c23State) evalInt(t *c23T, env map[string]int64) (int64, bool) {
	if n, ok := t.intVal(); ok {
		return n, true
	}
	if v, ok := env[st.show(t)]; ok {
		return v, true
	}
	switch t.op {
	case "conv":
		v, ok := st.evalInt(t.args[0], env)
		if !ok {
			return 0, false
		}
		switch t.s {
		case "uint8", "byte":
			return v & 0xff, true
		case "uint16":
			return v & 0xffff, true
		case "uint32":
			return v & 0xffffffff, true
		case "int", "int64", "uint", "uint64":
			return v, true
		case "int8":
			return int64(int8(v)), true
		case "int16":
			return int64(int16(v)), true
		case "int32":
			return int64(int32(v)), true
		}
	case "call":
		// big-endian 16-bit accessor over a whole read buffer: evaluated from the buffer's bytes
		if t.s == "encoding/binary.bigEndian.Uint16" && len(t.args) == 2 {
			b := st.show(t.args[1])
			hi, ok1 := env[b+"[0]"]
			lo, ok2 := env[b+"[1]"]
			if ok1 && ok2 {
				return hi<<8 | lo, true
			}
		}
	case "bin":
		a, ok1 := st.evalInt(t.args[0], env)
		b, ok2 := st.evalInt(t.args[1], env)
		if ok1 && ok2 {
			switch t.s {
			case "+":
				return a + b, true
			case "-":
				return a - b, true
			case "*":
				return a * b, true
			case "<<":
				if b >= 0 && b < 63 {
					return a << uint(b), true
				}
			case ">>":
				if b >= 0 && b < 63 {
					return a >> uint(b), true
				}
			case "|":
				return a | b, true
			case "&":
				return a & b, true
			case "^":
				return a ^ b, true
			}
		}
	}
	return 0, false
}

func (st *c23State) evalCond(t *c23T, env map[string]int64) (bool, bool) {
	if t.op == "un" && t.s == "!" {
		b, ok := st.evalCond(t.args[0], env)
		return !b, ok
	}
	if t.op != "bin" {
		return false, false
	}
	a, ok1 := st.evalInt(t.args[0], env)
	b, ok2 := st.evalInt(t.args[1], env)
	if !ok1 || !ok2 {
		return false, false
	}
	switch t.s {
	case "==":
		return a == b, true
	case "!=":
		return a != b, true
	case "<":
		return a < b, true
	case "<=":
		return a <= b, true
	case ">":
		return a > b, true
	case ">=":
		return a >= b, true
	}
	return false, false
}

// linT decomposes an integer term into constant + Σ k·atom (atoms keyed by their rendering).
func (st *c23State) linT(t *c23T) (int64, map[string]int64) {
	terms := map[string]int64{}
	var c int64
	var add func(t *c23T, k int64)
	add = func(t *c23T, k int64) {
		if n, ok := t.intVal(); ok {
			c += k * n
			return
		}
		if t.op == "bin" {
			switch t.s {
			case "+":
				add(t.args[0], k)
				add(t.args[1], k)
				return
			case "-":
				add(t.args[0], k)
				add(t.args[1], -k)
				return
			}
		}
		key := st.show(t)
		terms[key] += k
		if terms[key] == 0 {
			delete(terms, key)
		}
	}
	add(t, 1)
	return c, terms
}

// c23BoundTarget: f is a synthetic bound-method wrapper (h.method used as a value); returns the
// method it calls.
func c23BoundTarget(f *ssa.Function) (*ssa.Function, bool) {
	if f.Synthetic == "" || len(f.FreeVars) != 1 {
		return nil, false
	}
	for _, b := range f.Blocks {
		for _, in := range b.Instrs {
			if c, ok := in.(*ssa.Call); ok {
				if callee := c.Call.StaticCallee(); callee != nil {
					return callee, true
				}
			}
		}
	}
	return nil, false
}

func c23RecvName(f *ssa.Function) string {
	t := f.Signature.Recv().Type()
	if p, ok := t.(*types.Pointer); ok {
		t = p.Elem()
	}
	if n, ok := t.(*types.Named); ok {
		return n.Obj().Name()
	}
	return t.String()
}

// segsOf: the bytes of a slice term as segments: the individual bytes of a small literal /
// variadic pack whose elements are all known, otherwise one "bytes" segment.
func (st *c23State) segsOf(t *c23T) []c23Seg {
	if o, lo, hi, ok := st.resolveSlice(t); ok && !o.hasSegs && o.readNo < 0 {
		if z, isInt := lo.intVal(); isInt && z == 0 {
			n, known := int64(0), false
			if hi != nil {
				n, known = hi.intVal()
			} else if o.lenT != nil {
				n, known = o.lenT.intVal()
			}
			if known && n > 0 && n <= 32 {
				var out []c23Seg
				for i := int64(0); i < n; i++ {
					e, ok := o.elems[i]
					if !ok {
						if !o.zero {
							out = nil
							break
						}
						e = c23Int(0)
					}
					out = append(out, c23Seg{kind: "byte", t: e})
				}
				if out != nil && len(o.elems) > 0 {
					return out
				}
			}
		}
	}
	return []c23Seg{{kind: "bytes", t: t}}
}

// appendSegs models append(base, …) when the content of base is known as segments (it is empty,
// nil, or itself the result of such appends): the result is a new object that may share base's
// memory. Returns nil when base's content is not tracked.
func (st *c23State) appendSegs(base *c23T, add []c23Seg, addLen *c23T) *c23T {
	var prev []c23Seg
	root := -1
	var pooled *c23T
	switch {
	case base.isNil():
	default:
		o, lo, hi, ok := st.resolveSlice(base)
		if !ok {
			return nil
		}
		root, pooled = o.root, o.pooled
		if o.hasSegs {
			prev = o.segs
		} else {
			// only an empty prefix of a fresh buffer is a known (empty) content
			l := st.lenTerm(base)
			if n, isInt := l.intVal(); !isInt || n != 0 {
				return nil
			}
			_, _ = lo, hi
		}
	}
	baseLen := c23Int(0)
	if !base.isNil() {
		baseLen = st.lenTerm(base)
	}
	ot := st.newObj("bytes", c23BinFold(token.ADD, baseLen, addLen), nil)
	o2 := st.objs[int(ot.n)]
	o2.zero, o2.hasSegs, o2.pooled = false, true, pooled
	o2.segs = append(append([]c23Seg{}, prev...), add...)
	if root >= 0 {
		o2.root = root
	}
	return &c23T{op: "sl", args: []*c23T{ot, c23Int(0), nil}}
}
