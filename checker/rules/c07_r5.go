package rules

import (
	"fmt"
	"go/token"
	"go/types"
	"sort"

	"golang.org/x/tools/go/ssa"

	"mmverify/kit"
)

// Round-5 rules of C07: (R4) leftover (buffer, offset) cursor pairs of Read adapters stay consistent,
// (R5) write loops over a byte slice consume exactly what the writer accepted on every iteration.

// c07isReadShaped: fn is a method Read([]byte) (int, error).
func c07isIOShaped(fn *ssa.Function, name string) bool {
	sig := fn.Signature
	if sig.Recv() == nil || fn.Name() != name || sig.Params().Len() != 1 || sig.Results().Len() != 2 {
		return false
	}
	s, ok := sig.Params().At(0).Type().Underlying().(*types.Slice)
	if !ok {
		return false
	}
	b, ok := s.Elem().Underlying().(*types.Basic)
	return ok && b.Kind() == types.Uint8 && kit.IsErrorType(sig.Results().At(1).Type())
}

type c07pair struct{ buf, off *types.Var }

func (cx *c07ctx) ruleR4() {
	p, r := cx.p, cx.r
	r.Rule("C07.R4", "a leftover (buffer, offset) pair of a Read adapter stays consistent: every store of a new buffer is accompanied by a store that defines the offset for it, or every store that clears the buffer also resets the offset to 0")
	// pairs by role: X.buf[X.off:] inside an io.Reader-shaped Read method of a repository type
	pairs := map[c07pair]*ssa.Function{}
	for _, fn := range p.RepoFuncs() {
		if !c07isIOShaped(kit.TopLevel(fn), "Read") || kit.FuncPkgPath(fn) == kit.PkgPath("internal/protocol") {
			continue
		}
		kit.Instrs(fn, func(in ssa.Instruction) {
			s, ok := in.(*ssa.Slice)
			if !ok || s.Low == nil {
				return
			}
			bf, bbase := kit.LoadedField(s.X)
			of, obase := kit.LoadedField(s.Low)
			if bf == nil || of == nil || bbase != obase {
				return
			}
			if sl, ok := bf.Type().Underlying().(*types.Slice); !ok || g2basicIsByte(sl.Elem()) == false {
				return
			}
			if _, seen := pairs[c07pair{bf, of}]; !seen {
				pairs[c07pair{bf, of}] = fn
			}
		})
	}
	r.Count("leftover_cursor_pairs", len(pairs))
	var list []c07pair
	for pr := range pairs {
		list = append(list, pr)
	}
	sort.Slice(list, func(i, j int) bool { return list[i].buf.Pos() < list[j].buf.Pos() })
	for _, pr := range list {
		owner := kit.FuncName(pairs[pr])
		// defining store of the offset: its value does not depend on the old offset
		isDefining := func(st *ssa.Store) bool {
			dep := false
			var rec func(v ssa.Value, d int)
			rec = func(v ssa.Value, d int) {
				if v == nil || d > 6 {
					return
				}
				if f, _ := kit.LoadedField(v); f == pr.off {
					dep = true
				}
				switch t := v.(type) {
				case *ssa.BinOp:
					rec(t.X, d+1)
					rec(t.Y, d+1)
				case *ssa.Convert:
					rec(t.X, d+1)
				case *ssa.Phi:
					for _, e := range t.Edges {
						rec(e, d+1)
					}
				}
			}
			rec(st.Val, 0)
			return !dep
		}
		type bstore struct {
			fn     *ssa.Function
			st     *ssa.Store
			isNil  bool
			okDef  bool // accompanied by a defining offset store
			okZero bool // accompanied by offset = 0
		}
		var stores []bstore
		for _, acc := range p.FieldAccessesOfKind(pr.buf, kit.FieldStore) {
			st, ok := acc.Instr.(*ssa.Store)
			if !ok {
				continue
			}
			fn := acc.Fn
			var offStores []*ssa.Store
			kit.Instrs(fn, func(in ssa.Instruction) {
				if s2, ok := in.(*ssa.Store); ok {
					if fa, ok := s2.Addr.(*ssa.FieldAddr); ok && kit.FieldOfAddr(fa) == pr.off {
						offStores = append(offStores, s2)
					}
				}
			})
			accompanied := func(want func(*ssa.Store) bool) bool {
				avoid := map[ssa.Instruction]bool{}
				for _, o := range offStores {
					if !want(o) {
						continue
					}
					if kit.Precedes(o, st) && o.Block() == st.Block() {
						return true // set just before, in the same straight-line update
					}
					avoid[o] = true
				}
				if len(avoid) == 0 {
					return false
				}
				for _, ret := range kit.Returns(fn) {
					if kit.CanReachAvoiding(st, ret, avoid) {
						return false
					}
				}
				return true
			}
			bs := bstore{fn: fn, st: st, isNil: kit.IsNilConst(acc.Val)}
			bs.okDef = accompanied(isDefining)
			bs.okZero = accompanied(func(o *ssa.Store) bool {
				c, isc := kit.ConstInt(o.Val)
				return isc && c == 0
			})
			stores = append(stores, bs)
		}
		// composite literals / constructors that set only the buffer start with offset 0: fine
		allNewDefined, allNilZero := true, true
		for _, b := range stores {
			if b.isNil {
				if !b.okZero {
					allNilZero = false
				}
			} else if !b.okDef && !c07inConstructor(b.st) {
				allNewDefined = false
			}
		}
		ord := map[string]int{}
		for _, b := range stores {
			fname := kit.FuncName(b.fn)
			ord[fname]++
			key := fmt.Sprintf("%s.%s/%s store in %s #%d", owner, pr.buf.Name(), pr.off.Name(), fname, ord[fname])
			ok := allNewDefined || allNilZero
			if ok {
				r.OK("C07.R4", key, p.Pos(b.st.Pos()), "the pair stays consistent (new buffers get a defined offset, or clearing always resets the offset)")
				continue
			}
			// report the stores that break both disciplines
			bad := (b.isNil && !b.okZero) || (!b.isNil && !b.okDef && !c07inConstructor(b.st))
			r.Decide(!bad, "C07.R4", key, p.Pos(b.st.Pos()),
				"this store keeps its side of the pair consistent",
				fmt.Sprintf("%s is replaced here without (re)defining %s, and elsewhere the buffer is cleared without resetting it: a stale offset is applied to the next leftover and bytes of the stream are skipped or dropped", pr.buf.Name(), pr.off.Name()))
		}
	}
}

func g2basicIsByte(t types.Type) bool {
	b, ok := t.Underlying().(*types.Basic)
	return ok && b.Kind() == types.Uint8
}

// c07inConstructor: the store initialises a freshly allocated struct (composite literal / new).
func c07inConstructor(st *ssa.Store) bool {
	fa, ok := st.Addr.(*ssa.FieldAddr)
	if !ok {
		return false
	}
	_, isAlloc := fa.X.(*ssa.Alloc)
	return isAlloc
}

func (cx *c07ctx) ruleR5() {
	p, r := cx.p, cx.r
	r.Rule("C07.R5", "a loop that writes a loop-carried byte slice (or a slice at a loop-carried offset) with a Write([]byte)(int,error) call advances by exactly the accepted count n on every path that loops back after the write (an unchanged retry is allowed only when n is known to be 0)")
	nLoops := 0
	for _, fn := range p.RepoFuncs() {
		if fn.Blocks == nil {
			continue
		}
		hasWrite := false
		for _, c := range kit.Calls(fn) {
			if kit.CalleeOf(c).Name == "Write" {
				hasWrite = true
			}
		}
		if !hasWrite {
			continue
		}
		w := c05newWalker(nil, fn, nil)
		if len(w.loops) == 0 {
			continue
		}
		fname := kit.FuncName(fn)
		k := 0
		for _, c := range kit.Calls(fn) {
			call, ok := c.(*ssa.Call)
			if !ok || kit.CalleeOf(c).Name != "Write" {
				continue
			}
			sig := call.Call.Signature()
			if sig == nil || sig.Params().Len() != 1 || sig.Results().Len() != 2 || !kit.IsErrorType(sig.Results().At(1).Type()) {
				continue
			}
			arg := kit.Arg(call, 0)
			if arg == nil {
				continue
			}
			// the loop-carried variable: the slice itself or the offset it is cut at
			var carried *ssa.Phi
			offsetIdiom := false
			if ph, ok := arg.(*ssa.Phi); ok {
				carried = ph
			} else if sl, ok := arg.(*ssa.Slice); ok {
				if ph, ok := sl.X.(*ssa.Phi); ok && sl.Low == nil {
					carried = ph // data[:k] of the carried slice
				} else if ph, ok := sl.Low.(*ssa.Phi); ok {
					carried, offsetIdiom = ph, true
				}
			}
			if carried == nil {
				continue
			}
			h := carried.Block()
			body := w.loops[h]
			if body == nil || !body[call.Block()] {
				continue
			}
			n := kit.ExtractOf(call, 0)
			nLoops++
			k++
			isN := func(v ssa.Value) bool { return n != nil && g2stripConv(v) == n }
			bad, unknown := "", false
			for i, e := range carried.Edges {
				pred := h.Preds[i]
				if !h.Dominates(pred) || !body[pred] {
					continue
				}
				last := pred.Instrs[len(pred.Instrs)-1]
				if call.Block() != pred && !kit.CanReachAvoiding(call, last, map[ssa.Instruction]bool{h.Instrs[0]: true}) {
					continue // this back edge is not taken after the write
				}
				consumed := false
				if n != nil {
					if offsetIdiom {
						if b, ok := e.(*ssa.BinOp); ok && b.Op == token.ADD && ((b.X == ssa.Value(carried) && isN(b.Y)) || (b.Y == ssa.Value(carried) && isN(b.X))) {
							consumed = true
						}
					} else if sl, ok := e.(*ssa.Slice); ok && sl.X == ssa.Value(carried) && sl.High == nil && sl.Low != nil {
						if isN(sl.Low) {
							consumed = true
						} else {
							// advancing by the requested size k is the same once n < k has been excluded
							// (a short write returned an error) - n <= k by the Writer contract
							low := sl.Low
							isK := func(v ssa.Value) bool { return v == low }
							for _, g := range kit.Guards(pred) {
								if holds, rel := g2orderGuard(g, isN, isK, -1); rel && !holds {
									consumed = true
								}
							}
						}
					}
				}
				if consumed {
					continue
				}
				if e == ssa.Value(carried) {
					// unchanged retry: allowed only when nothing was accepted
					zero := false
					gs := kit.Guards(pred)
					if ifi, isIf := last.(*ssa.If); isIf && len(pred.Succs) == 2 && pred.Succs[0] != pred.Succs[1] {
						gs = append(gs, kit.Guard{Cond: ifi.Cond, Polarity: pred.Succs[0] == h, If: ifi})
					}
					for _, g := range gs {
						if ex, rel := g2guardExcludes(g, isN, 1); rel && ex {
							if ex2, rel2 := g2guardExcludes(g, isN, 1<<20); rel2 && ex2 {
								zero = true
							}
						}
					}
					if !zero {
						bad = p.Pos(last.Pos())
						if bad == "-" {
							bad = p.Pos(call.Pos())
						}
					}
					continue
				}
				unknown = true
			}
			key := fmt.Sprintf("%s write loop #%d", fname, k)
			if bad == "" && unknown {
				r.Infof("C07.R5", key, p.Pos(call.Pos()), "the loop variable is advanced in a form not recognised; not judged")
				continue
			}
			r.Decide(bad == "", "C07.R5", key, p.Pos(call.Pos()),
				"every path that loops back after the write advances by the accepted byte count",
				"a path loops back after this Write without advancing past the n bytes it accepted (and n is not known to be 0): the accepted prefix is written again and the peer receives duplicated bytes")
		}
	}
	r.Count("write_loops_over_carried_slices", nLoops)
}
