package rules

import (
	"fmt"
	"go/token"
	"go/types"

	"golang.org/x/tools/go/ssa"

	"mmverify/kit"
)

func init() {
	const f = "internal/peer/manager.go"
	register(&Check{
		ID: "C32", Level: "other", Patterns: []string{"./internal/peer"},
		Technique: "map write-set + dominating guards + lock regions + condition-consistent path search over go/ssa",
		Explain: "Decides, for peer.Manager, that the peers map is keyed by the connection's RemoteID and that an entry is inserted only on the key-absent edge of a lookup made in the same write-lock region (an existing registration is never replaced); that the goroutines that read frames / monitor a connection and the OnPeerConnected callback run only after that insertion (a rejected duplicate is inert); that a teardown reported by a connection deletes the entry only under `registered == this connection`, and that OnPeerDisconnect cannot be reached on any condition-consistent path that has not removed the registration first, and reports the connection that was removed. " +
			"Not decided: frames a transport delivers after Close; that the agent's cleanup is per peer id (it is what makes the notification clause necessary).",
		Run: runC32,
		SelfTests: []SelfTest{
			{Name: "existing registration overwritten (no return on the duplicate edge)", ExpectRule: "C32.R1", Edits: []Edit{
				{File: f, Old: "\t\t// This prevents connection churn when both sides connect simultaneously\n\t\tm.mu.Unlock()\n\t\tconn.Close()\n\t\treturn\n\t}\n", New: "\t\tm.logger.Debug(\"duplicate\")\n\t}\n"},
			}},
			{Name: "duplicate test inverted", ExpectRule: "C32.R1", Edits: []Edit{
				{File: f, Old: "\tif _, ok := m.peers[conn.RemoteID]; ok {\n\t\t// Keep the existing connection", New: "\tif _, ok := m.peers[conn.RemoteID]; !ok {\n\t\t// Keep the existing connection"},
			}},
			{Name: "lookup and insert in different critical sections", ExpectRule: "C32.R1", Edits: []Edit{
				{File: f, Old: "\tm.peers[conn.RemoteID] = conn\n\t// Add to the WaitGroup", New: "\tm.mu.Unlock()\n\tm.mu.Lock()\n\tm.peers[conn.RemoteID] = conn\n\t// Add to the WaitGroup"},
			}},
			{Name: "read loop started before the duplicate check", ExpectRule: "C32.R2", ExpectKey: "readLoop", Edits: []Edit{
				{File: f, Old: "\t// Check if we already have a connection to this peer\n\tif _, ok := m.peers[conn.RemoteID]; ok {", New: "\tgo m.readLoop(conn)\n\t// Check if we already have a connection to this peer\n\tif _, ok := m.peers[conn.RemoteID]; ok {"},
				{File: f, Old: "\tm.mu.Unlock()\n\n\tgo m.readLoop(conn)\n\tgo m.keepaliveLoop(conn)\n", New: "\tm.mu.Unlock()\n\n\tgo m.keepaliveLoop(conn)\n"},
			}},
			{Name: "connected callback also for the rejected duplicate", ExpectRule: "C32.R2", ExpectKey: "OnPeerConnected", Edits: []Edit{
				{File: f, Old: "\t\t// This prevents connection churn when both sides connect simultaneously\n\t\tm.mu.Unlock()\n\t\tconn.Close()\n\t\treturn\n", New: "\t\tm.mu.Unlock()\n\t\tconn.Close()\n\t\tif m.cfg.OnPeerConnected != nil {\n\t\t\tm.cfg.OnPeerConnected(conn)\n\t\t}\n\t\treturn\n"},
			}},
			{Name: "disconnect callback for every report (stale and repeated)", ExpectRule: "C32.R3", ExpectKey: "OnPeerDisconnect", Edits: []Edit{
				{File: f, Old: "\tif removed && m.cfg.OnPeerDisconnect != nil {", New: "\t_ = removed\n\tif m.cfg.OnPeerDisconnect != nil {"},
			}},
			{Name: "removed flag set on every path", ExpectRule: "C32.R3", ExpectKey: "OnPeerDisconnect", Edits: []Edit{
				{File: f, Old: "\t\tdelete(m.peers, conn.RemoteID)\n\t\tremoved = true\n\t}\n", New: "\t\tdelete(m.peers, conn.RemoteID)\n\t}\n\tremoved = true\n"},
			}},
			{Name: "teardown without identity check", ExpectRule: "C32.R3", ExpectKey: "delete", Edits: []Edit{
				{File: f, Old: "if existing, ok := m.peers[conn.RemoteID]; ok && existing == conn {", New: "if existing, ok := m.peers[conn.RemoteID]; ok && existing != nil {"},
			}},
			{Name: "identity check inverted", ExpectRule: "C32.R3", ExpectKey: "delete", Edits: []Edit{
				{File: f, Old: "if existing, ok := m.peers[conn.RemoteID]; ok && existing == conn {", New: "if existing, ok := m.peers[conn.RemoteID]; ok && existing != conn {"},
			}},
			{Name: "callback reports the registered connection instead of the removed one", ExpectRule: "C32.R3", ExpectKey: "OnPeerDisconnect", Edits: []Edit{
				{File: f, Old: "\tif removed && m.cfg.OnPeerDisconnect != nil {\n\t\tm.cfg.OnPeerDisconnect(conn, err)", New: "\tif removed && m.cfg.OnPeerDisconnect != nil {\n\t\tm.cfg.OnPeerDisconnect(m.GetPeer(conn.RemoteID), err)"},
			}},
			// round 2
			{Name: "keepalive failure tears the peer down by id", ExpectRule: "C32.R3", ExpectKey: "keepaliveLoop tears down by id", Edits: []Edit{
				{File: f, Old: "\t\t\t\tconn.Close()\n\t\t\t\tm.handleDisconnect(conn, fmt.Errorf(\"keepalive timeout\"))\n", New: "\t\t\t\tm.Disconnect(conn.RemoteID)\n"},
			}},
			{Name: "read loop tears the peer down by id through a wrapper", ExpectRule: "C32.R3", ExpectKey: "readLoop tears down by id", Edits: []Edit{
				{File: f, Old: "\t\t\tconn.Close()\n\t\t\tm.handleDisconnect(conn, err)\n\t\t\treturn\n\t\t}\n\n\t\tconn.updateActivity()", New: "\t\t\tm.dropPeer(conn.RemoteID)\n\t\t\treturn\n\t\t}\n\n\t\tconn.updateActivity()"},
				{File: f, Old: "// handleReconnect attempts to reconnect to a peer.", New: "func (m *Manager) dropPeer(id identity.AgentID) { _ = m.Disconnect(id) }\n\n// handleReconnect attempts to reconnect to a peer."},
			}},
			{Name: "duplicate check under the read lock, insert under the write lock without re-check", ExpectRule: "C32.R1", Edits: []Edit{
				{File: f, Old: "func (m *Manager) registerConnection(conn *Connection) {\n\tm.mu.Lock()\n", New: "func (m *Manager) registerConnection(conn *Connection) {\n\tm.mu.RLock()\n\t_, exists := m.peers[conn.RemoteID]\n\tm.mu.RUnlock()\n\tif exists {\n\t\tconn.Close()\n\t\treturn\n\t}\n\tm.mu.Lock()\n"},
				{File: f, Old: "\tif _, ok := m.peers[conn.RemoteID]; ok {\n\t\t// Keep the existing connection, close the new one\n\t\t// This prevents connection churn when both sides connect simultaneously\n\t\tm.mu.Unlock()\n\t\tconn.Close()\n\t\treturn\n\t}\n", New: ""},
			}},
			{Name: "identity test under the read lock, delete under the write lock", ExpectRule: "C32.R3", ExpectKey: "delete", Edits: []Edit{
				{File: f, Old: "func (m *Manager) handleDisconnect(conn *Connection, err error) {\n\tm.mu.Lock()\n", New: "func (m *Manager) handleDisconnect(conn *Connection, err error) {\n\tm.mu.RLock()\n\tmine := m.peers[conn.RemoteID] == conn\n\tm.mu.RUnlock()\n\tm.mu.Lock()\n"},
				{File: f, Old: "\tif existing, ok := m.peers[conn.RemoteID]; ok && existing == conn {\n\t\tdelete(m.peers, conn.RemoteID)", New: "\tif mine {\n\t\tdelete(m.peers, conn.RemoteID)"},
			}},
			{Name: "teardown compares peer ids instead of connection identity", ExpectRule: "C32.R3", ExpectKey: "delete", Edits: []Edit{
				{File: f, Old: "if existing, ok := m.peers[conn.RemoteID]; ok && existing == conn {", New: "if existing, ok := m.peers[conn.RemoteID]; ok && existing.RemoteID == conn.RemoteID {"},
			}},
			{Name: "rewrite: by-id disconnect of a connection that was just looked up by that id", Edits: []Edit{
				{File: f, Old: "// handleReconnect attempts to reconnect to a peer.", New: "func (m *Manager) dropIfIdle(id identity.AgentID) {\n\tif c := m.GetPeer(id); c != nil && c.State() != StateConnected {\n\t\t_ = m.Disconnect(id)\n\t}\n}\n\n// handleReconnect attempts to reconnect to a peer."},
			}},
			// round 3: refactoring classes
			{Name: "rewrite: locked part of registration in admit(conn) bool with deferred unlock", Edits: []Edit{
				{File: f, Old: "func (m *Manager) registerConnection(conn *Connection) {\n\tm.mu.Lock()\n", New: "func (m *Manager) admit(conn *Connection) bool {\n\tm.mu.Lock()\n\tdefer m.mu.Unlock()\n"},
				{File: f, Old: "\tcase <-m.ctx.Done():\n\t\tm.mu.Unlock()\n\t\tconn.Close()\n\t\treturn\n\tdefault:", New: "\tcase <-m.ctx.Done():\n\t\treturn false\n\tdefault:"},
				{File: f, Old: "\t\t// This prevents connection churn when both sides connect simultaneously\n\t\tm.mu.Unlock()\n\t\tconn.Close()\n\t\treturn\n\t}\n", New: "\t\treturn false\n\t}\n"},
				{File: f, Old: "\tm.wg.Add(2)\n\tm.mu.Unlock()\n\n\tgo m.readLoop(conn)\n", New: "\tm.wg.Add(2)\n\treturn true\n}\n\nfunc (m *Manager) registerConnection(conn *Connection) {\n\tif !m.admit(conn) {\n\t\tconn.Close()\n\t\treturn\n\t}\n\n\tgo m.readLoop(conn)\n"},
			}},
			{Name: "admit helper that reports success for a duplicate", ExpectRule: "C32.R2", Edits: []Edit{
				{File: f, Old: "func (m *Manager) registerConnection(conn *Connection) {\n\tm.mu.Lock()\n", New: "func (m *Manager) admit(conn *Connection) bool {\n\tm.mu.Lock()\n\tdefer m.mu.Unlock()\n"},
				{File: f, Old: "\tcase <-m.ctx.Done():\n\t\tm.mu.Unlock()\n\t\tconn.Close()\n\t\treturn\n\tdefault:", New: "\tcase <-m.ctx.Done():\n\t\treturn false\n\tdefault:"},
				{File: f, Old: "\t\t// This prevents connection churn when both sides connect simultaneously\n\t\tm.mu.Unlock()\n\t\tconn.Close()\n\t\treturn\n\t}\n", New: "\t\treturn true\n\t}\n"},
				{File: f, Old: "\tm.wg.Add(2)\n\tm.mu.Unlock()\n\n\tgo m.readLoop(conn)\n", New: "\tm.wg.Add(2)\n\treturn true\n}\n\nfunc (m *Manager) registerConnection(conn *Connection) {\n\tif !m.admit(conn) {\n\t\tconn.Close()\n\t\treturn\n\t}\n\n\tgo m.readLoop(conn)\n"},
			}},
			{Name: "rewrite: locked part of teardown in evict(conn) with named results and deferred unlock", Edits: []Edit{
				{File: f, Old: "func (m *Manager) handleDisconnect(conn *Connection, err error) {\n\tm.mu.Lock()\n\t// Remove from peers map if this is still the active connection\n\tremoved := false\n", New: "func (m *Manager) evict(conn *Connection) (removed bool, configAddr string, peerInfo *PeerInfo) {\n\tm.mu.Lock()\n\tdefer m.mu.Unlock()\n"},
				{File: f, Old: "\tvar peerInfo *PeerInfo\n\tconfigAddr := conn.ConfigAddr()\n", New: "\tconfigAddr = conn.ConfigAddr()\n"},
				{File: f, Old: "\t\tpeerInfo = m.peerInfos[configAddr]\n\t}\n\tm.mu.Unlock()\n", New: "\t\tpeerInfo = m.peerInfos[configAddr]\n\t}\n\treturn removed, configAddr, peerInfo\n}\n\nfunc (m *Manager) handleDisconnect(conn *Connection, err error) {\n\tremoved, configAddr, peerInfo := m.evict(conn)\n"},
			}},
			{Name: "evict helper that reports a removal it did not make (named result)", ExpectRule: "C32.R3", ExpectKey: "OnPeerDisconnect", Edits: []Edit{
				{File: f, Old: "func (m *Manager) handleDisconnect(conn *Connection, err error) {\n\tm.mu.Lock()\n\t// Remove from peers map if this is still the active connection\n\tremoved := false\n", New: "func (m *Manager) evict(conn *Connection) (removed bool, configAddr string, peerInfo *PeerInfo) {\n\tm.mu.Lock()\n\tdefer m.mu.Unlock()\n\tremoved = true\n"},
				{File: f, Old: "\t\tdelete(m.peers, conn.RemoteID)\n\t\tremoved = true\n", New: "\t\tdelete(m.peers, conn.RemoteID)\n"},
				{File: f, Old: "\tvar peerInfo *PeerInfo\n\tconfigAddr := conn.ConfigAddr()\n", New: "\tconfigAddr = conn.ConfigAddr()\n"},
				{File: f, Old: "\t\tpeerInfo = m.peerInfos[configAddr]\n\t}\n\tm.mu.Unlock()\n", New: "\t\tpeerInfo = m.peerInfos[configAddr]\n\t}\n\treturn removed, configAddr, peerInfo\n}\n\nfunc (m *Manager) handleDisconnect(conn *Connection, err error) {\n\tremoved, configAddr, peerInfo := m.evict(conn)\n"},
			}},
			{Name: "rewrite: negated stale flag (De Morgan) instead of removed", Edits: []Edit{
				{File: f, Old: "\tremoved := false\n\tif existing, ok := m.peers[conn.RemoteID]; ok && existing == conn {\n\t\tdelete(m.peers, conn.RemoteID)\n\t\tremoved = true\n\t}\n", New: "\tregistered, found := m.peers[conn.RemoteID]\n\tstale := !found || registered != conn\n\tif !stale {\n\t\tdelete(m.peers, conn.RemoteID)\n\t}\n"},
				{File: f, Old: "\tif removed && m.cfg.OnPeerDisconnect != nil {\n\t\tm.cfg.OnPeerDisconnect(conn, err)", New: "\tif notify := m.cfg.OnPeerDisconnect; notify != nil && !stale {\n\t\tnotify(conn, err)"},
			}},
			{Name: "rewrite: accepted flag and a single rejection exit in registerConnection", Edits: []Edit{
				{File: f, Old: "\tif _, ok := m.peers[conn.RemoteID]; ok {\n\t\t// Keep the existing connection, close the new one\n\t\t// This prevents connection churn when both sides connect simultaneously\n\t\tm.mu.Unlock()\n\t\tconn.Close()\n\t\treturn\n\t}\n\tm.peers[conn.RemoteID] = conn\n", New: "\taccepted := false\n\tif _, duplicate := m.peers[conn.RemoteID]; !duplicate {\n\t\taccepted = true\n\t}\n\tif !accepted {\n\t\tm.mu.Unlock()\n\t\tconn.Close()\n\t\treturn\n\t}\n\tm.peers[conn.RemoteID] = conn\n"},
			}},
			{Name: "rewrite: DisconnectAll takes the peers through a helper that always swaps the map", Edits: []Edit{
				{File: f, Old: "func (m *Manager) DisconnectAll() error {\n\tm.mu.Lock()\n", New: "func (m *Manager) takeAllPeers() []*Connection {\n\tm.mu.Lock()\n\tdefer m.mu.Unlock()\n"},
				{File: f, Old: "\tm.peers = make(map[identity.AgentID]*Connection)\n\tm.mu.Unlock()\n\n\t// Stop reconnector temporarily to prevent immediate reconnection\n", New: "\tm.peers = make(map[identity.AgentID]*Connection)\n\treturn conns\n}\n\nfunc (m *Manager) DisconnectAll() error {\n\tconns := m.takeAllPeers()\n\n\t// Stop reconnector temporarily to prevent immediate reconnection\n"},
			}},
			// rewrites
			{Name: "rewrite: stale teardown returns early, delete dominates the callback", Edits: []Edit{
				{File: f, Old: "\tremoved := false\n\tif existing, ok := m.peers[conn.RemoteID]; ok && existing == conn {\n\t\tdelete(m.peers, conn.RemoteID)\n\t\tremoved = true\n\t}\n", New: "\tremoved := true\n\tif existing := m.peers[conn.RemoteID]; conn != existing {\n\t\tm.mu.Unlock()\n\t\treturn\n\t}\n\tdelete(m.peers, conn.RemoteID)\n"},
			}},
			{Name: "rewrite: duplicate detected by nil test of the looked-up value", Edits: []Edit{
				{File: f, Old: "\tif _, ok := m.peers[conn.RemoteID]; ok {\n\t\t// Keep the existing connection", New: "\tif existing := m.peers[conn.RemoteID]; nil != existing {\n\t\t// Keep the existing connection"},
			}},
			{Name: "rewrite: notification extracted into a helper", Edits: []Edit{
				{File: f, Old: "\tif removed && m.cfg.OnPeerDisconnect != nil {\n\t\tm.cfg.OnPeerDisconnect(conn, err)\n\t}\n", New: "\tif removed {\n\t\tm.notifyGone(conn, err)\n\t}\n"},
				{File: f, Old: "// handleReconnect attempts to reconnect to a peer.", New: "func (m *Manager) notifyGone(conn *Connection, err error) {\n\tif cb := m.cfg.OnPeerDisconnect; cb != nil {\n\t\tcb(conn, err)\n\t}\n}\n\n// handleReconnect attempts to reconnect to a peer."},
			}},
			{Name: "rewrite: removal in a helper that reports whether it removed", Edits: []Edit{
				{File: f, Old: "\tremoved := false\n\tif existing, ok := m.peers[conn.RemoteID]; ok && existing == conn {\n\t\tdelete(m.peers, conn.RemoteID)\n\t\tremoved = true\n\t}\n", New: "\tremoved := m.unregisterLocked(conn)\n"},
				{File: f, Old: "// handleReconnect attempts to reconnect to a peer.", New: "func (m *Manager) unregisterLocked(conn *Connection) bool {\n\tif m.peers[conn.RemoteID] != conn {\n\t\treturn false\n\t}\n\tdelete(m.peers, conn.RemoteID)\n\treturn true\n}\n\n// handleReconnect attempts to reconnect to a peer."},
			}},
			{Name: "helper reports a removal it did not make", ExpectRule: "C32.R3", ExpectKey: "OnPeerDisconnect", Edits: []Edit{
				{File: f, Old: "\tremoved := false\n\tif existing, ok := m.peers[conn.RemoteID]; ok && existing == conn {\n\t\tdelete(m.peers, conn.RemoteID)\n\t\tremoved = true\n\t}\n", New: "\tremoved := m.unregisterLocked(conn)\n"},
				{File: f, Old: "// handleReconnect attempts to reconnect to a peer.", New: "func (m *Manager) unregisterLocked(conn *Connection) bool {\n\tif m.peers[conn.RemoteID] == conn {\n\t\tdelete(m.peers, conn.RemoteID)\n\t}\n\treturn true\n}\n\n// handleReconnect attempts to reconnect to a peer."},
			}},
			{Name: "rewrite: loops started from a helper called after registration", Edits: []Edit{
				{File: f, Old: "\tm.mu.Unlock()\n\n\tgo m.readLoop(conn)\n\tgo m.keepaliveLoop(conn)\n", New: "\tm.mu.Unlock()\n\n\tm.startLoops(conn)\n"},
				{File: f, Old: "// handleReconnect attempts to reconnect to a peer.", New: "func (m *Manager) startLoops(conn *Connection) {\n\tgo m.readLoop(conn)\n\tgo m.keepaliveLoop(conn)\n}\n\n// handleReconnect attempts to reconnect to a peer."},
			}},
		},
	})
}

type c32ctx struct {
	p                       *kit.Program
	r                       *kit.Report
	peers, mu               *types.Var
	remoteID                *types.Var
	onDisc, onConn          *types.Var
	connT                   *types.Named
	inserts, deletes, repls []kit.FieldAccess
}

// sameKey: two map keys denote the same value (same SSA value, or loads of the same field of
// the same base value).
func c32SameKey(a, b ssa.Value) bool {
	if a == b {
		return true
	}
	fa, ba := kit.LoadedField(a)
	fb, bb := kit.LoadedField(b)
	return fa != nil && fa == fb && ba == bb
}

// lookupOf: if v is the value (#0) or the ok flag (#1) of a lookup in the peers map, returns
// the lookup and which result v is.
func (cx *c32ctx) lookupOf(v ssa.Value) (*ssa.Lookup, int) {
	switch x := v.(type) {
	case *ssa.Lookup:
		if !x.CommaOk && cx.isPeersMap(x.X) {
			return x, 0
		}
	case *ssa.Extract:
		if l, ok := x.Tuple.(*ssa.Lookup); ok && l.CommaOk && cx.isPeersMap(l.X) {
			return l, x.Index
		}
	}
	return nil, -1
}

func (cx *c32ctx) isPeersMap(v ssa.Value) bool {
	for _, leaf := range kit.PhiLeaves(v) {
		if f, _ := kit.LoadedField(leaf); f == cx.peers {
			return true
		}
	}
	return false
}

// absentGuard: cond==pol establishes that key is absent from peers. Returns the lookup.
func (cx *c32ctx) absentGuard(cond ssa.Value, pol bool, key ssa.Value) *ssa.Lookup {
	for {
		u, ok := cond.(*ssa.UnOp)
		if !ok || u.Op != token.NOT {
			break
		}
		cond, pol = u.X, !pol
	}
	// `accepted` flag: every edge of the phi that can produce pol must establish absence
	if ph, isPhi := cond.(*ssa.Phi); isPhi {
		var lk *ssa.Lookup
		for i, e := range ph.Edges {
			bv, isC := kit.ConstBool(e)
			if isC && bv != pol {
				continue
			}
			var l *ssa.Lookup
			if !isC {
				l = cx.absentGuard(e, pol, key)
			}
			if l == nil {
				for _, g := range kit.EdgeGuards(ph.Block().Preds[i], ph.Block()) {
					if l2 := cx.absentGuard(g.Cond, g.Polarity, key); l2 != nil {
						l = l2
						break
					}
				}
			}
			if l == nil {
				return nil
			}
			lk = l
		}
		return lk
	}
	if l, idx := cx.lookupOf(cond); l != nil && idx == 1 && !pol && c32SameKey(l.Index, key) {
		return l
	}
	if b, ok := cond.(*ssa.BinOp); ok && (b.Op == token.EQL || b.Op == token.NEQ) {
		other := b.X
		if kit.IsNilConst(b.X) {
			other = b.Y
		} else if !kit.IsNilConst(b.Y) {
			return nil
		}
		if l, idx := cx.lookupOf(other); l != nil && idx == 0 && c32SameKey(l.Index, key) {
			if (b.Op == token.EQL) == pol { // value == nil holds
				return l
			}
		}
	}
	return nil
}

// identityGuard: cond==pol establishes `peers[key] == x`. Returns the lookup and x.
func (cx *c32ctx) identityGuard(cond ssa.Value, pol bool, key ssa.Value) (*ssa.Lookup, ssa.Value) {
	for {
		u, ok := cond.(*ssa.UnOp)
		if !ok || u.Op != token.NOT {
			break
		}
		cond, pol = u.X, !pol
	}
	// `stale := !found || registered != conn` as a value: every edge that can produce pol must imply it
	if ph, isPhi := cond.(*ssa.Phi); isPhi {
		var lk *ssa.Lookup
		var x ssa.Value
		for i, e := range ph.Edges {
			if bv, isC := kit.ConstBool(e); isC && bv != pol {
				continue
			}
			l, xv := cx.identityGuard(e, pol, key)
			if l == nil {
				// the edge itself may be guarded (a && b lowered to branches)
				for _, g := range kit.EdgeGuards(ph.Block().Preds[i], ph.Block()) {
					if l2, x2 := cx.identityGuard(g.Cond, g.Polarity, key); l2 != nil {
						l, xv = l2, x2
						break
					}
				}
			}
			if l == nil || (x != nil && xv != x) {
				return nil, nil
			}
			lk, x = l, xv
		}
		return lk, x
	}
	b, ok := cond.(*ssa.BinOp)
	if !ok || (b.Op != token.EQL && b.Op != token.NEQ) || (b.Op == token.EQL) != pol {
		return nil, nil
	}
	for _, pr := range [][2]ssa.Value{{b.X, b.Y}, {b.Y, b.X}} {
		if l, idx := cx.lookupOf(pr[0]); l != nil && idx == 0 && c32SameKey(l.Index, key) && !kit.IsNilConst(pr[1]) {
			return l, pr[1]
		}
	}
	return nil, nil
}

// writeRegion: a and b are in one region of the manager mutex acquired with Lock (not RLock).
func (cx *c32ctx) writeRegion(fn *ssa.Function, a, b ssa.Instruction) bool {
	li := kit.Locks(fn)
	acq, held := li.HeldAt(b, cx.mu)
	if !held {
		// "...Locked" helper: no lock operation of its own, the write lock is held at every call site
		for _, op := range li.Ops {
			if op.Mutex == cx.mu {
				return false
			}
		}
		callers := cx.p.StaticCallers(fn)
		if fn.Parent() != nil || len(callers) == 0 {
			return false
		}
		for _, c := range callers {
			cacq, cheld := kit.Locks(c.Parent()).HeldAt(c, cx.mu)
			if !cheld || cacq == nil {
				return false
			}
			if lc, ok := cacq.(ssa.CallInstruction); !ok || kit.CalleeOf(lc).Name != "Lock" {
				return false
			}
		}
		return true
	}
	if acq == nil {
		return false
	}
	if c, ok := acq.(ssa.CallInstruction); !ok || kit.CalleeOf(c).Name != "Lock" {
		return false
	}
	return a == b || li.SameRegion(a, b, cx.mu)
}

func runC32(p *kit.Program, r *kit.Report) {
	r.Rule("C32.R1", "the peers map is keyed by the inserted connection's RemoteID; every insertion is guarded by the key-absent edge of a lookup of the same key made in the same write-lock region; the map is otherwise only replaced by a fresh empty map")
	r.Rule("C32.R2", "every start (`go`) of a Manager goroutine that takes the connection, and every OnPeerConnected call, is dominated by the insertion of that connection into peers (directly, or at each call site of the helper that contains it)")
	r.Rule("C32.R3", "a delete from peers keyed by a reporting connection's RemoteID is guarded by `peers[id] == that connection` in the same write-lock region; no condition-consistent path reaches an OnPeerDisconnect call without a removal from peers before it; the callback reports the connection that was removed")
	cx := &c32ctx{p: p, r: r}
	mgr := p.NamedType("internal/peer", "Manager")
	cx.connT = p.NamedType("internal/peer", "Connection")
	if !r.Require(mgr != nil && cx.connT != nil, "anchor-unresolved: types peer.Manager / peer.Connection") {
		return
	}
	for _, f := range kit.StructFields(mgr) {
		switch t := f.Type().(type) {
		case *types.Map:
			if pt, ok := t.Elem().(*types.Pointer); ok && types.Identical(pt.Elem(), cx.connT) {
				cx.peers = f
			}
		case *types.Named:
			if t.Obj().Pkg() != nil && t.Obj().Pkg().Path() == "sync" && (t.Obj().Name() == "RWMutex" || t.Obj().Name() == "Mutex") {
				cx.mu = f
			}
		}
	}
	cx.remoteID = p.Field("internal/peer", "Connection", "RemoteID")
	cx.onDisc = p.Field("internal/peer", "ManagerConfig", "OnPeerDisconnect")
	cx.onConn = p.Field("internal/peer", "ManagerConfig", "OnPeerConnected")
	r.Require(cx.peers != nil, "anchor-unresolved: map[...]*Connection field of peer.Manager")
	r.Require(cx.mu != nil, "anchor-unresolved: mutex field of peer.Manager")
	r.Require(cx.remoteID != nil, "anchor-unresolved: field peer.Connection.RemoteID")
	r.Require(cx.onDisc != nil && cx.onConn != nil, "anchor-unresolved: ManagerConfig.OnPeerDisconnect / OnPeerConnected")
	if len(r.Floors) > 0 {
		return
	}
	cx.inserts = p.FieldAccessesOfKind(cx.peers, kit.MapInsert)
	cx.deletes = p.FieldAccessesOfKind(cx.peers, kit.MapDelete, kit.FieldClear)
	cx.repls = p.FieldAccessesOfKind(cx.peers, kit.FieldStore, kit.FieldAddrUse)
	r.Count("peers_inserts", len(cx.inserts))
	r.Count("peers_deletes", len(cx.deletes))
	r.Count("peers_replacements", len(cx.repls))
	r.Require(len(cx.inserts) >= 1, "floor: no insertion into Manager.peers found")
	r.Require(len(cx.deletes) >= 1, "floor: no deletion from Manager.peers found")

	// ---- R1
	insertOf := map[*ssa.Function][]kit.FieldAccess{}
	ord := map[string]int{}
	for _, acc := range cx.inserts {
		insertOf[acc.Fn] = append(insertOf[acc.Fn], acc)
		fname := kit.FuncName(acc.Fn)
		ord[fname]++
		key := fmt.Sprintf("%s insert into peers #%d", fname, ord[fname])
		pos := p.Pos(acc.Instr.Pos())
		kf, kbase := kit.LoadedField(acc.Key)
		r.Decide(kf == cx.remoteID && kbase == acc.Val, "C32.R1", key+" key", pos,
			"keyed by the inserted connection's RemoteID",
			"the entry is not keyed by the inserted connection's RemoteID: two connections of one peer identity can be registered side by side")
		var lk *ssa.Lookup
		for _, g := range kit.GuardsOf(acc.Instr) {
			if l := cx.absentGuard(g.Cond, g.Polarity, acc.Key); l != nil {
				lk = l
				break
			}
		}
		switch {
		case lk == nil:
			r.Violation("C32.R1", key+" guard", pos, "the insertion is not guarded by the key-absent edge of a lookup of the same key: a simultaneous second connection replaces the registered one, whose loops keep running (two live connections, stale teardown later)")
		case !cx.writeRegion(acc.Fn, lk, acc.Instr):
			r.Violation("C32.R1", key+" guard", pos, "the absence test at %s and the insertion are not in one write-lock region of the manager mutex: two concurrent registrations for one peer both pass the test", p.Pos(lk.Pos()))
		default:
			r.OK("C32.R1", key+" guard", pos, "guarded by the absent edge of the lookup at %s in the same write-lock region", p.Pos(lk.Pos()))
		}
	}
	ord = map[string]int{}
	for _, acc := range cx.repls {
		fname := kit.FuncName(acc.Fn)
		ord[fname]++
		key := fmt.Sprintf("%s replaces peers #%d", fname, ord[fname])
		_, fresh := acc.Val.(*ssa.MakeMap)
		r.Decide(acc.Kind == kit.FieldStore && fresh, "C32.R1", key, p.Pos(acc.Instr.Pos()), "peers replaced by a fresh empty map",
			"the peers map is replaced by (or aliased to) something other than a fresh empty map: registrations appear without the uniqueness test")
	}

	// ---- R2
	isMgrFn := func(fn *ssa.Function) bool {
		fn = kit.TopLevel(fn)
		return fn.Signature.Recv() != nil && kit.FuncPkgPath(fn) == kit.PkgPath("internal/peer") && c32RecvIs(fn, mgr)
	}
	type start struct {
		in   ssa.Instruction
		fn   *ssa.Function
		conn ssa.Value
		what string
	}
	var starts []start
	for _, fn := range p.FuncsInPkg("internal/peer") {
		if !isMgrFn(fn) {
			continue
		}
		for _, c := range kit.Calls(fn) {
			cc := c.Common()
			if g, ok := c.(*ssa.Go); ok {
				cal := kit.CalleeOf(g)
				if cal.Static == nil || !isMgrFn(cal.Static) {
					continue
				}
				for _, a := range cc.Args {
					if c32IsConnPtr(a.Type(), cx.connT) {
						starts = append(starts, start{g, fn, a, "go " + cal.Name})
						break
					}
				}
				continue
			}
			if !cc.IsInvoke() {
				if lf, _ := kit.LoadedField(cc.Value); lf == cx.onConn && len(cc.Args) > 0 {
					starts = append(starts, start{c, fn, cc.Args[0], "OnPeerConnected call"})
				}
			}
		}
	}
	r.Count("connection_goroutine_starts_and_connected_callbacks", len(starts))
	r.Require(len(starts) >= 2, "floor: expected at least one goroutine start taking a *Connection and one OnPeerConnected call in peer.Manager (found %d)", len(starts))
	// insertsParam: helper h returns true (result idx) only on paths that inserted its parameter pi
	insertsParam := func(h *ssa.Function, idx, pi int) bool {
		if pi >= len(h.Params) || len(insertOf[h]) == 0 {
			return false
		}
		isIns := func(in ssa.Instruction) bool {
			for _, ins := range insertOf[h] {
				if ins.Instr == in && ins.Val == ssa.Value(h.Params[pi]) {
					return true
				}
			}
			return false
		}
		n := 0
		for _, ret := range kit.Returns(h) {
			if ret.Block() == h.Recover || idx >= len(ret.Results) {
				continue
			}
			res := kit.ReturnResult(ret, idx)
			if b, ok := kit.ConstBool(res); ok && !b {
				continue
			}
			n++
			if _, found := kit.PathAvoidingIf(h, ret, isIns, res, true); found {
				return false
			}
		}
		return n > 0
	}
	// dominatedByInsert: no condition-consistent path reaches site without the insertion of conn
	// (dominance, an `accepted` flag set next to the insertion), or site is guarded by the true
	// result of a helper that returns true only after inserting the connection it was given
	dominatedByInsert := func(fn *ssa.Function, site ssa.Instruction, conn ssa.Value) bool {
		var mine []ssa.Instruction
		for _, ins := range insertOf[fn] {
			if conn == nil || ins.Val == conn {
				mine = append(mine, ins.Instr)
			}
		}
		if len(mine) > 0 {
			if _, found := kit.PathAvoiding(fn, site, func(in ssa.Instruction) bool {
				for _, m := range mine {
					if m == in {
						return true
					}
				}
				return false
			}); !found {
				return true
			}
		}
		for _, g := range kit.GuardsOf(site) {
			cond, pol := g.Cond, g.Polarity
			for {
				u, ok := cond.(*ssa.UnOp)
				if !ok || u.Op != token.NOT {
					break
				}
				cond, pol = u.X, !pol
			}
			call, idx, ok := kit.ResultOf(cond)
			if !ok || !pol {
				continue
			}
			cal := kit.CalleeOf(call)
			if cal.Static == nil || cal.Static.Blocks == nil {
				continue
			}
			for pi, a := range call.Call.Args {
				if (conn == nil || a == conn) && c32IsConnPtr(a.Type(), cx.connT) && insertsParam(cal.Static, idx, pi) {
					return true
				}
			}
		}
		return false
	}
	ord = map[string]int{}
	for _, s := range starts {
		k := kit.FuncName(s.fn) + " " + s.what
		ord[k]++
		key := fmt.Sprintf("%s #%d", k, ord[k])
		ok := dominatedByInsert(s.fn, s.in, s.conn)
		how := "dominated by the insertion of the same connection into peers"
		if !ok && s.fn.Parent() == nil && len(insertOf[s.fn]) == 0 {
			// helper: every call site must be dominated by the insertion of the argument bound to conn
			callers := p.StaticCallers(s.fn)
			idx := -1
			for i, prm := range s.fn.Params {
				if ssa.Value(prm) == s.conn {
					idx = i
				}
			}
			if len(callers) > 0 && idx >= 0 {
				all := true
				for _, c := range callers {
					if _, isCall := c.(*ssa.Call); !isCall || !dominatedByInsert(c.Parent(), c, c.Common().Args[idx]) {
						all = false
					}
				}
				if all {
					ok, how = true, fmt.Sprintf("helper; each of its %d call site(s) is dominated by the insertion", len(callers))
				}
			}
		}
		r.Decide(ok, "C32.R2", key, p.Pos(s.in.Pos()), how,
			"runs for a connection that has not been inserted into peers: a rejected duplicate delivers frames / is reported as connected, and its later teardown is a stale teardown for the live connection's peer id")
	}

	// ---- R3a deletes
	type identDel struct {
		acc kit.FieldAccess
		x   ssa.Value // connection compared with the registered one
	}
	idDel := map[ssa.Instruction]identDel{}
	ord = map[string]int{}
	for _, acc := range cx.deletes {
		fname := kit.FuncName(acc.Fn)
		ord[fname]++
		key := fmt.Sprintf("%s delete from peers #%d", fname, ord[fname])
		pos := p.Pos(acc.Instr.Pos())
		if acc.Kind == kit.FieldClear {
			r.OK("C32.R3", key, pos, "whole map cleared")
			continue
		}
		kf, kbase := kit.LoadedField(acc.Key)
		reporting := kf == cx.remoteID && kbase != nil && c32IsConnPtr(kbase.Type(), cx.connT)
		if !reporting {
			_, held := kit.Locks(acc.Fn).HeldAt(acc.Instr, cx.mu)
			r.Decide(held, "C32.R3", key, pos, "delete by peer id (not on behalf of a reporting connection), under the manager mutex",
				"peers is modified without holding the manager mutex")
			// A by-id teardown acts on whatever connection is registered now. It must not be invoked
			// on behalf of one particular connection (id taken from that connection): that is a
			// teardown without the identity check, one call away.
			cx.byIDCallers(acc.Fn, acc.Key, kit.FuncName(acc.Fn), 0, map[*ssa.Function]bool{})
			continue
		}
		var lk *ssa.Lookup
		var x ssa.Value
		for _, g := range kit.GuardsOf(acc.Instr) {
			if l, xv := cx.identityGuard(g.Cond, g.Polarity, acc.Key); l != nil && xv == kbase {
				lk, x = l, xv
				break
			}
		}
		switch {
		case lk == nil:
			r.Violation("C32.R3", key, pos, "the registration is deleted on behalf of a reporting connection without the test `peers[id] == that connection`: the teardown of a replaced (stale) connection unregisters the live one")
		case !cx.writeRegion(acc.Fn, lk, acc.Instr):
			r.Violation("C32.R3", key, pos, "the identity test at %s and the delete are not in one write-lock region: a reconnect between them is unregistered", p.Pos(lk.Pos()))
		default:
			idDel[acc.Instr] = identDel{acc, x}
			r.OK("C32.R3", key, pos, "guarded by peers[id] == conn (lookup at %s) in the same write-lock region", p.Pos(lk.Pos()))
		}
	}

	// ---- R3b disconnect notifications
	directRemovals := func(fn *ssa.Function) map[ssa.Instruction]bool {
		out := map[ssa.Instruction]bool{}
		for _, acc := range cx.deletes {
			if acc.Fn == fn {
				out[acc.Instr] = true
			}
		}
		for _, acc := range cx.repls {
			if acc.Fn == fn && acc.Kind == kit.FieldStore {
				out[acc.Instr] = true
			}
		}
		return out
	}
	// alwaysRemoves: every return of helper u is preceded by a removal (takeAllPeers)
	alwaysMemo := map[*ssa.Function]bool{}
	alwaysRemoves := func(u *ssa.Function) bool {
		if v, ok := alwaysMemo[u]; ok {
			return v
		}
		rem := directRemovals(u)
		res := len(rem) > 0
		n := 0
		for _, ret := range kit.Returns(u) {
			if ret.Block() == u.Recover {
				continue
			}
			n++
			if _, found := kit.PathAvoiding(u, ret, func(in ssa.Instruction) bool { return rem[in] }); found {
				res = false
			}
		}
		res = res && n > 0
		alwaysMemo[u] = res
		return res
	}
	removalIn := func(fn *ssa.Function) map[ssa.Instruction]bool {
		out := directRemovals(fn)
		for _, c := range kit.Calls(fn) {
			if _, isCall := c.(*ssa.Call); !isCall {
				continue
			}
			if cal := kit.CalleeOf(c); cal.Static != nil && cal.Static != fn && cal.Static.Blocks != nil && kit.FuncPkgPath(cal.Static) == kit.PkgPath("internal/peer") && alwaysRemoves(cal.Static) {
				out[c] = true
			}
		}
		return out
	}
	// trueOnlyAfterRemoval: helper u returns true (result idx) only on paths that removed a registration
	trueOnlyAfterRemoval := func(u *ssa.Function, idx int) bool {
		rem := removalIn(u)
		if len(rem) == 0 {
			return false
		}
		for _, ret := range kit.Returns(u) {
			if ret.Block() == u.Recover || idx >= len(ret.Results) {
				continue
			}
			res := kit.ReturnResult(ret, idx)
			if b, ok := kit.ConstBool(res); ok && !b {
				continue
			}
			if _, found := kit.PathAvoidingIf(u, ret, func(in ssa.Instruction) bool { return rem[in] }, res, true); found {
				return false
			}
		}
		return true
	}
	viaHelper := map[ssa.Instruction]*ssa.Call{}
	mustFollowRemoval := func(fn *ssa.Function, site ssa.Instruction) (bool, string) {
		// the removal may be performed by a helper that reports it: `if m.unregister(conn) { notify }`
		for _, g := range kit.GuardsOf(site) {
			cond, pol := g.Cond, g.Polarity
			for {
				u, ok := cond.(*ssa.UnOp)
				if !ok || u.Op != token.NOT {
					break
				}
				cond, pol = u.X, !pol
			}
			if call, idx, ok := kit.ResultOf(cond); ok && pol {
				if cal := kit.CalleeOf(call); cal.Static != nil && cal.Static.Blocks != nil && kit.FuncPkgPath(cal.Static) == kit.PkgPath("internal/peer") && trueOnlyAfterRemoval(cal.Static, idx) {
					viaHelper[site] = call
					return true, "guarded by the result of " + kit.FuncName(cal.Static) + ", which is true only after it removed the registration"
				}
			}
		}
		rem := removalIn(fn)
		if len(rem) == 0 {
			return false, "no removal from peers in " + kit.FuncName(fn)
		}
		path, found := kit.PathAvoiding(fn, site, func(in ssa.Instruction) bool { return rem[in] })
		if found {
			s := ""
			for _, b := range path {
				s += fmt.Sprintf(" %d", b.Index)
			}
			return false, "reachable without a removal from peers (blocks" + s + ")"
		}
		return true, "every path to it removes the registration first"
	}
	ord = map[string]int{}
	nDisc := 0
	for _, fn := range p.FuncsInPkg("internal/peer") {
		for _, c := range kit.Calls(fn) {
			cc := c.Common()
			if cc.IsInvoke() {
				continue
			}
			if lf, _ := kit.LoadedField(cc.Value); lf != cx.onDisc {
				continue
			}
			nDisc++
			fname := kit.FuncName(fn)
			ord[fname]++
			key := fmt.Sprintf("%s OnPeerDisconnect call #%d", fname, ord[fname])
			pos := p.Pos(c.Pos())
			ok, how := mustFollowRemoval(fn, c)
			var argConn ssa.Value
			if len(cc.Args) > 0 {
				argConn = cc.Args[0]
			}
			owner, ownerSite := fn, ssa.Instruction(c)
			if !ok && fn.Parent() == nil && len(removalIn(fn)) == 0 {
				// helper: lift to its call sites
				callers := p.StaticCallers(fn)
				idx := -1
				for i, prm := range fn.Params {
					if ssa.Value(prm) == argConn {
						idx = i
					}
				}
				if len(callers) > 0 {
					all := true
					for _, cs := range callers {
						if _, isCall := cs.(*ssa.Call); !isCall {
							all = false
							continue
						}
						if o, _ := mustFollowRemoval(cs.Parent(), cs); !o {
							all = false
						}
					}
					if all {
						ok, how = true, fmt.Sprintf("helper; at each of its %d call site(s) every path removes the registration first", len(callers))
						if len(callers) == 1 && idx >= 0 {
							owner, ownerSite = callers[0].Parent(), callers[0]
							argConn = callers[0].Common().Args[idx]
						} else {
							argConn = nil
						}
					}
				}
			}
			if !ok {
				r.Violation("C32.R3", key, pos, "OnPeerDisconnect is %s: a second report (read loop and keepalive loop both report) or the report of a stale connection reaches the agent, which removes the routes and relays of the peer's live connection", how)
				continue
			}
			// which connection is reported?
			argOK, argWhy := true, ""
			if hc := viaHelper[c]; hc != nil && argConn != nil {
				// the reported connection must be the one handed to the removing helper
				seen := false
				for _, a := range hc.Call.Args {
					if a == argConn {
						seen = true
					}
				}
				// ... or the connection the removing helper handed back (takePeer)
				if c2, _, isRes := kit.ResultOf(argConn); isRes && c2 == hc {
					seen = true
				}
				if !seen {
					argOK, argWhy = false, "the reported connection is not the one handed to the helper that removed the registration"
				}
			} else if argConn != nil {
				for in := range removalIn(owner) {
					d, isDel := idDel[in]
					if !isDel {
						// delete by id or whole-map replacement: the reported connection must come out of peers
						if acc := c32accOf(cx.deletes, in); acc != nil && acc.Kind == kit.MapDelete {
							if l, idx := cx.lookupOf(argConn); l == nil || idx != 0 || !c32SameKey(l.Index, acc.Key) {
								argOK, argWhy = false, "the reported connection is not the value looked up under the deleted key"
							}
						}
						continue
					}
					if argConn != d.x {
						argOK, argWhy = false, "the reported connection is not the one compared with the registration"
					}
				}
			}
			_ = ownerSite
			if !argOK {
				r.Violation("C32.R3", key, pos, "OnPeerDisconnect follows a removal but %s: the agent is told about a connection that was not the one unregistered", argWhy)
				continue
			}
			r.OK("C32.R3", key, pos, "%s", how)
		}
	}
	r.Count("disconnect_notification_sites", nDisc)
	r.Require(nDisc >= 1, "floor: no invocation of ManagerConfig.OnPeerDisconnect found in internal/peer")
}

// byIDCallers: fn removes the registration stored under `key`; if key is a parameter of fn, every
// call site that passes `X.RemoteID` of a connection X is a teardown of "whatever is registered
// under X's id" on behalf of X.
func (cx *c32ctx) byIDCallers(fn *ssa.Function, key ssa.Value, via string, depth int, seen map[*ssa.Function]bool) {
	if depth > 2 || fn.Parent() != nil || seen[fn] {
		return
	}
	seen[fn] = true
	idx := -1
	for i, prm := range fn.Params {
		if ssa.Value(prm) == key {
			idx = i
		}
	}
	if idx < 0 {
		return
	}
	n := 0
	for _, c := range cx.p.StaticCallers(fn) {
		args := c.Common().Args
		if idx >= len(args) {
			continue
		}
		a := args[idx]
		if kf, kbase := kit.LoadedField(a); kf == cx.remoteID && kbase != nil && c32IsConnPtr(kbase.Type(), cx.connT) {
			// the id of a connection just looked up under that very id is the by-id contract itself
			if l, li := cx.lookupOf(kbase); l != nil && li == 0 {
				continue
			}
			n++
			cx.r.Violation("C32.R3", fmt.Sprintf("%s tears down by id via %s #%d", kit.FuncName(c.Parent()), via, n), cx.p.Pos(c.Pos()),
				"the registration is removed by peer id on behalf of one particular connection (id taken from that connection) without the test `peers[id] == that connection`: when that connection is stale, the peer's live connection is unregistered, closed and reported as disconnected")
			continue
		}
		cx.byIDCallers(c.Parent(), a, via, depth+1, seen)
	}
}

func c32accOf(list []kit.FieldAccess, in ssa.Instruction) *kit.FieldAccess {
	for i := range list {
		if list[i].Instr == in {
			return &list[i]
		}
	}
	return nil
}

func c32IsConnPtr(t types.Type, conn *types.Named) bool {
	pt, ok := t.(*types.Pointer)
	return ok && types.Identical(pt.Elem(), conn)
}

func c32RecvIs(fn *ssa.Function, n *types.Named) bool {
	rt := fn.Signature.Recv().Type()
	if pt, ok := rt.(*types.Pointer); ok {
		rt = pt.Elem()
	}
	return types.Identical(rt, n)
}
