package rules

import (
	"fmt"
	"go/token"
	"go/types"

	"golang.org/x/tools/go/ssa"

	"mmverify/kit"
)

func init() {
	register(&Check{
		ID: "C01", Level: "other", Patterns: []string{"./internal/crypto"},
		Explain: "Decides, on every CFG path of the SessionKey method that calls cipher.AEAD.Open, that receive state is committed only after authentication succeeded, that rejection paths are side-effect free, that the received nonce's direction byte is compared with the expected receive direction before Open, that a counter below the expected one is rejected and the committed counter is received+1, and that check, Open and commit share one mutex region. AEAD unforgeability is trusted.",
		Run:     runC01,
		SelfTests: []SelfTest{
			{Name: "commit before Open", ExpectRule: "C01.R1", Edits: []Edit{
				{File: "internal/crypto/crypto.go", Old: "\t// Authenticated: advance the expected counter past this message.\n\ts.recvNonce = nonceValue + 1\n", New: ""},
				{File: "internal/crypto/crypto.go", Old: "\tplaintext, err := aead.Open(", New: "\ts.recvNonce = nonceValue + 1\n\tplaintext, err := aead.Open("},
			}},
			{Name: "direction comparison dropped", ExpectRule: "C01.R3", Edits: []Edit{
				{File: "internal/crypto/crypto.go", Old: "if !bytes.Equal(nonce[:4], expectedNonce[:4]) {", New: "if !bytes.Equal(expectedNonce[:4], expectedNonce[:4]) {"},
			}},
			{Name: "direction compared on counter bytes only", ExpectRule: "C01.R3", Edits: []Edit{
				{File: "internal/crypto/crypto.go", Old: "if !bytes.Equal(nonce[:4], expectedNonce[:4]) {", New: "if !bytes.Equal(nonce[1:4], expectedNonce[1:4]) {"},
			}},
			{Name: "one replay tolerated", ExpectRule: "C01.R4", Edits: []Edit{
				{File: "internal/crypto/crypto.go", Old: "if nonceValue < s.recvNonce {", New: "if nonceValue+1 < s.recvNonce {"},
			}},
			{Name: "counter not advanced past the message", ExpectRule: "C01.R4", Edits: []Edit{
				{File: "internal/crypto/crypto.go", Old: "s.recvNonce = nonceValue + 1\n", New: "s.recvNonce = nonceValue\n"},
			}},
			{Name: "commit in a separate critical section after Open", ExpectRule: "C01.R5", Edits: []Edit{
				{File: "internal/crypto/crypto.go", Old: "\ts.mu.Lock()\n\tdefer s.mu.Unlock()\n\n\t// The direction prefix", New: "\ts.mu.Lock()\n\n\t// The direction prefix"},
				{File: "internal/crypto/crypto.go", Old: "\t\treturn nil, fmt.Errorf(\"nonce direction mismatch\")", New: "\t\ts.mu.Unlock()\n\t\treturn nil, fmt.Errorf(\"nonce direction mismatch\")"},
				{File: "internal/crypto/crypto.go", Old: "\t\treturn nil, fmt.Errorf(\"nonce too old: received %d, expected >= %d\", nonceValue, s.recvNonce)\n\t}\n", New: "\t\ts.mu.Unlock()\n\t\treturn nil, fmt.Errorf(\"nonce too old\")\n\t}\n\ts.mu.Unlock()\n"},
				{File: "internal/crypto/crypto.go", Old: "\t// Authenticated: advance the expected counter past this message.\n\ts.recvNonce = nonceValue + 1\n", New: "\ts.mu.Lock()\n\ts.recvNonce = nonceValue + 1\n\ts.mu.Unlock()\n"},
			}},
			{Name: "rewrite: direction byte compared by index", Edits: []Edit{
				{File: "internal/crypto/crypto.go", Old: "if !bytes.Equal(nonce[:4], expectedNonce[:4]) {", New: "if nonce[0] != expectedNonce[0] || !bytes.Equal(nonce[1:4], expectedNonce[1:4]) {"},
			}},
			{Name: "rewrite: role consulted directly", Edits: []Edit{
				{File: "internal/crypto/crypto.go", Old: "if !bytes.Equal(nonce[:4], expectedNonce[:4]) {", New: "if (nonce[0] == 0x80) != s.isInitiator || !bytes.Equal(nonce[1:4], expectedNonce[1:4]) {"},
			}},
		},
	})
}

// cryptoCtx gathers the role-resolved anchors of internal/crypto shared by C01 and C02.
type cryptoCtx struct {
	p        *kit.Program
	sk       *types.Named
	fields   map[*types.Var]bool
	mu       *types.Var
	isInit   *types.Var
	decrypt  *ssa.Function
	encrypt  *ssa.Function
	openCall *ssa.Call
	sealCall *ssa.Call
	methods  []*ssa.Function
	dirIdx   map[int64]uint8 // byte index of the nonce written under a role branch -> bits set there
}

func isAEADCall(c ssa.CallInstruction, name string) bool {
	cal := kit.CalleeOf(c)
	return cal.Iface && cal.Pkg == "crypto/cipher" && cal.Recv == "AEAD" && cal.Name == name
}

func newCryptoCtx(p *kit.Program, r *kit.Report) *cryptoCtx {
	cx := &cryptoCtx{p: p, fields: map[*types.Var]bool{}, dirIdx: map[int64]uint8{}}
	cx.sk = p.NamedType("internal/crypto", "SessionKey")
	if !r.Require(cx.sk != nil, "anchor-unresolved: type internal/crypto.SessionKey") {
		return nil
	}
	for _, f := range kit.StructFields(cx.sk) {
		cx.fields[f] = true
		if n, ok := f.Type().(*types.Named); ok && n.Obj().Pkg() != nil && n.Obj().Pkg().Path() == "sync" {
			cx.mu = f
		}
		if b, ok := f.Type().(*types.Basic); ok && b.Kind() == types.Bool {
			cx.isInit = f
		}
	}
	cx.methods = p.Methods("internal/crypto", "SessionKey")
	for _, m := range cx.methods {
		for _, c := range kit.Calls(m) {
			if isAEADCall(c, "Open") {
				cx.decrypt = m
				cx.openCall, _ = c.(*ssa.Call)
			}
			if isAEADCall(c, "Seal") {
				cx.encrypt = m
				cx.sealCall, _ = c.(*ssa.Call)
			}
		}
	}
	r.Require(cx.decrypt != nil && cx.openCall != nil, "anchor-unresolved: SessionKey method calling cipher.AEAD.Open")
	r.Require(cx.encrypt != nil && cx.sealCall != nil, "anchor-unresolved: SessionKey method calling cipher.AEAD.Seal")
	r.Require(cx.mu != nil, "anchor-unresolved: sync mutex field of SessionKey")
	r.Require(cx.isInit != nil, "anchor-unresolved: bool role field of SessionKey")
	if len(r.Floors) > 0 {
		return nil
	}
	// direction byte indices: stores into a nonce array element under a branch on the role field
	for _, m := range cx.methods {
		kit.Instrs(m, func(in ssa.Instruction) {
			st, ok := in.(*ssa.Store)
			if !ok {
				return
			}
			ia, ok := st.Addr.(*ssa.IndexAddr)
			if !ok {
				return
			}
			idx, ok := kit.ConstInt(ia.Index)
			if !ok {
				return
			}
			for _, g := range kit.GuardsOf(in) {
				if cx.readsField(g.Cond, cx.isInit) {
					v, _ := kit.ConstInt(st.Val)
					if v == 0 {
						v = 0xff
					}
					cx.dirIdx[idx] |= uint8(v)
				}
			}
		})
	}
	r.Require(len(cx.dirIdx) > 0, "anchor-unresolved: no nonce byte is written under a branch on the role field")
	return cx
}

// readsField: the expression tree of v contains a load of field f.
func (cx *cryptoCtx) readsField(v ssa.Value, f *types.Var) bool {
	_, leaves := kit.ExprReads(v)
	for _, l := range leaves {
		if lf, _ := kit.LoadedField(l); lf == f {
			return true
		}
	}
	return false
}

// methodReads: method m (a SessionKey method) loads field f somewhere.
func (cx *cryptoCtx) methodReads(m *ssa.Function, f *types.Var) bool {
	found := false
	kit.Instrs(m, func(in ssa.Instruction) {
		if v, ok := in.(ssa.Value); ok {
			if lf, _ := kit.LoadedField(v); lf == f {
				found = true
			}
			// the field's address handed to sync/atomic counts as a read as well
			if fa, ok := v.(*ssa.FieldAddr); ok && kit.FieldOfAddr(fa) == f && fa.Referrers() != nil {
				for _, ref := range *fa.Referrers() {
					if c, ok := ref.(ssa.CallInstruction); ok && kit.CalleeOf(c).Pkg == "sync/atomic" {
						found = true
					}
				}
			}
		}
	})
	return found
}

func (cx *cryptoCtx) isSKMethod(f *ssa.Function) bool {
	for _, m := range cx.methods {
		if m == f {
			return true
		}
	}
	return false
}

// skFieldStores lists stores to SessionKey fields in fn and, one level deep, in SessionKey
// methods fn calls.
func (cx *cryptoCtx) skFieldStores(fn *ssa.Function) (direct []*ssa.Store, viaCall map[ssa.CallInstruction][]*ssa.Store) {
	viaCall = map[ssa.CallInstruction][]*ssa.Store{}
	collect := func(f *ssa.Function) []*ssa.Store {
		var out []*ssa.Store
		kit.Instrs(f, func(in ssa.Instruction) {
			if st, ok := in.(*ssa.Store); ok {
				if fa, ok := st.Addr.(*ssa.FieldAddr); ok && cx.fields[kit.FieldOfAddr(fa)] {
					out = append(out, st)
				}
			}
		})
		return out
	}
	direct = collect(fn)
	for _, c := range kit.Calls(fn) {
		if cal := kit.CalleeOf(c); cal.Static != nil && cx.isSKMethod(cal.Static) && cal.Static != fn {
			if s := collect(cal.Static); len(s) > 0 {
				viaCall[c] = s
			}
		}
	}
	return
}

func runC01(p *kit.Program, r *kit.Report) {
	r.Rule("C01.R1", "every store to a SessionKey field on the receive path is dominated by the err==nil edge of cipher.AEAD.Open (commit after authentication)")
	r.Rule("C01.R2", "no return of a non-nil error is reachable after a store to a SessionKey field (rejection is side-effect free)")
	r.Rule("C01.R3", "a guard dominating Open compares the direction byte of the received nonce with the expected receive direction (role field) and rejects on mismatch")
	r.Rule("C01.R4", "a guard dominating Open rejects a received counter below the expected counter; the committed counter is received+k, k>=1")
	r.Rule("C01.R5", "the expected-counter read, Open and the commit lie in one region of the SessionKey mutex")
	cx := newCryptoCtx(p, r)
	if cx == nil {
		return
	}
	fn := cx.decrypt
	open := cx.openCall
	errOpen := kit.ErrResultOf(open)
	r.Count("functions_analysed", 1+len(cx.methods))
	fname := kit.FuncName(fn)

	// ---- R1 / R2
	direct, via := cx.skFieldStores(fn)
	type site struct {
		in    ssa.Instruction
		field string
		val   ssa.Value
		fld   *types.Var
	}
	var sites []site
	for _, st := range direct {
		f := kit.FieldOfAddr(st.Addr.(*ssa.FieldAddr))
		sites = append(sites, site{st, f.Name(), st.Val, f})
	}
	for c, ss := range via {
		for _, st := range ss {
			f := kit.FieldOfAddr(st.Addr.(*ssa.FieldAddr))
			sites = append(sites, site{c, f.Name() + " via " + kit.CalleeOf(c).Name, nil, f})
		}
	}
	r.Count("session_state_stores_on_receive_path", len(sites))
	ord := map[string]int{}
	var commitStores []site
	for _, s := range sites {
		ord[s.field]++
		key := fmt.Sprintf("%s store %s #%d", fname, s.field, ord[s.field])
		pos := p.Pos(s.in.Pos())
		ok := errOpen != nil && kit.Precedes(open, s.in) && kit.ErrNilOn(kit.GuardsOf(s.in), errOpen)
		r.Decide(ok, "C01.R1", key, pos,
			"store happens only on the err==nil edge of AEAD.Open",
			"receive state is modified before/without successful AEAD.Open: a forged frame changes what is accepted afterwards")
		// R2
		bad := ""
		for _, ret := range kit.Returns(fn) {
			if !kit.CanReach(s.in, ret) {
				continue
			}
			if ret.Block() == fn.Recover {
				continue // panic recovery exit, not a rejection path
			}
			if !kit.ReturnsNilError(ret) {
				bad = p.Pos(ret.Pos())
			}
		}
		r.Decide(bad == "", "C01.R2", key, pos, "every return reachable after the store returns a nil error",
			"an error return at "+bad+" is reachable after this store (rejected input leaves a side effect)")
		commitStores = append(commitStores, s)
	}

	// ---- classify buffers in Decrypt
	var param ssa.Value
	if len(fn.Params) >= 2 {
		param = fn.Params[1]
	}
	received := map[ssa.Value]bool{}
	expected := map[ssa.Value]bool{}
	if param != nil {
		received[param] = true
	}
	kit.Instrs(fn, func(in ssa.Instruction) {
		switch x := in.(type) {
		case ssa.CallInstruction:
			if kit.CalleeOf(x).Built == "copy" {
				args := x.Common().Args
				dst, ok1 := kit.AddrRange(args[0])
				src, ok2 := kit.AddrRange(args[1])
				if ok1 && ok2 && src.Root == param && src.Lo == 0 {
					received[dst.Root] = true
				}
			}
		case *ssa.Store:
			if a, ok := x.Addr.(*ssa.Alloc); ok {
				if c, _, ok := kit.ResultOf(x.Val); ok {
					if cal := kit.CalleeOf(c); cal.Static != nil && cx.isSKMethod(cal.Static) && cx.methodReads(cal.Static, cx.isInit) {
						expected[a] = true
					}
				}
			}
		}
	})
	guards := kit.GuardsOf(open)
	r.Count("guards_dominating_open", len(guards))

	// ---- R3 direction
	dirOK, dirDetail := false, "no guard dominating AEAD.Open relates the received nonce's direction byte to the role field"
	for _, g := range guards {
		deps := kit.BitDepsOf(g.Cond)
		recvCover, expCover := false, false
		isRecv := func(v ssa.Value) bool { return received[v] }
		isExp := func(v ssa.Value) bool { return expected[v] }
		for idx, mask := range cx.dirIdx {
			if deps.DependsOnBits(isRecv, idx, mask) {
				recvCover = true
			}
			if deps.DependsOnBits(isExp, idx, mask) {
				expCover = true
			}
		}
		for _, l := range deps.Leaves {
			if lf, _ := kit.LoadedField(l); lf == cx.isInit {
				expCover = true
			}
			if c, ok := l.(*ssa.Call); ok {
				if cal := kit.CalleeOf(c); cal.Static != nil && cx.isSKMethod(cal.Static) && cx.methodReads(cal.Static, cx.isInit) {
					expCover = true
				}
			}
		}
		if recvCover && expCover {
			// polarity: the edge leading to Open must be the "equal" one when decidable
			if eq, known := equalityPolarity(g.Cond); known && eq != g.Polarity {
				dirDetail = "direction comparison at " + p.Pos(g.If.Pos()) + " proceeds to Open on the mismatch edge"
				continue
			}
			dirOK, dirDetail = true, "direction compared at "+p.Pos(g.If.Pos())
			break
		}
	}
	r.Decide(dirOK, "C01.R3", fname+" direction guard", p.Pos(open.Pos()), dirDetail,
		dirDetail+": a frame reflected back to its sender authenticates (same key, own send nonce) and is accepted")

	// ---- R4 freshness + R5 region
	var recvNonceFld *types.Var
	for _, s := range commitStores {
		if b, ok := s.fld.Type().(*types.Basic); ok && b.Kind() == types.Uint64 {
			recvNonceFld = s.fld
		}
	}
	if recvNonceFld == nil {
		r.Violation("C01.R4", fname+" counter commit", p.Pos(fn.Pos()), "the receive path never advances a uint64 counter field: every authenticated frame can be replayed")
		return
	}
	freshOK, freshDetail := false, "no guard dominating AEAD.Open rejects a received counter below the expected counter ("+recvNonceFld.Name()+")"
	var expInstr ssa.Instruction
	var recvCounter ssa.Value
	lastIdx := int64(11)
	for _, g := range guards {
		b, ok := g.Cond.(*ssa.BinOp)
		if !ok {
			continue
		}
		switch b.Op {
		case token.LSS, token.LEQ, token.GTR, token.GEQ:
		default:
			continue
		}
		side := func(v ssa.Value) (isRecv, isExp bool, ei ssa.Instruction) {
			ranges, leaves := kit.ExprReads(v)
			for _, rg := range ranges {
				if received[rg.Root] && rg.Covers(lastIdx) {
					isRecv = true
				}
				if expected[rg.Root] && rg.Covers(lastIdx) {
					// expected nonce built by a method that reads the counter field
					isExp = true
					kit.Instrs(fn, func(in ssa.Instruction) {
						if st, ok := in.(*ssa.Store); ok && st.Addr == rg.Root {
							if c, _, ok := kit.ResultOf(st.Val); ok {
								if cal := kit.CalleeOf(c); cal.Static != nil && cx.methodReads(cal.Static, recvNonceFld) {
									ei = c
								}
							}
						}
					})
					if ei == nil {
						isExp = false
					}
				}
			}
			for _, l := range leaves {
				if lf, _ := kit.LoadedField(l); lf == recvNonceFld {
					isExp = true
					ei = l.(ssa.Instruction)
				}
			}
			return
		}
		xr, xe, xi := side(b.X)
		yr, ye, yi := side(b.Y)
		// the received side must be the counter itself, not an arithmetic adjustment of it
		if _, arith := b.X.(*ssa.BinOp); arith && xr {
			continue
		}
		if _, arith := b.Y.(*ssa.BinOp); arith && yr {
			continue
		}
		var op token.Token
		switch {
		case xr && ye && !xe && !yr:
			op, expInstr, recvCounter = b.Op, yi, b.X
		case yr && xe && !ye && !xr:
			op, expInstr, recvCounter = flipCmp(b.Op), xi, b.Y
		default:
			continue
		}
		// evaluate "received OP expected" on the three orderings; proceed iff result == polarity
		proceedLess := cmpHolds(op, -1) == g.Polarity
		proceedEq := cmpHolds(op, 0) == g.Polarity
		if proceedLess {
			freshDetail = "counter guard at " + p.Pos(g.If.Pos()) + " lets a counter below the expected one through"
			continue
		}
		freshOK = true
		freshDetail = fmt.Sprintf("counter guard at %s: received<expected rejected, received==expected proceeds=%v", p.Pos(g.If.Pos()), proceedEq)
		break
	}
	r.Decide(freshOK, "C01.R4", fname+" freshness guard", p.Pos(open.Pos()), freshDetail,
		freshDetail+": an already accepted frame can be replayed")
	// committed value = received + k
	for _, s := range commitStores {
		if s.fld != recvNonceFld || s.val == nil {
			continue
		}
		ok := false
		if b, isb := s.val.(*ssa.BinOp); isb && b.Op == token.ADD {
			if k, isc := kit.ConstInt(b.Y); isc && k >= 1 && recvCounter != nil && sameExpr(b.X, recvCounter) {
				ok = true
			}
		}
		r.Decide(ok, "C01.R4", fname+" committed counter value", p.Pos(s.in.Pos()),
			"committed counter is the received counter plus a positive constant",
			"the committed counter is not received+k (k>=1): the accepted frame, or older ones, remain acceptable")
	}
	// R5
	li := kit.Locks(fn)
	for _, s := range commitStores {
		if s.fld != recvNonceFld {
			continue
		}
		ok := expInstr != nil && li.SameRegion(expInstr, s.in, cx.mu)
		if ok {
			// Open must be inside the region too, unless the commit precedes Open (then the
			// check-and-commit region alone is atomic; R1 judges that ordering separately).
			if _, held := li.HeldAt(open, cx.mu); !held && !kit.Precedes(s.in, open) {
				ok = false
			}
		}
		r.Decide(ok, "C01.R5", fname+" atomic check-open-commit", p.Pos(s.in.Pos()),
			"expected-counter read, Open and commit are in one mutex region",
			"the freshness check and the commit are not in one critical section with Open: two concurrent deliveries of one frame can both be accepted")
	}
}

func flipCmp(op token.Token) token.Token {
	switch op {
	case token.LSS:
		return token.GTR
	case token.LEQ:
		return token.GEQ
	case token.GTR:
		return token.LSS
	case token.GEQ:
		return token.LEQ
	}
	return op
}

// cmpHolds evaluates "x OP y" when sign(x-y) = ord (-1, 0, +1).
func cmpHolds(op token.Token, ord int) bool {
	switch op {
	case token.LSS:
		return ord < 0
	case token.LEQ:
		return ord <= 0
	case token.GTR:
		return ord > 0
	case token.GEQ:
		return ord >= 0
	case token.EQL:
		return ord == 0
	case token.NEQ:
		return ord != 0
	}
	return false
}

// equalityPolarity: for conditions of the form a==b, a!=b, bytes.Equal(a,b), !bytes.Equal(a,b)
// returns whether cond==true means "equal".
func equalityPolarity(cond ssa.Value) (trueMeansEqual, known bool) {
	neg := false
	for {
		if u, ok := cond.(*ssa.UnOp); ok && u.Op == token.NOT {
			neg = !neg
			cond = u.X
			continue
		}
		break
	}
	switch x := cond.(type) {
	case *ssa.BinOp:
		if x.Op == token.EQL {
			return !neg, true
		}
		if x.Op == token.NEQ {
			return neg, true
		}
	case *ssa.Call:
		cal := kit.CalleeOf(x)
		if cal.Name == "Equal" || cal.Name == "ConstantTimeCompare" {
			return !neg, cal.Name == "Equal"
		}
	}
	return false, false
}

// sameExpr: structural equality of two pure SSA expressions (same value, or same op over same operands).
func sameExpr(a, b ssa.Value) bool {
	if a == b {
		return true
	}
	switch x := a.(type) {
	case *ssa.Call:
		y, ok := b.(*ssa.Call)
		if !ok || kit.CalleeOf(x).String() != kit.CalleeOf(y).String() || len(x.Call.Args) != len(y.Call.Args) {
			return false
		}
		for i := range x.Call.Args {
			ra, ok1 := kit.AddrRange(x.Call.Args[i])
			rb, ok2 := kit.AddrRange(y.Call.Args[i])
			if ok1 && ok2 && ra == rb {
				continue
			}
			if !sameExpr(x.Call.Args[i], y.Call.Args[i]) {
				return false
			}
		}
		return true
	case *ssa.UnOp:
		y, ok := b.(*ssa.UnOp)
		return ok && x.Op == y.Op && sameExpr(x.X, y.X) && x.Op != token.MUL
	case *ssa.Convert:
		y, ok := b.(*ssa.Convert)
		return ok && sameExpr(x.X, y.X)
	}
	return false
}
