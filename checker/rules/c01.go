package rules

import (
	"fmt"
	"go/ast"
	"go/token"
	"go/types"
	"sort"
	"strings"

	"golang.org/x/tools/go/ssa"

	"mmverify/kit"
)

func init() {
	register(&Check{
		ID: "C01", Level: "other", Patterns: []string{"./internal/crypto"},
		Explain:   "Decides, over every path of the exported SessionKey method that (through any helpers) reaches cipher.AEAD.Open, evaluated together with its callees over an abstract domain (role and nonce prefix concrete, counters symbolic with one version per critical section): receive state is stored only after Open succeeded, a path that stores never returns an error, a frame carrying the prefix this end itself sends with is never accepted, a frame whose counter is below the expected counter current in the committing critical section is never accepted, and every accepted frame commits received+k (k>=1) in that same critical section. AEAD unforgeability is trusted.",
		Technique: "path-enumerating abstract evaluation of the SSA (bytes/counters symbolic, versions per lock region)",
		Run:       runC01,
		SelfTests: []SelfTest{
			{Name: "commit before Open", ExpectRule: "C01.R1", Edits: []Edit{
				{File: "internal/crypto/crypto.go", Old: "\t// Authenticated: advance the expected counter past this message.\n\ts.recvNonce = nonceValue + 1\n", New: ""},
				{File: "internal/crypto/crypto.go", Old: "\tplaintext, err := aead.Open(", New: "\ts.recvNonce = nonceValue + 1\n\tplaintext, err := aead.Open("},
			}},
			{Name: "direction comparison dropped", ExpectRule: "C01.R3", Edits: []Edit{
				{File: "internal/crypto/crypto.go", Old: "if !bytes.Equal(nonce[:4], expectedNonce[:4]) {", New: "if !bytes.Equal(expectedNonce[:4], expectedNonce[:4]) {"},
			}},
			{Name: "direction compared on counter bytes only", ExpectRule: "C01.R3", Edits: []Edit{
				{File: "internal/crypto/crypto.go", Old: "if !bytes.Equal(nonce[:4], expectedNonce[:4]) {", New: "if !bytes.Equal(nonce[1:4], expectedNonce[1:4]) {"},
			}},
			{Name: "direction mask on the wrong byte", ExpectRule: "C01.R3", Edits: []Edit{
				{File: "internal/crypto/crypto.go", Old: "\t\"bytes\"\n", New: ""},
				{File: "internal/crypto/crypto.go", Old: "if !bytes.Equal(nonce[:4], expectedNonce[:4]) {", New: "if binary.BigEndian.Uint32(nonce[:4])&0x80 != binary.BigEndian.Uint32(expectedNonce[:4])&0x80 {"},
			}},
			{Name: "one replay tolerated", ExpectRule: "C01.R4", Edits: []Edit{
				{File: "internal/crypto/crypto.go", Old: "if nonceValue < s.recvNonce {", New: "if nonceValue+1 < s.recvNonce {"},
			}},
			{Name: "counter not advanced past the message", ExpectRule: "C01.R4", Edits: []Edit{
				{File: "internal/crypto/crypto.go", Old: "s.recvNonce = nonceValue + 1\n", New: "s.recvNonce = nonceValue\n"},
			}},
			{Name: "commit dropped", ExpectRule: "C01.R4", Edits: []Edit{
				{File: "internal/crypto/crypto.go", Old: "\ts.recvNonce = nonceValue + 1\n", New: ""},
			}},
			{Name: "commit in a separate critical section after Open", ExpectRule: "C01.R5", Edits: []Edit{
				{File: "internal/crypto/crypto.go", Old: "\ts.mu.Lock()\n\tdefer s.mu.Unlock()\n\n\t// The direction prefix", New: "\ts.mu.Lock()\n\n\t// The direction prefix"},
				{File: "internal/crypto/crypto.go", Old: "\t\treturn nil, fmt.Errorf(\"nonce direction mismatch\")", New: "\t\ts.mu.Unlock()\n\t\treturn nil, fmt.Errorf(\"nonce direction mismatch\")"},
				{File: "internal/crypto/crypto.go", Old: "\t\treturn nil, fmt.Errorf(\"nonce too old: received %d, expected >= %d\", nonceValue, s.recvNonce)\n\t}\n", New: "\t\ts.mu.Unlock()\n\t\treturn nil, fmt.Errorf(\"nonce too old\")\n\t}\n\ts.mu.Unlock()\n"},
				{File: "internal/crypto/crypto.go", Old: "\t// Authenticated: advance the expected counter past this message.\n\ts.recvNonce = nonceValue + 1\n", New: "\ts.mu.Lock()\n\ts.recvNonce = nonceValue + 1\n\ts.mu.Unlock()\n"},
			}},
			{Name: "stale snapshot checked, commit re-checked without rejecting", ExpectRule: "C01.R5", Edits: []Edit{
				{File: "internal/crypto/crypto.go", Old: "\ts.mu.Lock()\n\tdefer s.mu.Unlock()\n\n\t// The direction prefix", New: "\ts.mu.Lock()\n\tnext := s.recvNonce\n\n\t// The direction prefix"},
				{File: "internal/crypto/crypto.go", Old: "\texpectedNonce := s.buildRecvNonce()\n", New: "\texpectedNonce := s.buildRecvNonce()\n\ts.mu.Unlock()\n"},
				{File: "internal/crypto/crypto.go", Old: "\tif nonceValue < s.recvNonce {\n\t\treturn nil, fmt.Errorf(\"nonce too old: received %d, expected >= %d\", nonceValue, s.recvNonce)", New: "\tif nonceValue < next {\n\t\treturn nil, fmt.Errorf(\"nonce too old: received %d, expected >= %d\", nonceValue, next)"},
				{File: "internal/crypto/crypto.go", Old: "\t// Authenticated: advance the expected counter past this message.\n\ts.recvNonce = nonceValue + 1\n", New: "\ts.mu.Lock()\n\tif nonceValue >= s.recvNonce {\n\t\ts.recvNonce = nonceValue + 1\n\t}\n\ts.mu.Unlock()\n"},
			}},
			{Name: "rewrite: direction byte compared by index", Edits: []Edit{
				{File: "internal/crypto/crypto.go", Old: "if !bytes.Equal(nonce[:4], expectedNonce[:4]) {", New: "if nonce[0] != expectedNonce[0] || !bytes.Equal(nonce[1:4], expectedNonce[1:4]) {"},
			}},
			{Name: "rewrite: role consulted directly", Edits: []Edit{
				{File: "internal/crypto/crypto.go", Old: "if !bytes.Equal(nonce[:4], expectedNonce[:4]) {", New: "if (nonce[0] == 0x80) != s.isInitiator || !bytes.Equal(nonce[1:4], expectedNonce[1:4]) {"},
			}},
			{Name: "rewrite: checks extracted into a helper returning the counter", Edits: []Edit{
				{File: "internal/crypto/crypto.go", Old: "\t\"bytes\"\n", New: ""},
				{File: "internal/crypto/crypto.go", Old: "\texpectedNonce := s.buildRecvNonce()\n\tif !bytes.Equal(nonce[:4], expectedNonce[:4]) {\n\t\treturn nil, fmt.Errorf(\"nonce direction mismatch\")\n\t}\n", New: "\tnonceValue, err := s.admit(nonce)\n\tif err != nil {\n\t\treturn nil, err\n\t}\n"},
				{File: "internal/crypto/crypto.go", Old: "\tnonceValue := binary.BigEndian.Uint64(nonce[4:])\n\tif nonceValue < s.recvNonce {\n\t\treturn nil, fmt.Errorf(\"nonce too old: received %d, expected >= %d\", nonceValue, s.recvNonce)\n\t}\n", New: ""},
				{File: "internal/crypto/crypto.go", Old: "// Key returns a copy of the session key bytes.", New: "func (s *SessionKey) admit(nonce [NonceSize]byte) (uint64, error) {\n\twant := s.buildRecvNonce()\n\tvar a, b [4]byte\n\tcopy(a[:], nonce[:4])\n\tcopy(b[:], want[:4])\n\tif a != b {\n\t\treturn 0, fmt.Errorf(\"nonce direction mismatch\")\n\t}\n\tv := binary.BigEndian.Uint64(nonce[4:])\n\tif s.recvNonce > v {\n\t\treturn 0, fmt.Errorf(\"nonce too old\")\n\t}\n\treturn v, nil\n}\n\n// Key returns a copy of the session key bytes."},
			}},
			{Name: "rewrite: nonce taken by slice-to-array conversion, counter read through a ByteOrder value", Edits: []Edit{
				{File: "internal/crypto/crypto.go", Old: "\tvar nonce [NonceSize]byte\n\tcopy(nonce[:], ciphertext[:NonceSize])\n", New: "\tnonce := [NonceSize]byte(ciphertext[:NonceSize])\n"},
				{File: "internal/crypto/crypto.go", Old: "nonceValue := binary.BigEndian.Uint64(nonce[4:])", New: "var order binary.ByteOrder = binary.BigEndian\n\tnonceValue := order.Uint64(nonce[4:])"},
			}},
			{Name: "rewrite: prefix compared with slices.Equal", Edits: []Edit{
				{File: "internal/crypto/crypto.go", Old: "\t\"bytes\"\n", New: "\t\"slices\"\n"},
				{File: "internal/crypto/crypto.go", Old: "if !bytes.Equal(nonce[:4], expectedNonce[:4]) {", New: "if !slices.Equal(nonce[:4], expectedNonce[:4]) {"},
			}},
			{Name: "rewrite: role kept as an enum set by the constructor", Edits: []Edit{
				{File: "internal/crypto/crypto.go", Old: "\tisInitiator bool\n", New: "\tdir uint8 // 0 initiator, 1 responder\n"},
				{File: "internal/crypto/crypto.go", Old: "\tsk := &SessionKey{\n\t\tisInitiator: isInitiator,\n\t}\n", New: "\tsk := &SessionKey{}\n\tif !isInitiator {\n\t\tsk.dir = 1\n\t}\n"},
				{File: "internal/crypto/crypto.go", Old: "\tif !s.isInitiator {\n\t\t// Responder sends with high bit set\n\t\tnonce[0] = 0x80\n\t}", New: "\tnonce[0] = s.dir << 7"},
				{File: "internal/crypto/crypto.go", Old: "\tif s.isInitiator {\n\t\t// Initiator receives from responder (high bit set)\n\t\tnonce[0] = 0x80\n\t}", New: "\tnonce[0] = (1 - s.dir) << 7"},
			}},
			{Name: "enum role: receive side expects this end's own direction", ExpectRule: "C01.R3", Edits: []Edit{
				{File: "internal/crypto/crypto.go", Old: "\tisInitiator bool\n", New: "\tdir uint8 // 0 initiator, 1 responder\n"},
				{File: "internal/crypto/crypto.go", Old: "\tsk := &SessionKey{\n\t\tisInitiator: isInitiator,\n\t}\n", New: "\tsk := &SessionKey{}\n\tif !isInitiator {\n\t\tsk.dir = 1\n\t}\n"},
				{File: "internal/crypto/crypto.go", Old: "\tif !s.isInitiator {\n\t\t// Responder sends with high bit set\n\t\tnonce[0] = 0x80\n\t}", New: "\tnonce[0] = s.dir << 7"},
				{File: "internal/crypto/crypto.go", Old: "\tif s.isInitiator {\n\t\t// Initiator receives from responder (high bit set)\n\t\tnonce[0] = 0x80\n\t}", New: "\tnonce[0] = s.dir << 7"},
			}},
			{Name: "rewrite: prefix as uint32, inverted counter test, explicit unlocks", Edits: []Edit{
				{File: "internal/crypto/crypto.go", Old: "\t\"bytes\"\n", New: ""},
				{File: "internal/crypto/crypto.go", Old: "\ts.mu.Lock()\n\tdefer s.mu.Unlock()\n\n\t// The direction prefix", New: "\ts.mu.Lock()\n\n\t// The direction prefix"},
				{File: "internal/crypto/crypto.go", Old: "\tif !bytes.Equal(nonce[:4], expectedNonce[:4]) {\n\t\treturn nil, fmt.Errorf(\"nonce direction mismatch\")", New: "\tif binary.BigEndian.Uint32(nonce[:4]) != uint32(expectedNonce[0])<<24 {\n\t\ts.mu.Unlock()\n\t\treturn nil, fmt.Errorf(\"nonce direction mismatch\")"},
				{File: "internal/crypto/crypto.go", Old: "\tif nonceValue < s.recvNonce {\n\t\treturn nil, fmt.Errorf(\"nonce too old: received %d, expected >= %d\", nonceValue, s.recvNonce)", New: "\tif next := s.recvNonce; !(nonceValue >= next) {\n\t\ts.mu.Unlock()\n\t\treturn nil, fmt.Errorf(\"nonce too old: received %d, expected >= %d\", nonceValue, next)"},
				{File: "internal/crypto/crypto.go", Old: "\t\treturn nil, fmt.Errorf(\"create cipher: %w\", err)\n\t}\n\n\tplaintext, err := aead.Open(", New: "\t\ts.mu.Unlock()\n\t\treturn nil, fmt.Errorf(\"create cipher: %w\", err)\n\t}\n\n\tplaintext, err := aead.Open("},
				{File: "internal/crypto/crypto.go", Old: "\t\treturn nil, fmt.Errorf(\"decrypt: %w\", err)\n\t}\n\n\t// Authenticated: advance the expected counter past this message.\n\ts.recvNonce = nonceValue + 1\n", New: "\t\ts.mu.Unlock()\n\t\treturn nil, fmt.Errorf(\"decrypt: %w\", err)\n\t}\n\n\ts.recvNonce = nonceValue + 1\n\ts.mu.Unlock()\n"},
			}},
		},
	})
}

// cryptoCtx gathers the role-resolved anchors of internal/crypto shared by C01 and C02.
type cryptoCtx struct {
	p        *kit.Program
	sk       *types.Named
	fields   map[*types.Var]bool
	mu       *types.Var
	isInit   *types.Var
	keyFld   *types.Var
	counters map[*types.Var]bool // 64-bit counter fields (uint64 / atomic.Uint64)
	sendCtr  *types.Var          // the counter written on the sealing path
	recvCtr  *types.Var          // the counter written on the opening path
	decrypt  *ssa.Function       // exported entry that (transitively) reaches AEAD.Open
	encrypt  *ssa.Function       // exported entry that (transitively) reaches AEAD.Seal
	openCall *ssa.Call
	sealCall *ssa.Call
	methods  []*ssa.Function
	// every entry (normally one each) and the package functions reachable from them
	sealEntries []*ssa.Function
	openEntries []*ssa.Function
	sealPath    map[*ssa.Function]bool
	openPath    map[*ssa.Function]bool
	ctor        *ssa.Function // derivation constructor with a bool (role) parameter, if any
	// instructions/functions evaluated on some explored path of the entries
	sendCover *sxCoverage
	recvCover *sxCoverage
}

func isAEADCall(c ssa.CallInstruction, name string) bool {
	cal := kit.CalleeOf(c)
	return cal.Iface && cal.Pkg == "crypto/cipher" && cal.Recv == "AEAD" && cal.Name == name
}

// sessionKeyInvolved: fn is a method of SessionKey or takes a (pointer to) SessionKey.
func sessionKeyInvolved(fn *ssa.Function, sk *types.Named) bool {
	is := func(t types.Type) bool {
		if p, ok := t.(*types.Pointer); ok {
			t = p.Elem()
		}
		return types.Identical(t, sk)
	}
	if fn.Signature == nil {
		return false
	}
	if rv := fn.Signature.Recv(); rv != nil && is(rv.Type()) {
		return true
	}
	for i := 0; i < fn.Signature.Params().Len(); i++ {
		if is(fn.Signature.Params().At(i).Type()) {
			return true
		}
	}
	return false
}

// aeadEntries resolves, by role, the entry functions of internal/crypto for one AEAD
// operation ("Seal"/"Open"): functions involving SessionKey that reach the operation through
// static calls inside the package and that are exported or have no caller inside the package.
// It also returns the set of package functions reachable from the entries and the first call
// to the operation found.
func aeadEntries(p *kit.Program, sk *types.Named, op string) (entries []*ssa.Function, path map[*ssa.Function]bool, site *ssa.Call) {
	pkg := kit.PkgPath("internal/crypto")
	callees := func(f *ssa.Function) []*ssa.Function {
		var out []*ssa.Function
		for _, g := range kit.WithClosures(f) {
			for _, c := range kit.Calls(g) {
				if s := kit.CalleeOf(c).Static; s != nil && len(s.Blocks) > 0 && kit.FuncPkgPath(s) == pkg {
					out = append(out, kit.TopLevel(s))
				}
			}
		}
		return out
	}
	direct := func(f *ssa.Function) *ssa.Call {
		for _, g := range kit.WithClosures(f) {
			for _, c := range kit.Calls(g) {
				if isAEADCall(c, op) {
					if cc, ok := c.(*ssa.Call); ok {
						return cc
					}
				}
			}
		}
		return nil
	}
	memo := map[*ssa.Function]int{} // 1 reaches, 2 does not, 3 in progress
	var reaches func(f *ssa.Function) bool
	reaches = func(f *ssa.Function) bool {
		switch memo[f] {
		case 1:
			return true
		case 2, 3:
			return false
		}
		memo[f] = 3
		ok := direct(f) != nil
		for _, g := range callees(f) {
			if reaches(g) {
				ok = true
			}
		}
		if ok {
			memo[f] = 1
		} else {
			memo[f] = 2
		}
		return ok
	}
	var tops []*ssa.Function
	for _, f := range p.FuncsInPkg("internal/crypto") {
		if f.Parent() == nil {
			tops = append(tops, f)
		}
	}
	for _, f := range tops {
		if !sessionKeyInvolved(f, sk) || !reaches(f) {
			continue
		}
		inPkgCallers := 0
		for _, c := range p.StaticCallers(f) {
			if kit.FuncPkgPath(c.Parent()) == pkg && kit.TopLevel(c.Parent()) != f {
				inPkgCallers++
			}
		}
		if ast.IsExported(f.Name()) || inPkgCallers == 0 {
			entries = append(entries, f)
		}
	}
	sort.Slice(entries, func(i, j int) bool {
		// exported methods first, then by position
		ei, ej := ast.IsExported(entries[i].Name()), ast.IsExported(entries[j].Name())
		if ei != ej {
			return ei
		}
		return entries[i].Pos() < entries[j].Pos()
	})
	path = map[*ssa.Function]bool{}
	var walk func(f *ssa.Function)
	walk = func(f *ssa.Function) {
		if path[f] {
			return
		}
		path[f] = true
		if site == nil && reaches(f) {
			site = direct(f)
		}
		for _, g := range callees(f) {
			walk(g)
		}
	}
	for _, e := range entries {
		walk(e)
	}
	return
}

// sessionSealEntry resolves "the SessionKey method that seals" by role: the exported function
// of internal/crypto involving SessionKey that reaches cipher.AEAD.Seal directly or through
// helpers of the package (nil if there is none). Usable by other rule sets as an anchor.
func sessionSealEntry(p *kit.Program) *ssa.Function {
	sk := p.NamedType("internal/crypto", "SessionKey")
	if sk == nil {
		return nil
	}
	entries, _, _ := aeadEntries(p, sk, "Seal")
	if len(entries) == 0 {
		return nil
	}
	return entries[0]
}

func sxIsCounterType(t types.Type) bool {
	t = types.Unalias(t)
	if n, ok := t.(*types.Named); ok {
		return n.Obj().Pkg() != nil && n.Obj().Pkg().Path() == "sync/atomic" && (n.Obj().Name() == "Uint64" || n.Obj().Name() == "Int64")
	}
	b, ok := t.(*types.Basic)
	return ok && b.Kind() == types.Uint64
}

func newCryptoCtx(p *kit.Program, r *kit.Report) *cryptoCtx {
	cx := &cryptoCtx{p: p, fields: map[*types.Var]bool{}, counters: map[*types.Var]bool{}}
	cx.sk = p.NamedType("internal/crypto", "SessionKey")
	if !r.Require(cx.sk != nil, "anchor-unresolved: type internal/crypto.SessionKey") {
		return nil
	}
	if _, ok := cx.sk.Underlying().(*types.Struct); !r.Require(ok, "anchor-unresolved: internal/crypto.SessionKey is not a struct") {
		return nil
	}
	var bools []*types.Var
	for _, f := range kit.StructFields(cx.sk) {
		cx.fields[f] = true
		if n, ok := f.Type().(*types.Named); ok && n.Obj().Pkg() != nil && n.Obj().Pkg().Path() == "sync" && (n.Obj().Name() == "Mutex" || n.Obj().Name() == "RWMutex") && cx.mu == nil {
			cx.mu = f
		}
		if b, ok := f.Type().(*types.Basic); ok && b.Kind() == types.Bool {
			bools = append(bools, f)
		}
		if a, ok := f.Type().Underlying().(*types.Array); ok && a.Len() == 32 && cx.keyFld == nil {
			cx.keyFld = f
		}
		if sxIsCounterType(f.Type()) {
			cx.counters[f] = true
		}
	}
	cx.methods = p.Methods("internal/crypto", "SessionKey")
	cx.sealEntries, cx.sealPath, cx.sealCall = aeadEntries(p, cx.sk, "Seal")
	cx.openEntries, cx.openPath, cx.openCall = aeadEntries(p, cx.sk, "Open")
	if len(cx.sealEntries) > 0 {
		cx.encrypt = cx.sealEntries[0]
	}
	if len(cx.openEntries) > 0 {
		cx.decrypt = cx.openEntries[0]
	}
	// the role field: the bool field consulted on the sealing path
	for _, f := range bools {
		for _, acc := range p.FieldAccessesOfKind(f, kit.FieldLoad) {
			if cx.sealPath[kit.TopLevel(acc.Fn)] && cx.isInit == nil {
				cx.isInit = f
			}
		}
	}
	if cx.isInit == nil && len(bools) > 0 {
		cx.isInit = bools[0]
	}
	// the derivation constructor: returns *SessionKey, allocates it, has a bool parameter
	for _, f := range p.FuncsInPkg("internal/crypto") {
		if f.Parent() != nil || f.Signature == nil || f.Signature.Recv() != nil || cx.ctor != nil {
			continue
		}
		retSK, hasBool := false, false
		for i := 0; i < f.Signature.Results().Len(); i++ {
			if pt, ok := f.Signature.Results().At(i).Type().(*types.Pointer); ok && types.Identical(pt.Elem(), cx.sk) {
				retSK = true
			}
		}
		for i := 0; i < f.Signature.Params().Len(); i++ {
			if b, ok := f.Signature.Params().At(i).Type().Underlying().(*types.Basic); ok && b.Kind() == types.Bool {
				hasBool = true
			}
		}
		if retSK && hasBool && c02IsDerivation(p, f, 0) {
			cx.ctor = f
		}
	}
	r.Require(cx.decrypt != nil && cx.openCall != nil, "anchor-unresolved: SessionKey method calling cipher.AEAD.Open")
	r.Require(cx.encrypt != nil && cx.sealCall != nil, "anchor-unresolved: SessionKey method calling cipher.AEAD.Seal")
	r.Require(cx.mu != nil, "anchor-unresolved: sync mutex field of SessionKey")
	r.Require(cx.isInit != nil || cx.ctor != nil, "anchor-unresolved: neither a bool role field of SessionKey nor a derivation constructor with a bool (role) parameter")
	if len(r.Floors) > 0 {
		return nil
	}
	// counters by role: written on the sealing path / on the opening path
	written := func(f *types.Var, path map[*ssa.Function]bool) bool {
		for _, acc := range p.FieldAccessesOfKind(f, kit.FieldStore, kit.FieldAddrUse) {
			if path[kit.TopLevel(acc.Fn)] {
				return true
			}
		}
		return false
	}
	for _, f := range kit.StructFields(cx.sk) {
		if !cx.counters[f] {
			continue
		}
		ws, wr := written(f, cx.sealPath), written(f, cx.openPath)
		if ws && !wr && cx.sendCtr == nil {
			cx.sendCtr = f
		}
		if wr && !ws && cx.recvCtr == nil {
			cx.recvCtr = f
		}
	}
	for _, f := range kit.StructFields(cx.sk) {
		if !cx.counters[f] {
			continue
		}
		if cx.sendCtr == nil && written(f, cx.sealPath) {
			cx.sendCtr = f
		}
		if cx.recvCtr == nil && written(f, cx.openPath) {
			cx.recvCtr = f
		}
	}
	return cx
}

// configFields: the fields (other than counters, key and mutex) that the sealing/opening paths
// read: the role and whatever the constructor precomputes from it.
func (cx *cryptoCtx) configFields() []*types.Var {
	var out []*types.Var
	for _, f := range kit.StructFields(cx.sk) {
		if cx.counters[f] || f == cx.mu || f == cx.keyFld {
			continue
		}
		read := false
		for _, acc := range cx.p.FieldAccessesOfKind(f, kit.FieldLoad, kit.FieldAddrUse) {
			if top := kit.TopLevel(acc.Fn); cx.sealPath[top] || cx.openPath[top] {
				read = true
			}
		}
		if read {
			out = append(out, f)
		}
	}
	return out
}

func (cx *cryptoCtx) isSKMethod(f *ssa.Function) bool {
	for _, m := range cx.methods {
		if m == f {
			return true
		}
	}
	return false
}

// ---------- worlds ----------

// sxLayout is the nonce the send path hands to Seal for one role: per byte a constant or a
// byte of the claimed counter value.
type sxLayout struct {
	ok    bool
	bytes []sxByte // sbConc or sbPart (k = significance index); sym is nil
}

func (l sxLayout) String() string {
	var sb strings.Builder
	for i, b := range l.bytes {
		if i > 0 {
			sb.WriteByte(' ')
		}
		switch b.kind {
		case sbConc:
			fmt.Fprintf(&sb, "%02x", b.c)
		case sbPart:
			fmt.Fprintf(&sb, "c%d", b.k)
		default:
			sb.WriteString("??")
		}
	}
	return sb.String()
}

func (l sxLayout) equal(o sxLayout) bool {
	if len(l.bytes) != len(o.bytes) {
		return false
	}
	for i := range l.bytes {
		a, b := l.bytes[i], o.bytes[i]
		if a.kind != b.kind || a.c != b.c || a.k != b.k {
			return false
		}
	}
	return true
}

// sendRun is the exploration of one sealing entry for one role.
type sendRun struct {
	role       bool
	paths      []*sxPath
	incomplete string
}

// entryArgs builds the arguments of an entry: the receiver / SessionKey parameters point to
// the session object, the first []byte parameter is data, everything else is unknown.
func (cx *cryptoCtx) entryArgs(m *sxMachine, entry *ssa.Function, role bool, data func() sxVal) ([]sxVal, bool) {
	recv, ok := m.newReceiver(role)
	if !ok {
		return nil, false
	}
	args := make([]sxVal, len(entry.Params))
	usedData := false
	for i, prm := range entry.Params {
		t := prm.Type()
		if pt, ok := t.(*types.Pointer); ok && types.Identical(pt.Elem(), cx.sk) {
			args[i] = recv
			continue
		}
		if st, ok := t.Underlying().(*types.Slice); ok && sxIsByteType(st.Elem()) && !usedData {
			args[i] = data()
			usedData = true
		}
	}
	return args, true
}

func (cx *cryptoCtx) exploreSend(entry *ssa.Function, cover *sxCoverage) []*sendRun {
	var out []*sendRun
	for _, role := range []bool{true, false} {
		role := role
		run := &sendRun{role: role}
		run.paths, run.incomplete = cx.explore(entry, cover, nil, func(m *sxMachine) ([]sxVal, bool) {
			return cx.entryArgs(m, entry, role, func() sxVal { return m.openBytes(nil) })
		})
		out = append(out, run)
	}
	return out
}

// sealLayout extracts the nonce layout of a Seal event.
func sealLayout(ev sxEvent) sxLayout {
	if ev.nonce == nil {
		return sxLayout{}
	}
	l := sxLayout{ok: true}
	for _, b := range ev.nonce {
		nb := sxByte{kind: b.kind, c: b.c, k: b.k}
		if b.kind == sbUnknown {
			l.ok = false
		}
		l.bytes = append(l.bytes, nb)
	}
	return l
}

// sendLayout: the nonce layout of a role, when every sealing path of the role agrees on it.
func sendLayout(run *sendRun) (sxLayout, string) {
	var have *sxLayout
	for _, pt := range run.paths {
		for _, ev := range pt.events {
			if ev.kind != seSeal {
				continue
			}
			l := sealLayout(ev)
			if !l.ok {
				return sxLayout{}, "a byte of the nonce handed to Seal is neither a constant nor a byte of the claimed counter"
			}
			if have == nil {
				have = &l
			} else if !have.equal(l) {
				return sxLayout{}, "the nonce layout differs between paths of one role (" + have.String() + " / " + l.String() + ")"
			}
		}
	}
	if have == nil {
		return sxLayout{}, "no path of the sealing entry reaches Seal"
	}
	return *have, ""
}

type recvWorld struct {
	role bool
	kind string // "own": the prefix this end sends with (a reflected frame); "peer"; "garbage"
	run  []*sxPath
	inc  string
}

func (cx *cryptoCtx) exploreRecv(entry *ssa.Function, cover *sxCoverage, layouts map[bool]sxLayout) []*recvWorld {
	var out []*recvWorld
	for _, role := range []bool{true, false} {
		for _, kind := range []string{"own", "peer", "garbage"} {
			role, kind := role, kind
			w := &recvWorld{role: role, kind: kind}
			w.run, w.inc = cx.explore(entry, cover, cx.recvCtr, func(m *sxMachine) ([]sxVal, bool) {
				var wire []sxByte
				src := layouts[role]
				if kind == "peer" {
					src = layouts[!role]
				}
				for _, b := range src.bytes {
					switch {
					case kind == "garbage":
						wire = append(wire, sxByte{})
					case b.kind == sbPart:
						wire = append(wire, sxByte{kind: sbPart, sym: m.wire, k: b.k})
					default:
						wire = append(wire, b)
					}
				}
				return cx.entryArgs(m, entry, role, func() sxVal { return m.openBytes(wire) })
			})
			out = append(out, w)
		}
	}
	return out
}

// storeKey names a store instruction by construct: function, field role and ordinal of the
// store among the stores to SessionKey fields in that function.
func (cx *cryptoCtx) storeKey(in ssa.Instruction, f *types.Var) string {
	fn := in.Parent()
	ord, n := 0, 0
	kit.Instrs(fn, func(x ssa.Instruction) {
		isStore := false
		switch s := x.(type) {
		case *ssa.Store:
			if fa, ok := s.Addr.(*ssa.FieldAddr); ok && kit.FieldOfAddr(fa) == f {
				isStore = true
			}
		case ssa.CallInstruction:
			for _, a := range s.Common().Args {
				if fa, ok := a.(*ssa.FieldAddr); ok && kit.FieldOfAddr(fa) == f {
					isStore = true
				}
			}
		}
		if isStore || x == in {
			n++
			if x == in {
				ord = n
			}
		}
	})
	return fmt.Sprintf("%s store %s #%d", kit.FuncName(fn), cx.fieldRole(f), ord)
}

// fieldRole names a SessionKey field by role (stable under renaming).
func (cx *cryptoCtx) fieldRole(f *types.Var) string {
	switch f {
	case cx.recvCtr:
		return "receive counter"
	case cx.sendCtr:
		return "send counter"
	case cx.isInit:
		return "role"
	case nil:
		return "field"
	case cx.keyFld:
		return "key"
	case cx.mu:
		return "mutex"
	}
	return "field " + f.Name()
}

func runC01(p *kit.Program, r *kit.Report) {
	r.Rule("C01.R1", "every store to a SessionKey field on the receive path happens after cipher.AEAD.Open returned a nil error on that path, and a frame is accepted only after such an Open (commit after authentication)")
	r.Rule("C01.R2", "no path that stores to a SessionKey field returns a non-nil error (rejection is side-effect free)")
	r.Rule("C01.R3", "a frame carrying the nonce prefix this end itself sends with is never accepted, whatever its counter (the direction bits of the received nonce are bound to the role)")
	r.Rule("C01.R4", "a frame whose counter is below the expected counter is never accepted; every accepted frame commits received+k, k>=1, to the expected counter, which has no other writer")
	r.Rule("C01.R5", "the comparison that admits the frame reads the expected counter in the critical section (session mutex held exclusively) in which the commit is stored")
	cx := newCryptoCtx(p, r)
	if cx == nil {
		return
	}
	// the send side gives the nonce prefixes of the two roles
	sendCover := newSxCoverage()
	layouts := map[bool]sxLayout{}
	for _, run := range cx.exploreSend(cx.encrypt, sendCover) {
		l, why := sendLayout(run)
		if !r.Require(why == "" && run.incomplete == "", "anchor-unresolved: nonce layout of the sending role initiator=%v is not determined: %s %s", run.role, why, run.incomplete) {
			return
		}
		layouts[run.role] = l
	}
	if !r.Require(len(layouts[true].bytes) == len(layouts[false].bytes), "anchor-unresolved: the two roles send nonces of different length") {
		return
	}
	r.Count("functions_analysed", len(cx.sealPath)+len(cx.openPath))
	if cx.ctor != nil {
		r.Count("worlds_built_by_constructor", 1)
	}
	if cx.recvCtr == nil {
		r.Violation("C01.R4", kit.FuncName(cx.decrypt)+" counter commit", p.Pos(cx.decrypt.Pos()), "the receive path never advances a 64-bit counter field: every authenticated frame can be replayed")
		return
	}
	for _, entry := range cx.openEntries {
		cx.judgeRecvEntry(p, r, entry, layouts)
	}
	// write-set of the receive counter
	nOther := 0
	cover := cx.recvCover
	for _, acc := range p.FieldAccessesOfKind(cx.recvCtr, kit.FieldStore, kit.FieldAddrUse) {
		if cover != nil && cover.instrs[acc.Instr] && cx.confined(kit.TopLevel(acc.Fn), cx.openEntries) {
			continue
		}
		if isAtomicLoadUse(acc) {
			continue
		}
		if acc.Kind == kit.FieldStore {
			if k, ok := kit.ConstInt(acc.Val); ok && k == 0 && c02IsDerivation(p, kit.TopLevel(acc.Fn), 0) {
				continue
			}
		}
		nOther++
		r.Violation("C01.R4", fmt.Sprintf("%s other writer of receive counter #%d", kit.FuncName(acc.Fn), nOther), p.Pos(acc.Instr.Pos()),
			"the expected receive counter is written outside the authenticated commit of the receive path: a rewind makes already accepted frames acceptable again")
	}
	r.OK("C01.R4", "write-set of receive counter", p.Pos(cx.decrypt.Pos()), "%d writer(s) outside the receive path", nOther)
}

// isAtomicLoadUse: the address of the field is only handed to a sync/atomic load.
func isAtomicLoadUse(acc kit.FieldAccess) bool {
	if acc.Kind != kit.FieldAddrUse {
		return false
	}
	c, ok := acc.Instr.(ssa.CallInstruction)
	if !ok {
		return false
	}
	cal := kit.CalleeOf(c)
	return cal.Pkg == "sync/atomic" && strings.HasPrefix(cal.Name, "Load")
}

// confined: fn is one of the entries, or an in-repository function all of whose static callers
// are confined (so its effects happen only as part of an entry's paths).
func (cx *cryptoCtx) confined(fn *ssa.Function, entries []*ssa.Function) bool {
	seen := map[*ssa.Function]bool{}
	var rec func(f *ssa.Function, depth int) bool
	rec = func(f *ssa.Function, depth int) bool {
		for _, e := range entries {
			if e == f {
				return true
			}
		}
		if seen[f] || depth > 8 {
			return false
		}
		seen[f] = true
		callers := cx.p.StaticCallers(f)
		if len(callers) == 0 {
			return false
		}
		for _, c := range callers {
			if !rec(kit.TopLevel(c.Parent()), depth+1) {
				return false
			}
		}
		seen[f] = false
		return true
	}
	return rec(fn, 0)
}

func (cx *cryptoCtx) judgeRecvEntry(p *kit.Program, r *kit.Report, entry *ssa.Function, layouts map[bool]sxLayout) {
	fname := kit.FuncName(entry)
	pos := p.Pos(entry.Pos())
	if cx.recvCover == nil {
		cx.recvCover = newSxCoverage()
	}
	worlds := cx.exploreRecv(entry, cx.recvCover, layouts)
	nPaths := 0
	for _, w := range worlds {
		nPaths += len(w.run)
		if !r.Require(w.inc == "", "model-incomplete: exploration of %s (initiator=%v, %s prefix): %s", fname, w.role, w.kind, w.inc) {
			return
		}
	}
	r.Count("receive_paths_explored", nPaths)

	type storeVerdict struct {
		field     *types.Var
		pos       token.Pos
		beforeOK  bool
		noErrExit bool
		errPos    string
	}
	stores := map[ssa.Instruction]*storeVerdict{}
	var storeOrder []ssa.Instruction
	authBad, reflectBad := "", ""
	peerAccepts := 0
	var freshBad, valueBad, commitBad, regionBad []string
	seenClass := map[string]bool{}
	add := func(list *[]string, s string) {
		// one example per kind of failure: the text before the first '(' names the kind
		class := s
		if i := strings.Index(s, " ("); i > 0 {
			class = s[:i]
		}
		if seenClass[class] {
			return
		}
		seenClass[class] = true
		*list = append(*list, s)
	}
	for _, w := range worlds {
		wname := fmt.Sprintf("initiator=%v, %s prefix", w.role, w.kind)
		for _, pt := range w.run {
			openOK := -1
			for i, ev := range pt.events {
				if ev.kind == seOpen && ev.errNil && openOK < 0 {
					openOK = i
				}
				if ev.kind != seStore || ev.instr == nil {
					continue
				}
				sv := stores[ev.instr]
				if sv == nil {
					sv = &storeVerdict{field: ev.field, pos: ev.instr.Pos(), beforeOK: true, noErrExit: true}
					stores[ev.instr] = sv
					storeOrder = append(storeOrder, ev.instr)
				}
				if openOK < 0 {
					sv.beforeOK = false
				}
				if pt.rejects() {
					sv.noErrExit = false
				}
			}
			if !pt.accepts() {
				continue
			}
			if openOK < 0 && authBad == "" {
				authBad = "a path returns a nil error without a successful AEAD.Open (" + wname + ")"
			}
			switch w.kind {
			case "own":
				if reflectBad == "" {
					reflectBad = fmt.Sprintf("with initiator=%v a frame carrying this end's own send prefix (%s) is accepted", w.role, layouts[w.role])
				}
				continue
			case "garbage":
				continue
			}
			peerAccepts++
			// R4 / R5 over the accepting path
			var commits []sxEvent
			for _, ev := range pt.events {
				if ev.kind == seStore && ev.field == cx.recvCtr {
					commits = append(commits, ev)
				}
			}
			relDesc := func() string {
				var parts []string
				for _, s := range pt.relSeq {
					parts = append(parts, fmt.Sprintf("received-expected(section %d)=%d", s.ver, pt.rel[s]))
				}
				return strings.Join(parts, ", ")
			}
			if len(commits) == 0 {
				if len(pt.relSeq) >= 2 {
					add(&regionBad, "a frame is accepted without a commit after the admission was re-evaluated in a later critical section ("+relDesc()+"): the first check used a stale counter, two concurrent deliveries of one frame are both accepted")
				} else {
					add(&commitBad, "a frame is accepted without advancing the expected counter ("+relDesc()+"): it can be replayed")
				}
				continue
			}
			for _, ev := range commits {
				at := p.Pos(ev.instr.Pos())
				if ev.cur == nil {
					add(&regionBad, "the commit at "+at+" is not made while the session mutex is held exclusively")
					continue
				}
				d, chosen := pt.rel[ev.cur]
				switch {
				case !chosen && len(pt.relSeq) > 0:
					add(&regionBad, "the commit at "+at+" is in another critical section than the counter comparison that admitted the frame: two concurrent deliveries of one frame can both be accepted")
					continue
				case !chosen:
					add(&freshBad, "a frame is accepted and committed at "+at+" without comparing its counter with the expected counter")
					continue
				case d < 0:
					add(&freshBad, fmt.Sprintf("a frame whose counter is below the expected counter is accepted (e.g. %d below)", -d))
				}
				v := ev.val
				okVal := false
				if v.k == sxInt && v.form == siLin {
					switch {
					case v.sym.field == nil: // received + off
						okVal = v.off >= 1
					case v.sym == ev.cur: // expected + off = received - d + off
						okVal = v.off-d >= 1
					}
				}
				if !okVal {
					add(&valueBad, "the value committed at "+at+" is not received+k with k>=1")
				}
			}
		}
	}
	if !r.Require(peerAccepts > 0 || reflectBad != "", "anchor-unresolved: in the model %s never accepts a frame with the peer's prefix and a fresh counter", fname) {
		return
	}
	// R1 / R2 per store
	r.Count("session_state_stores_on_receive_path", len(storeOrder))
	for _, in := range storeOrder {
		sv := stores[in]
		key := cx.storeKey(in, sv.field)
		at := p.Pos(sv.pos)
		r.Decide(sv.beforeOK, "C01.R1", key, at,
			"on every path the store follows an AEAD.Open that returned a nil error",
			"receive state is modified before/without successful AEAD.Open: a forged frame changes what is accepted afterwards")
		r.Decide(sv.noErrExit, "C01.R2", key, at, "every path through the store returns a nil error",
			"a path through this store returns an error (rejected input leaves a side effect)")
	}
	r.Decide(authBad == "", "C01.R1", fname+" accept implies authenticated", pos, "every accepting path contains a successful AEAD.Open", authBad+": unauthenticated data is accepted")
	r.Decide(reflectBad == "", "C01.R3", fname+" direction guard", pos,
		fmt.Sprintf("no path accepts a frame with this end's own send prefix (initiator sends %s, responder sends %s)", layouts[true], layouts[false]),
		reflectBad+": a frame reflected back to its sender authenticates (same key, own send nonce) and is accepted")
	r.Decide(len(freshBad) == 0, "C01.R4", fname+" freshness guard", pos,
		"no accepting path has a received counter below the expected counter of its commit section",
		strings.Join(freshBad, "; ")+": an already accepted frame can be replayed")
	r.Decide(len(commitBad) == 0, "C01.R4", fname+" counter commit", pos, "every accepting path advances the expected counter", strings.Join(commitBad, "; "))
	r.Decide(len(valueBad) == 0, "C01.R4", fname+" committed counter value", pos,
		"the committed counter is the received counter plus a positive constant",
		strings.Join(valueBad, "; ")+": the accepted frame, or older ones, remain acceptable")
	r.Decide(len(regionBad) == 0, "C01.R5", fname+" atomic check-open-commit", pos,
		"the admitting comparison and the commit use the same critical section",
		strings.Join(regionBad, "; "))
}

func flipCmp(op token.Token) token.Token {
	switch op {
	case token.LSS:
		return token.GTR
	case token.LEQ:
		return token.GEQ
	case token.GTR:
		return token.LSS
	case token.GEQ:
		return token.LEQ
	}
	return op
}

// cmpHolds evaluates "x OP y" when sign(x-y) = ord (-1, 0, +1).
func cmpHolds(op token.Token, ord int) bool {
	switch op {
	case token.LSS:
		return ord < 0
	case token.LEQ:
		return ord <= 0
	case token.GTR:
		return ord > 0
	case token.GEQ:
		return ord >= 0
	case token.EQL:
		return ord == 0
	case token.NEQ:
		return ord != 0
	}
	return false
}

// equalityPolarity: for conditions of the form a==b, a!=b, bytes.Equal(a,b), !bytes.Equal(a,b)
// returns whether cond==true means "equal".
func equalityPolarity(cond ssa.Value) (trueMeansEqual, known bool) {
	neg := false
	for {
		if u, ok := cond.(*ssa.UnOp); ok && u.Op == token.NOT {
			neg = !neg
			cond = u.X
			continue
		}
		break
	}
	switch x := cond.(type) {
	case *ssa.BinOp:
		if x.Op == token.EQL {
			return !neg, true
		}
		if x.Op == token.NEQ {
			return neg, true
		}
	case *ssa.Call:
		cal := kit.CalleeOf(x)
		if cal.Name == "Equal" || cal.Name == "ConstantTimeCompare" {
			return !neg, cal.Name == "Equal"
		}
	}
	return false, false
}

// sameExpr: structural equality of two pure SSA expressions (same value, or same op over same operands).
func sameExpr(a, b ssa.Value) bool {
	if a == b {
		return true
	}
	switch x := a.(type) {
	case *ssa.Call:
		y, ok := b.(*ssa.Call)
		if !ok || kit.CalleeOf(x).String() != kit.CalleeOf(y).String() || len(x.Call.Args) != len(y.Call.Args) {
			return false
		}
		for i := range x.Call.Args {
			ra, ok1 := kit.AddrRange(x.Call.Args[i])
			rb, ok2 := kit.AddrRange(y.Call.Args[i])
			if ok1 && ok2 && ra == rb {
				continue
			}
			if !sameExpr(x.Call.Args[i], y.Call.Args[i]) {
				return false
			}
		}
		return true
	case *ssa.UnOp:
		y, ok := b.(*ssa.UnOp)
		return ok && x.Op == y.Op && sameExpr(x.X, y.X) && x.Op != token.MUL
	case *ssa.Convert:
		y, ok := b.(*ssa.Convert)
		return ok && sameExpr(x.X, y.X)
	}
	return false
}
