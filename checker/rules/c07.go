package rules

import (
	"fmt"
	"go/token"
	"go/types"
	"sort"
	"strconv"
	"strings"

	"golang.org/x/tools/go/ssa"

	"mmverify/kit"
)

func init() {
	register(&Check{
		ID: "C07", Level: "other", Patterns: []string{"./internal/agent", "./internal/probe"},
		Technique: "dominance of the size guard, who-may-write on transport streams, interprocedural length upper bounds of AEAD plaintexts, chunk-loop idiom matching over go/ssa",
		Explain:   "Decides that Frame.Encode returns bytes only under a guard that excludes len(Payload) > 16384, that transport streams are written only through FrameWriter (which writes nothing but Encode results), that every SessionKey.Encrypt plaintext whose ciphertext becomes a STREAM_DATA payload and whose length has a structural upper bound (read buffer, chunk slice, linear wrappers, followed through parameters and function-valued arguments) satisfies bound+EncryptionOverhead <= MaxPayloadSize, and that the chunk loops over a caller buffer are contiguous, complete and put caller flags on the last chunk only. Plaintexts without a structural bound (JSON control messages, queued client input) are listed, not judged; in-order delivery by the transport is not covered.",
		Run:       runC07,
		SelfTests: []SelfTest{
			{Name: "size guard dropped in Frame.Encode", ExpectRule: "C07.R1", ExpectKey: "size guard", Edits: []Edit{
				{File: "internal/protocol/frame.go", Old: "\tif len(f.Payload) > MaxPayloadSize {\n\t\treturn nil, ErrFrameTooLarge\n\t}\n\n\tbuf := make([]byte, HeaderSize+len(f.Payload))", New: "\tbuf := make([]byte, HeaderSize+len(f.Payload))"},
			}},
			{Name: "size guard off by a header", ExpectRule: "C07.R1", ExpectKey: "size guard", Edits: []Edit{
				{File: "internal/protocol/frame.go", Old: "\tif len(f.Payload) > MaxPayloadSize {\n\t\treturn nil, ErrFrameTooLarge", New: "\tif len(f.Payload) > MaxFrameSize {\n\t\treturn nil, ErrFrameTooLarge"},
			}},
			{Name: "size guard compares the wrong way", ExpectRule: "C07.R1", ExpectKey: "size guard", Edits: []Edit{
				{File: "internal/protocol/frame.go", Old: "\tif len(f.Payload) > MaxPayloadSize {\n\t\treturn nil, ErrFrameTooLarge", New: "\tif len(f.Payload) < MaxPayloadSize {\n\t\treturn nil, ErrFrameTooLarge"},
			}},
			{Name: "FrameWriter writes the raw payload when Encode fails", ExpectRule: "C07.R1", ExpectKey: "FrameWriter", Edits: []Edit{
				{File: "internal/protocol/frame.go", Old: "\tdata, err := f.Encode()\n\tif err != nil {\n\t\treturn err\n\t}\n\t_, err = fw.w.Write(data)", New: "\tdata, err := f.Encode()\n\tif err != nil {\n\t\tdata = f.Payload\n\t}\n\t_, err = fw.w.Write(data)"},
			}},
			{Name: "exit read buffer enlarged by 64", ExpectRule: "C07.R2", ExpectKey: "exit", Edits: []Edit{
				{File: "internal/exit/handler.go", Old: "\tbuf := make([]byte, maxPlaintext)\n", New: "\tbuf := make([]byte, maxPlaintext+64)\n"},
			}},
			{Name: "forward read buffer ignores the AEAD overhead", ExpectRule: "C07.R2", ExpectKey: "forward", Edits: []Edit{
				{File: "internal/forward/handler.go", Old: "maxPlaintext := protocol.MaxPayloadSize - crypto.EncryptionOverhead", New: "maxPlaintext := protocol.MaxPayloadSize"},
			}},
			{Name: "meshConn chunk one byte too long", ExpectRule: "C07.R2", ExpectKey: "meshConn", Edits: []Edit{
				{File: "internal/agent/agent.go", Old: "\t\tend := offset + maxPlaintext\n", New: "\t\tend := offset + maxPlaintext + 1\n"},
			}},
			{Name: "shell stdout message grows a second header byte", ExpectRule: "C07.R2", ExpectKey: "shell", Edits: []Edit{
				{File: "internal/shell/messages.go", Old: "\tresult := make([]byte, 1+len(payload))\n\tresult[0] = msgType\n\tcopy(result[1:], payload)", New: "\tresult := make([]byte, 2+len(payload))\n\tresult[0] = msgType\n\tcopy(result[2:], payload)"},
			}},
			{Name: "file download buffer sized to the full payload", ExpectRule: "C07.R2", ExpectKey: "streamFileContent", Edits: []Edit{
				{File: "internal/agent/agent.go", Old: "\tbuf := make([]byte, protocol.MaxPayloadSize-100-crypto.EncryptionOverhead)\n\tvar totalWritten int64", New: "\tbuf := make([]byte, protocol.MaxPayloadSize)\n\tvar totalWritten int64"},
			}},
			{Name: "chunk loop skips a byte between chunks", ExpectRule: "C07.R3", ExpectKey: "meshConn", Edits: []Edit{
				{File: "internal/agent/agent.go", Old: "\t\t\treturn offset, err\n\t\t}\n\n\t\toffset = end\n", New: "\t\t\treturn offset, err\n\t\t}\n\n\t\toffset = end + 1\n"},
			}},
			{Name: "chunk drops its last byte", ExpectRule: "C07.R3", ExpectKey: "WriteStreamData", Edits: []Edit{
				{File: "internal/agent/agent.go", Old: "\t\tchunk := data[offset:end]\n\t\tisLast := end >= len(data)", New: "\t\tchunk := data[offset : end-1]\n\t\tisLast := end >= len(data)"},
			}},
			{Name: "chunk loop stops one chunk early", ExpectRule: "C07.R3", ExpectKey: "WriteStreamData", Edits: []Edit{
				{File: "internal/agent/agent.go", Old: "\tfor offset := 0; offset < len(data); {\n\t\tend := offset + protocol.MaxPayloadSize", New: "\tfor offset := 0; offset+protocol.MaxPayloadSize < len(data); {\n\t\tend := offset + protocol.MaxPayloadSize"},
			}},
			{Name: "FIN flag on the first chunk", ExpectRule: "C07.R3", ExpectKey: "flags", Edits: []Edit{
				{File: "internal/agent/agent.go", Old: "\t\tisLast := end >= len(data)\n", New: "\t\tisLast := offset == 0\n"},
			}},
			{Name: "replayed chunk one byte over the frame limit", ExpectRule: "C07.R3", ExpectKey: "fits a frame", Edits: []Edit{
				{File: "internal/agent/agent.go", Old: "\t\tend := offset + protocol.MaxPayloadSize\n", New: "\t\tend := offset + protocol.MaxPayloadSize + 1\n"},
			}},
			{Name: "size guard rejects a full payload", ExpectRule: "C07.R1", ExpectKey: "admits a full payload", Edits: []Edit{
				{File: "internal/protocol/frame.go", Old: "\tif len(f.Payload) > MaxPayloadSize {\n\t\treturn nil, ErrFrameTooLarge", New: "\tif len(f.Payload) >= MaxPayloadSize {\n\t\treturn nil, ErrFrameTooLarge"},
			}},
			{Name: "re-slicing chunk loop skips a byte", ExpectRule: "C07.R3", ExpectKey: "contiguity", Edits: []Edit{
				{File: "internal/agent/agent.go", Old: "\tmaxPlaintext := protocol.MaxPayloadSize - crypto.EncryptionOverhead\n\n\t// Chunk data into max plaintext size pieces, encrypt each, and send\n\tfor offset := 0; offset < len(b); {\n\t\tend := offset + maxPlaintext\n\t\tif end > len(b) {\n\t\t\tend = len(b)\n\t\t}\n\n\t\tchunk := b[offset:end]\n", New: "\tmaxPlaintext := protocol.MaxPayloadSize - crypto.EncryptionOverhead\n\ttotal := len(b)\n\n\tfor len(b) > 0 {\n\t\tn := min(len(b), maxPlaintext)\n\t\tchunk := b[:n]\n"},
				{File: "internal/agent/agent.go", Old: "\t\t\treturn offset, fmt.Errorf(\"encrypt: %w\", err)\n", New: "\t\t\treturn total - len(b), fmt.Errorf(\"encrypt: %w\", err)\n"},
				{File: "internal/agent/agent.go", Old: "\t\t\t// Return bytes written so far\n\t\t\treturn offset, err\n\t\t}\n\n\t\toffset = end\n\t}\n\n\treturn len(b), nil\n", New: "\t\t\treturn total - len(b), err\n\t\t}\n\n\t\tb = b[n+1:]\n\t}\n\n\treturn total, nil\n"},
			}},
			{Name: "rewrite: tcp write chunks by re-slicing the buffer", Edits: []Edit{
				{File: "internal/agent/agent.go", Old: "\tmaxPlaintext := protocol.MaxPayloadSize - crypto.EncryptionOverhead\n\n\t// Chunk data into max plaintext size pieces, encrypt each, and send\n\tfor offset := 0; offset < len(b); {\n\t\tend := offset + maxPlaintext\n\t\tif end > len(b) {\n\t\t\tend = len(b)\n\t\t}\n\n\t\tchunk := b[offset:end]\n", New: "\tmaxPlaintext := protocol.MaxPayloadSize - crypto.EncryptionOverhead\n\ttotal := len(b)\n\n\tfor len(b) > 0 {\n\t\tn := min(len(b), maxPlaintext)\n\t\tchunk := b[:n]\n"},
				{File: "internal/agent/agent.go", Old: "\t\t\treturn offset, fmt.Errorf(\"encrypt: %w\", err)\n", New: "\t\t\treturn total - len(b), fmt.Errorf(\"encrypt: %w\", err)\n"},
				{File: "internal/agent/agent.go", Old: "\t\t\t// Return bytes written so far\n\t\t\treturn offset, err\n\t\t}\n\n\t\toffset = end\n\t}\n\n\treturn len(b), nil\n", New: "\t\t\treturn total - len(b), err\n\t\t}\n\n\t\tb = b[n:]\n\t}\n\n\treturn total, nil\n"},
			}},
			{Name: "rewrite: size check in a validate helper", Edits: []Edit{
				{File: "internal/protocol/frame.go", Old: "\tif len(f.Payload) > MaxPayloadSize {\n\t\treturn nil, ErrFrameTooLarge\n\t}\n\n\tbuf := make([]byte, HeaderSize+len(f.Payload))", New: "\tif err := f.validate(); err != nil {\n\t\treturn nil, err\n\t}\n\n\tbuf := make([]byte, HeaderSize+len(f.Payload))"},
				{File: "internal/protocol/frame.go", Old: "// DecodeHeader decodes a frame header from bytes.", New: "func (f *Frame) validate() error {\n\tif len(f.Payload) > MaxPayloadSize {\n\t\treturn ErrFrameTooLarge\n\t}\n\treturn nil\n}\n\n// DecodeHeader decodes a frame header from bytes."},
			}},
			{Name: "frame writer encodes through an unchecked appender", ExpectRule: "C07.R1", ExpectKey: "FrameWriter", Edits: []Edit{
				{File: "internal/protocol/frame.go", Old: "// DecodeHeader decodes a frame header from bytes.", New: "func (f *Frame) appendTo(dst []byte) []byte {\n\tvar header [HeaderSize]byte\n\theader[0] = f.Type\n\theader[1] = f.Flags\n\tbinary.BigEndian.PutUint32(header[2:6], uint32(len(f.Payload)))\n\tbinary.BigEndian.PutUint64(header[6:14], f.StreamID)\n\tdst = append(dst, header[:]...)\n\treturn append(dst, f.Payload...)\n}\n\n// DecodeHeader decodes a frame header from bytes."},
				{File: "internal/protocol/frame.go", Old: "\tdata, err := f.Encode()\n\tif err != nil {\n\t\treturn err\n\t}\n\t_, err = fw.w.Write(data)\n\treturn err\n", New: "\tdata := f.appendTo(nil)\n\t_, err := fw.w.Write(data)\n\treturn err\n"},
			}},
			{Name: "rewrite: frame writer checks the size itself and appends into a scratch buffer", Edits: []Edit{
				{File: "internal/protocol/frame.go", Old: "// DecodeHeader decodes a frame header from bytes.", New: "func (f *Frame) appendTo(dst []byte) []byte {\n\tvar header [HeaderSize]byte\n\theader[0] = f.Type\n\theader[1] = f.Flags\n\tbinary.BigEndian.PutUint32(header[2:6], uint32(len(f.Payload)))\n\tbinary.BigEndian.PutUint64(header[6:14], f.StreamID)\n\tdst = append(dst, header[:]...)\n\treturn append(dst, f.Payload...)\n}\n\n// DecodeHeader decodes a frame header from bytes."},
				{File: "internal/protocol/frame.go", Old: "\tdata, err := f.Encode()\n\tif err != nil {\n\t\treturn err\n\t}\n\t_, err = fw.w.Write(data)\n\treturn err\n", New: "\tif len(f.Payload) > MaxPayloadSize {\n\t\treturn ErrFrameTooLarge\n\t}\n\tdata := f.appendTo(make([]byte, 0, HeaderSize+len(f.Payload)))\n\t_, err := fw.w.Write(data)\n\treturn err\n"},
			}},
			{Name: "short tail folded into the last tcp chunk", ExpectRule: "C07.R3", ExpectKey: "meshConn", Edits: []Edit{
				{File: "internal/agent/agent.go", Old: "\t\tend := offset + maxPlaintext\n\t\tif end > len(b) {\n", New: "\t\tend := offset + maxPlaintext\n\t\tif end > len(b) || len(b)-end < crypto.EncryptionOverhead {\n"},
			}},
			{Name: "tcp write encrypts the whole remainder at once", ExpectRule: "C07.R2", ExpectKey: "application write", Edits: []Edit{
				{File: "internal/agent/agent.go", Old: "\t\tciphertext, err := sessionKey.Encrypt(chunk)\n", New: "\t\tciphertext, err := sessionKey.Encrypt(b[offset:])\n\t\t_ = chunk\n"},
			}},
			{Name: "exit read buffer grows to a full frame", ExpectRule: "C07.R2", ExpectKey: "exit", Edits: []Edit{
				{File: "internal/exit/handler.go", Old: "\t\tn, err := ac.Conn.Read(buf)\n", New: "\t\tn, err := ac.Conn.Read(buf)\n\t\tif n == len(buf) && len(buf) < protocol.MaxPayloadSize {\n\t\t\tbuf = make([]byte, protocol.MaxPayloadSize)\n\t\t}\n"},
			}},
			{Name: "rewrite: chunk end and encrypt+send extracted into helpers", Edits: []Edit{
				{File: "internal/agent/agent.go", Old: "\tmaxPlaintext := protocol.MaxPayloadSize - crypto.EncryptionOverhead\n\n\t// Chunk data into max plaintext size pieces, encrypt each, and send\n\tfor offset := 0; offset < len(b); {\n\t\tend := offset + maxPlaintext\n\t\tif end > len(b) {\n\t\t\tend = len(b)\n\t\t}\n\n\t\tchunk := b[offset:end]\n\n\t\t// Encrypt the chunk\n\t\tciphertext, err := sessionKey.Encrypt(chunk)\n\t\tif err != nil {\n\t\t\treturn offset, fmt.Errorf(\"encrypt: %w\", err)\n\t\t}\n\n\t\tframe := &protocol.Frame{\n\t\t\tType:     protocol.FrameStreamData,\n\t\t\tStreamID: c.streamID,\n\t\t\tPayload:  ciphertext,\n\t\t}\n\n\t\tif err := c.agent.peerMgr.SendToPeer(c.peerID, frame); err != nil {\n", New: "\ttotal := len(b)\n\tfor offset := 0; offset < total; {\n\t\tend := chunkEndOf(offset, total, protocol.MaxPayloadSize-crypto.EncryptionOverhead)\n\t\tif err := c.sendEncryptedChunk(sessionKey, b[offset:end]); err != nil {\n"},
				{File: "internal/agent/agent.go", Old: "// Close closes the mesh connection.\nfunc (c *meshConn) Close() error {", New: "func chunkEndOf(start, total, size int) int {\n\treturn min(start+size, total)\n}\n\nfunc (c *meshConn) sendEncryptedChunk(key *crypto.SessionKey, plaintext []byte) error {\n\tciphertext, err := key.Encrypt(plaintext)\n\tif err != nil {\n\t\treturn fmt.Errorf(\"encrypt: %w\", err)\n\t}\n\treturn c.agent.peerMgr.SendToPeer(c.peerID, &protocol.Frame{\n\t\tType:     protocol.FrameStreamData,\n\t\tStreamID: c.streamID,\n\t\tPayload:  ciphertext,\n\t})\n}\n\n// Close closes the mesh connection.\nfunc (c *meshConn) Close() error {"},
			}},
			{Name: "helper-based chunking forgets the encryption overhead", ExpectRule: "C07.R2", ExpectKey: "sendEncryptedChunk", Edits: []Edit{
				{File: "internal/agent/agent.go", Old: "\tmaxPlaintext := protocol.MaxPayloadSize - crypto.EncryptionOverhead\n\n\t// Chunk data into max plaintext size pieces, encrypt each, and send\n\tfor offset := 0; offset < len(b); {\n\t\tend := offset + maxPlaintext\n\t\tif end > len(b) {\n\t\t\tend = len(b)\n\t\t}\n\n\t\tchunk := b[offset:end]\n\n\t\t// Encrypt the chunk\n\t\tciphertext, err := sessionKey.Encrypt(chunk)\n\t\tif err != nil {\n\t\t\treturn offset, fmt.Errorf(\"encrypt: %w\", err)\n\t\t}\n\n\t\tframe := &protocol.Frame{\n\t\t\tType:     protocol.FrameStreamData,\n\t\t\tStreamID: c.streamID,\n\t\t\tPayload:  ciphertext,\n\t\t}\n\n\t\tif err := c.agent.peerMgr.SendToPeer(c.peerID, frame); err != nil {\n", New: "\ttotal := len(b)\n\tfor offset := 0; offset < total; {\n\t\tend := chunkEndOf(offset, total, protocol.MaxPayloadSize)\n\t\tif err := c.sendEncryptedChunk(sessionKey, b[offset:end]); err != nil {\n"},
				{File: "internal/agent/agent.go", Old: "// Close closes the mesh connection.\nfunc (c *meshConn) Close() error {", New: "func chunkEndOf(start, total, size int) int {\n\treturn min(start+size, total)\n}\n\nfunc (c *meshConn) sendEncryptedChunk(key *crypto.SessionKey, plaintext []byte) error {\n\tciphertext, err := key.Encrypt(plaintext)\n\tif err != nil {\n\t\treturn fmt.Errorf(\"encrypt: %w\", err)\n\t}\n\treturn c.agent.peerMgr.SendToPeer(c.peerID, &protocol.Frame{\n\t\tType:     protocol.FrameStreamData,\n\t\tStreamID: c.streamID,\n\t\tPayload:  ciphertext,\n\t})\n}\n\n// Close closes the mesh connection.\nfunc (c *meshConn) Close() error {"},
			}},
			{Name: "rewrite: size limit as a predicate helper", Edits: []Edit{
				{File: "internal/protocol/frame.go", Old: "\tif len(f.Payload) > MaxPayloadSize {\n\t\treturn nil, ErrFrameTooLarge\n\t}\n\n\tbuf := make([]byte, HeaderSize+len(f.Payload))", New: "\tif payloadTooLarge(uint64(len(f.Payload))) {\n\t\treturn nil, ErrFrameTooLarge\n\t}\n\n\tbuf := make([]byte, HeaderSize+len(f.Payload))"},
				{File: "internal/protocol/frame.go", Old: "// DecodeHeader decodes a frame header from bytes.", New: "func payloadTooLarge(n uint64) bool {\n\treturn n > MaxPayloadSize\n}\n\n// DecodeHeader decodes a frame header from bytes."},
			}},
			{Name: "predicate helper compares against the whole frame size", ExpectRule: "C07.R1", ExpectKey: "size guard", Edits: []Edit{
				{File: "internal/protocol/frame.go", Old: "\tif len(f.Payload) > MaxPayloadSize {\n\t\treturn nil, ErrFrameTooLarge\n\t}\n\n\tbuf := make([]byte, HeaderSize+len(f.Payload))", New: "\tif payloadTooLarge(uint64(len(f.Payload))) {\n\t\treturn nil, ErrFrameTooLarge\n\t}\n\n\tbuf := make([]byte, HeaderSize+len(f.Payload))"},
				{File: "internal/protocol/frame.go", Old: "// DecodeHeader decodes a frame header from bytes.", New: "func payloadTooLarge(n uint64) bool {\n\treturn n > MaxFrameSize\n}\n\n// DecodeHeader decodes a frame header from bytes."},
			}},
			{Name: "leftover kept as a tail slice while the drain path stops resetting the offset", ExpectRule: "C07.R4", ExpectKey: "meshConn", Edits: []Edit{
				{File: "internal/agent/agent.go", Old: "\t\t\tc.readBuf = nil\n\t\t\tc.readOffset = 0\n", New: "\t\t\tc.readBuf = nil\n"},
				{File: "internal/agent/agent.go", Old: "\t\tc.readBuf = plaintext\n\t\tc.readOffset = n\n", New: "\t\tc.readBuf = plaintext[n:]\n"},
			}},
			{Name: "new leftover stored with an offset carried over from the previous one", ExpectRule: "C07.R4", ExpectKey: "meshConn", Edits: []Edit{
				{File: "internal/agent/agent.go", Old: "\t\t\tc.readBuf = nil\n\t\t\tc.readOffset = 0\n", New: "\t\t\tc.readBuf = nil\n"},
				{File: "internal/agent/agent.go", Old: "\t\tc.readBuf = plaintext\n\t\tc.readOffset = n\n", New: "\t\tc.readBuf = plaintext\n\t\tc.readOffset += n\n"},
			}},
			{Name: "rewrite: leftover kept as a tail slice, drain path still resets the offset", Edits: []Edit{
				{File: "internal/agent/agent.go", Old: "\t\tc.readBuf = plaintext\n\t\tc.readOffset = n\n", New: "\t\tc.readBuf = plaintext[n:]\n"},
			}},
			{Name: "rewrite: drain path only clears the buffer, fresh path defines the offset", Edits: []Edit{
				{File: "internal/agent/agent.go", Old: "\t\t\tc.readBuf = nil\n\t\t\tc.readOffset = 0\n", New: "\t\t\tc.readBuf = nil\n"},
			}},
			{Name: "destination write retried after partial progress without consuming it", ExpectRule: "C07.R5", ExpectKey: "HandleStreamData", Edits: []Edit{
				{File: "internal/exit/handler.go", Old: "\t\tif _, err := ac.Conn.Write(plaintext); err != nil {\n\t\t\th.closeConnection(streamID, peerID, err)\n\t\t\treturn err\n\t\t}\n", New: "\t\terr = nil\n\t\tfor rest := plaintext; len(rest) > 0; {\n\t\t\tn, werr := ac.Conn.Write(rest)\n\t\t\tif werr != nil {\n\t\t\t\tif n > 0 {\n\t\t\t\t\tcontinue\n\t\t\t\t}\n\t\t\t\terr = werr\n\t\t\t\tbreak\n\t\t\t}\n\t\t\trest = rest[n:]\n\t\t}\n\t\tif err != nil {\n\t\t\th.closeConnection(streamID, peerID, err)\n\t\t\treturn err\n\t\t}\n"},
			}},
			{Name: "short destination write retried from the start of the buffer", ExpectRule: "C07.R5", ExpectKey: "HandleStreamData", Edits: []Edit{
				{File: "internal/exit/handler.go", Old: "\t\tif _, err := ac.Conn.Write(plaintext); err != nil {\n\t\t\th.closeConnection(streamID, peerID, err)\n\t\t\treturn err\n\t\t}\n", New: "\t\terr = nil\n\t\tfor rest := plaintext; len(rest) > 0; {\n\t\t\tn, werr := ac.Conn.Write(rest)\n\t\t\tif werr != nil {\n\t\t\t\tif n < len(rest) {\n\t\t\t\t\tcontinue\n\t\t\t\t}\n\t\t\t\terr = werr\n\t\t\t\tbreak\n\t\t\t}\n\t\t\trest = rest[n:]\n\t\t}\n\t\tif err != nil {\n\t\t\th.closeConnection(streamID, peerID, err)\n\t\t\treturn err\n\t\t}\n"},
			}},
			{Name: "rewrite: destination written in a loop that consumes n and retries only when nothing was accepted", Edits: []Edit{
				{File: "internal/exit/handler.go", Old: "\t\tif _, err := ac.Conn.Write(plaintext); err != nil {\n\t\t\th.closeConnection(streamID, peerID, err)\n\t\t\treturn err\n\t\t}\n", New: "\t\terr = nil\n\t\tfor rest := plaintext; len(rest) > 0; {\n\t\t\tn, werr := ac.Conn.Write(rest)\n\t\t\tif werr != nil {\n\t\t\t\tif n == 0 {\n\t\t\t\t\tcontinue\n\t\t\t\t}\n\t\t\t\terr = werr\n\t\t\t\tbreak\n\t\t\t}\n\t\t\trest = rest[n:]\n\t\t}\n\t\tif err != nil {\n\t\t\th.closeConnection(streamID, peerID, err)\n\t\t\treturn err\n\t\t}\n"},
			}},
			{Name: "rewrite: maxPlaintext as package constant, min() for the chunk end", Edits: []Edit{
				{File: "internal/agent/agent.go", Old: "\tmaxPlaintext := protocol.MaxPayloadSize - crypto.EncryptionOverhead\n\n\t// Chunk data into max plaintext size pieces, encrypt each, and send\n\tfor offset := 0; offset < len(b); {\n\t\tend := offset + maxPlaintext\n\t\tif end > len(b) {\n\t\t\tend = len(b)\n\t\t}\n", New: "\tconst maxPlaintext = protocol.MaxPayloadSize - crypto.EncryptionOverhead\n\n\tfor offset := 0; len(b) > offset; {\n\t\tend := min(offset+maxPlaintext, len(b))\n"},
			}},
			{Name: "rewrite: guard written as negated <=, swapped operands", Edits: []Edit{
				{File: "internal/protocol/frame.go", Old: "\tif len(f.Payload) > MaxPayloadSize {\n\t\treturn nil, ErrFrameTooLarge", New: "\tif n := len(f.Payload); !(MaxPayloadSize >= n) {\n\t\treturn nil, ErrFrameTooLarge"},
			}},
			{Name: "rewrite: last-chunk test by equality, flags via if/else", Edits: []Edit{
				{File: "internal/agent/agent.go", Old: "\t\tisLast := end >= len(data)\n\n\t\t// Only set flags on the last chunk\n\t\tvar chunkFlags uint8\n\t\tif isLast {\n\t\t\tchunkFlags = flags\n\t\t}\n", New: "\t\tchunkFlags := uint8(0)\n\t\tif len(data) == end {\n\t\t\tchunkFlags = flags\n\t\t}\n"},
			}},
			{Name: "rewrite: exit read buffer as a fixed array", Edits: []Edit{
				{File: "internal/exit/handler.go", Old: "\tbuf := make([]byte, maxPlaintext)\n", New: "\tvar arr [protocol.MaxPayloadSize - crypto.EncryptionOverhead]byte\n\tbuf := arr[:maxPlaintext]\n"},
			}},
		},
	})
}

// ---------- anchors ----------

type c07ctx struct {
	p          *kit.Program
	r          *kit.Report
	maxPayload int64
	overhead   int64
	streamData int64      // value of protocol.FrameStreamData
	frameType  *types.Var // protocol.Frame.Type
	framePay   *types.Var // protocol.Frame.Payload
	frameFlags *types.Var // protocol.Frame.Flags
	encrypt    *ssa.Function
}

func c07const(p *kit.Program, pkg, name string) (int64, bool) {
	s, ok := p.ConstValue(pkg, name)
	if !ok {
		return 0, false
	}
	n, err := strconv.ParseInt(s, 0, 64)
	return n, err == nil
}

func newC07ctx(p *kit.Program, r *kit.Report) *c07ctx {
	cx := &c07ctx{p: p, r: r}
	var ok1, ok2, ok3 bool
	cx.maxPayload, ok1 = c07const(p, "internal/protocol", "MaxPayloadSize")
	cx.overhead, ok2 = c07const(p, "internal/crypto", "EncryptionOverhead")
	cx.streamData, ok3 = c07const(p, "internal/protocol", "FrameStreamData")
	r.Require(ok1, "anchor-unresolved: constant protocol.MaxPayloadSize")
	r.Require(ok2, "anchor-unresolved: constant crypto.EncryptionOverhead")
	r.Require(ok3, "anchor-unresolved: constant protocol.FrameStreamData")
	cx.frameType = p.Field("internal/protocol", "Frame", "Type")
	cx.framePay = p.Field("internal/protocol", "Frame", "Payload")
	cx.frameFlags = p.Field("internal/protocol", "Frame", "Flags")
	r.Require(cx.frameType != nil && cx.framePay != nil && cx.frameFlags != nil, "anchor-unresolved: fields Type/Flags/Payload of protocol.Frame")
	// the exported SessionKey method that (transitively, inside internal/crypto) reaches AEAD.Seal
	cx.encrypt = sessionSealEntry(p)
	r.Require(cx.encrypt != nil, "anchor-unresolved: SessionKey method calling cipher.AEAD.Seal")
	if len(r.Floors) > 0 {
		return nil
	}
	return cx
}

func runC07(p *kit.Program, r *kit.Report) {
	r.Rule("C07.R1", "Frame.Encode returns bytes only under a guard excluding len(Payload) > 16384; MaxPayloadSize is 16384; FrameWriter hands only Encode results to its io.Writer; transport streams are used as io.Writer only by FrameWriter")
	r.Rule("C07.R2", "for every SessionKey.Encrypt whose ciphertext becomes a STREAM_DATA payload and whose plaintext length has a structural upper bound B: B + EncryptionOverhead <= MaxPayloadSize (one AEAD message per frame)")
	r.Rule("C07.R3", "chunk loops over a caller buffer: the next chunk starts where the previous ended, the chunk end is min(start+K, len), the loop ends only when start >= len, caller flags go on the last chunk only")
	cx := newC07ctx(p, r)
	if cx == nil {
		return
	}
	cx.ruleR1()
	cx.ruleR2()
	cx.ruleR3()
	cx.ruleR4()
	cx.ruleR5()
	kit.DumpObs(r)
}

// ---------- R1 ----------

func (cx *c07ctx) ruleR1() {
	p, r := cx.p, cx.r
	r.Decide(cx.maxPayload == 16384, "C07.R1", "protocol.MaxPayloadSize value", "-",
		"MaxPayloadSize = 16384", fmt.Sprintf("MaxPayloadSize is %d, the property's limit is 16384 payload bytes per frame", cx.maxPayload))

	// the encoder: method of Frame returning ([]byte, error)
	var enc *ssa.Function
	for _, m := range p.Methods("internal/protocol", "Frame") {
		res := m.Signature.Results()
		if res.Len() == 2 && kit.IsErrorType(res.At(1).Type()) && res.At(0).Type().String() == "[]byte" && m.Signature.Params().Len() == 0 {
			enc = m
		}
	}
	if !r.Require(enc != nil, "anchor-unresolved: method of protocol.Frame with result ([]byte, error)") {
		return
	}
	isLen := func(v ssa.Value) bool { return g2lenOfField(v, cx.framePay) }
	nOK, nRet := 0, 0
	bad, tooStrict := "", ""
	for _, ret := range kit.Returns(enc) {
		if ret.Block() == enc.Recover || !kit.ReturnsNilError(ret) {
			continue
		}
		if kit.IsNilConst(kit.ReturnResult(ret, 0)) {
			continue
		}
		nRet++
		// quantity: len(<base>.Payload); base is the receiver here, the matching parameter in a validator
		q := func(base ssa.Value) func(ssa.Value) bool {
			return func(v ssa.Value) bool {
				c, ok := g2stripConv(v).(*ssa.Call)
				if !ok || kit.CalleeOf(c).Built != "len" || len(c.Call.Args) != 1 {
					return false
				}
				f, b := kit.LoadedField(c.Call.Args[0])
				return f == cx.framePay && b == base
			}
		}
		var recv ssa.Value
		if len(enc.Params) > 0 {
			recv = enc.Params[0]
		}
		guarded := g2lenGuarded(kit.GuardsOf(ret), recv, q, []int64{cx.limit() + 1, cx.limit() + 2, cx.limit() + 14, 1 << 20, 1 << 31, 1 << 40})
		if guarded {
			nOK++
		} else {
			bad = p.Pos(ret.Pos())
		}
		// a payload of exactly MaxPayloadSize must pass: the chunkers emit such frames
		for _, g := range kit.GuardsOf(ret) {
			if ex, rel := g2guardExcludes(g, isLen, cx.maxPayload); rel && ex {
				tooStrict = p.Pos(g.Cond.Pos())
			}
		}
	}
	r.Count("frame_encode_success_returns", nRet)
	r.Decide(nRet > 0 && nOK == nRet, "C07.R1", kit.FuncName(enc)+" size guard", p.Pos(enc.Pos()),
		"every return of encoded bytes is dominated by a guard that excludes len(Payload) > 16384",
		"encoded bytes are returned at "+bad+" without a dominating guard that excludes len(Payload) = 16385 and above: an oversize frame reaches the peer")

	r.Decide(tooStrict == "", "C07.R1", kit.FuncName(enc)+" admits a full payload", p.Pos(enc.Pos()),
		"a payload of exactly MaxPayloadSize bytes passes the size guard",
		"the guard at "+tooStrict+" rejects a payload of exactly MaxPayloadSize bytes, which the chunking writers produce: every full-size chunk of a large write is dropped")

	// FrameWriter: every io.Writer.Write in its methods writes the Encode result on the err==nil edge
	fwT := p.NamedType("internal/protocol", "FrameWriter")
	if !r.Require(fwT != nil, "anchor-unresolved: type protocol.FrameWriter") {
		return
	}
	nW := 0
	for _, m := range p.Methods("internal/protocol", "FrameWriter") {
		for _, c := range kit.Calls(m) {
			cal := kit.CalleeOf(c)
			if !(cal.Iface && cal.Name == "Write") {
				continue
			}
			nW++
			arg := kit.Arg(c, 0)
			ok := false
			samples := []int64{cx.limit() + 1, cx.limit() + 2, cx.limit() + 14, 1 << 20, 1 << 31, 1 << 40}
			q := func(base ssa.Value) func(ssa.Value) bool {
				return func(v ssa.Value) bool {
					cl, ok := g2stripConv(v).(*ssa.Call)
					if !ok || kit.CalleeOf(cl).Built != "len" || len(cl.Call.Args) != 1 {
						return false
					}
					f, b := kit.LoadedField(cl.Call.Args[0])
					return f == cx.framePay && b == base
				}
			}
			producers := cx.producerCalls(m, arg)
			for _, call := range producers {
				callee := kit.CalleeOf(call).Static
				if callee == nil {
					continue
				}
				// (a) the checked encoder, used on its err == nil edge
				if callee == enc {
					if e := kit.ErrResultOf(call); e != nil && kit.ErrNilOn(kit.GuardsOf(c), e) {
						ok = true
					}
					continue
				}
				// (b) another producer of frame bytes whose own returns are size-guarded
				if cx.bytesGuarded(callee, q, samples) {
					if e := kit.ErrResultOf(call); e == nil || kit.ErrNilOn(kit.GuardsOf(c), e) {
						ok = true
					}
				}
			}
			// (c) the size check is made at the write site itself, on the frame being written
			if !ok && len(producers) > 0 {
				for _, prm := range m.Params {
					if c07isFramePtr(prm.Type()) && g2lenGuarded(kit.GuardsOf(c), prm, q, samples) {
						ok = true
					}
				}
			}
			r.Decide(ok, "C07.R1", fmt.Sprintf("%s FrameWriter write #%d", kit.FuncName(m), nW), p.Pos(c.Pos()),
				"writes frame bytes whose payload length was checked against the limit (by the encoder that produced them or at the write site)",
				"the frame writer hands bytes to the stream that are not the checked result of Frame.Encode (nor size-checked by their producer or at the write site): the size limit is bypassed")
		}
	}
	r.Require(nW >= 1, "floor: no io.Writer.Write call found in the methods of protocol.FrameWriter")
	r.Count("framewriter_write_sites", nW)

	// transport streams: converted to a Write-capable interface only as the argument of the
	// FrameWriter constructor; Write invoked on them only inside internal/transport
	streamIface := p.NamedType("internal/transport", "Stream")
	if streamIface == nil {
		r.Infof("C07.R1", "transport streams", "-", "internal/transport not loaded; who-may-write clause not evaluated")
		return
	}
	ifaceT, _ := streamIface.Underlying().(*types.Interface)
	isStreamT := func(t types.Type) bool {
		if t == nil || ifaceT == nil {
			return false
		}
		if types.Identical(t, streamIface) {
			return true
		}
		n := g2named(t)
		if n == nil || n.Obj().Pkg() == nil || n.Obj().Pkg().Path() != kit.PkgPath("internal/transport") {
			return false
		}
		if _, isIface := n.Underlying().(*types.Interface); isIface {
			return false
		}
		return types.Implements(t, ifaceT) || types.Implements(types.NewPointer(t), ifaceT)
	}
	hasWrite := func(t types.Type) bool {
		it, ok := t.Underlying().(*types.Interface)
		if !ok {
			return false
		}
		for i := 0; i < it.NumMethods(); i++ {
			if it.Method(i).Name() == "Write" {
				return true
			}
		}
		return false
	}
	nConv, nDirect := 0, 0
	for _, fn := range p.RepoFuncs() {
		inTransport := kit.FuncPkgPath(fn) == kit.PkgPath("internal/transport")
		kit.Instrs(fn, func(in ssa.Instruction) {
			switch x := in.(type) {
			case *ssa.ChangeInterface, *ssa.MakeInterface:
				var from ssa.Value
				if ci, ok := x.(*ssa.ChangeInterface); ok {
					from = ci.X
				} else {
					from = x.(*ssa.MakeInterface).X
				}
				v := x.(ssa.Value)
				if inTransport || !isStreamT(from.Type()) || !hasWrite(v.Type()) || types.Identical(v.Type(), streamIface) {
					return
				}
				nConv++
				ok := true
				if refs := v.Referrers(); refs != nil {
					for _, ref := range *refs {
						c, isCall := ref.(ssa.CallInstruction)
						if !isCall {
							if _, dbg := ref.(*ssa.DebugRef); dbg {
								continue
							}
							ok = false
							continue
						}
						st := kit.CalleeOf(c).Static
						if st == nil || st.Signature.Results().Len() != 1 || g2named(st.Signature.Results().At(0).Type()) != fwT {
							ok = false
						}
					}
				}
				r.Decide(ok, "C07.R1", fmt.Sprintf("%s stream as writer #%d", kit.FuncName(fn), nConv), p.Pos(in.Pos()),
					"the transport stream is handed as io.Writer to the FrameWriter constructor only",
					"a transport stream is used as a plain io.Writer outside FrameWriter: bytes can reach the peer without passing Frame.Encode")
			case ssa.CallInstruction:
				cc := x.Common()
				if inTransport || !cc.IsInvoke() && cc.StaticCallee() == nil {
					return
				}
				cal := kit.CalleeOf(x)
				if cal.Name != "Write" {
					return
				}
				var recvT types.Type
				if cc.IsInvoke() {
					recvT = cc.Value.Type()
				} else if rv := kit.Receiver(x); rv != nil {
					recvT = rv.Type()
				}
				if recvT != nil && isStreamT(recvT) {
					nDirect++
					r.Violation("C07.R1", fmt.Sprintf("%s direct stream write #%d", kit.FuncName(fn), nDirect), p.Pos(x.Pos()),
						"Write is called on a transport stream outside internal/transport and outside FrameWriter: the frame size limit is bypassed")
				}
			}
		})
	}
	r.Count("stream_to_writer_conversions", nConv)
	r.Require(nConv >= 1, "floor: no conversion of a transport stream to io.Writer found (expected the FrameWriter construction in internal/peer)")
	r.OK("C07.R1", "direct stream writes", "-", "%d direct Write calls on transport streams outside internal/transport", nDirect)
}

func (cx *c07ctx) limit() int64 { return 16384 }

// ---------- R2 ----------

// c07streamDataFrame: alloc is a protocol.Frame composite whose Type is stored as FrameStreamData.
func (cx *c07ctx) isStreamDataFrame(base ssa.Value) bool {
	refs := base.Referrers()
	if refs == nil {
		return false
	}
	for _, ref := range *refs {
		fa, ok := ref.(*ssa.FieldAddr)
		if !ok || kit.FieldOfAddr(fa) != cx.frameType || fa.Referrers() == nil {
			continue
		}
		for _, r2 := range *fa.Referrers() {
			if st, ok := r2.(*ssa.Store); ok && st.Addr == fa {
				if k, isc := kit.ConstInt(st.Val); isc && k == cx.streamData {
					return true
				}
			}
		}
	}
	return false
}

// reachesStreamData: the value flows (through phis and local variables) into the data argument of
// a WriteStreamData call or into the Payload of a STREAM_DATA frame literal.
func (cx *c07ctx) reachesStreamData(v ssa.Value) bool {
	seen := map[ssa.Value]bool{}
	var rec func(ssa.Value) bool
	rec = func(x ssa.Value) bool {
		if x == nil || seen[x] || x.Referrers() == nil {
			return false
		}
		seen[x] = true
		for _, ref := range *x.Referrers() {
			switch t := ref.(type) {
			case ssa.CallInstruction:
				if kit.CalleeOf(t).Name == "WriteStreamData" {
					return true
				}
			case *ssa.Store:
				if t.Val != x {
					continue
				}
				if fa, ok := t.Addr.(*ssa.FieldAddr); ok && kit.FieldOfAddr(fa) == cx.framePay && cx.isStreamDataFrame(fa.X) {
					return true
				}
				if a, ok := t.Addr.(*ssa.Alloc); ok && a.Referrers() != nil {
					for _, r2 := range *a.Referrers() {
						if ld, ok := r2.(*ssa.UnOp); ok && ld.Op == token.MUL && rec(ld) {
							return true
						}
					}
				}
			case *ssa.Phi:
				if rec(t) {
					return true
				}
			case *ssa.Extract:
				if rec(t) {
					return true
				}
			}
		}
		return false
	}
	return rec(v)
}

func (cx *c07ctx) ruleR2() {
	p, r := cx.p, cx.r
	type site struct {
		fn   *ssa.Function
		call *ssa.Call
	}
	var sites []site
	nAll := 0
	for _, fn := range p.RepoFuncs() {
		for _, c := range kit.Calls(fn) {
			call, ok := c.(*ssa.Call)
			if !ok || kit.CalleeOf(c).Static != cx.encrypt {
				continue
			}
			nAll++
			if cx.reachesStreamData(call) {
				sites = append(sites, site{fn, call})
			} else {
				r.Infof("C07.R2", fmt.Sprintf("%s Encrypt (not a STREAM_DATA payload)", kit.FuncName(fn)), p.Pos(call.Pos()), "ciphertext is not used as a STREAM_DATA payload here (datagram/echo/wrapper); out of scope of R2")
			}
		}
	}
	r.Count("encrypt_call_sites", nAll)
	r.Count("encrypt_sites_feeding_stream_data", len(sites))
	r.Require(len(sites) >= 3, "floor: only %d SessionKey.Encrypt sites feed STREAM_DATA payloads (expected the tcp, exit, forward, shell and file-transfer producers)", len(sites))
	ord := map[string]int{}
	nBounded, nTop := 0, 0
	for _, s := range sites {
		fname := kit.FuncName(s.fn)
		ord[fname]++
		u := &g2ub{p: cx.p, busy: map[ssa.Value]int{}}
		alts := g2dedup(u.lenUBAt(kit.Arg(s.call, 0), &g2frame{fn: s.fn}, s.call))
		sort.Slice(alts, func(i, j int) bool {
			if alts[i].origin != alts[j].origin {
				return alts[i].origin < alts[j].origin
			}
			return alts[i].n < alts[j].n
		})
		// a nil/empty alternative next to real ones carries no information
		if len(alts) > 1 {
			var keep []g2alt
			for _, a := range alts {
				if a.top || a.n != 0 || a.origin != "" {
					keep = append(keep, a)
				}
			}
			if len(keep) > 0 {
				alts = keep
			}
		}
		// one obligation per origin: the largest bound of that origin
		byOrigin := map[string]g2alt{}
		var origins []string
		for _, a := range alts {
			o := a.origin
			if a.top {
				o = "unbounded: " + a.origin
			}
			cur, have := byOrigin[o]
			if !have {
				origins = append(origins, o)
				byOrigin[o] = a
			} else if (!cur.top && (a.top || a.n > cur.n)) || (a.top && a.api && !cur.api) {
				byOrigin[o] = a
			}
		}
		for _, o := range origins {
			a := byOrigin[o]
			key := fmt.Sprintf("%s Encrypt #%d", fname, ord[fname])
			if a.origin != "" && a.origin != fname && !a.top {
				key += " <- " + a.origin
			}
			if a.top && a.api {
				r.Violation("C07.R2", key+" <- application write", p.Pos(s.call.Pos()),
					"the plaintext is the whole argument of an io.Writer-style Write (%s), not a chunk of bounded size: a write larger than MaxPayloadSize-EncryptionOverhead yields one AEAD message that cannot be carried in a single frame", a.origin)
				continue
			}
			if a.top {
				nTop++
				r.Infof("C07.R2", key+" ("+o+")", p.Pos(s.call.Pos()), "plaintext length has no structural upper bound (%s); not judged", a.origin)
				continue
			}
			nBounded++
			total := a.n + cx.overhead
			r.Decide(total <= cx.maxPayload, "C07.R2", key, p.Pos(s.call.Pos()),
				fmt.Sprintf("plaintext <= %d bytes, ciphertext <= %d <= MaxPayloadSize %d", a.n, total, cx.maxPayload),
				fmt.Sprintf("plaintext can be %d bytes, the AEAD message %d bytes > MaxPayloadSize %d: it cannot be carried in one frame (split ciphertext is undecryptable / the frame is rejected) and the stream breaks", a.n, total, cx.maxPayload))
		}
	}
	r.Count("plaintext_bounds_decided", nBounded)
	r.Count("plaintext_unbounded_listed", nTop)
	r.Require(nBounded >= 3, "floor: only %d Encrypt plaintexts have a structural length bound (expected >= 3 of: tcp chunk, exit, forward, shell pumps, file transfer)", nBounded)
}

// ---------- R3 ----------

func (cx *c07ctx) ruleR3() {
	p, r := cx.p, cx.r
	nLoops := 0
	// the subject exists: some function stores the Payload of a STREAM_DATA frame
	nPayload := 0
	for _, fn := range p.RepoFuncs() {
		kit.Instrs(fn, func(in ssa.Instruction) {
			if st, ok := in.(*ssa.Store); ok {
				if fa, ok := st.Addr.(*ssa.FieldAddr); ok && kit.FieldOfAddr(fa) == cx.framePay && cx.isStreamDataFrame(fa.X) {
					nPayload++
				}
			}
		})
	}
	r.Count("stream_data_payload_stores", nPayload)
	r.Require(nPayload >= 1, "floor: no STREAM_DATA frame construction found in the repository")
	for _, fn := range p.RepoFuncs() {
		fname := kit.FuncName(fn)
		n := 0
		kit.Instrs(fn, func(in ssa.Instruction) {
			s, ok := in.(*ssa.Slice)
			if !ok || s.Low == nil {
				return
			}
			if _, isParam := s.X.(*ssa.Parameter); !isParam {
				return
			}
			if _, isConst := kit.ConstInt(s.Low); isConst {
				return
			}
			if !strings.HasSuffix(s.X.Type().String(), "[]byte") {
				return
			}
			// only pieces that become (the plaintext of) a STREAM_DATA payload, directly or through helpers
			if _, sink := cx.sdSink(s, 0, map[ssa.Value]bool{}); !sink {
				return
			}
			n++
			nLoops++
			key := fmt.Sprintf("%s chunk #%d", fname, n)
			pos := p.Pos(s.Pos())
			// (a) chunk end idiom
			k, okW := g2chunkWidth(s)
			r.Decide(okW && k >= 1, "C07.R3", key+" end", pos,
				fmt.Sprintf("chunk is X[start:min(start+%d, len(X))]", k),
				"the chunk end is not min(start+K, len(buffer)) of this chunk's start: bytes are dropped, duplicated or the slice overruns")
			if okW && cx.isDirectPayload(s) {
				r.Decide(k <= cx.maxPayload, "C07.R3", key+" fits a frame", pos,
					fmt.Sprintf("chunks of at most %d bytes are used as frame payloads (limit %d)", k, cx.maxPayload),
					fmt.Sprintf("chunks of up to %d bytes are used as frame payloads but Frame.Encode rejects more than %d: every full chunk of a large write is dropped", k, cx.maxPayload))
			}
			// (b) contiguity: start = phi(0, previous end)
			contig := false
			if phi, ok := s.Low.(*ssa.Phi); ok && len(phi.Edges) == 2 {
				zero, next := false, false
				for i, e := range phi.Edges {
					pred := phi.Block().Preds[i]
					back := phi.Block().Dominates(pred)
					if c, isc := kit.ConstInt(e); isc && c == 0 && !back {
						zero = true
					}
					if e == s.High && back {
						next = true
					}
				}
				contig = zero && next
			}
			r.Decide(contig, "C07.R3", key+" contiguity", pos,
				"the chunk start is 0 on entry and the previous chunk's end afterwards",
				"the next chunk does not start exactly where the previous one ended (gap or overlap): the far end re-assembles different bytes")
			// (c) completeness: successful returns after the loop started need start >= len(X)
			isLow := func(v ssa.Value) bool { return v == s.Low }
			isLenX := func(v ssa.Value) bool {
				c, ok := v.(*ssa.Call)
				return ok && kit.CalleeOf(c).Built == "len" && len(c.Call.Args) == 1 && c.Call.Args[0] == s.X
			}
			complete, nret := true, 0
			lowInstr, _ := s.Low.(ssa.Instruction)
			for _, ret := range kit.Returns(fn) {
				if ret.Block() == fn.Recover || !kit.ReturnsNilError(ret) || lowInstr == nil {
					continue
				}
				if !(lowInstr.Block() == ret.Block() || kit.CanReach(lowInstr, ret)) {
					continue
				}
				nret++
				okRet := false
				for _, g := range kit.GuardsOf(ret) {
					if holds, rel := g2orderGuard(g, isLow, isLenX, -1); rel && !holds {
						okRet = true
					}
				}
				if !okRet {
					complete = false
				}
			}
			r.Decide(complete && nret > 0, "C07.R3", key+" completeness", pos,
				"success is returned only when start >= len(buffer)",
				"the loop can end successfully while start < len(buffer): the tail of the write is silently dropped")
			// (d) caller flags only on the last chunk
			cx.flagsOnLast(fn, s, key, isLenX)
		})
		// idiom B: "for len(b) > 0 { n := min(len(b), K); chunk := b[:n]; ...; b = b[n:] }"
		kit.Instrs(fn, func(in ssa.Instruction) {
			s, ok := in.(*ssa.Slice)
			if !ok || s.High == nil || !strings.HasSuffix(s.X.Type().String(), "[]byte") {
				return
			}
			if s.Low != nil {
				if c, isc := kit.ConstInt(s.Low); !isc || c != 0 {
					return
				}
			}
			phi, ok := s.X.(*ssa.Phi)
			if !ok {
				return
			}
			if _, isc := kit.ConstInt(s.High); isc {
				return
			}
			// the phi merges a parameter with the remainder slice
			var rest *ssa.Slice
			fromParam := false
			for i, e := range phi.Edges {
				pred := phi.Block().Preds[i]
				if phi.Block().Dominates(pred) {
					if sl, ok := e.(*ssa.Slice); ok && sl.X == ssa.Value(phi) {
						rest = sl
					}
				} else if _, isParam := e.(*ssa.Parameter); isParam {
					fromParam = true
				}
			}
			if !fromParam {
				return
			}
			if _, sink := cx.sdSink(s, 0, map[ssa.Value]bool{}); !sink {
				return
			}
			n++
			nLoops++
			key := fmt.Sprintf("%s chunk #%d", fname, n)
			pos := p.Pos(s.Pos())
			isLenPhi := func(v ssa.Value) bool {
				c, ok := g2stripConv(v).(*ssa.Call)
				return ok && kit.CalleeOf(c).Built == "len" && len(c.Call.Args) == 1 && c.Call.Args[0] == ssa.Value(phi)
			}
			// (a) end = min(len(rest), K)
			u := &g2ub{p: p, busy: map[ssa.Value]int{}}
			var k int64 = -1
			endOK := false
			switch h := s.High.(type) {
			case *ssa.Call:
				if kit.CalleeOf(h).Built == "min" {
					hasLen := false
					for _, a := range h.Call.Args {
						if isLenPhi(a) {
							hasLen = true
						} else if c, isc := kit.ConstInt(a); isc {
							k = c
						}
					}
					endOK = hasLen && k >= 1
				}
			case *ssa.Phi:
				hasLen := false
				for _, e := range h.Edges {
					if isLenPhi(e) {
						hasLen = true
					} else if c, isc := kit.ConstInt(e); isc {
						k = c
					}
				}
				endOK = hasLen && k >= 1 && len(h.Edges) == 2
			}
			_ = u
			r.Decide(endOK, "C07.R3", key+" end", pos,
				fmt.Sprintf("chunk is rest[:min(len(rest), %d)]", k),
				"the chunk end is not min(len(remaining), K): bytes are dropped or the slice overruns")
			if endOK && cx.isDirectPayload(s) {
				r.Decide(k <= cx.maxPayload, "C07.R3", key+" fits a frame", pos,
					fmt.Sprintf("chunks of at most %d bytes are used as frame payloads (limit %d)", k, cx.maxPayload),
					fmt.Sprintf("chunks of up to %d bytes are used as frame payloads but Frame.Encode rejects more than %d", k, cx.maxPayload))
			}
			// (b) contiguity: the remainder starts where the chunk ended
			contig := rest != nil && rest.High == nil && rest.Low == s.High
			r.Decide(contig, "C07.R3", key+" contiguity", pos,
				"the remaining buffer starts exactly at the end of the chunk just sent",
				"the remaining buffer does not start where the chunk ended (gap or overlap): the far end re-assembles different bytes")
			// (c) completeness: success only when nothing remains
			complete, nret := true, 0
			for _, ret := range kit.Returns(fn) {
				if ret.Block() == fn.Recover || !kit.ReturnsNilError(ret) {
					continue
				}
				if !(phi.Block() == ret.Block() || kit.CanReach(phi, ret)) {
					continue
				}
				nret++
				okRet := false
				for _, g := range kit.GuardsOf(ret) {
					if ex, rel := g2guardExcludes(g, isLenPhi, 1); rel && ex {
						okRet = true
					}
				}
				if !okRet {
					complete = false
				}
			}
			r.Decide(complete && nret > 0, "C07.R3", key+" completeness", pos,
				"success is returned only when nothing remains",
				"the loop can end successfully while bytes remain: the tail of the write is silently dropped")
			isLenRest := func(v ssa.Value) bool {
				if rest == nil {
					return false
				}
				c, ok := g2stripConv(v).(*ssa.Call)
				return ok && kit.CalleeOf(c).Built == "len" && len(c.Call.Args) == 1 && c.Call.Args[0] == ssa.Value(rest)
			}
			cx.flagsOnLastRest(fn, s, key, isLenRest, isLenPhi)
		})
	}
	r.Count("chunk_loops", nLoops)
}

func (cx *c07ctx) flagsOnLast(fn *ssa.Function, s *ssa.Slice, key string, isLenX func(ssa.Value) bool) {
	p, r := cx.p, cx.r
	flagsVal, flagsAt := cx.flagsOf(s)
	if flagsVal == nil {
		return
	}
	{
		{
			// every non-zero leaf of the stored value must arrive over an edge guarded by end >= len
			okFlags := true
			isHigh := func(v ssa.Value) bool { return v == s.High }
			var check func(v ssa.Value, blk *ssa.BasicBlock, edgeGuards []kit.Guard)
			seen := map[ssa.Value]bool{}
			check = func(v ssa.Value, blk *ssa.BasicBlock, gs []kit.Guard) {
				if c, isc := kit.ConstInt(v); isc && c == 0 {
					return
				}
				if phi, ok := v.(*ssa.Phi); ok && !seen[v] {
					seen[v] = true
					for i, e := range phi.Edges {
						pred := phi.Block().Preds[i]
						g2 := kit.Guards(pred)
						if ifi, isIf := pred.Instrs[len(pred.Instrs)-1].(*ssa.If); isIf && len(pred.Succs) == 2 && pred.Succs[0] != pred.Succs[1] {
							g2 = append(g2, kit.Guard{Cond: ifi.Cond, Polarity: pred.Succs[0] == phi.Block(), If: ifi})
						}
						check(e, pred, g2)
					}
					return
				}
				guarded := false
				for _, g := range gs {
					if holds, rel := g2orderGuard(g, isHigh, isLenX, -1); rel && !holds {
						guarded = true
					}
				}
				if !guarded {
					okFlags = false
				}
			}
			check(flagsVal, flagsAt.Block(), kit.GuardsOf(flagsAt))
			r.Decide(okFlags, "C07.R3", key+" flags", p.Pos(flagsAt.Pos()),
				"non-zero flags reach the frame only when this chunk's end >= len(buffer)",
				"caller flags (FIN) can be put on a chunk that is not the last: the receiver half-closes before the remaining bytes arrive")
		}
	}
}

// isDirectPayload: the slice itself becomes the Payload of a STREAM_DATA frame (in this function or
// in a helper it is handed to), without being encrypted on the way.
func (cx *c07ctx) isDirectPayload(s *ssa.Slice) bool {
	direct, ok := cx.sdSink(s, 0, map[ssa.Value]bool{})
	return ok && direct
}

// sdSink: v flows into a STREAM_DATA payload - stored directly (direct=true), after Encrypt, or
// through the parameters of repository helpers.
func (cx *c07ctx) sdSink(v ssa.Value, depth int, seen map[ssa.Value]bool) (direct, ok bool) {
	if v == nil || seen[v] || depth > 4 || v.Referrers() == nil {
		return false, false
	}
	seen[v] = true
	for _, ref := range *v.Referrers() {
		switch t := ref.(type) {
		case *ssa.Store:
			if t.Val != v {
				continue
			}
			if fa, isFA := t.Addr.(*ssa.FieldAddr); isFA && kit.FieldOfAddr(fa) == cx.framePay && cx.isStreamDataFrame(fa.X) {
				return true, true
			}
			if a, isA := t.Addr.(*ssa.Alloc); isA && a.Referrers() != nil {
				for _, r2 := range *a.Referrers() {
					if ld, isLd := r2.(*ssa.UnOp); isLd && ld.Op == token.MUL {
						if d, ok := cx.sdSink(ld, depth, seen); ok {
							return d, true
						}
					}
				}
			}
		case *ssa.Phi:
			if d, ok := cx.sdSink(t, depth, seen); ok {
				return d, true
			}
		case *ssa.Call:
			cal := kit.CalleeOf(t)
			if cal.Static == cx.encrypt {
				if cx.reachesStreamData(t) {
					return false, true
				}
				if res := kit.ExtractOf(t, 0); res != nil {
					if _, ok := cx.sdSink(res, depth+1, seen); ok {
						return false, true
					}
				}
				continue
			}
			if cal.Name == "WriteStreamData" {
				return false, true
			}
			if st := cal.Static; st != nil && st.Blocks != nil && kit.IsRepoPkg(kit.FuncPkgPath(st)) {
				for i, a := range t.Call.Args {
					if a == v && i < len(st.Params) {
						if d, ok := cx.sdSink(st.Params[i], depth+1, seen); ok {
							return d, true
						}
					}
				}
			}
		}
	}
	return false, false
}

// flagsOf finds the Flags value of the frame that carries chunk s: stored next to the Payload in this
// function, or passed to the helper that builds the frame. at is where that value is used.
func (cx *c07ctx) flagsOf(s ssa.Value) (val ssa.Value, at ssa.Instruction) {
	if s.Referrers() == nil {
		return nil, nil
	}
	flagsOfFrame := func(frame ssa.Value) (ssa.Value, ssa.Instruction) {
		if frame == nil || frame.Referrers() == nil {
			return nil, nil
		}
		for _, ref := range *frame.Referrers() {
			fa, ok := ref.(*ssa.FieldAddr)
			if !ok || kit.FieldOfAddr(fa) != cx.frameFlags || fa.Referrers() == nil {
				continue
			}
			for _, r2 := range *fa.Referrers() {
				if st, ok := r2.(*ssa.Store); ok && st.Addr == fa {
					return st.Val, st
				}
			}
		}
		return nil, nil
	}
	for _, ref := range *s.Referrers() {
		switch t := ref.(type) {
		case *ssa.Store:
			if fa, ok := t.Addr.(*ssa.FieldAddr); ok && t.Val == s && kit.FieldOfAddr(fa) == cx.framePay {
				if v, at := flagsOfFrame(fa.X); v != nil {
					return v, at
				}
			}
		case *ssa.Call:
			st := kit.CalleeOf(t).Static
			if st == nil || st.Blocks == nil || !kit.IsRepoPkg(kit.FuncPkgPath(st)) {
				continue
			}
			for i, a := range t.Call.Args {
				if a != s || i >= len(st.Params) {
					continue
				}
				v, _ := cx.flagsOf(st.Params[i])
				if prm, ok := v.(*ssa.Parameter); ok {
					for j, q := range st.Params {
						if q == prm && j < len(t.Call.Args) {
							return t.Call.Args[j], t
						}
					}
				}
			}
		}
	}
	return nil, nil
}

// flagsOnLastRest is flagsOnLast for the re-slicing idiom: non-zero flags only when the
// remainder is empty (len(rest) == 0) or the chunk is the whole remaining buffer.
func (cx *c07ctx) flagsOnLastRest(fn *ssa.Function, s *ssa.Slice, key string, isLenRest, isLenPhi func(ssa.Value) bool) {
	p, r := cx.p, cx.r
	flagsVal, flagsAt := cx.flagsOf(s)
	if flagsVal == nil {
		return
	}
	isHigh := func(v ssa.Value) bool { return v == s.High }
	{
		{
			okFlags := true
			seen := map[ssa.Value]bool{}
			var check func(v ssa.Value, gs []kit.Guard)
			check = func(v ssa.Value, gs []kit.Guard) {
				if c, isc := kit.ConstInt(v); isc && c == 0 {
					return
				}
				if phi, ok := v.(*ssa.Phi); ok && !seen[v] {
					seen[v] = true
					for i, e := range phi.Edges {
						pred := phi.Block().Preds[i]
						g2 := kit.Guards(pred)
						if ifi, isIf := pred.Instrs[len(pred.Instrs)-1].(*ssa.If); isIf && len(pred.Succs) == 2 && pred.Succs[0] != pred.Succs[1] {
							g2 = append(g2, kit.Guard{Cond: ifi.Cond, Polarity: pred.Succs[0] == phi.Block(), If: ifi})
						}
						check(e, g2)
					}
					return
				}
				guarded := false
				for _, g := range gs {
					// remainder empty
					if ex, rel := g2guardExcludes(g, isLenRest, 1); rel && ex {
						guarded = true
					}
					// chunk end reaches the end of what remained
					if holds, rel := g2orderGuard(g, isHigh, isLenPhi, -1); rel && !holds {
						guarded = true
					}
				}
				if !guarded {
					okFlags = false
				}
			}
			check(flagsVal, kit.GuardsOf(flagsAt))
			r.Decide(okFlags, "C07.R3", key+" flags", p.Pos(flagsAt.Pos()),
				"non-zero flags reach the frame only when nothing remains after this chunk",
				"caller flags (FIN) can be put on a chunk that is not the last: the receiver half-closes before the remaining bytes arrive")
		}
	}
}

// producerCalls: the calls whose result is (part of) the bytes v written in method m, followed
// through slices, phis and a field of the receiver that is assigned in m.
func (cx *c07ctx) producerCalls(m *ssa.Function, v ssa.Value) []*ssa.Call {
	var out []*ssa.Call
	seen := map[ssa.Value]bool{}
	var rec func(x ssa.Value, d int)
	rec = func(x ssa.Value, d int) {
		if x == nil || seen[x] || d > 8 {
			return
		}
		seen[x] = true
		switch t := x.(type) {
		case *ssa.Call:
			if kit.CalleeOf(t).Built == "append" {
				for _, a := range t.Call.Args {
					rec(a, d+1)
				}
				return
			}
			out = append(out, t)
		case *ssa.Extract:
			rec(t.Tuple, d+1)
		case *ssa.Slice:
			rec(t.X, d+1)
		case *ssa.Phi:
			for _, e := range t.Edges {
				rec(e, d+1)
			}
		case *ssa.UnOp:
			if t.Op != token.MUL {
				return
			}
			if f, _ := kit.LoadedField(t); f != nil {
				kit.Instrs(m, func(in ssa.Instruction) {
					if st, ok := in.(*ssa.Store); ok {
						if fa, ok := st.Addr.(*ssa.FieldAddr); ok && kit.FieldOfAddr(fa) == f {
							rec(st.Val, d+1)
						}
					}
				})
			}
			if a, ok := t.X.(*ssa.Alloc); ok && a.Referrers() != nil {
				for _, ref := range *a.Referrers() {
					if st, ok := ref.(*ssa.Store); ok && st.Addr == a {
						rec(st.Val, d+1)
					}
				}
			}
		}
	}
	rec(v, 0)
	return out
}

// bytesGuarded: fn takes a *Frame (receiver or parameter) and every return of bytes is dominated by
// a guard excluding an oversize payload of that frame.
func (cx *c07ctx) bytesGuarded(fn *ssa.Function, q func(ssa.Value) func(ssa.Value) bool, samples []int64) bool {
	if fn == nil || fn.Blocks == nil {
		return false
	}
	var frame ssa.Value
	for _, prm := range fn.Params {
		if c07isFramePtr(prm.Type()) {
			frame = prm
		}
	}
	if frame == nil {
		return false
	}
	res := fn.Signature.Results()
	hasErr := res.Len() > 0 && kit.IsErrorType(res.At(res.Len()-1).Type())
	n := 0
	for _, ret := range kit.Returns(fn) {
		if ret.Block() == fn.Recover || len(ret.Results) == 0 {
			continue
		}
		if hasErr && !kit.ReturnsNilError(ret) {
			continue
		}
		if kit.IsNilConst(kit.ReturnResult(ret, 0)) {
			continue
		}
		n++
		if !g2lenGuarded(kit.GuardsOf(ret), frame, q, samples) {
			return false
		}
	}
	return n > 0
}

func c07isFramePtr(t types.Type) bool {
	pt, ok := t.(*types.Pointer)
	if !ok {
		return false
	}
	n, ok := pt.Elem().(*types.Named)
	return ok && n.Obj().Name() == "Frame" && n.Obj().Pkg() != nil && n.Obj().Pkg().Path() == kit.PkgPath("internal/protocol")
}
