package rules

import (
	"fmt"
	"go/constant"
	"go/token"
	"go/types"
	"sort"
	"strings"

	"golang.org/x/tools/go/ssa"

	"mmverify/kit"
)

func init() {
	const st = "internal/filetransfer/stream.go"
	const br = "internal/filetransfer/browse.go"
	const ag = "internal/agent/agent.go"
	register(&Check{
		ID: "C26", Level: "other",
		Patterns:  []string{"./internal/filetransfer", "./internal/agent"},
		Technique: "validated-value taint: backward path-flow from every file-system sink to the remote request fields, with the resolve-then-validate helper as the only barrier",
		Explain: "Decides that every os.*/filepath.Walk path argument in the repository that is built from TransferMetadata.Path or BrowseRequest.Path is the value returned by a sanitiser (a function that calls the allow-list validator), that each sanitiser returns only values that derive from symlink resolution (filepath.EvalSymlinks) and that were passed, in normalised-then-resolved form, to the validator whose success guards the return, and that the validator returns nil only on a branch taken because an element of AllowedPaths matched. " +
			"The tar extraction that a directory upload performs below the sanitised destination is judged by the C27 rule set, reported as C26.R9. " +
			"Not decided: the resolver's algorithm itself, glob semantics of the matcher, check-to-use races, metadata of link targets shown by lstat/readlink-based listings, real paths that are not NFC-stable.",
		Run: runC26,
		SelfTests: []SelfTest{
			{Name: "chmod operates on the cleaned request path", ExpectRule: "C26.R4", ExpectKey: "browseChmod", Edits: []Edit{
				{File: br, Old: "if err := os.Chmod(realPath, mode); err != nil {", New: "if err := os.Chmod(filepath.Clean(req.Path), mode); err != nil {"},
			}},
			{Name: "new browse action reads the requested file without the validator", ExpectRule: "C26.R4", ExpectKey: "os.ReadFile", Edits: []Edit{
				{File: br, Old: "\tcase \"roots\":\n\t\treturn h.browseRoots()\n", New: "\tcase \"roots\":\n\t\treturn h.browseRoots()\n\tcase \"cat\":\n\t\tb, _ := os.ReadFile(req.Path)\n\t\treturn &BrowseResponse{Error: string(b)}\n"},
			}},
			{Name: "upload written to the unresolved metadata path", ExpectRule: "C26.R4", ExpectKey: "WriteUploadedFile", Edits: []Edit{
				{File: ag, Old: "destPath, err := a.fileStreamHandler.ResolvePath(fts.Meta.Path)", New: "_, err = a.fileStreamHandler.ResolvePath(fts.Meta.Path)"},
				{File: ag, Old: "\t\tdestPath,\n\t\ttmpFile,", New: "\t\tfts.Meta.Path,\n\t\ttmpFile,"},
			}},
			{Name: "download stat on the unresolved metadata path", ExpectRule: "C26.R4", ExpectKey: "sendFileDownload", Edits: []Edit{
				{File: ag, Old: "info, statErr := os.Stat(srcPath)", New: "info, statErr := os.Stat(fts.Meta.Path)"},
			}},
			{Name: "download validation stats the unresolved path", ExpectRule: "C26.R4", ExpectKey: "ValidateDownloadMetadata", Edits: []Edit{
				{File: st, Old: "realPath, err := h.ResolvePath(meta.Path)", New: "_, err := h.ResolvePath(meta.Path)"},
				{File: st, Old: "info, err := os.Stat(realPath)", New: "info, err := os.Stat(meta.Path)"},
			}},
			{Name: "sanitiser returns the unresolved path", ExpectRule: "C26.R1", Edits: []Edit{
				{File: st, Old: "\treturn realPath, nil\n}\n\n// resolvePath returns", New: "\treturn filepath.Clean(path), nil\n}\n\n// resolvePath returns"},
			}},
			{Name: "resolver fed with the cleaned, not the normalised path", ExpectRule: "C26.R1", Edits: []Edit{
				{File: st, Old: "realPath, err = resolvePath(normalizePath(path))", New: "realPath, err = resolvePath(filepath.Clean(path))"},
			}},
			{Name: "only the lexical path is validated", ExpectRule: "C26.R2", Edits: []Edit{
				{File: st, Old: "if err := h.validatePath(realPath); err != nil {", New: "if err := h.validatePath(path); err != nil {"},
			}},
			{Name: "resolution result validated but error of validation ignored", ExpectRule: "C26.R2", Edits: []Edit{
				{File: st, Old: "\tif err := h.validatePath(realPath); err != nil {\n\t\treturn \"\", fmt.Errorf(\"symlink target not allowed: %w\", err)\n\t}\n", New: "\t_ = h.validatePath(realPath)\n"},
			}},
			{Name: "resolver gives up and returns its input", ExpectRule: "C26.R2", Edits: []Edit{
				{File: st, Old: "\t\tif !os.IsNotExist(err) {\n\t\t\treturn \"\", err\n\t\t}\n", New: "\t\tif !os.IsNotExist(err) {\n\t\t\treturn path, nil\n\t\t}\n"},
			}},
			{Name: "empty allow-list allows everything", ExpectRule: "C26.R3", Edits: []Edit{
				{File: st, Old: "\t\treturn fmt.Errorf(\"no paths are allowed (allowed_paths is empty)\")\n\t}\n\n\t// Check allowed paths", New: "\t\treturn nil\n\t}\n\n\t// Check allowed paths"},
			}},
			{Name: "fall-through of the pattern loop allows", ExpectRule: "C26.R3", Edits: []Edit{
				{File: st, Old: "\treturn fmt.Errorf(\"path not in allowed list: %s\", path)\n", New: "\treturn nil\n"},
			}},
			{Name: "matcher compares the pattern with itself", ExpectRule: "C26.R3", Edits: []Edit{
				{File: st, Old: "\t\tif isPathAllowed(normalizedPath, pattern) {", New: "\t\tif isPathAllowed(pattern, pattern) {"},
			}},
			{Name: "chmod resolves only the directory part", ExpectRule: "C26.R5", ExpectKey: "browseChmod", Edits: []Edit{
				{File: br, Old: "\trealPath, errResp := h.requirePath(req.Path, true)\n\tif errResp != nil {\n\t\treturn errResp\n\t}\n\n\tmode, err := parseOctalMode", New: "\trealPath, errResp := h.requirePath(req.Path, false)\n\tif errResp != nil {\n\t\treturn errResp\n\t}\n\n\tmode, err := parseOctalMode"},
			}},
			{Name: "transfers resolve only the directory part", ExpectRule: "C26.R5", ExpectKey: "os.OpenFile", Edits: []Edit{
				{File: st, Old: "\treturn h.resolveAllowedPath(path, true)\n", New: "\treturn h.resolveAllowedPath(path, false)\n"},
			}},
			{Name: "delete lists the directory through the unresolved last component", ExpectRule: "C26.R5", ExpectKey: "browseDelete", Edits: []Edit{
				{File: br, Old: "\t\tdirPath, err := h.ResolvePath(realPath)\n", New: "\t\t_, err := h.ResolvePath(realPath)\n"},
				{File: br, Old: "dirEntries, err := os.ReadDir(dirPath)", New: "dirEntries, err := os.ReadDir(realPath)"},
			}},
			{Name: "link target metadata read without the validator", ExpectRule: "C26.R5", ExpectKey: "resolveSymlink", Edits: []Edit{
				{File: br, Old: "\tinfo, err := os.Stat(realTarget)\n", New: "\t_ = realTarget\n\tinfo, err := os.Stat(path)\n"},
			}},
			{Name: "rewrite: allow loop extracted into a bool helper", Edits: []Edit{
				{File: st, Old: "\tfor _, pattern := range h.cfg.AllowedPaths {\n\t\t// Wildcard allows all absolute paths\n\t\tif pattern == \"*\" {\n\t\t\treturn nil\n\t\t}\n\t\tif isPathAllowed(normalizedPath, pattern) {\n\t\t\treturn nil\n\t\t}\n\t\t// Real paths are also matched against the pattern with its own directory\n\t\t// resolved: an allowed root may itself be reached through a link (/tmp on macOS)\n\t\tif isPathAllowed(normalizedPath, realPattern(pattern)) {\n\t\t\treturn nil\n\t\t}\n\t}\n\n\treturn fmt.Errorf(\"path not in allowed list: %s\", path)\n}\n",
					New: "\tif h.matchesAllowed(normalizedPath) {\n\t\treturn nil\n\t}\n\n\treturn fmt.Errorf(\"path not in allowed list: %s\", path)\n}\n\nfunc (h *StreamHandler) matchesAllowed(p string) bool {\n\tfor _, pattern := range h.cfg.AllowedPaths {\n\t\tif pattern == \"*\" || isPathAllowed(p, pattern) || isPathAllowed(p, realPattern(pattern)) {\n\t\t\treturn true\n\t\t}\n\t}\n\treturn false\n}\n"},
			}},
			{Name: "bool helper that allows by default", ExpectRule: "C26.R3", Edits: []Edit{
				{File: st, Old: "\tfor _, pattern := range h.cfg.AllowedPaths {\n\t\t// Wildcard allows all absolute paths\n\t\tif pattern == \"*\" {\n\t\t\treturn nil\n\t\t}\n\t\tif isPathAllowed(normalizedPath, pattern) {\n\t\t\treturn nil\n\t\t}\n\t\t// Real paths are also matched against the pattern with its own directory\n\t\t// resolved: an allowed root may itself be reached through a link (/tmp on macOS)\n\t\tif isPathAllowed(normalizedPath, realPattern(pattern)) {\n\t\t\treturn nil\n\t\t}\n\t}\n\n\treturn fmt.Errorf(\"path not in allowed list: %s\", path)\n}\n",
					New: "\tif h.matchesAllowed(normalizedPath) {\n\t\treturn nil\n\t}\n\n\treturn fmt.Errorf(\"path not in allowed list: %s\", path)\n}\n\nfunc (h *StreamHandler) matchesAllowed(p string) bool {\n\tfor _, pattern := range h.cfg.AllowedPaths {\n\t\tif pattern != \"*\" && !isPathAllowed(p, pattern) {\n\t\t\treturn false\n\t\t}\n\t}\n\treturn true\n}\n"},
			}},
			{Name: "upload written although the destination was refused", ExpectRule: "C26.R6", ExpectKey: "completeFileUpload", Edits: []Edit{
				{File: ag, Old: "\t\ta.logger.Error(\"file upload destination not allowed\",\n\t\t\tlogging.KeyStreamID, fts.StreamID,\n\t\t\tlogging.KeyError, err)\n\t\ta.WriteStreamOpenErr(fts.PeerID, fts.StreamID, fts.RequestID, protocol.ErrNotAllowed, err.Error())\n\t\treturn\n", New: "\t\ta.logger.Error(\"file upload destination not allowed\",\n\t\t\tlogging.KeyStreamID, fts.StreamID,\n\t\t\tlogging.KeyError, err)\n"},
			}},
			{Name: "chmod performed before the validation result is looked at", ExpectRule: "C26.R6", ExpectKey: "browseChmod", Edits: []Edit{
				{File: br, Old: "\trealPath, errResp := h.requirePath(req.Path, true)\n\tif errResp != nil {\n\t\treturn errResp\n\t}\n\n\tmode, err := parseOctalMode(req.Mode)\n\tif err != nil {\n\t\treturn &BrowseResponse{Error: err.Error()}\n\t}\n\n\tif err := os.Chmod(realPath, mode); err != nil {\n\t\treturn &BrowseResponse{Error: fmt.Sprintf(\"chmod failed: %v\", err)}\n\t}\n",
					New: "\trealPath, errResp := h.requirePath(req.Path, true)\n\n\tmode, err := parseOctalMode(req.Mode)\n\tif err != nil {\n\t\treturn &BrowseResponse{Error: err.Error()}\n\t}\n\n\tif err := os.Chmod(realPath, mode); err != nil {\n\t\treturn &BrowseResponse{Error: fmt.Sprintf(\"chmod failed: %v\", err)}\n\t}\n\tif errResp != nil {\n\t\treturn errResp\n\t}\n"},
			}},
			{Name: "rewrite: wildcard looked up with slices.Contains", Edits: []Edit{
				{File: st, Old: "\t\"path/filepath\"\n\t\"strings\"\n", New: "\t\"path/filepath\"\n\t\"slices\"\n\t\"strings\"\n"},
				{File: st, Old: "\t// Check allowed paths with prefix matching and glob support\n", New: "\tif slices.Contains(h.cfg.AllowedPaths, \"*\") {\n\t\treturn nil\n\t}\n"},
			}},
			// ---- round 2: seeded classes and neighbours
			{Name: "upload destination resolved when the metadata frame is accepted and parked in the stream record", ExpectRule: "C26.R7", ExpectKey: "DestPath", Edits: []Edit{
				{File: ag, Old: "\tTempFile     *os.File // Temp file for streaming upload data\n", New: "\tTempFile     *os.File // Temp file for streaming upload data\n\tDestPath     string\n"},
				{File: ag, Old: "\t\t\t// Create temp file for streaming upload (write directly to disk)\n", New: "\t\t\tdestPath, derr := a.fileStreamHandler.ResolvePath(meta.Path)\n\t\t\tif derr != nil {\n\t\t\t\ta.closeFileTransferStream(streamID, protocol.ErrNotAllowed, derr.Error())\n\t\t\t\treturn\n\t\t\t}\n\t\t\tfts.DestPath = destPath\n\n\t\t\t// Create temp file for streaming upload (write directly to disk)\n"},
				{File: ag, Old: "destPath, err := a.fileStreamHandler.ResolvePath(fts.Meta.Path)", New: "destPath, err := fts.DestPath, error(nil)"},
			}},
			{Name: "resolved paths memoised in a map on the handler", ExpectRule: "C26.R7", ExpectKey: "resolved", Edits: []Edit{
				{File: st, Old: "type StreamHandler struct {\n\tcfg StreamConfig\n}", New: "type StreamHandler struct {\n\tcfg      StreamConfig\n\tresolved map[string]string\n}"},
				{File: st, Old: "\treturn &StreamHandler{cfg: cfg}\n", New: "\treturn &StreamHandler{cfg: cfg, resolved: map[string]string{}}\n"},
				{File: st, Old: "\treturn h.resolveAllowedPath(path, true)\n", New: "\tif p, ok := h.resolved[path]; ok {\n\t\treturn p, nil\n\t}\n\tp, err := h.resolveAllowedPath(path, true)\n\tif err != nil {\n\t\treturn \"\", err\n\t}\n\th.resolved[path] = p\n\treturn p, nil\n"},
			}},
			{Name: "last resolved path kept in a package variable", ExpectRule: "C26.R7", ExpectKey: "lastReal", Edits: []Edit{
				{File: st, Old: "// ResolvePath validates a requested path and returns", New: "var lastReq, lastReal string\n\n// ResolvePath validates a requested path and returns"},
				{File: st, Old: "\treturn h.resolveAllowedPath(path, true)\n", New: "\tif path == lastReq && lastReal != \"\" {\n\t\treturn lastReal, nil\n\t}\n\tp, err := h.resolveAllowedPath(path, true)\n\tif err != nil {\n\t\treturn \"\", err\n\t}\n\tlastReq, lastReal = path, p\n\treturn p, nil\n"},
			}},
			{Name: "prefix matcher loses the separator step", ExpectRule: "C26.R8", ExpectKey: "isPathUnderPrefix", Edits: []Edit{
				{File: st, Old: "\tif !strings.HasSuffix(cleanPrefix, string(filepath.Separator)) {\n\t\tcleanPrefix += string(filepath.Separator)\n\t}\n", New: ""},
			}},
			{Name: "prefix matcher by substring", ExpectRule: "C26.R8", ExpectKey: "strings.Contains", Edits: []Edit{
				{File: st, Old: "\treturn strings.HasPrefix(cleanPath, cleanPrefix)\n", New: "\treturn strings.Contains(cleanPath, cleanPrefix)\n"},
			}},
			{Name: "any pattern containing a star counts as the wildcard", ExpectRule: "C26.R3", Edits: []Edit{
				{File: st, Old: "\t\tif pattern == \"*\" {\n\t\t\treturn nil\n\t\t}\n", New: "\t\tif strings.Contains(pattern, \"*\") {\n\t\t\treturn nil\n\t\t}\n"},
			}},
			{Name: "follow flag of chmod taken from the request", ExpectRule: "C26.R5", ExpectKey: "browseChmod", Edits: []Edit{
				{File: br, Old: "\trealPath, errResp := h.requirePath(req.Path, true)\n\tif errResp != nil {\n\t\treturn errResp\n\t}\n\n\tmode, err := parseOctalMode", New: "\trealPath, errResp := h.requirePath(req.Path, !req.Recursive)\n\tif errResp != nil {\n\t\treturn errResp\n\t}\n\n\tmode, err := parseOctalMode"},
			}},
			{Name: "rewrite: resolved destination handed on in a job record within the same activation", Edits: []Edit{
				{File: ag, Old: "\twritten, err := a.fileStreamHandler.WriteUploadedFile(\n\t\tdestPath,\n", New: "\twritten, err := a.writeUploadJob(\n\t\t&uploadJob{dest: destPath},\n"},
				{File: ag, Old: "// IsSleepEnabled returns true if sleep mode is enabled.\n", New: "type uploadJob struct{ dest string }\n\nfunc (a *Agent) writeUploadJob(j *uploadJob, r io.Reader, mode uint32, isDir bool, compressed bool) (int64, error) {\n\treturn a.fileStreamHandler.WriteUploadedFile(j.dest, r, mode, isDir, compressed)\n}\n\n// IsSleepEnabled returns true if sleep mode is enabled.\n"},
			}},
			{Name: "rewrite: separator appended by a helper", Edits: []Edit{
				{File: st, Old: "\tif !strings.HasSuffix(cleanPrefix, string(filepath.Separator)) {\n\t\tcleanPrefix += string(filepath.Separator)\n\t}\n\n\treturn strings.HasPrefix(cleanPath, cleanPrefix)\n}\n", New: "\treturn strings.HasPrefix(cleanPath, withSeparator(cleanPrefix))\n}\n\nfunc withSeparator(p string) string {\n\tif strings.HasSuffix(p, string(filepath.Separator)) {\n\t\treturn p\n\t}\n\treturn p + string(filepath.Separator)\n}\n"},
			}},
			// ---- round 3: refactoring classes that used to alarm
			{Name: "rewrite: resolver chosen through a function value", Edits: []Edit{
				{File: st, Old: "\tif followFinal {\n\t\trealPath, err = resolvePath(normalizePath(path))\n\t} else {\n\t\trealPath, err = resolveParent(normalizePath(path))\n\t}\n", New: "\tresolve := resolveParent\n\tif followFinal {\n\t\tresolve = resolvePath\n\t}\n\trealPath, err = resolve(normalizePath(path))\n"},
			}},
			{Name: "rewrite: resolvers behind a dispatcher taking the follow flag", Edits: []Edit{
				{File: st, Old: "\tif followFinal {\n\t\trealPath, err = resolvePath(normalizePath(path))\n\t} else {\n\t\trealPath, err = resolveParent(normalizePath(path))\n\t}\n", New: "\trealPath, err = locatePath(normalizePath(path), followFinal)\n"},
				{File: st, Old: "// resolveParent is resolvePath for operations", New: "func locatePath(path string, followFinal bool) (string, error) {\n\tif !followFinal {\n\t\treturn resolveParent(path)\n\t}\n\treturn resolvePath(path)\n}\n\n// resolveParent is resolvePath for operations"},
			}},
			{Name: "rewrite: agent helper reports the resolved path with an ok flag", Edits: []Edit{
				{File: ag, Old: "\tdestPath, err := a.fileStreamHandler.ResolvePath(fts.Meta.Path)\n\tif err != nil {\n\t\ta.logger.Error(\"file upload destination not allowed\",\n\t\t\tlogging.KeyStreamID, fts.StreamID,\n\t\t\tlogging.KeyError, err)\n\t\ta.WriteStreamOpenErr(fts.PeerID, fts.StreamID, fts.RequestID, protocol.ErrNotAllowed, err.Error())\n\t\treturn\n\t}\n", New: "\tdestPath, allowed := a.allowedTransferPath(fts)\n\tif !allowed {\n\t\treturn\n\t}\n"},
				{File: ag, Old: "// IsSleepEnabled returns true if sleep mode is enabled.\n", New: "func (a *Agent) allowedTransferPath(fts *fileTransferStream) (string, bool) {\n\trealPath, err := a.fileStreamHandler.ResolvePath(fts.Meta.Path)\n\tif err == nil {\n\t\treturn realPath, true\n\t}\n\ta.WriteStreamOpenErr(fts.PeerID, fts.StreamID, fts.RequestID, protocol.ErrNotAllowed, err.Error())\n\treturn \"\", false\n}\n\n// IsSleepEnabled returns true if sleep mode is enabled.\n"},
			}},
			{Name: "ok flag of the agent helper ignored", ExpectRule: "C26.R6", ExpectKey: "completeFileUpload", Edits: []Edit{
				{File: ag, Old: "\tdestPath, err := a.fileStreamHandler.ResolvePath(fts.Meta.Path)\n\tif err != nil {\n\t\ta.logger.Error(\"file upload destination not allowed\",\n\t\t\tlogging.KeyStreamID, fts.StreamID,\n\t\t\tlogging.KeyError, err)\n\t\ta.WriteStreamOpenErr(fts.PeerID, fts.StreamID, fts.RequestID, protocol.ErrNotAllowed, err.Error())\n\t\treturn\n\t}\n", New: "\tdestPath, _ := a.allowedTransferPath(fts)\n"},
				{File: ag, Old: "// IsSleepEnabled returns true if sleep mode is enabled.\n", New: "func (a *Agent) allowedTransferPath(fts *fileTransferStream) (string, bool) {\n\trealPath, err := a.fileStreamHandler.ResolvePath(fts.Meta.Path)\n\tif err == nil {\n\t\treturn realPath, true\n\t}\n\ta.WriteStreamOpenErr(fts.PeerID, fts.StreamID, fts.RequestID, protocol.ErrNotAllowed, err.Error())\n\treturn \"\", false\n}\n\n// IsSleepEnabled returns true if sleep mode is enabled.\n"},
			}},
			{Name: "dispatcher called with the flag inverted for chmod", ExpectRule: "C26.R5", ExpectKey: "browseChmod", Edits: []Edit{
				{File: st, Old: "\tif followFinal {\n\t\trealPath, err = resolvePath(normalizePath(path))\n\t} else {\n\t\trealPath, err = resolveParent(normalizePath(path))\n\t}\n", New: "\trealPath, err = locatePath(normalizePath(path), followFinal)\n"},
				{File: st, Old: "// resolveParent is resolvePath for operations", New: "func locatePath(path string, followFinal bool) (string, error) {\n\tif !followFinal {\n\t\treturn resolveParent(path)\n\t}\n\treturn resolvePath(path)\n}\n\n// resolveParent is resolvePath for operations"},
				{File: br, Old: "\trealPath, errResp := h.requirePath(req.Path, true)\n\tif errResp != nil {\n\t\treturn errResp\n\t}\n\n\tmode, err := parseOctalMode", New: "\trealPath, errResp := h.requirePath(req.Path, false)\n\tif errResp != nil {\n\t\treturn errResp\n\t}\n\n\tmode, err := parseOctalMode"},
			}},
			// ---- round 4: the extraction of a directory upload is part of C26 (R9)
			{Name: "directory upload: only directory entries placed by their real location", ExpectRule: "C26.R9", ExpectKey: "C27.R3 filetransfer.ExtractTar os.OpenFile", Edits: []Edit{
				{File: "internal/filetransfer/tar.go", Old: "\t\tisLink := header.Typeflag == tar.TypeSymlink || header.Typeflag == tar.TypeLink\n\t\ttargetPath, err = containedPath(realDest, targetPath, !isLink)\n", New: "\t\tisDir := header.Typeflag == tar.TypeDir\n\t\ttargetPath, err = containedPath(realDest, targetPath, isDir)\n"},
			}},
			{Name: "directory upload: only regular files placed by their real location", ExpectRule: "C26.R9", ExpectKey: "C27.R3 filetransfer.ExtractTar os.MkdirAll #1", Edits: []Edit{
				{File: "internal/filetransfer/tar.go", Old: "\t\tisLink := header.Typeflag == tar.TypeSymlink || header.Typeflag == tar.TypeLink\n\t\ttargetPath, err = containedPath(realDest, targetPath, !isLink)\n", New: "\t\ttargetPath, err = containedPath(realDest, targetPath, header.Typeflag == tar.TypeReg)\n"},
			}},
			{Name: "directory upload: entries placed by their lexical path", ExpectRule: "C26.R9", ExpectKey: "C27.R1 filetransfer.ExtractTar", Edits: []Edit{
				{File: "internal/filetransfer/tar.go", Old: "\t\ttargetPath, err = containedPath(realDest, targetPath, !isLink)\n\t\tif err != nil {\n\t\t\treturn err\n\t\t}\n", New: "\t\t_ = isLink\n"},
			}},
			{Name: "rewrite: empty-list test dropped (loop does not run)", Edits: []Edit{
				{File: st, Old: "\tif len(h.cfg.AllowedPaths) == 0 {\n\t\treturn fmt.Errorf(\"no paths are allowed (allowed_paths is empty)\")\n\t}\n", New: ""},
			}},
			{Name: "rewrite: both matcher calls in one condition", Edits: []Edit{
				{File: st, Old: "\t\tif isPathAllowed(normalizedPath, pattern) {\n\t\t\treturn nil\n\t\t}\n", New: ""},
				{File: st, Old: "\t\tif isPathAllowed(normalizedPath, realPattern(pattern)) {", New: "\t\tif isPathAllowed(normalizedPath, pattern) || isPathAllowed(normalizedPath, realPattern(pattern)) {"},
			}},
			{Name: "rewrite: agent keeps the resolved path in a local and cleans it", Edits: []Edit{
				{File: ag, Old: "\t\tdestPath,\n\t\ttmpFile,", New: "\t\tfilepath.Clean(destPath),\n\t\ttmpFile,"},
			}},
			{Name: "rewrite: browse list calls the sanitiser directly", Edits: []Edit{
				{File: br, Old: "\trealPath, errResp := h.requirePath(req.Path, true)\n\tif errResp != nil {\n\t\treturn errResp\n\t}\n\tcleanPath := filepath.Clean(req.Path) // echoed back as requested\n", New: "\trealPath, rerr := h.ResolvePath(req.Path)\n\tif rerr != nil {\n\t\treturn &BrowseResponse{Error: rerr.Error()}\n\t}\n\tcleanPath := filepath.Clean(req.Path)\n"},
			}},
			{Name: "rewrite: sanitiser branches replaced by a switch with early returns", Edits: []Edit{
				{File: st, Old: "\tif followFinal {\n\t\trealPath, err = resolvePath(normalizePath(path))\n\t} else {\n\t\trealPath, err = resolveParent(normalizePath(path))\n\t}\n", New: "\tnormalized := normalizePath(path)\n\tswitch {\n\tcase followFinal:\n\t\trealPath, err = resolvePath(normalized)\n\tdefault:\n\t\trealPath, err = resolveParent(normalized)\n\t}\n"},
			}},
		},
	})
}

// c26Sinks: package-level functions whose listed arguments name a file-system object that
// is opened, listed, created, changed or removed (following links in every directory
// component, most of them also in the last one). os.Lstat, os.Readlink and
// filepath.EvalSymlinks are deliberately absent: they inspect a name and are what a
// resolver is made of.
var c26Sinks = map[string][]int{
	"os.Open": {0}, "os.OpenFile": {0}, "os.Create": {0}, "os.Stat": {0}, "os.ReadDir": {0},
	"os.ReadFile": {0}, "os.WriteFile": {0}, "os.Chmod": {0}, "os.Chown": {0}, "os.Lchown": {0},
	"os.Chtimes": {0}, "os.Remove": {0}, "os.RemoveAll": {0}, "os.Mkdir": {0}, "os.MkdirAll": {0},
	"os.Rename": {0, 1}, "os.Symlink": {1}, "os.Link": {0, 1}, "os.Truncate": {0}, "os.Chdir": {0},
	"os.DirFS": {0}, "os.CopyFS": {0}, "os.MkdirTemp": {0}, "os.CreateTemp": {0}, "os.OpenRoot": {0},
	"path/filepath.Walk": {0}, "path/filepath.WalkDir": {0}, "path/filepath.Glob": {0},
	"io/ioutil.ReadFile": {0}, "io/ioutil.WriteFile": {0}, "io/ioutil.ReadDir": {0},
}

// c26FollowField: string fields of the file-transfer and agent packages are followed to
// their stores (a path parked in a stream/transfer record); configuration and other
// packages' fields are leaves.
func c26FollowField(f *types.Var) bool {
	if f.Pkg() == nil {
		return false
	}
	t := f.Type().Underlying()
	if m, isMap := t.(*types.Map); isMap {
		t = m.Elem().Underlying() // a cache of paths
	}
	b, ok := t.(*types.Basic)
	if !ok || b.Info()&types.IsString == 0 {
		return false
	}
	switch f.Pkg().Path() {
	case kit.PkgPath("internal/filetransfer"), kit.PkgPath("internal/agent"):
		return true
	}
	return false
}

// c26Cross is one continuation of a path-flow walk from a read of shared state into a write of it.
type c26Cross struct {
	read  ssa.Value
	write ssa.Instruction
	val   ssa.Value
}

// c26Parked is one (state, writer, reader) triple through which sanitised paths reach sinks.
type c26Parked struct {
	write, read ssa.Instruction
	same        bool
	sinks       []string
}

func c26Some(keys []string) string {
	seen := map[string]bool{}
	var out []string
	for _, k := range keys {
		if !seen[k] {
			seen[k] = true
			out = append(out, k)
		}
	}
	sort.Strings(out)
	if len(out) > 3 {
		out = append(out[:3], "...")
	}
	return strings.Join(out, ", ")
}

// c26StateName names the shared state a value was read from.
func c26StateName(read ssa.Value) string {
	switch x := read.(type) {
	case *ssa.UnOp:
		if f, _ := kit.LoadedField(x); f != nil {
			return "field " + f.Name()
		}
		if g, ok := x.X.(*ssa.Global); ok {
			return "package variable " + g.Name()
		}
	case *ssa.Lookup:
		for _, l := range kit.PhiLeaves(x.X) {
			if f, _ := kit.LoadedField(l); f != nil {
				return "map field " + f.Name()
			}
		}
	}
	return "shared state"
}

// c26SinkSite is one sink call with the path arguments to judge.
type c26SinkSite struct {
	fn   *ssa.Function
	call ssa.CallInstruction
	name string // "os.Remove" or "os.Remove|os.RemoveAll" for a call through a function value
	args []int
	ord  int
}

// c26FindSinks enumerates the calls of repository code to functions of the table.
func c26FindSinks(p *kit.Program, table map[string][]int) []c26SinkSite {
	var out []c26SinkSite
	for _, fn := range p.RepoFuncs() {
		ord := map[string]int{}
		for _, c := range kit.Calls(fn) {
			targets, ok := kit.CallTargets(c)
			if !ok {
				continue
			}
			var names []string
			argset := map[int]bool{}
			for _, t := range targets {
				if t.Pkg == nil {
					continue
				}
				n := t.Pkg.Pkg.Path() + "." + t.Name()
				if idx, is := table[n]; is && t.Signature.Recv() == nil {
					names = append(names, n)
					for _, i := range idx {
						argset[i] = true
					}
				}
			}
			if len(names) == 0 {
				continue
			}
			sort.Strings(names)
			var args []int
			for i := range argset {
				args = append(args, i)
			}
			sort.Ints(args)
			name := strings.Join(names, "|")
			ord[name]++
			out = append(out, c26SinkSite{fn: fn, call: c, name: name, args: args, ord: ord[name]})
		}
	}
	return out
}

func (s c26SinkSite) key(arg int) string {
	k := fmt.Sprintf("%s %s #%d", kit.FuncName(s.fn), s.name, s.ord)
	if len(s.args) > 1 {
		k += fmt.Sprintf(" arg%d", arg)
	}
	return k
}

// c26Ctx holds the role-resolved anchors and memoised classifications.
type c26Ctx struct {
	p          *kit.Program
	taint      map[*types.Var]bool
	allowed    *types.Var      // StreamConfig.AllowedPaths
	validators []*ssa.Function // functions (string) error that read AllowedPaths
	resolverFn map[*ssa.Function]int
	sanOK      map[*ssa.Function]bool // sanitiser candidates -> valid
	allowPred  map[*ssa.Function]int
	reach      map[[2]*ssa.Function]bool
}

func newC26Ctx(p *kit.Program) *c26Ctx {
	return &c26Ctx{p: p, taint: map[*types.Var]bool{}, resolverFn: map[*ssa.Function]int{}, sanOK: map[*ssa.Function]bool{},
		allowPred: map[*ssa.Function]int{}, reach: map[[2]*ssa.Function]bool{}}
}

func (cx *c26Ctx) isValidator(fn *ssa.Function) bool {
	for _, v := range cx.validators {
		if v == fn {
			return true
		}
	}
	return false
}

// c26IsEvalSymlinks: the call is filepath.EvalSymlinks.
func c26IsEvalSymlinks(c ssa.CallInstruction) bool {
	cal := kit.CalleeOf(c)
	return cal.Pkg == "path/filepath" && cal.Recv == "" && cal.Name == "EvalSymlinks"
}

// c26ResultCall: v is result 0 of a call (the call itself or Extract #0); returns the call.
func c26ResultCall(v ssa.Value) *ssa.Call {
	c, idx, ok := kit.ResultOf(v)
	if !ok || idx != 0 {
		return nil
	}
	return c
}

// isResolverResult: v is the path returned by filepath.EvalSymlinks or by a repository
// function all of whose returned paths derive, in their leading component, from such a value.
func (cx *c26Ctx) isResolverResult(v ssa.Value) bool {
	c := c26ResultCall(v)
	if c == nil {
		return false
	}
	fns := c26CallFns(c)
	if len(fns) == 0 {
		return false
	}
	for _, f := range fns {
		if !c26IsEvalSymlinksFn(f) && !cx.isResolverFn(f) {
			return false
		}
	}
	return true
}

// c26CallFns: the functions call c can invoke - its static callee, or every function a
// local function value can hold (resolve := a; if x { resolve = b }; resolve(p)). nil when
// that is not decidable from the instruction.
func c26CallFns(c *ssa.Call) []*ssa.Function {
	if t, ok := kit.CallTargets(c); ok {
		return t
	}
	return nil
}

func c26IsEvalSymlinksFn(f *ssa.Function) bool {
	return f != nil && f.Pkg != nil && f.Pkg.Pkg.Path() == "path/filepath" && f.Name() == "EvalSymlinks" && f.Signature.Recv() == nil
}

func c26FirstResultIsString(fn *ssa.Function) bool {
	res := fn.Signature.Results()
	if res.Len() == 0 {
		return false
	}
	b, ok := res.At(0).Type().Underlying().(*types.Basic)
	return ok && b.Info()&types.IsString != 0
}

// isResolverFn: every non-constant path fn returns derives (leading component) from
// resolver results only; fn's own parameters never reach a returned path unresolved.
func (cx *c26Ctx) isResolverFn(fn *ssa.Function) bool {
	switch cx.resolverFn[fn] {
	case 1:
		return true
	case 2, 3:
		return false
	}
	cx.resolverFn[fn] = 3
	ok := fn.Blocks != nil && kit.IsRepoPkg(kit.FuncPkgPath(fn)) && c26FirstResultIsString(fn)
	some := false
	if ok {
		for _, r := range kit.Returns(fn) {
			v := kit.ReturnResult(r, 0)
			if _, isConst := v.(*ssa.Const); isConst {
				continue
			}
			res := cx.leadWalk(fn, v)
			if len(res.Barriers) == 0 || len(res.Params) > 0 || len(res.Sources) > 0 || res.Top {
				ok = false
				break
			}
			some = true
		}
	}
	if ok && some {
		cx.resolverFn[fn] = 1
		return true
	}
	cx.resolverFn[fn] = 2
	return false
}

// leadWalk: where does the leading component of v come from, inside fn, stopping at resolver results.
func (cx *c26Ctx) leadWalk(fn *ssa.Function, v ssa.Value) *kit.PathFlowResult {
	q := &kit.PathFlow{Prog: cx.p, LeadOnly: true, Within: fn,
		Source:  func(x ssa.Value) bool { return cx.isTaintLoad(x) },
		Barrier: cx.isResolverResult}
	return q.Walk(v)
}

func (cx *c26Ctx) isTaintLoad(v ssa.Value) bool {
	f, _ := kit.LoadedField(v)
	return f != nil && cx.taint[f]
}

func c26SubsetOf(a, b []ssa.Value) bool {
	in := map[ssa.Value]bool{}
	for _, x := range b {
		in[x] = true
	}
	for _, x := range a {
		if !in[x] {
			return false
		}
	}
	return true
}

// validatorNormalisers: the repository functions the validator applies to its parameter
// before matching it (the judged string is their output, not the parameter).
func (cx *c26Ctx) validatorNormalisers(v *ssa.Function, subject ssa.Value) map[*ssa.Function]bool {
	out := map[*ssa.Function]bool{}
	q := &kit.PathFlow{Prog: cx.p, Within: v}
	res := q.Walk(subject)
	for x := range res.Visited {
		if c, ok := x.(*ssa.Call); ok {
			if cal := kit.CalleeOf(c); cal.Static != nil && kit.IsRepoPkg(cal.Pkg) {
				out[cal.Static] = true
			}
		}
	}
	return out
}

func runC26(p *kit.Program, r *kit.Report) {
	r.Rule("C26.R1", "validate what you use: a sanitiser returns only paths it passed to the validator, and the resolution that produced them started from the request path in the normalised form the validator judges")
	r.Rule("C26.R2", "validate after resolution: every non-constant path a sanitiser returns derives from symlink resolution (filepath.EvalSymlinks) only, and the validator call on that resolved value succeeded on the way to the return")
	r.Rule("C26.R3", "deny by default: the allow-list validator returns nil only on a branch taken because an element of AllowedPaths equals the wildcard or matched the validator's subject")
	r.Rule("C26.R9", "directory uploads: inside the extraction that writes below a sanitised destination, every archive-derived path obeys the link-aware containment rules of C27 (containment-resolver result at every mutating call, link targets contained, a link-following call gets a provably fully resolved path under the entry-type conditions selecting it, separator-aware containment test); each obligation is keyed by the C27 rule and construct")
	r.Rule("C26.R7", "validate at the time of use: a sanitised path that reaches a sink through shared state (a field of a heap object, a map held in one, a package variable) was written there within the same activation - later in the writing function, or in a function called after the write - never by an earlier event (frame, request)")
	r.Rule("C26.R8", "a string-prefix comparison between the validator's subject and an allowed pattern (in the matcher and the functions it calls) uses a prefix that provably ends with the path separator; substring, suffix and case-insensitive comparisons do not relate a path to an allowed directory")
	r.Rule("C26.R6", "the path returned by a sanitiser (or by a function that only passes sanitiser results on) is used only where the accompanying error/response was found nil, or is returned together with it: a failed sanitiser yields the empty path, which filepath.Clean turns into the working directory")
	r.Rule("C26.R5", "a sink that follows a symbolic link in the last path component (stat, open, readdir, chmod, mkdirall, ...) receives a fully resolved path; a sanitised path whose last component was deliberately kept reaches only operations on the link itself (remove, rename, lstat) or has that component stripped (filepath.Dir) first")
	r.Rule("C26.R4", "every file-system sink whose path derives from TransferMetadata.Path or BrowseRequest.Path receives the value returned by a valid sanitiser")

	cx := newC26Ctx(p)
	for _, fq := range [][2]string{{"TransferMetadata", "Path"}, {"BrowseRequest", "Path"}} {
		f := p.Field("internal/filetransfer", fq[0], fq[1])
		if r.Require(f != nil, "anchor-unresolved: field internal/filetransfer.%s.%s", fq[0], fq[1]) {
			cx.taint[f] = true
		}
	}
	cx.allowed = p.Field("internal/filetransfer", "StreamConfig", "AllowedPaths")
	if !r.Require(cx.allowed != nil, "anchor-unresolved: field internal/filetransfer.StreamConfig.AllowedPaths") || len(r.Floors) > 0 {
		return
	}

	// ---- validators: (string) error functions that read AllowedPaths
	for _, acc := range p.FieldAccessesOfKind(cx.allowed, kit.FieldLoad) {
		fn := kit.TopLevel(acc.Fn)
		sig := fn.Signature
		if sig.Results().Len() != 1 || !kit.IsErrorType(sig.Results().At(0).Type()) || sig.Params().Len() != 1 {
			continue
		}
		if b, ok := sig.Params().At(0).Type().Underlying().(*types.Basic); !ok || b.Info()&types.IsString == 0 {
			continue
		}
		if !cx.isValidator(fn) {
			cx.validators = append(cx.validators, fn)
		}
	}
	// ... or that delegate the loop to an allow predicate (a bool helper reading AllowedPaths)
	for _, acc := range p.FieldAccessesOfKind(cx.allowed, kit.FieldLoad) {
		g := kit.TopLevel(acc.Fn)
		if !cx.isAllowPredicate(g) {
			continue
		}
		for _, site := range p.StaticCallers(g) {
			fn := kit.TopLevel(site.Parent())
			sig := fn.Signature
			if sig.Results().Len() != 1 || !kit.IsErrorType(sig.Results().At(0).Type()) || sig.Params().Len() != 1 || !c26IsStringType(sig.Params().At(0).Type()) {
				continue
			}
			if !cx.isValidator(fn) {
				cx.validators = append(cx.validators, fn)
			}
		}
	}
	if !r.Require(len(cx.validators) > 0, "anchor-unresolved: no func(string) error reads StreamConfig.AllowedPaths (the allow-list validator)") {
		return
	}
	r.Count("validators", len(cx.validators))

	// ---- R3 on each validator; collect the normalisers it applies
	normalisers := map[*ssa.Function]bool{}
	for _, v := range cx.validators {
		cx.checkDenyByDefault(r, v, normalisers)
	}

	// ---- sanitiser candidates: functions returning a string that call a validator directly
	var cands []*ssa.Function
	for _, v := range cx.validators {
		for _, site := range p.StaticCallers(v) {
			fn := site.Parent()
			if fn.Parent() != nil || cx.isValidator(fn) || !c26FirstResultIsString(fn) {
				continue
			}
			dup := false
			for _, c := range cands {
				dup = dup || c == fn
			}
			if !dup {
				cands = append(cands, fn)
			}
		}
	}
	sort.Slice(cands, func(i, j int) bool { return cands[i].Pos() < cands[j].Pos() })
	r.Count("sanitiser_candidates", len(cands))
	for _, fn := range cands {
		cx.sanOK[fn] = cx.checkSanitiser(r, fn, normalisers)
	}

	// ---- R6: results of sanitisers (and of functions that only hand sanitiser results on)
	// are used only where the failure indicator is known to be nil
	cx.checkResultUses(r)

	// ---- R4: sinks
	isBarrier := func(v ssa.Value) bool {
		c := c26ResultCall(v)
		if c == nil {
			return false
		}
		cal := kit.CalleeOf(c)
		return cal.Static != nil && cx.sanOK[cal.Static]
	}
	sinks := c26FindSinks(p, c26Sinks)
	r.Count("fs_sink_calls_in_repo", len(sinks))
	nTainted, nSan, nCut, nFollow := 0, 0, 0, 0
	parked := map[string]*c26Parked{}
	requestFed := map[ssa.CallInstruction]bool{} // sink calls whose path comes from a request (sanitised or not)
	for _, s := range sinks {
		for _, ai := range s.args {
			args := s.call.Common().Args
			if ai >= len(args) {
				continue
			}
			var partial []ssa.Value // sanitiser results whose last component was left unresolved
			var crossings []c26Cross
			q := &kit.PathFlow{Prog: p, FollowBodies: true, FollowParams: true, FollowField: c26FollowField, FollowGlobals: true,
				Source: cx.isTaintLoad, Barrier: isBarrier, Mark: c26StripsLast,
				OnStateCross: func(read ssa.Value, write ssa.Instruction, val ssa.Value) {
					crossings = append(crossings, c26Cross{read, write, val})
				},
				OnBarrierChain: func(v ssa.Value, stripped bool, chain []*ssa.Call) {
					if !stripped && cx.barrierPartial(v, c26ChainEval(nil, chain)) {
						partial = append(partial, v)
					}
				}}
			res := q.Walk(args[ai])
			nCut += res.Cut
			pos := p.Pos(s.call.Pos())
			if len(res.Sources) > 0 || len(res.Barriers) > 0 {
				requestFed[s.call] = true
			}
			switch {
			case len(res.Sources) > 0:
				nTainted++
				src := res.Sources[0]
				f, _ := kit.LoadedField(src)
				r.Violation("C26.R4", s.key(ai), pos,
					"the path handed to %s is built from the request field %s (loaded at %s) without passing through a valid sanitiser: the operation follows symbolic links below an allowed directory and acts outside the allowed paths",
					s.name, f.Name(), p.Pos(src.Pos()))
			case res.Top:
				r.Undecided("C26.R4", s.key(ai), pos, "path-flow walk exceeded its bounds")
			case len(res.Barriers) > 0:
				nSan++
				r.OK("C26.R4", s.key(ai), pos, "path comes from %d sanitiser result(s) only", len(res.Barriers))
				if c26FollowsLast(s.name) {
					nFollow++
					r.Decide(len(partial) == 0, "C26.R5", s.key(ai), pos,
						"the operation follows a link in the last component and receives a fully resolved path",
						fmt.Sprintf("%s follows a symbolic link in the last path component, but the sanitised path it receives (from %s) is not provably fully resolved (its last component may have been kept as named): a link as the last component leads the operation outside the allowed paths", s.name, c26Where(p, partial)))
				}
				// R7: the sanitised path must not have been parked in shared state by an earlier event
				for _, c := range crossings {
					rd, isInstr := c.read.(ssa.Instruction)
					if !isInstr {
						continue
					}
					sub := (&kit.PathFlow{Prog: p, FollowBodies: true, FollowParams: true, FollowField: c26FollowField, FollowGlobals: true,
						Source: cx.isTaintLoad, Barrier: isBarrier}).Walk(c.val)
					if len(sub.Barriers) == 0 {
						continue
					}
					k := fmt.Sprintf("%s: written in %s, read in %s", c26StateName(c.read), kit.FuncName(c.write.Parent()), kit.FuncName(rd.Parent()))
					pk := parked[k]
					if pk == nil {
						pk = &c26Parked{write: c.write, read: rd, same: true}
						parked[k] = pk
					}
					if !g9SameActivation(c.write, rd, cx.reach) {
						pk.same = false
					}
					pk.sinks = append(pk.sinks, s.key(ai))
				}
			}
		}
	}
	// ---- R9: the tar extraction below a requested destination is judged by the C27 rule set
	sub := kit.NewReport("C27", "embedded")
	c27Analyse(p, sub, func(s c26SinkSite) bool { return requestFed[s.call] }, false)
	nR9 := 0
	for _, o := range sub.Obs {
		key := o.Rule + " " + o.Key
		switch o.Status {
		case kit.Discharged:
			nR9++
			r.OK("C26.R9", key, o.Pos, "%s", o.Detail)
		case kit.Violated:
			nR9++
			r.Violation("C26.R9", key, o.Pos, "%s; the destination of a directory upload is an allowed path, so the escape also leaves the allowed paths", o.Detail)
		case kit.Undecided:
			r.Undecided("C26.R9", key, o.Pos, "%s", o.Detail)
		}
	}
	for _, n := range sub.Notes {
		r.Note("R9: %s", n)
	}
	r.Count("extraction_obligations_below_requested_destination", nR9)
	r.Count("sinks_fed_by_sanitiser", nSan)
	r.Count("link_following_sinks_fed_by_sanitiser", nFollow)
	var pkeys []string
	for k := range parked {
		pkeys = append(pkeys, k)
	}
	sort.Strings(pkeys)
	for _, k := range pkeys {
		pk := parked[k]
		r.Decide(pk.same, "C26.R7", k, p.Pos(pk.read.Pos()),
			"the sanitised path is written to and read from this state within one activation",
			fmt.Sprintf("a path that was resolved and validated is parked here (stored at %s) by an earlier event and consumed later by %d file operation(s) (%s): between the two events a path component can be replaced by a symbolic link, which the operation then follows outside the allowed paths; resolve-then-validate must run in the activation that performs the operation", p.Pos(pk.write.Pos()), len(pk.sinks), c26Some(pk.sinks)))
	}
	r.Count("sanitised_paths_passing_through_shared_state", len(parked))
	r.Count("caller_chains_cut_at_depth_limit", nCut)
	r.Count("sinks_fed_by_unsanitised_request_path", nTainted)
	r.Require(nSan+nTainted >= 3, "floor: fewer than 3 file-system sinks are reachable from the request path fields (%d): the path-flow walk lost its subject", nSan+nTainted)
}

// c26NoFollowLast: sinks that act on the last path component itself.
var c26NoFollowLast = map[string]bool{
	"os.Remove": true, "os.RemoveAll": true, "os.Rename": true, "os.Symlink": true, "os.Link": true,
	"os.Lchown": true, "os.Mkdir": true, "path/filepath.Walk": true, "path/filepath.WalkDir": true,
}

// c26FollowsLast: some possible target of the sink call follows a link in the last component.
func c26FollowsLast(name string) bool {
	for _, n := range strings.Split(name, "|") {
		if !c26NoFollowLast[n] {
			return true
		}
	}
	return false
}

func c26Where(p *kit.Program, vs []ssa.Value) string {
	var out []string
	for _, v := range vs {
		if c := c26ResultCall(v); c != nil {
			out = append(out, kit.CalleeOf(c).Name+" at "+p.Pos(c.Pos()))
			continue
		}
		out = append(out, p.Pos(v.Pos()))
	}
	return strings.Join(out, ", ")
}

// c26StripsLast: filepath.Dir(x) and the directory half of filepath.Split(x) no longer
// contain x's last component.
func c26StripsLast(c *ssa.Call, idx int) bool {
	cal := kit.CalleeOf(c)
	if cal.Pkg != "path/filepath" || cal.Recv != "" {
		return false
	}
	return cal.Name == "Dir" || (cal.Name == "Split" && idx == 0)
}

// c26NestedEval: the evaluator for the body of g when entered through call (parameters map
// to the call's arguments, which outer decides).
func c26NestedEval(g *ssa.Function, call *ssa.Call, outer *c26Evaluator) *c26Evaluator {
	return &c26Evaluator{outer: outer, param: func(prm *ssa.Parameter) ssa.Value {
		for i, q := range g.Params {
			if q == prm && i < len(call.Call.Args) {
				return call.Call.Args[i]
			}
		}
		return nil
	}}
}

// c26ChainEval builds the evaluator for the function reached by descending through chain
// (outermost call first) from a function in which env holds.
func c26ChainEval(env c26Env, chain []*ssa.Call) *c26Evaluator {
	ev := &c26Evaluator{env: env}
	for _, c := range chain {
		g := kit.CalleeOf(c).Static
		if g == nil {
			return &c26Evaluator{}
		}
		ev = c26NestedEval(g, c, ev)
	}
	return ev
}

// feasibleTargets: the functions call c (inside a function evaluated by ev) can invoke,
// with the edges of a function-value phi filtered by feasibility.
func c26FeasibleTargets(c *ssa.Call, ev *c26Evaluator) []*ssa.Function {
	if c.Call.IsInvoke() {
		return nil
	}
	var out []*ssa.Function
	seen := map[ssa.Value]bool{}
	ok := true
	var expand func(v ssa.Value)
	expand = func(v ssa.Value) {
		if seen[v] {
			return
		}
		seen[v] = true
		switch x := v.(type) {
		case *ssa.Phi:
			for i, e := range x.Edges {
				if ev.edgeFeasible(x.Block().Preds[i], x.Block(), 0) {
					expand(e)
				}
			}
		case *ssa.Function:
			out = append(out, x)
		case *ssa.MakeClosure:
			if f, isFn := x.Fn.(*ssa.Function); isFn {
				out = append(out, f)
			} else {
				ok = false
			}
		default:
			ok = false
		}
	}
	expand(c.Call.Value)
	if !ok {
		return nil
	}
	return out
}

// argsStripped: every path argument of resolver call c (inside g) has lost its last
// component on every feasible chain back to g's parameters (filepath.Dir / Split #0): the
// call resolves a directory part only.
func (cx *c26Ctx) argsStripped(g *ssa.Function, c *ssa.Call, ev *c26Evaluator) bool {
	stripped := func(v ssa.Value) bool {
		k, idx, ok := kit.ResultOf(v)
		return ok && c26StripsLast(k, idx)
	}
	any := false
	for _, a := range c.Call.Args {
		if !c26IsStringType(a.Type()) {
			continue
		}
		res := (&kit.PathFlow{Prog: cx.p, Within: g, Barrier: stripped,
			PhiEdge: func(phi *ssa.Phi, i int) bool { return ev.edgeFeasible(phi.Block().Preds[i], phi.Block(), 0) }}).Walk(a)
		if len(res.Params) > 0 || len(res.Barriers) == 0 {
			return false
		}
		any = true
	}
	return any
}

// fnKinds classifies the paths resolver function g can return when its body is evaluated
// by ev: partial = some feasible return re-attaches an unresolved last component (it comes
// from a resolver call fed with a stripped path), full = some feasible return is fully
// resolved. Undecided conditions keep both kinds feasible.
func (cx *c26Ctx) fnKinds(g *ssa.Function, ev *c26Evaluator, depth int) (partial, full bool) {
	if depth > 6 || g.Blocks == nil {
		return true, true
	}
	seen := map[ssa.Value]bool{}
	var expand func(x ssa.Value)
	expand = func(x ssa.Value) {
		if seen[x] {
			return
		}
		seen[x] = true
		if phi, isPhi := x.(*ssa.Phi); isPhi {
			for i, e := range phi.Edges {
				if ev.edgeFeasible(phi.Block().Preds[i], phi.Block(), 0) {
					expand(e)
				}
			}
			return
		}
		q := &kit.PathFlow{Prog: cx.p, LeadOnly: true, Within: g, Barrier: cx.isResolverResult,
			PhiEdge: func(phi *ssa.Phi, i int) bool { return ev.edgeFeasible(phi.Block().Preds[i], phi.Block(), 0) }}
		for _, b := range q.Walk(x).Barriers {
			c := c26ResultCall(b)
			if c == nil {
				full = true
				continue
			}
			if cx.argsStripped(g, c, ev) {
				partial = true
				continue
			}
			targets := c26FeasibleTargets(c, ev)
			if len(targets) == 0 {
				partial, full = true, true
				continue
			}
			for _, t := range targets {
				if c26IsEvalSymlinksFn(t) || t.Blocks == nil {
					full = true
					continue
				}
				p, f := cx.fnKinds(t, c26NestedEval(t, c, ev), depth+1)
				partial, full = partial || p, full || f
			}
		}
	}
	for _, ret := range kit.Returns(g) {
		if ret.Block() == g.Recover || !ev.blockFeasible(ret.Block(), 0) {
			continue
		}
		x := kit.ReturnResult(ret, 0)
		if _, isConst := x.(*ssa.Const); isConst {
			continue
		}
		expand(x)
	}
	return
}

// barrierPartial: the sanitiser / containment result v may be a path whose last component
// was left unresolved - it is not provably fully resolved when the function containing the
// call is evaluated by outer.
func (cx *c26Ctx) barrierPartial(v ssa.Value, outer *c26Evaluator) bool {
	call := c26ResultCall(v)
	if call == nil {
		return false
	}
	targets := c26FeasibleTargets(call, outer)
	if len(targets) == 0 {
		return true
	}
	for _, g := range targets {
		if p, _ := cx.fnKinds(g, c26NestedEval(g, call, outer), 0); p {
			return true
		}
	}
	return false
}

// c26FieldKey identifies "field f of the struct base points to" in a bool evaluation environment.
type c26FieldKey struct {
	base ssa.Value
	f    *types.Var
}

// c26Env maps struct fields to integer constants known to hold at a program point.
type c26Env map[c26FieldKey]int64

// c26EnvAt collects, from the branch conditions that necessarily hold at instruction at,
// the equalities "x.f == constant".
func c26EnvAt(at ssa.Instruction) c26Env {
	env := c26Env{}
	for _, g := range kit.GuardsOf(at) {
		c26AddFact(env, g.Cond, g.Polarity)
	}
	return env
}

// c26EnvsAt is c26EnvAt for a point that may be entered over several branch edges each of
// which establishes an equality (case A, B: of a switch): one environment per edge. When
// nothing is known it returns a single empty environment.
func c26EnvsAt(at ssa.Instruction) []c26Env {
	if env := c26EnvAt(at); len(env) > 0 {
		return []c26Env{env}
	}
	for d := at.Block(); d != nil; d = d.Idom() {
		if len(d.Preds) < 2 || len(d.Preds) > 8 {
			continue
		}
		var envs []c26Env
		for _, pr := range d.Preds {
			env := c26Env{}
			if n := len(pr.Instrs); n > 0 {
				if ifi, isIf := pr.Instrs[n-1].(*ssa.If); isIf && pr.Succs[0] != pr.Succs[1] {
					c26AddFact(env, ifi.Cond, pr.Succs[0] == d)
				}
			}
			if len(env) == 0 {
				envs = nil
				break
			}
			envs = append(envs, env)
		}
		if len(envs) > 0 {
			return envs
		}
	}
	return []c26Env{{}}
}

// c26AddFact records "x.f == constant" when cond with the given outcome says so.
func c26AddFact(env c26Env, cond ssa.Value, outcome bool) {
	b, ok := cond.(*ssa.BinOp)
	if !ok || !((b.Op == token.EQL && outcome) || (b.Op == token.NEQ && !outcome)) {
		return
	}
	for _, pair := range [][2]ssa.Value{{b.X, b.Y}, {b.Y, b.X}} {
		k, isConst := kit.ConstInt(pair[1])
		if !isConst {
			continue
		}
		if u, isLoad := pair[0].(*ssa.UnOp); isLoad && u.Op == token.MUL {
			if fa, isFA := u.X.(*ssa.FieldAddr); isFA {
				env[c26FieldKey{c26CanonBase(fa.X), kit.FieldOfAddr(fa)}] = k
			}
		}
	}
}

// c26CanonBase gives one identity to the different loads of a local variable that lives in
// memory (captured by a closure) and is assigned exactly once: the variable's allocation.
func c26CanonBase(v ssa.Value) ssa.Value {
	u, ok := v.(*ssa.UnOp)
	if !ok || u.Op != token.MUL {
		return v
	}
	al, ok := u.X.(*ssa.Alloc)
	if !ok || al.Referrers() == nil {
		return v
	}
	n := 0
	for _, r := range *al.Referrers() {
		if st, isStore := r.(*ssa.Store); isStore && st.Addr == ssa.Value(al) {
			n++
		}
	}
	if n != 1 {
		return v
	}
	return al
}

// c26Evaluator decides bool/integer SSA values from constants, field facts that hold at
// the point of interest, parameters mapped to call-site arguments, and small repository
// helper functions (evaluated by substituting their parameters).
type c26Evaluator struct {
	env   c26Env
	param func(*ssa.Parameter) ssa.Value // parameter of the current function -> value in the outer scope
	outer *c26Evaluator                  // evaluator for what param returns (nil: constants only)
	feas  map[*ssa.BasicBlock]int        // block feasibility memo: 1 feasible, 2 infeasible, 3 in progress
}

// edgeFeasible: control can take pred->succ without contradicting a condition the
// evaluator can decide: the branch at the end of pred allows it and pred itself is
// feasible (some feasible edge enters it).
func (e *c26Evaluator) edgeFeasible(pred, succ *ssa.BasicBlock, depth int) bool {
	if depth > 12 {
		return true
	}
	if n := len(pred.Instrs); n > 0 {
		if ifi, isIf := pred.Instrs[n-1].(*ssa.If); isIf && pred.Succs[0] != pred.Succs[1] {
			if val, known := e.boolOf(ifi.Cond, depth+1); known && val != (pred.Succs[0] == succ) {
				return false
			}
		}
	}
	return e.blockFeasible(pred, depth+1)
}

func (e *c26Evaluator) blockFeasible(b *ssa.BasicBlock, depth int) bool {
	if e.feas == nil {
		e.feas = map[*ssa.BasicBlock]int{}
	}
	switch e.feas[b] {
	case 1, 3:
		return true // 3: on a cycle - assume feasible
	case 2:
		return false
	}
	if len(b.Preds) == 0 {
		e.feas[b] = 1
		return true
	}
	e.feas[b] = 3
	ok := false
	for _, pr := range b.Preds {
		if e.edgeFeasible(pr, b, depth) {
			ok = true
			break
		}
	}
	if ok {
		e.feas[b] = 1
	} else {
		e.feas[b] = 2
	}
	return ok
}

func (e *c26Evaluator) intOf(v ssa.Value, depth int) (int64, bool) {
	if depth > 12 || e == nil {
		return 0, false
	}
	if k, ok := kit.ConstInt(v); ok {
		return k, true
	}
	switch x := v.(type) {
	case *ssa.Convert:
		return e.intOf(x.X, depth+1)
	case *ssa.ChangeType:
		return e.intOf(x.X, depth+1)
	case *ssa.UnOp:
		if x.Op == token.MUL {
			if fa, isFA := x.X.(*ssa.FieldAddr); isFA {
				// x.f where x is (a parameter bound, possibly over several calls, to) the
				// object the facts are about
				base, ev := fa.X, e
				for ev != nil {
					base = c26CanonBase(base)
					if have, ok := ev.env[c26FieldKey{base, kit.FieldOfAddr(fa)}]; ok {
						return have, true
					}
					prm, isParam := base.(*ssa.Parameter)
					if !isParam || ev.param == nil {
						break
					}
					a := ev.param(prm)
					if a == nil || a == base {
						break
					}
					base, ev = a, ev.outer
				}
			}
		}
	case *ssa.Parameter:
		if e.param != nil {
			if a := e.param(x); a != nil && a != ssa.Value(x) {
				o := e.outer
				if o == nil {
					o = &c26Evaluator{}
				}
				return o.intOf(a, depth+1)
			}
		}
	}
	return 0, false
}

func (e *c26Evaluator) boolOf(v ssa.Value, depth int) (val, known bool) {
	if depth > 12 || e == nil {
		return false, false
	}
	if b, ok := kit.ConstBool(v); ok {
		return b, true
	}
	switch x := v.(type) {
	case *ssa.UnOp:
		if x.Op == token.NOT {
			b, ok := e.boolOf(x.X, depth+1)
			return !b, ok
		}
	case *ssa.Parameter:
		if e.param != nil {
			if a := e.param(x); a != nil && a != ssa.Value(x) {
				o := e.outer
				if o == nil {
					o = &c26Evaluator{}
				}
				return o.boolOf(a, depth+1)
			}
		}
	case *ssa.BinOp:
		if x.Op != token.EQL && x.Op != token.NEQ {
			break
		}
		l, ok1 := e.intOf(x.X, depth+1)
		r, ok2 := e.intOf(x.Y, depth+1)
		if ok1 && ok2 {
			return (l == r) == (x.Op == token.EQL), true
		}
	case *ssa.Phi:
		// a loop-carried value belongs to an earlier iteration: the facts about this
		// iteration's values say nothing about it
		for _, pr := range x.Block().Preds {
			if x.Block().Dominates(pr) {
				return false, false
			}
		}
		n := 0
		var res bool
		for i, edge := range x.Edges {
			if !e.edgeFeasible(x.Block().Preds[i], x.Block(), depth+1) {
				continue
			}
			b, ok := e.boolOf(edge, depth+1)
			if !ok {
				return false, false
			}
			if n > 0 && b != res {
				return false, false
			}
			res = b
			n++
		}
		return res, n > 0
	case *ssa.Call:
		// a small repository helper: func isLinkType(t byte) bool { return t == '1' || t == '2' }
		g := kit.CalleeOf(x).Static
		if g == nil || g.Blocks == nil || !kit.IsRepoPkg(kit.FuncPkgPath(g)) || len(g.Blocks) > 12 {
			break
		}
		inner := &c26Evaluator{outer: e, param: func(prm *ssa.Parameter) ssa.Value {
			for i, q := range g.Params {
				if q == prm && i < len(x.Call.Args) {
					return x.Call.Args[i]
				}
			}
			return nil
		}}
		n := 0
		var res bool
		for _, ret := range kit.Returns(g) {
			if len(ret.Results) != 1 {
				return false, false
			}
			if !inner.blockFeasible(ret.Block(), depth+1) {
				continue // this return cannot be taken for the arguments at hand
			}
			b, ok := inner.boolOf(kit.ReturnResult(ret, 0), depth+1)
			if !ok || (n > 0 && b != res) {
				return false, false
			}
			res = b
			n++
		}
		return res, n > 0
	}
	return false, false
}

// c26EvalBool evaluates a bool SSA value under env and param (a resolver of parameters to
// call-site arguments); known=false when the value is not determined.
func c26EvalBool(v ssa.Value, env c26Env, param func(*ssa.Parameter) ssa.Value, depth int) (val, known bool) {
	return (&c26Evaluator{env: env, param: param}).boolOf(v, depth)
}

// c26BoolConst returns an SSA constant for b (used to feed decided arguments back into c26EvalBool).
func c26BoolConst(b bool) *ssa.Const {
	return ssa.NewConst(constant.MakeBool(b), types.Typ[types.Bool])
}

// sanitiserFamily: the valid sanitisers plus, transitively, the functions with a path result
// and a failure indicator whose every non-constant returned path consists of results of
// family members only (ResolvePath, requirePath style wrappers).
func (cx *c26Ctx) sanitiserFamily() map[*ssa.Function]bool {
	fam := map[*ssa.Function]bool{}
	var work []*ssa.Function
	for fn, ok := range cx.sanOK {
		if ok {
			fam[fn] = true
			work = append(work, fn)
		}
	}
	sort.Slice(work, func(i, j int) bool { return work[i].Pos() < work[j].Pos() })
	isFam := func(v ssa.Value) bool {
		c := c26ResultCall(v)
		if c == nil {
			return false
		}
		cal := kit.CalleeOf(c)
		return cal.Static != nil && fam[cal.Static]
	}
	for len(work) > 0 {
		g := work[0]
		work = work[1:]
		for _, site := range cx.p.StaticCallers(g) {
			f := site.Parent()
			if fam[f] || f.Parent() != nil || !c26FirstResultIsString(f) || f.Signature.Results().Len() < 2 {
				continue
			}
			ok, some := true, false
			for _, ret := range kit.Returns(f) {
				v := kit.ReturnResult(ret, 0)
				if _, isConst := v.(*ssa.Const); isConst {
					continue
				}
				res := (&kit.PathFlow{Prog: cx.p, Within: f, Barrier: isFam, Source: cx.isTaintLoad}).Walk(v)
				if len(res.Barriers) == 0 || len(res.Params) > 0 || len(res.Sources) > 0 || res.Top {
					ok = false
				}
				some = true
			}
			if ok && some {
				fam[f] = true
				work = append(work, f)
			}
		}
	}
	return fam
}

// c26SuccessKnown: the guards establish that the failure indicator returned by g (its last
// result) signals success: nil for an error / pointer / interface indicator; for a bool
// indicator the constant that g returns together with its non-constant paths.
func c26SuccessKnown(gs []kit.Guard, fail ssa.Value, g *ssa.Function) bool {
	if b, isBasic := fail.Type().Underlying().(*types.Basic); isBasic && b.Kind() == types.Bool {
		okVal, have := false, false
		n := g.Signature.Results().Len()
		for _, ret := range kit.Returns(g) {
			if _, isConst := kit.ReturnResult(ret, 0).(*ssa.Const); isConst {
				continue
			}
			bv, isConst := kit.ConstBool(kit.ReturnResult(ret, n-1))
			if !isConst || (have && bv != okVal) {
				return false // success is not signalled by one constant
			}
			okVal, have = bv, true
		}
		if !have {
			return false
		}
		for _, gd := range gs {
			cond, pol := gd.Cond, gd.Polarity
			for {
				u, isNot := cond.(*ssa.UnOp)
				if !isNot || u.Op != token.NOT {
					break
				}
				cond, pol = u.X, !pol
			}
			if cond == fail && pol == okVal {
				return true
			}
		}
		return false
	}
	return kit.ErrNilOn(gs, fail)
}

// checkResultUses decides R6 at every call site of a sanitiser-family function.
func (cx *c26Ctx) checkResultUses(r *kit.Report) {
	p := cx.p
	fam := cx.sanitiserFamily()
	var fns []*ssa.Function
	for f := range fam {
		fns = append(fns, f)
	}
	sort.Slice(fns, func(i, j int) bool { return fns[i].Pos() < fns[j].Pos() })
	r.Count("sanitiser_family_functions", len(fns))
	nSites := 0
	for _, g := range fns {
		ord := map[*ssa.Function]int{}
		for _, site := range p.StaticCallers(g) {
			call, isCall := site.(*ssa.Call)
			caller := site.Parent()
			ord[caller]++
			key := fmt.Sprintf("%s result of %s #%d", kit.FuncName(caller), g.Name(), ord[caller])
			pos := p.Pos(site.Pos())
			if !isCall {
				continue // go/defer: results are discarded
			}
			nSites++
			nres := g.Signature.Results().Len()
			v0 := kit.ExtractOf(call, 0)
			if v0 == nil || v0.Referrers() == nil {
				r.OK("C26.R6", key, pos, "the returned path is not used")
				continue
			}
			fail := kit.ExtractOf(call, nres-1)
			bad := ""
			for _, u := range *v0.Referrers() {
				if _, isDbg := u.(*ssa.DebugRef); isDbg {
					continue
				}
				if ret, isRet := u.(*ssa.Return); isRet && fail != nil {
					together := false
					for _, rv := range ret.Results {
						together = together || rv == fail
					}
					if together {
						continue // handed on together with the failure indicator
					}
				}
				if fail != nil && c26SuccessKnown(kit.GuardsOf(u), fail, g) {
					continue
				}
				bad = p.Pos(u.Pos())
				if bad == "-" {
					bad = pos
				}
			}
			r.Decide(bad == "", "C26.R6", key, pos,
				"every use of the returned path is behind the success check of the accompanying error/response/ok value",
				"the returned path is used at "+bad+" where the sanitiser's failure indicator is not known to signal success: on failure the path is empty, filepath.Clean makes it \".\" and the file operation (for a directory upload: the whole extraction) acts on the agent's working directory")
		}
	}
	r.Count("sanitiser_family_call_sites", nSites)
}

// allowElemDep: the value depends on an element of the AllowedPaths slice.
func (cx *c26Ctx) allowElemDep(fn *ssa.Function, v ssa.Value) bool {
	q := &kit.PathFlow{Prog: cx.p, Within: fn, Source: func(x ssa.Value) bool {
		f, _ := kit.LoadedField(x)
		return f == cx.allowed
	}}
	return len(q.Walk(v).Sources) > 0
}

func (cx *c26Ctx) paramDep(fn *ssa.Function, v ssa.Value) bool {
	q := &kit.PathFlow{Prog: cx.p, Within: fn}
	return len(q.Walk(v).Params) > 0
}

type c26Edge struct{ from, to *ssa.BasicBlock }

func c26IsStringType(t types.Type) bool {
	b, ok := t.Underlying().(*types.Basic)
	return ok && b.Info()&types.IsString != 0
}

// classifyCond decides whether a branch condition in fn is an "allow hit": the wildcard
// comparison of an AllowedPaths element, a matcher call relating a parameter-derived subject
// to an AllowedPaths element, or a call to an allow predicate (a bool helper that itself
// returns true only over such hits). onTrue: the hit is the condition's true outcome.
func (cx *c26Ctx) classifyCond(fn *ssa.Function, cond ssa.Value) (isHit, onTrue bool, subj ssa.Value) {
	neg := false
	for {
		u, isNot := cond.(*ssa.UnOp)
		if !isNot || u.Op != token.NOT {
			break
		}
		neg = !neg
		cond = u.X
	}
	switch c := cond.(type) {
	case *ssa.BinOp:
		if c.Op != token.EQL && c.Op != token.NEQ {
			break
		}
		var other ssa.Value
		if _, ok := kit.ConstString(c.Y); ok {
			other = c.X
		} else if _, ok := kit.ConstString(c.X); ok {
			other = c.Y
		}
		if other != nil && cx.allowElemDep(fn, other) {
			isHit, onTrue = true, c.Op == token.EQL
		}
	case *ssa.Call:
		cal := kit.CalleeOf(c)
		if cal.Static == nil {
			break
		}
		if b, ok := c.Type().Underlying().(*types.Basic); !ok || b.Kind() != types.Bool {
			break
		}
		var pat, sub ssa.Value
		wildcard := false
		for _, a := range c.Call.Args {
			if _, isConst := kit.ConstString(a); isConst {
				wildcard = true
				continue
			}
			if cx.allowElemDep(fn, a) {
				pat = a // an element, or the AllowedPaths slice itself (slices.Contains)
			} else if c26IsStringType(a.Type()) && cx.paramDep(fn, a) {
				sub = a
			}
		}
		switch {
		case pat != nil && sub != nil:
			isHit, onTrue, subj = true, true, sub
		case pat != nil && wildcard && sub == nil && c26IsWildcardTest(cal, pat):
			isHit, onTrue = true, true // slices.Contains(allowed, "*"), strings.EqualFold(pattern, "*")
		case sub != nil && pat == nil && cx.isAllowPredicate(cal.Static):
			isHit, onTrue, subj = true, true, sub
		}
	}
	if neg {
		onTrue = !onTrue
	}
	return
}

// c26IsWildcardTest: the call compares a whole AllowedPaths element (or looks the constant
// up in the whole list) for equality; strings.Contains(pattern, "*") is not such a test -
// it would turn every glob pattern into the wildcard.
func c26IsWildcardTest(cal kit.Callee, pat ssa.Value) bool {
	if _, isSlice := pat.Type().Underlying().(*types.Slice); isSlice {
		return cal.Pkg == "slices" && (cal.Name == "Contains" || cal.Name == "Index")
	}
	return cal.Pkg == "strings" && cal.Name == "EqualFold"
}

// hitEdges: the CFG edges of fn taken because an allow hit occurred, and the subjects matched.
func (cx *c26Ctx) hitEdges(fn *ssa.Function) (map[c26Edge]bool, []ssa.Value) {
	hit := map[c26Edge]bool{}
	var subjects []ssa.Value
	for _, b := range fn.Blocks {
		if len(b.Instrs) == 0 {
			continue
		}
		ifi, ok := b.Instrs[len(b.Instrs)-1].(*ssa.If)
		if !ok {
			continue
		}
		isHit, onTrue, subj := cx.classifyCond(fn, ifi.Cond)
		if !isHit {
			continue
		}
		if subj != nil {
			subjects = append(subjects, subj)
		}
		if onTrue {
			hit[c26Edge{b, b.Succs[0]}] = true
		} else {
			hit[c26Edge{b, b.Succs[1]}] = true
		}
	}
	return hit, subjects
}

// c26ViaHit: block b is entered only over hit edges (on every CFG path from the entry the
// last step into b, or into a chain of blocks leading only to b, is a hit edge).
func c26ViaHit(b *ssa.BasicBlock, hit map[c26Edge]bool, seen map[*ssa.BasicBlock]bool) bool {
	if seen[b] {
		return true
	}
	seen[b] = true
	if len(b.Preds) == 0 {
		return false
	}
	for _, pr := range b.Preds {
		if hit[c26Edge{pr, b}] {
			continue
		}
		if !c26ViaHit(pr, hit, seen) {
			return false
		}
	}
	return true
}

// isAllowPredicate: a repository function returning bool that reads AllowedPaths and
// returns true only over allow hits (constant true reached over hit edges, or the value of
// a matcher call itself).
func (cx *c26Ctx) isAllowPredicate(g *ssa.Function) bool {
	switch cx.allowPred[g] {
	case 1:
		return true
	case 2, 3:
		return false
	}
	cx.allowPred[g] = 3
	ok := g.Blocks != nil && kit.IsRepoPkg(kit.FuncPkgPath(g)) && g.Signature.Results().Len() == 1
	if ok {
		b, isB := g.Signature.Results().At(0).Type().Underlying().(*types.Basic)
		ok = isB && b.Kind() == types.Bool
	}
	readsAllow := false
	if ok {
		kit.Instrs(g, func(in ssa.Instruction) {
			if v, isV := in.(ssa.Value); isV {
				if f, _ := kit.LoadedField(v); f == cx.allowed {
					readsAllow = true
				}
			}
		})
		ok = readsAllow
	}
	if ok {
		hit, _ := cx.hitEdges(g)
		for _, ret := range kit.Returns(g) {
			if ret.Block() == g.Recover {
				continue
			}
			v := kit.ReturnResult(ret, 0)
			if bv, isConst := kit.ConstBool(v); isConst {
				if bv && !c26ViaHit(ret.Block(), hit, map[*ssa.BasicBlock]bool{}) {
					ok = false
				}
				continue
			}
			allTrueHits := true
			for _, leaf := range kit.PhiLeaves(v) {
				if bv, isConst := kit.ConstBool(leaf); isConst {
					if bv {
						allTrueHits = false // a constant true merged in: cannot tell which edge
					}
					continue
				}
				if isHit, onTrue, _ := cx.classifyCond(g, leaf); !isHit || !onTrue {
					allTrueHits = false
				}
			}
			if !allTrueHits {
				ok = false
			}
		}
	}
	if ok {
		cx.allowPred[g] = 1
	} else {
		cx.allowPred[g] = 2
	}
	return ok
}

// checkDenyByDefault decides R3 for one validator and records the normalisers it applies
// to its subject.
func (cx *c26Ctx) checkDenyByDefault(r *kit.Report, v *ssa.Function, normalisers map[*ssa.Function]bool) {
	p := cx.p
	name := kit.FuncName(v)
	hit, subjects := cx.hitEdges(v)
	for _, subj := range subjects {
		for n := range cx.validatorNormalisers(v, subj) {
			normalisers[n] = true
		}
	}
	cx.checkMatcherPrefixes(r, v)
	nNil := 0
	for _, ret := range kit.Returns(v) {
		if ret.Block() == v.Recover || !kit.ReturnsNilError(ret) {
			continue
		}
		nNil++
		ok := c26ViaHit(ret.Block(), hit, map[*ssa.BasicBlock]bool{})
		r.Decide(ok, "C26.R3", fmt.Sprintf("%s nil return #%d", name, nNil), p.Pos(ret.Pos()),
			"reached only over a branch taken because an AllowedPaths element matched",
			"the validator can return nil without any AllowedPaths element having matched: a path outside every allowed pattern (or any path when the list is empty) is accepted")
	}
	if nNil == 0 {
		r.OK("C26.R3", name+" never allows", p.Pos(v.Pos()), "the validator has no nil return")
	}
	r.Decide(len(subjects) > 0 || nNil == 0, "C26.R3", name+" matcher subject", p.Pos(v.Pos()),
		"a matcher call relates the validator's parameter to an AllowedPaths element",
		"no matcher call in the validator takes both a value derived from its parameter and an AllowedPaths element: the requested path is not what is compared with the allow-list")
}

// checkMatcherPrefixes decides R8 over the validator and the repository functions reachable
// from it (depth 3): every strings.HasPrefix/HasSuffix/Contains/EqualFold call whose two
// operands derive from two different parameters of the enclosing function (a path and a
// pattern) must be a HasPrefix against a separator-terminated prefix.
func (cx *c26Ctx) checkMatcherPrefixes(r *kit.Report, v *ssa.Function) {
	p := cx.p
	seen := map[*ssa.Function]bool{v: true}
	level := []*ssa.Function{v}
	var fns []*ssa.Function
	for depth := 0; depth <= 3 && len(level) > 0; depth++ {
		var next []*ssa.Function
		for _, f := range level {
			fns = append(fns, f)
			for _, c := range kit.Calls(f) {
				g := kit.CalleeOf(c).Static
				if g != nil && g.Blocks != nil && kit.IsRepoPkg(kit.FuncPkgPath(g)) && !seen[g] {
					seen[g] = true
					next = append(next, g)
				}
			}
		}
		level = next
	}
	n := 0
	for _, f := range fns {
		ord := map[string]int{}
		for _, rel := range g9StringRels(f) {
			ord[rel.name]++
			sp := (&kit.PathFlow{Prog: p, Within: f}).Walk(rel.s).Params
			pp := (&kit.PathFlow{Prog: p, Within: f}).Walk(rel.p).Params
			if len(sp) == 0 || len(pp) == 0 {
				continue // one side is a constant / not parameter-derived: not a path-vs-pattern relation
			}
			same := true
			inS := map[*ssa.Parameter]bool{}
			for _, x := range sp {
				inS[x] = true
			}
			for _, x := range pp {
				if !inS[x] {
					same = false
				}
			}
			if same {
				continue // both operands from the same parameter(s)
			}
			n++
			key := fmt.Sprintf("%s strings.%s #%d", kit.FuncName(f), rel.name, ord[rel.name])
			pos := p.Pos(rel.call.Pos())
			if rel.name != "HasPrefix" {
				r.Violation("C26.R8", key, pos, "a path is related to an allowed pattern with strings.%s: substring, suffix and case-insensitive matches accept paths outside the allowed directory (/srv/Share2, /x/srv/share) - containment needs a separator-terminated prefix test", rel.name)
				continue
			}
			r.Decide(g9EndsWithSep(rel.p, 0), "C26.R8", key, pos,
				"the prefix operand provably ends with the path separator",
				"strings.HasPrefix against a prefix that does not provably end with the path separator: /var/wwwevil matches the allowed /var/www, so operations act outside the allowed paths")
		}
	}
	r.Count("matcher_path_pattern_comparisons", n)
}

// checkSanitiser decides R1/R2 for one candidate (a function returning a path that calls a
// validator directly) and reports whether its result may serve as a barrier.
func (cx *c26Ctx) checkSanitiser(r *kit.Report, fn *ssa.Function, normalisers map[*ssa.Function]bool) bool {
	p := cx.p
	name := kit.FuncName(fn)
	// validator calls in fn
	type vcall struct {
		c   *ssa.Call
		arg *kit.PathFlowResult
	}
	var vcalls []vcall
	for _, c := range kit.Calls(fn) {
		cc, ok := c.(*ssa.Call)
		if !ok {
			continue
		}
		if cal := kit.CalleeOf(c); cal.Static != nil && cx.isValidator(cal.Static) {
			vcalls = append(vcalls, vcall{cc, cx.leadWalk(fn, kit.Arg(c, 0))})
		}
	}
	isNormaliserResult := func(v ssa.Value) bool {
		c := c26ResultCall(v)
		if c == nil {
			return false
		}
		cal := kit.CalleeOf(c)
		return cal.Static != nil && normalisers[cal.Static]
	}
	valid := true
	n := 0
	for _, ret := range kit.Returns(fn) {
		if ret.Block() == fn.Recover {
			continue
		}
		v := kit.ReturnResult(ret, 0)
		if _, isConst := v.(*ssa.Const); isConst {
			continue
		}
		n++
		key := fmt.Sprintf("%s return #%d", name, n)
		pos := p.Pos(ret.Pos())
		res := cx.leadWalk(fn, v)
		resolved := len(res.Barriers) > 0 && len(res.Params) == 0 && len(res.Sources) == 0 && !res.Top
		// R2: resolved, and a validator call on (at least) these resolver results guards the return
		guarded := false
		if resolved {
			for _, vc := range vcalls {
				if len(vc.arg.Params) > 0 || len(vc.arg.Sources) > 0 || len(vc.arg.Barriers) == 0 {
					continue
				}
				if c26SubsetOf(res.Barriers, vc.arg.Barriers) && kit.ErrNilOn(kit.GuardsOf(ret), vc.c) {
					guarded = true
				}
			}
		}
		switch {
		case !resolved:
			// which rule: a returned value that is the request path itself (never resolved) is R1
			// when some validator call did judge a resolved value, else R2
			anyResolvedCheck := false
			for _, vc := range vcalls {
				if len(vc.arg.Barriers) > 0 && len(vc.arg.Params) == 0 {
					anyResolvedCheck = true
				}
			}
			if anyResolvedCheck {
				r.Violation("C26.R1", key, pos, "the sanitiser validates a resolved path but returns a different, unresolved value: callers operate on a path whose symbolic links were never judged")
				r.OK("C26.R2", key, pos, "a resolved value is validated (the returned value is judged by R1)")
			} else {
				r.Violation("C26.R2", key, pos, "the returned path does not come from symlink resolution (filepath.EvalSymlinks): a link below an allowed directory leads every operation on it outside the allowed paths")
				if len(normalisers) > 0 {
					q := &kit.PathFlow{Prog: p, Within: fn, Barrier: isNormaliserResult, Source: cx.isTaintLoad}
					if in := q.Walk(v); len(in.Params) > 0 || len(in.Sources) > 0 {
						r.Violation("C26.R1", key, pos, "the returned path is derived from the request path without the normalisation the validator applies before matching: what was judged (the normalised form) is not what callers operate on")
					}
				}
			}
			valid = false
			continue
		case !guarded:
			r.Violation("C26.R2", key, pos, "no successful validator call on the resolved value guards this return: the real location is never compared with the allowed paths")
			valid = false
			continue
		}
		r.OK("C26.R2", key, pos, "returned path derives from %d resolver result(s), all validated before the return", len(res.Barriers))
		// R1: the resolver inputs went through the validator's own normaliser
		r1 := true
		if len(normalisers) > 0 {
			for _, b := range res.Barriers {
				c := c26ResultCall(b)
				for _, a := range c.Call.Args {
					if b, isStr := a.Type().Underlying().(*types.Basic); !isStr || b.Info()&types.IsString == 0 {
						continue
					}
					q := &kit.PathFlow{Prog: p, Within: fn, Barrier: isNormaliserResult, Source: cx.isTaintLoad}
					in := q.Walk(a)
					if len(in.Params) > 0 || len(in.Sources) > 0 {
						r1 = false
					}
				}
			}
		}
		r.Decide(r1, "C26.R1", key, pos,
			"the returned path is the validated one and its resolution started from the normalised request path",
			"the resolution starts from the request path without the normalisation the validator applies before matching: the string that is judged and the string that is used differ for non-normalised input")
		valid = valid && r1
	}
	if n == 0 {
		return false
	}
	return valid
}
