package rules

import (
	"fmt"
	"go/constant"
	"go/token"
	"go/types"
	"sort"
	"strings"

	"golang.org/x/tools/go/ssa"

	"mmverify/kit"
)

func init() {
	const st = "internal/filetransfer/stream.go"
	const br = "internal/filetransfer/browse.go"
	const ag = "internal/agent/agent.go"
	register(&Check{
		ID: "C26", Level: "other",
		Patterns:  []string{"./internal/filetransfer", "./internal/agent"},
		Technique: "validated-value taint: backward path-flow from every file-system sink to the remote request fields, with the resolve-then-validate helper as the only barrier",
		Explain: "Decides that every os.*/filepath.Walk path argument in the repository that is built from TransferMetadata.Path or BrowseRequest.Path is the value returned by a sanitiser (a function that calls the allow-list validator), that each sanitiser returns only values that derive from symlink resolution (filepath.EvalSymlinks) and that were passed, in normalised-then-resolved form, to the validator whose success guards the return, and that the validator returns nil only on a branch taken because an element of AllowedPaths matched. " +
			"Not decided: the resolver's algorithm itself, glob semantics of the matcher, check-to-use races, metadata of link targets shown by lstat/readlink-based listings, real paths that are not NFC-stable.",
		Run: runC26,
		SelfTests: []SelfTest{
			{Name: "chmod operates on the cleaned request path", ExpectRule: "C26.R4", ExpectKey: "browseChmod", Edits: []Edit{
				{File: br, Old: "if err := os.Chmod(realPath, mode); err != nil {", New: "if err := os.Chmod(filepath.Clean(req.Path), mode); err != nil {"},
			}},
			{Name: "new browse action reads the requested file without the validator", ExpectRule: "C26.R4", ExpectKey: "os.ReadFile", Edits: []Edit{
				{File: br, Old: "\tcase \"roots\":\n\t\treturn h.browseRoots()\n", New: "\tcase \"roots\":\n\t\treturn h.browseRoots()\n\tcase \"cat\":\n\t\tb, _ := os.ReadFile(req.Path)\n\t\treturn &BrowseResponse{Error: string(b)}\n"},
			}},
			{Name: "upload written to the unresolved metadata path", ExpectRule: "C26.R4", ExpectKey: "WriteUploadedFile", Edits: []Edit{
				{File: ag, Old: "destPath, err := a.fileStreamHandler.ResolvePath(fts.Meta.Path)", New: "_, err = a.fileStreamHandler.ResolvePath(fts.Meta.Path)"},
				{File: ag, Old: "\t\tdestPath,\n\t\ttmpFile,", New: "\t\tfts.Meta.Path,\n\t\ttmpFile,"},
			}},
			{Name: "download stat on the unresolved metadata path", ExpectRule: "C26.R4", ExpectKey: "sendFileDownload", Edits: []Edit{
				{File: ag, Old: "info, statErr := os.Stat(srcPath)", New: "info, statErr := os.Stat(fts.Meta.Path)"},
			}},
			{Name: "download validation stats the unresolved path", ExpectRule: "C26.R4", ExpectKey: "ValidateDownloadMetadata", Edits: []Edit{
				{File: st, Old: "realPath, err := h.ResolvePath(meta.Path)", New: "_, err := h.ResolvePath(meta.Path)"},
				{File: st, Old: "info, err := os.Stat(realPath)", New: "info, err := os.Stat(meta.Path)"},
			}},
			{Name: "sanitiser returns the unresolved path", ExpectRule: "C26.R1", Edits: []Edit{
				{File: st, Old: "\treturn realPath, nil\n}\n\n// resolvePath returns", New: "\treturn filepath.Clean(path), nil\n}\n\n// resolvePath returns"},
			}},
			{Name: "resolver fed with the cleaned, not the normalised path", ExpectRule: "C26.R1", Edits: []Edit{
				{File: st, Old: "realPath, err = resolvePath(normalizePath(path))", New: "realPath, err = resolvePath(filepath.Clean(path))"},
			}},
			{Name: "only the lexical path is validated", ExpectRule: "C26.R2", Edits: []Edit{
				{File: st, Old: "if err := h.validatePath(realPath); err != nil {", New: "if err := h.validatePath(path); err != nil {"},
			}},
			{Name: "resolution result validated but error of validation ignored", ExpectRule: "C26.R2", Edits: []Edit{
				{File: st, Old: "\tif err := h.validatePath(realPath); err != nil {\n\t\treturn \"\", fmt.Errorf(\"symlink target not allowed: %w\", err)\n\t}\n", New: "\t_ = h.validatePath(realPath)\n"},
			}},
			{Name: "resolver gives up and returns its input", ExpectRule: "C26.R2", Edits: []Edit{
				{File: st, Old: "\t\tif !os.IsNotExist(err) {\n\t\t\treturn \"\", err\n\t\t}\n", New: "\t\tif !os.IsNotExist(err) {\n\t\t\treturn path, nil\n\t\t}\n"},
			}},
			{Name: "empty allow-list allows everything", ExpectRule: "C26.R3", Edits: []Edit{
				{File: st, Old: "\t\treturn fmt.Errorf(\"no paths are allowed (allowed_paths is empty)\")\n\t}\n\n\t// Check allowed paths", New: "\t\treturn nil\n\t}\n\n\t// Check allowed paths"},
			}},
			{Name: "fall-through of the pattern loop allows", ExpectRule: "C26.R3", Edits: []Edit{
				{File: st, Old: "\treturn fmt.Errorf(\"path not in allowed list: %s\", path)\n", New: "\treturn nil\n"},
			}},
			{Name: "matcher compares the pattern with itself", ExpectRule: "C26.R3", Edits: []Edit{
				{File: st, Old: "\t\tif isPathAllowed(normalizedPath, pattern) {", New: "\t\tif isPathAllowed(pattern, pattern) {"},
			}},
			{Name: "chmod resolves only the directory part", ExpectRule: "C26.R5", ExpectKey: "browseChmod", Edits: []Edit{
				{File: br, Old: "\trealPath, errResp := h.requirePath(req.Path, true)\n\tif errResp != nil {\n\t\treturn errResp\n\t}\n\n\tmode, err := parseOctalMode", New: "\trealPath, errResp := h.requirePath(req.Path, false)\n\tif errResp != nil {\n\t\treturn errResp\n\t}\n\n\tmode, err := parseOctalMode"},
			}},
			{Name: "transfers resolve only the directory part", ExpectRule: "C26.R5", ExpectKey: "os.OpenFile", Edits: []Edit{
				{File: st, Old: "\treturn h.resolveAllowedPath(path, true)\n", New: "\treturn h.resolveAllowedPath(path, false)\n"},
			}},
			{Name: "delete lists the directory through the unresolved last component", ExpectRule: "C26.R5", ExpectKey: "browseDelete", Edits: []Edit{
				{File: br, Old: "\t\tdirPath, err := h.ResolvePath(realPath)\n", New: "\t\t_, err := h.ResolvePath(realPath)\n"},
				{File: br, Old: "dirEntries, err := os.ReadDir(dirPath)", New: "dirEntries, err := os.ReadDir(realPath)"},
			}},
			{Name: "link target metadata read without the validator", ExpectRule: "C26.R5", ExpectKey: "resolveSymlink", Edits: []Edit{
				{File: br, Old: "\tinfo, err := os.Stat(realTarget)\n", New: "\t_ = realTarget\n\tinfo, err := os.Stat(path)\n"},
			}},
			{Name: "rewrite: allow loop extracted into a bool helper", Edits: []Edit{
				{File: st, Old: "\tfor _, pattern := range h.cfg.AllowedPaths {\n\t\t// Wildcard allows all absolute paths\n\t\tif pattern == \"*\" {\n\t\t\treturn nil\n\t\t}\n\t\tif isPathAllowed(normalizedPath, pattern) {\n\t\t\treturn nil\n\t\t}\n\t\t// Real paths are also matched against the pattern with its own directory\n\t\t// resolved: an allowed root may itself be reached through a link (/tmp on macOS)\n\t\tif isPathAllowed(normalizedPath, realPattern(pattern)) {\n\t\t\treturn nil\n\t\t}\n\t}\n\n\treturn fmt.Errorf(\"path not in allowed list: %s\", path)\n}\n",
					New: "\tif h.matchesAllowed(normalizedPath) {\n\t\treturn nil\n\t}\n\n\treturn fmt.Errorf(\"path not in allowed list: %s\", path)\n}\n\nfunc (h *StreamHandler) matchesAllowed(p string) bool {\n\tfor _, pattern := range h.cfg.AllowedPaths {\n\t\tif pattern == \"*\" || isPathAllowed(p, pattern) || isPathAllowed(p, realPattern(pattern)) {\n\t\t\treturn true\n\t\t}\n\t}\n\treturn false\n}\n"},
			}},
			{Name: "bool helper that allows by default", ExpectRule: "C26.R3", Edits: []Edit{
				{File: st, Old: "\tfor _, pattern := range h.cfg.AllowedPaths {\n\t\t// Wildcard allows all absolute paths\n\t\tif pattern == \"*\" {\n\t\t\treturn nil\n\t\t}\n\t\tif isPathAllowed(normalizedPath, pattern) {\n\t\t\treturn nil\n\t\t}\n\t\t// Real paths are also matched against the pattern with its own directory\n\t\t// resolved: an allowed root may itself be reached through a link (/tmp on macOS)\n\t\tif isPathAllowed(normalizedPath, realPattern(pattern)) {\n\t\t\treturn nil\n\t\t}\n\t}\n\n\treturn fmt.Errorf(\"path not in allowed list: %s\", path)\n}\n",
					New: "\tif h.matchesAllowed(normalizedPath) {\n\t\treturn nil\n\t}\n\n\treturn fmt.Errorf(\"path not in allowed list: %s\", path)\n}\n\nfunc (h *StreamHandler) matchesAllowed(p string) bool {\n\tfor _, pattern := range h.cfg.AllowedPaths {\n\t\tif pattern != \"*\" && !isPathAllowed(p, pattern) {\n\t\t\treturn false\n\t\t}\n\t}\n\treturn true\n}\n"},
			}},
			{Name: "upload written although the destination was refused", ExpectRule: "C26.R6", ExpectKey: "completeFileUpload", Edits: []Edit{
				{File: ag, Old: "\t\ta.logger.Error(\"file upload destination not allowed\",\n\t\t\tlogging.KeyStreamID, fts.StreamID,\n\t\t\tlogging.KeyError, err)\n\t\ta.WriteStreamOpenErr(fts.PeerID, fts.StreamID, fts.RequestID, protocol.ErrNotAllowed, err.Error())\n\t\treturn\n", New: "\t\ta.logger.Error(\"file upload destination not allowed\",\n\t\t\tlogging.KeyStreamID, fts.StreamID,\n\t\t\tlogging.KeyError, err)\n"},
			}},
			{Name: "chmod performed before the validation result is looked at", ExpectRule: "C26.R6", ExpectKey: "browseChmod", Edits: []Edit{
				{File: br, Old: "\trealPath, errResp := h.requirePath(req.Path, true)\n\tif errResp != nil {\n\t\treturn errResp\n\t}\n\n\tmode, err := parseOctalMode(req.Mode)\n\tif err != nil {\n\t\treturn &BrowseResponse{Error: err.Error()}\n\t}\n\n\tif err := os.Chmod(realPath, mode); err != nil {\n\t\treturn &BrowseResponse{Error: fmt.Sprintf(\"chmod failed: %v\", err)}\n\t}\n",
					New: "\trealPath, errResp := h.requirePath(req.Path, true)\n\n\tmode, err := parseOctalMode(req.Mode)\n\tif err != nil {\n\t\treturn &BrowseResponse{Error: err.Error()}\n\t}\n\n\tif err := os.Chmod(realPath, mode); err != nil {\n\t\treturn &BrowseResponse{Error: fmt.Sprintf(\"chmod failed: %v\", err)}\n\t}\n\tif errResp != nil {\n\t\treturn errResp\n\t}\n"},
			}},
			{Name: "rewrite: wildcard looked up with slices.Contains", Edits: []Edit{
				{File: st, Old: "\t\"path/filepath\"\n\t\"strings\"\n", New: "\t\"path/filepath\"\n\t\"slices\"\n\t\"strings\"\n"},
				{File: st, Old: "\t// Check allowed paths with prefix matching and glob support\n", New: "\tif slices.Contains(h.cfg.AllowedPaths, \"*\") {\n\t\treturn nil\n\t}\n"},
			}},
			{Name: "rewrite: empty-list test dropped (loop does not run)", Edits: []Edit{
				{File: st, Old: "\tif len(h.cfg.AllowedPaths) == 0 {\n\t\treturn fmt.Errorf(\"no paths are allowed (allowed_paths is empty)\")\n\t}\n", New: ""},
			}},
			{Name: "rewrite: both matcher calls in one condition", Edits: []Edit{
				{File: st, Old: "\t\tif isPathAllowed(normalizedPath, pattern) {\n\t\t\treturn nil\n\t\t}\n", New: ""},
				{File: st, Old: "\t\tif isPathAllowed(normalizedPath, realPattern(pattern)) {", New: "\t\tif isPathAllowed(normalizedPath, pattern) || isPathAllowed(normalizedPath, realPattern(pattern)) {"},
			}},
			{Name: "rewrite: agent keeps the resolved path in a local and cleans it", Edits: []Edit{
				{File: ag, Old: "\t\tdestPath,\n\t\ttmpFile,", New: "\t\tfilepath.Clean(destPath),\n\t\ttmpFile,"},
			}},
			{Name: "rewrite: browse list calls the sanitiser directly", Edits: []Edit{
				{File: br, Old: "\trealPath, errResp := h.requirePath(req.Path, true)\n\tif errResp != nil {\n\t\treturn errResp\n\t}\n\tcleanPath := filepath.Clean(req.Path) // echoed back as requested\n", New: "\trealPath, rerr := h.ResolvePath(req.Path)\n\tif rerr != nil {\n\t\treturn &BrowseResponse{Error: rerr.Error()}\n\t}\n\tcleanPath := filepath.Clean(req.Path)\n"},
			}},
			{Name: "rewrite: sanitiser branches replaced by a switch with early returns", Edits: []Edit{
				{File: st, Old: "\tif followFinal {\n\t\trealPath, err = resolvePath(normalizePath(path))\n\t} else {\n\t\trealPath, err = resolveParent(normalizePath(path))\n\t}\n", New: "\tnormalized := normalizePath(path)\n\tswitch {\n\tcase followFinal:\n\t\trealPath, err = resolvePath(normalized)\n\tdefault:\n\t\trealPath, err = resolveParent(normalized)\n\t}\n"},
			}},
		},
	})
}

// c26Sinks: package-level functions whose listed arguments name a file-system object that
// is opened, listed, created, changed or removed (following links in every directory
// component, most of them also in the last one). os.Lstat, os.Readlink and
// filepath.EvalSymlinks are deliberately absent: they inspect a name and are what a
// resolver is made of.
var c26Sinks = map[string][]int{
	"os.Open": {0}, "os.OpenFile": {0}, "os.Create": {0}, "os.Stat": {0}, "os.ReadDir": {0},
	"os.ReadFile": {0}, "os.WriteFile": {0}, "os.Chmod": {0}, "os.Chown": {0}, "os.Lchown": {0},
	"os.Chtimes": {0}, "os.Remove": {0}, "os.RemoveAll": {0}, "os.Mkdir": {0}, "os.MkdirAll": {0},
	"os.Rename": {0, 1}, "os.Symlink": {1}, "os.Link": {0, 1}, "os.Truncate": {0}, "os.Chdir": {0},
	"os.DirFS": {0}, "os.CopyFS": {0}, "os.MkdirTemp": {0}, "os.CreateTemp": {0}, "os.OpenRoot": {0},
	"path/filepath.Walk": {0}, "path/filepath.WalkDir": {0}, "path/filepath.Glob": {0},
	"io/ioutil.ReadFile": {0}, "io/ioutil.WriteFile": {0}, "io/ioutil.ReadDir": {0},
}

// c26FollowField: string fields of the file-transfer and agent packages are followed to
// their stores (a path parked in a stream/transfer record); configuration and other
// packages' fields are leaves.
func c26FollowField(f *types.Var) bool {
	if f.Pkg() == nil {
		return false
	}
	b, ok := f.Type().Underlying().(*types.Basic)
	if !ok || b.Info()&types.IsString == 0 {
		return false
	}
	switch f.Pkg().Path() {
	case kit.PkgPath("internal/filetransfer"), kit.PkgPath("internal/agent"):
		return true
	}
	return false
}

// c26SinkSite is one sink call with the path arguments to judge.
type c26SinkSite struct {
	fn   *ssa.Function
	call ssa.CallInstruction
	name string // "os.Remove" or "os.Remove|os.RemoveAll" for a call through a function value
	args []int
	ord  int
}

// c26FindSinks enumerates the calls of repository code to functions of the table.
func c26FindSinks(p *kit.Program, table map[string][]int) []c26SinkSite {
	var out []c26SinkSite
	for _, fn := range p.RepoFuncs() {
		ord := map[string]int{}
		for _, c := range kit.Calls(fn) {
			targets, ok := kit.CallTargets(c)
			if !ok {
				continue
			}
			var names []string
			argset := map[int]bool{}
			for _, t := range targets {
				if t.Pkg == nil {
					continue
				}
				n := t.Pkg.Pkg.Path() + "." + t.Name()
				if idx, is := table[n]; is && t.Signature.Recv() == nil {
					names = append(names, n)
					for _, i := range idx {
						argset[i] = true
					}
				}
			}
			if len(names) == 0 {
				continue
			}
			sort.Strings(names)
			var args []int
			for i := range argset {
				args = append(args, i)
			}
			sort.Ints(args)
			name := strings.Join(names, "|")
			ord[name]++
			out = append(out, c26SinkSite{fn: fn, call: c, name: name, args: args, ord: ord[name]})
		}
	}
	return out
}

func (s c26SinkSite) key(arg int) string {
	k := fmt.Sprintf("%s %s #%d", kit.FuncName(s.fn), s.name, s.ord)
	if len(s.args) > 1 {
		k += fmt.Sprintf(" arg%d", arg)
	}
	return k
}

// c26Ctx holds the role-resolved anchors and memoised classifications.
type c26Ctx struct {
	p          *kit.Program
	taint      map[*types.Var]bool
	allowed    *types.Var      // StreamConfig.AllowedPaths
	validators []*ssa.Function // functions (string) error that read AllowedPaths
	resolverFn map[*ssa.Function]int
	sanOK      map[*ssa.Function]bool // sanitiser candidates -> valid
	allowPred  map[*ssa.Function]int
	parentOnly map[*ssa.Function]int
}

func newC26Ctx(p *kit.Program) *c26Ctx {
	return &c26Ctx{p: p, taint: map[*types.Var]bool{}, resolverFn: map[*ssa.Function]int{}, sanOK: map[*ssa.Function]bool{},
		allowPred: map[*ssa.Function]int{}, parentOnly: map[*ssa.Function]int{}}
}

func (cx *c26Ctx) isValidator(fn *ssa.Function) bool {
	for _, v := range cx.validators {
		if v == fn {
			return true
		}
	}
	return false
}

// c26IsEvalSymlinks: the call is filepath.EvalSymlinks.
func c26IsEvalSymlinks(c ssa.CallInstruction) bool {
	cal := kit.CalleeOf(c)
	return cal.Pkg == "path/filepath" && cal.Recv == "" && cal.Name == "EvalSymlinks"
}

// c26ResultCall: v is result 0 of a call (the call itself or Extract #0); returns the call.
func c26ResultCall(v ssa.Value) *ssa.Call {
	c, idx, ok := kit.ResultOf(v)
	if !ok || idx != 0 {
		return nil
	}
	return c
}

// isResolverResult: v is the path returned by filepath.EvalSymlinks or by a repository
// function all of whose returned paths derive, in their leading component, from such a value.
func (cx *c26Ctx) isResolverResult(v ssa.Value) bool {
	c := c26ResultCall(v)
	if c == nil {
		return false
	}
	if c26IsEvalSymlinks(c) {
		return true
	}
	cal := kit.CalleeOf(c)
	return cal.Static != nil && cx.isResolverFn(cal.Static)
}

func c26FirstResultIsString(fn *ssa.Function) bool {
	res := fn.Signature.Results()
	if res.Len() == 0 {
		return false
	}
	b, ok := res.At(0).Type().Underlying().(*types.Basic)
	return ok && b.Info()&types.IsString != 0
}

// isResolverFn: every non-constant path fn returns derives (leading component) from
// resolver results only; fn's own parameters never reach a returned path unresolved.
func (cx *c26Ctx) isResolverFn(fn *ssa.Function) bool {
	switch cx.resolverFn[fn] {
	case 1:
		return true
	case 2, 3:
		return false
	}
	cx.resolverFn[fn] = 3
	ok := fn.Blocks != nil && kit.IsRepoPkg(kit.FuncPkgPath(fn)) && c26FirstResultIsString(fn)
	some := false
	if ok {
		for _, r := range kit.Returns(fn) {
			v := kit.ReturnResult(r, 0)
			if _, isConst := v.(*ssa.Const); isConst {
				continue
			}
			res := cx.leadWalk(fn, v)
			if len(res.Barriers) == 0 || len(res.Params) > 0 || len(res.Sources) > 0 || res.Top {
				ok = false
				break
			}
			some = true
		}
	}
	if ok && some {
		cx.resolverFn[fn] = 1
		return true
	}
	cx.resolverFn[fn] = 2
	return false
}

// leadWalk: where does the leading component of v come from, inside fn, stopping at resolver results.
func (cx *c26Ctx) leadWalk(fn *ssa.Function, v ssa.Value) *kit.PathFlowResult {
	q := &kit.PathFlow{Prog: cx.p, LeadOnly: true, Within: fn,
		Source:  func(x ssa.Value) bool { return cx.isTaintLoad(x) },
		Barrier: cx.isResolverResult}
	return q.Walk(v)
}

func (cx *c26Ctx) isTaintLoad(v ssa.Value) bool {
	f, _ := kit.LoadedField(v)
	return f != nil && cx.taint[f]
}

func c26SubsetOf(a, b []ssa.Value) bool {
	in := map[ssa.Value]bool{}
	for _, x := range b {
		in[x] = true
	}
	for _, x := range a {
		if !in[x] {
			return false
		}
	}
	return true
}

// validatorNormalisers: the repository functions the validator applies to its parameter
// before matching it (the judged string is their output, not the parameter).
func (cx *c26Ctx) validatorNormalisers(v *ssa.Function, subject ssa.Value) map[*ssa.Function]bool {
	out := map[*ssa.Function]bool{}
	q := &kit.PathFlow{Prog: cx.p, Within: v}
	res := q.Walk(subject)
	for x := range res.Visited {
		if c, ok := x.(*ssa.Call); ok {
			if cal := kit.CalleeOf(c); cal.Static != nil && kit.IsRepoPkg(cal.Pkg) {
				out[cal.Static] = true
			}
		}
	}
	return out
}

func runC26(p *kit.Program, r *kit.Report) {
	r.Rule("C26.R1", "validate what you use: a sanitiser returns only paths it passed to the validator, and the resolution that produced them started from the request path in the normalised form the validator judges")
	r.Rule("C26.R2", "validate after resolution: every non-constant path a sanitiser returns derives from symlink resolution (filepath.EvalSymlinks) only, and the validator call on that resolved value succeeded on the way to the return")
	r.Rule("C26.R3", "deny by default: the allow-list validator returns nil only on a branch taken because an element of AllowedPaths equals the wildcard or matched the validator's subject")
	r.Rule("C26.R6", "the path returned by a sanitiser (or by a function that only passes sanitiser results on) is used only where the accompanying error/response was found nil, or is returned together with it: a failed sanitiser yields the empty path, which filepath.Clean turns into the working directory")
	r.Rule("C26.R5", "a sink that follows a symbolic link in the last path component (stat, open, readdir, chmod, mkdirall, ...) receives a fully resolved path; a sanitised path whose last component was deliberately kept reaches only operations on the link itself (remove, rename, lstat) or has that component stripped (filepath.Dir) first")
	r.Rule("C26.R4", "every file-system sink whose path derives from TransferMetadata.Path or BrowseRequest.Path receives the value returned by a valid sanitiser")

	cx := newC26Ctx(p)
	for _, fq := range [][2]string{{"TransferMetadata", "Path"}, {"BrowseRequest", "Path"}} {
		f := p.Field("internal/filetransfer", fq[0], fq[1])
		if r.Require(f != nil, "anchor-unresolved: field internal/filetransfer.%s.%s", fq[0], fq[1]) {
			cx.taint[f] = true
		}
	}
	cx.allowed = p.Field("internal/filetransfer", "StreamConfig", "AllowedPaths")
	if !r.Require(cx.allowed != nil, "anchor-unresolved: field internal/filetransfer.StreamConfig.AllowedPaths") || len(r.Floors) > 0 {
		return
	}

	// ---- validators: (string) error functions that read AllowedPaths
	for _, acc := range p.FieldAccessesOfKind(cx.allowed, kit.FieldLoad) {
		fn := kit.TopLevel(acc.Fn)
		sig := fn.Signature
		if sig.Results().Len() != 1 || !kit.IsErrorType(sig.Results().At(0).Type()) || sig.Params().Len() != 1 {
			continue
		}
		if b, ok := sig.Params().At(0).Type().Underlying().(*types.Basic); !ok || b.Info()&types.IsString == 0 {
			continue
		}
		if !cx.isValidator(fn) {
			cx.validators = append(cx.validators, fn)
		}
	}
	// ... or that delegate the loop to an allow predicate (a bool helper reading AllowedPaths)
	for _, acc := range p.FieldAccessesOfKind(cx.allowed, kit.FieldLoad) {
		g := kit.TopLevel(acc.Fn)
		if !cx.isAllowPredicate(g) {
			continue
		}
		for _, site := range p.StaticCallers(g) {
			fn := kit.TopLevel(site.Parent())
			sig := fn.Signature
			if sig.Results().Len() != 1 || !kit.IsErrorType(sig.Results().At(0).Type()) || sig.Params().Len() != 1 || !c26IsStringType(sig.Params().At(0).Type()) {
				continue
			}
			if !cx.isValidator(fn) {
				cx.validators = append(cx.validators, fn)
			}
		}
	}
	if !r.Require(len(cx.validators) > 0, "anchor-unresolved: no func(string) error reads StreamConfig.AllowedPaths (the allow-list validator)") {
		return
	}
	r.Count("validators", len(cx.validators))

	// ---- R3 on each validator; collect the normalisers it applies
	normalisers := map[*ssa.Function]bool{}
	for _, v := range cx.validators {
		cx.checkDenyByDefault(r, v, normalisers)
	}

	// ---- sanitiser candidates: functions returning a string that call a validator directly
	var cands []*ssa.Function
	for _, v := range cx.validators {
		for _, site := range p.StaticCallers(v) {
			fn := site.Parent()
			if fn.Parent() != nil || cx.isValidator(fn) || !c26FirstResultIsString(fn) {
				continue
			}
			dup := false
			for _, c := range cands {
				dup = dup || c == fn
			}
			if !dup {
				cands = append(cands, fn)
			}
		}
	}
	sort.Slice(cands, func(i, j int) bool { return cands[i].Pos() < cands[j].Pos() })
	r.Count("sanitiser_candidates", len(cands))
	for _, fn := range cands {
		cx.sanOK[fn] = cx.checkSanitiser(r, fn, normalisers)
	}

	// ---- R6: results of sanitisers (and of functions that only hand sanitiser results on)
	// are used only where the failure indicator is known to be nil
	cx.checkResultUses(r)

	// ---- R4: sinks
	isBarrier := func(v ssa.Value) bool {
		c := c26ResultCall(v)
		if c == nil {
			return false
		}
		cal := kit.CalleeOf(c)
		return cal.Static != nil && cx.sanOK[cal.Static]
	}
	sinks := c26FindSinks(p, c26Sinks)
	r.Count("fs_sink_calls_in_repo", len(sinks))
	nTainted, nSan, nCut, nFollow := 0, 0, 0, 0
	for _, s := range sinks {
		for _, ai := range s.args {
			args := s.call.Common().Args
			if ai >= len(args) {
				continue
			}
			var partial []ssa.Value // sanitiser results whose last component was left unresolved
			q := &kit.PathFlow{Prog: p, FollowBodies: true, FollowParams: true, FollowField: c26FollowField,
				Source: cx.isTaintLoad, Barrier: isBarrier, Mark: c26StripsLast,
				OnBarrier: func(v ssa.Value, stripped bool, argOf func(*ssa.Parameter) ssa.Value) {
					evalArg := func(a ssa.Value) (bool, bool) { return c26EvalBool(a, nil, argOf, 0) }
					if !stripped && cx.barrierParentOnly(v, evalArg) {
						partial = append(partial, v)
					}
				}}
			res := q.Walk(args[ai])
			nCut += res.Cut
			pos := p.Pos(s.call.Pos())
			switch {
			case len(res.Sources) > 0:
				nTainted++
				src := res.Sources[0]
				f, _ := kit.LoadedField(src)
				r.Violation("C26.R4", s.key(ai), pos,
					"the path handed to %s is built from the request field %s (loaded at %s) without passing through a valid sanitiser: the operation follows symbolic links below an allowed directory and acts outside the allowed paths",
					s.name, f.Name(), p.Pos(src.Pos()))
			case res.Top:
				r.Undecided("C26.R4", s.key(ai), pos, "path-flow walk exceeded its bounds")
			case len(res.Barriers) > 0:
				nSan++
				r.OK("C26.R4", s.key(ai), pos, "path comes from %d sanitiser result(s) only", len(res.Barriers))
				if c26FollowsLast(s.name) {
					nFollow++
					r.Decide(len(partial) == 0, "C26.R5", s.key(ai), pos,
						"the operation follows a link in the last component and receives a fully resolved path",
						fmt.Sprintf("%s follows a symbolic link in the last path component, but the sanitised path it receives (from %s) had only its directory part resolved: a link as the last component leads the operation outside the allowed paths", s.name, c26Where(p, partial)))
				}
			}
		}
	}
	r.Count("sinks_fed_by_sanitiser", nSan)
	r.Count("link_following_sinks_fed_by_sanitiser", nFollow)
	r.Count("caller_chains_cut_at_depth_limit", nCut)
	r.Count("sinks_fed_by_unsanitised_request_path", nTainted)
	r.Require(nSan+nTainted >= 3, "floor: fewer than 3 file-system sinks are reachable from the request path fields (%d): the path-flow walk lost its subject", nSan+nTainted)
}

// c26NoFollowLast: sinks that act on the last path component itself.
var c26NoFollowLast = map[string]bool{
	"os.Remove": true, "os.RemoveAll": true, "os.Rename": true, "os.Symlink": true, "os.Link": true,
	"os.Lchown": true, "os.Mkdir": true, "path/filepath.Walk": true, "path/filepath.WalkDir": true,
}

// c26FollowsLast: some possible target of the sink call follows a link in the last component.
func c26FollowsLast(name string) bool {
	for _, n := range strings.Split(name, "|") {
		if !c26NoFollowLast[n] {
			return true
		}
	}
	return false
}

func c26Where(p *kit.Program, vs []ssa.Value) string {
	var out []string
	for _, v := range vs {
		out = append(out, p.Pos(v.Pos()))
	}
	return strings.Join(out, ", ")
}

// c26StripsLast: filepath.Dir(x) and the directory half of filepath.Split(x) no longer
// contain x's last component.
func c26StripsLast(c *ssa.Call, idx int) bool {
	cal := kit.CalleeOf(c)
	if cal.Pkg != "path/filepath" || cal.Recv != "" {
		return false
	}
	return cal.Name == "Dir" || (cal.Name == "Split" && idx == 0)
}

// isParentOnlyCall: the resolver call c (inside fn) resolves only the directory part of
// fn's input: every chain from its path argument back to a parameter passes filepath.Dir
// (or Split #0), or its callee is itself such a resolver.
func (cx *c26Ctx) isParentOnlyCall(fn *ssa.Function, c *ssa.Call) bool {
	cal := kit.CalleeOf(c)
	if cal.Static != nil && cx.isParentOnlyResolver(cal.Static) {
		return true
	}
	stripped := func(v ssa.Value) bool {
		k, idx, ok := kit.ResultOf(v)
		return ok && c26StripsLast(k, idx)
	}
	any := false
	for _, a := range c.Call.Args {
		if !c26IsStringType(a.Type()) {
			continue
		}
		res := (&kit.PathFlow{Prog: cx.p, Within: fn, Barrier: stripped}).Walk(a)
		if len(res.Params) > 0 || len(res.Barriers) == 0 {
			return false
		}
		any = true
	}
	return any
}

// isParentOnlyResolver: a resolver function all of whose returned paths come from
// parent-only resolver calls (the last component of its input is re-attached unresolved).
func (cx *c26Ctx) isParentOnlyResolver(fn *ssa.Function) bool {
	switch cx.parentOnly[fn] {
	case 1:
		return true
	case 2, 3:
		return false
	}
	cx.parentOnly[fn] = 3
	ok := cx.isResolverFn(fn)
	some := false
	if ok {
		for _, ret := range kit.Returns(fn) {
			v := kit.ReturnResult(ret, 0)
			if _, isConst := v.(*ssa.Const); isConst {
				continue
			}
			for _, b := range cx.leadWalk(fn, v).Barriers {
				some = true
				if c := c26ResultCall(b); c == nil || !cx.isParentOnlyCall(fn, c) {
					ok = false
				}
			}
		}
	}
	if ok && some {
		cx.parentOnly[fn] = 1
		return true
	}
	cx.parentOnly[fn] = 2
	return false
}

// c26FieldKey identifies "field f of the struct base points to" in a bool evaluation environment.
type c26FieldKey struct {
	base ssa.Value
	f    *types.Var
}

// c26Env maps struct fields to integer constants known to hold at a program point.
type c26Env map[c26FieldKey]int64

// c26EnvAt collects, from the branch conditions that necessarily hold at instruction at,
// the equalities "x.f == constant".
func c26EnvAt(at ssa.Instruction) c26Env {
	env := c26Env{}
	for _, g := range kit.GuardsOf(at) {
		b, ok := g.Cond.(*ssa.BinOp)
		if !ok || !((b.Op == token.EQL && g.Polarity) || (b.Op == token.NEQ && !g.Polarity)) {
			continue
		}
		for _, pair := range [][2]ssa.Value{{b.X, b.Y}, {b.Y, b.X}} {
			k, isConst := kit.ConstInt(pair[1])
			if !isConst {
				continue
			}
			if u, isLoad := pair[0].(*ssa.UnOp); isLoad && u.Op == token.MUL {
				if fa, isFA := u.X.(*ssa.FieldAddr); isFA {
					env[c26FieldKey{fa.X, kit.FieldOfAddr(fa)}] = k
				}
			}
		}
	}
	return env
}

// c26EvalBool evaluates a bool SSA value under env and param (a resolver of parameters to
// call-site arguments); known=false when the value is not determined.
func c26EvalBool(v ssa.Value, env c26Env, param func(*ssa.Parameter) ssa.Value, depth int) (val, known bool) {
	if depth > 12 {
		return false, false
	}
	if b, ok := kit.ConstBool(v); ok {
		return b, true
	}
	switch x := v.(type) {
	case *ssa.UnOp:
		if x.Op == token.NOT {
			b, ok := c26EvalBool(x.X, env, param, depth+1)
			return !b, ok
		}
	case *ssa.Parameter:
		if param != nil {
			if a := param(x); a != nil && a != ssa.Value(x) {
				return c26EvalBool(a, env, nil, depth+1)
			}
		}
	case *ssa.BinOp:
		if x.Op != token.EQL && x.Op != token.NEQ {
			break
		}
		for _, pair := range [][2]ssa.Value{{x.X, x.Y}, {x.Y, x.X}} {
			k, isConst := kit.ConstInt(pair[1])
			if !isConst {
				continue
			}
			if u, isLoad := pair[0].(*ssa.UnOp); isLoad && u.Op == token.MUL {
				if fa, isFA := u.X.(*ssa.FieldAddr); isFA {
					if have, ok := env[c26FieldKey{fa.X, kit.FieldOfAddr(fa)}]; ok {
						return (have == k) == (x.Op == token.EQL), true
					}
				}
			}
		}
	case *ssa.Phi:
		n := 0
		var res bool
		for i, e := range x.Edges {
			if !c26EdgeFeasible(x.Block().Preds[i], x.Block(), func(c ssa.Value) (bool, bool) { return c26EvalBool(c, env, param, depth+1) }) {
				continue
			}
			b, ok := c26EvalBool(e, env, param, depth+1)
			if !ok {
				return false, false
			}
			if n > 0 && b != res {
				return false, false
			}
			res = b
			n++
		}
		return res, n > 0
	}
	return false, false
}

// c26EdgeFeasible: the CFG edge pred->succ is not excluded by the conditions that eval can decide.
func c26EdgeFeasible(pred, succ *ssa.BasicBlock, eval func(ssa.Value) (bool, bool)) bool {
	gs := kit.Guards(pred)
	if n := len(pred.Instrs); n > 0 {
		if ifi, isIf := pred.Instrs[n-1].(*ssa.If); isIf && pred.Succs[0] != pred.Succs[1] {
			gs = append(gs, kit.Guard{Cond: ifi.Cond, Polarity: pred.Succs[0] == succ, If: ifi})
		}
	}
	for _, gd := range gs {
		if val, known := eval(gd.Cond); known && val != gd.Polarity {
			return false
		}
	}
	return true
}

// barrierParentOnly: the sanitiser call whose result is v returns, for the arguments
// supplied on this chain (constants, or values evalArg can decide), only paths from
// parent-only resolver calls.
func (cx *c26Ctx) barrierParentOnly(v ssa.Value, evalArg func(a ssa.Value) (bool, bool)) bool {
	call := c26ResultCall(v)
	if call == nil {
		return false
	}
	g := kit.CalleeOf(call).Static
	if g == nil {
		return false
	}
	// conditions inside g: decided through g's bool parameters
	evalIn := func(c ssa.Value) (bool, bool) {
		return c26EvalBool(c, nil, func(prm *ssa.Parameter) ssa.Value {
			for i, q := range g.Params {
				if q == prm && i < len(call.Call.Args) {
					if b, known := evalArg(call.Call.Args[i]); known {
						return ssa.Value(c26BoolConst(b))
					}
				}
			}
			return nil
		}, 0)
	}
	n, all := 0, true
	seen := map[ssa.Value]bool{}
	var expand func(x ssa.Value)
	expand = func(x ssa.Value) {
		if seen[x] {
			return
		}
		seen[x] = true
		if phi, isPhi := x.(*ssa.Phi); isPhi {
			for i, e := range phi.Edges {
				if c26EdgeFeasible(phi.Block().Preds[i], phi.Block(), evalIn) {
					expand(e)
				}
			}
			return
		}
		for _, b := range cx.leadWalk(g, x).Barriers {
			n++
			if c := c26ResultCall(b); c == nil || !cx.isParentOnlyCall(g, c) {
				all = false
			}
		}
	}
	for _, ret := range kit.Returns(g) {
		x := kit.ReturnResult(ret, 0)
		if _, isConst := x.(*ssa.Const); isConst {
			continue
		}
		expand(x)
	}
	return n > 0 && all
}

// c26BoolConst returns an SSA constant for b (used to feed decided arguments back into c26EvalBool).
func c26BoolConst(b bool) *ssa.Const {
	return ssa.NewConst(constant.MakeBool(b), types.Typ[types.Bool])
}

// sanitiserFamily: the valid sanitisers plus, transitively, the functions with a path result
// and a failure indicator whose every non-constant returned path consists of results of
// family members only (ResolvePath, requirePath style wrappers).
func (cx *c26Ctx) sanitiserFamily() map[*ssa.Function]bool {
	fam := map[*ssa.Function]bool{}
	var work []*ssa.Function
	for fn, ok := range cx.sanOK {
		if ok {
			fam[fn] = true
			work = append(work, fn)
		}
	}
	sort.Slice(work, func(i, j int) bool { return work[i].Pos() < work[j].Pos() })
	isFam := func(v ssa.Value) bool {
		c := c26ResultCall(v)
		if c == nil {
			return false
		}
		cal := kit.CalleeOf(c)
		return cal.Static != nil && fam[cal.Static]
	}
	for len(work) > 0 {
		g := work[0]
		work = work[1:]
		for _, site := range cx.p.StaticCallers(g) {
			f := site.Parent()
			if fam[f] || f.Parent() != nil || !c26FirstResultIsString(f) || f.Signature.Results().Len() < 2 {
				continue
			}
			ok, some := true, false
			for _, ret := range kit.Returns(f) {
				v := kit.ReturnResult(ret, 0)
				if _, isConst := v.(*ssa.Const); isConst {
					continue
				}
				res := (&kit.PathFlow{Prog: cx.p, Within: f, Barrier: isFam, Source: cx.isTaintLoad}).Walk(v)
				if len(res.Barriers) == 0 || len(res.Params) > 0 || len(res.Sources) > 0 || res.Top {
					ok = false
				}
				some = true
			}
			if ok && some {
				fam[f] = true
				work = append(work, f)
			}
		}
	}
	return fam
}

// checkResultUses decides R6 at every call site of a sanitiser-family function.
func (cx *c26Ctx) checkResultUses(r *kit.Report) {
	p := cx.p
	fam := cx.sanitiserFamily()
	var fns []*ssa.Function
	for f := range fam {
		fns = append(fns, f)
	}
	sort.Slice(fns, func(i, j int) bool { return fns[i].Pos() < fns[j].Pos() })
	r.Count("sanitiser_family_functions", len(fns))
	nSites := 0
	for _, g := range fns {
		ord := map[*ssa.Function]int{}
		for _, site := range p.StaticCallers(g) {
			call, isCall := site.(*ssa.Call)
			caller := site.Parent()
			ord[caller]++
			key := fmt.Sprintf("%s result of %s #%d", kit.FuncName(caller), g.Name(), ord[caller])
			pos := p.Pos(site.Pos())
			if !isCall {
				continue // go/defer: results are discarded
			}
			nSites++
			nres := g.Signature.Results().Len()
			v0 := kit.ExtractOf(call, 0)
			if v0 == nil || v0.Referrers() == nil {
				r.OK("C26.R6", key, pos, "the returned path is not used")
				continue
			}
			fail := kit.ExtractOf(call, nres-1)
			bad := ""
			for _, u := range *v0.Referrers() {
				if _, isDbg := u.(*ssa.DebugRef); isDbg {
					continue
				}
				if ret, isRet := u.(*ssa.Return); isRet && fail != nil {
					together := false
					for _, rv := range ret.Results {
						together = together || rv == fail
					}
					if together {
						continue // handed on together with the failure indicator
					}
				}
				if fail != nil && kit.ErrNilOn(kit.GuardsOf(u), fail) {
					continue
				}
				bad = p.Pos(u.Pos())
				if bad == "-" {
					bad = pos
				}
			}
			r.Decide(bad == "", "C26.R6", key, pos,
				"every use of the returned path is behind the nil check of the accompanying error/response",
				"the returned path is used at "+bad+" where the sanitiser's failure indicator is not known to be nil: on failure the path is empty, filepath.Clean makes it \".\" and the file operation (for a directory upload: the whole extraction) acts on the agent's working directory")
		}
	}
	r.Count("sanitiser_family_call_sites", nSites)
}

// allowElemDep: the value depends on an element of the AllowedPaths slice.
func (cx *c26Ctx) allowElemDep(fn *ssa.Function, v ssa.Value) bool {
	q := &kit.PathFlow{Prog: cx.p, Within: fn, Source: func(x ssa.Value) bool {
		f, _ := kit.LoadedField(x)
		return f == cx.allowed
	}}
	return len(q.Walk(v).Sources) > 0
}

func (cx *c26Ctx) paramDep(fn *ssa.Function, v ssa.Value) bool {
	q := &kit.PathFlow{Prog: cx.p, Within: fn}
	return len(q.Walk(v).Params) > 0
}

type c26Edge struct{ from, to *ssa.BasicBlock }

func c26IsStringType(t types.Type) bool {
	b, ok := t.Underlying().(*types.Basic)
	return ok && b.Info()&types.IsString != 0
}

// classifyCond decides whether a branch condition in fn is an "allow hit": the wildcard
// comparison of an AllowedPaths element, a matcher call relating a parameter-derived subject
// to an AllowedPaths element, or a call to an allow predicate (a bool helper that itself
// returns true only over such hits). onTrue: the hit is the condition's true outcome.
func (cx *c26Ctx) classifyCond(fn *ssa.Function, cond ssa.Value) (isHit, onTrue bool, subj ssa.Value) {
	neg := false
	for {
		u, isNot := cond.(*ssa.UnOp)
		if !isNot || u.Op != token.NOT {
			break
		}
		neg = !neg
		cond = u.X
	}
	switch c := cond.(type) {
	case *ssa.BinOp:
		if c.Op != token.EQL && c.Op != token.NEQ {
			break
		}
		var other ssa.Value
		if _, ok := kit.ConstString(c.Y); ok {
			other = c.X
		} else if _, ok := kit.ConstString(c.X); ok {
			other = c.Y
		}
		if other != nil && cx.allowElemDep(fn, other) {
			isHit, onTrue = true, c.Op == token.EQL
		}
	case *ssa.Call:
		cal := kit.CalleeOf(c)
		if cal.Static == nil {
			break
		}
		if b, ok := c.Type().Underlying().(*types.Basic); !ok || b.Kind() != types.Bool {
			break
		}
		var pat, sub ssa.Value
		wildcard := false
		for _, a := range c.Call.Args {
			if _, isConst := kit.ConstString(a); isConst {
				wildcard = true
				continue
			}
			if cx.allowElemDep(fn, a) {
				pat = a // an element, or the AllowedPaths slice itself (slices.Contains)
			} else if c26IsStringType(a.Type()) && cx.paramDep(fn, a) {
				sub = a
			}
		}
		switch {
		case pat != nil && sub != nil:
			isHit, onTrue, subj = true, true, sub
		case pat != nil && wildcard && sub == nil:
			isHit, onTrue = true, true // slices.Contains(allowed, "*"), strings.EqualFold(pattern, "*")
		case sub != nil && pat == nil && cx.isAllowPredicate(cal.Static):
			isHit, onTrue, subj = true, true, sub
		}
	}
	if neg {
		onTrue = !onTrue
	}
	return
}

// hitEdges: the CFG edges of fn taken because an allow hit occurred, and the subjects matched.
func (cx *c26Ctx) hitEdges(fn *ssa.Function) (map[c26Edge]bool, []ssa.Value) {
	hit := map[c26Edge]bool{}
	var subjects []ssa.Value
	for _, b := range fn.Blocks {
		if len(b.Instrs) == 0 {
			continue
		}
		ifi, ok := b.Instrs[len(b.Instrs)-1].(*ssa.If)
		if !ok {
			continue
		}
		isHit, onTrue, subj := cx.classifyCond(fn, ifi.Cond)
		if !isHit {
			continue
		}
		if subj != nil {
			subjects = append(subjects, subj)
		}
		if onTrue {
			hit[c26Edge{b, b.Succs[0]}] = true
		} else {
			hit[c26Edge{b, b.Succs[1]}] = true
		}
	}
	return hit, subjects
}

// c26ViaHit: block b is entered only over hit edges (on every CFG path from the entry the
// last step into b, or into a chain of blocks leading only to b, is a hit edge).
func c26ViaHit(b *ssa.BasicBlock, hit map[c26Edge]bool, seen map[*ssa.BasicBlock]bool) bool {
	if seen[b] {
		return true
	}
	seen[b] = true
	if len(b.Preds) == 0 {
		return false
	}
	for _, pr := range b.Preds {
		if hit[c26Edge{pr, b}] {
			continue
		}
		if !c26ViaHit(pr, hit, seen) {
			return false
		}
	}
	return true
}

// isAllowPredicate: a repository function returning bool that reads AllowedPaths and
// returns true only over allow hits (constant true reached over hit edges, or the value of
// a matcher call itself).
func (cx *c26Ctx) isAllowPredicate(g *ssa.Function) bool {
	switch cx.allowPred[g] {
	case 1:
		return true
	case 2, 3:
		return false
	}
	cx.allowPred[g] = 3
	ok := g.Blocks != nil && kit.IsRepoPkg(kit.FuncPkgPath(g)) && g.Signature.Results().Len() == 1
	if ok {
		b, isB := g.Signature.Results().At(0).Type().Underlying().(*types.Basic)
		ok = isB && b.Kind() == types.Bool
	}
	readsAllow := false
	if ok {
		kit.Instrs(g, func(in ssa.Instruction) {
			if v, isV := in.(ssa.Value); isV {
				if f, _ := kit.LoadedField(v); f == cx.allowed {
					readsAllow = true
				}
			}
		})
		ok = readsAllow
	}
	if ok {
		hit, _ := cx.hitEdges(g)
		for _, ret := range kit.Returns(g) {
			if ret.Block() == g.Recover {
				continue
			}
			v := kit.ReturnResult(ret, 0)
			if bv, isConst := kit.ConstBool(v); isConst {
				if bv && !c26ViaHit(ret.Block(), hit, map[*ssa.BasicBlock]bool{}) {
					ok = false
				}
				continue
			}
			allTrueHits := true
			for _, leaf := range kit.PhiLeaves(v) {
				if bv, isConst := kit.ConstBool(leaf); isConst {
					if bv {
						allTrueHits = false // a constant true merged in: cannot tell which edge
					}
					continue
				}
				if isHit, onTrue, _ := cx.classifyCond(g, leaf); !isHit || !onTrue {
					allTrueHits = false
				}
			}
			if !allTrueHits {
				ok = false
			}
		}
	}
	if ok {
		cx.allowPred[g] = 1
	} else {
		cx.allowPred[g] = 2
	}
	return ok
}

// checkDenyByDefault decides R3 for one validator and records the normalisers it applies
// to its subject.
func (cx *c26Ctx) checkDenyByDefault(r *kit.Report, v *ssa.Function, normalisers map[*ssa.Function]bool) {
	p := cx.p
	name := kit.FuncName(v)
	hit, subjects := cx.hitEdges(v)
	for _, subj := range subjects {
		for n := range cx.validatorNormalisers(v, subj) {
			normalisers[n] = true
		}
	}
	nNil := 0
	for _, ret := range kit.Returns(v) {
		if ret.Block() == v.Recover || !kit.ReturnsNilError(ret) {
			continue
		}
		nNil++
		ok := c26ViaHit(ret.Block(), hit, map[*ssa.BasicBlock]bool{})
		r.Decide(ok, "C26.R3", fmt.Sprintf("%s nil return #%d", name, nNil), p.Pos(ret.Pos()),
			"reached only over a branch taken because an AllowedPaths element matched",
			"the validator can return nil without any AllowedPaths element having matched: a path outside every allowed pattern (or any path when the list is empty) is accepted")
	}
	if nNil == 0 {
		r.OK("C26.R3", name+" never allows", p.Pos(v.Pos()), "the validator has no nil return")
	}
	r.Decide(len(subjects) > 0 || nNil == 0, "C26.R3", name+" matcher subject", p.Pos(v.Pos()),
		"a matcher call relates the validator's parameter to an AllowedPaths element",
		"no matcher call in the validator takes both a value derived from its parameter and an AllowedPaths element: the requested path is not what is compared with the allow-list")
}

// checkSanitiser decides R1/R2 for one candidate (a function returning a path that calls a
// validator directly) and reports whether its result may serve as a barrier.
func (cx *c26Ctx) checkSanitiser(r *kit.Report, fn *ssa.Function, normalisers map[*ssa.Function]bool) bool {
	p := cx.p
	name := kit.FuncName(fn)
	// validator calls in fn
	type vcall struct {
		c   *ssa.Call
		arg *kit.PathFlowResult
	}
	var vcalls []vcall
	for _, c := range kit.Calls(fn) {
		cc, ok := c.(*ssa.Call)
		if !ok {
			continue
		}
		if cal := kit.CalleeOf(c); cal.Static != nil && cx.isValidator(cal.Static) {
			vcalls = append(vcalls, vcall{cc, cx.leadWalk(fn, kit.Arg(c, 0))})
		}
	}
	isNormaliserResult := func(v ssa.Value) bool {
		c := c26ResultCall(v)
		if c == nil {
			return false
		}
		cal := kit.CalleeOf(c)
		return cal.Static != nil && normalisers[cal.Static]
	}
	valid := true
	n := 0
	for _, ret := range kit.Returns(fn) {
		if ret.Block() == fn.Recover {
			continue
		}
		v := kit.ReturnResult(ret, 0)
		if _, isConst := v.(*ssa.Const); isConst {
			continue
		}
		n++
		key := fmt.Sprintf("%s return #%d", name, n)
		pos := p.Pos(ret.Pos())
		res := cx.leadWalk(fn, v)
		resolved := len(res.Barriers) > 0 && len(res.Params) == 0 && len(res.Sources) == 0 && !res.Top
		// R2: resolved, and a validator call on (at least) these resolver results guards the return
		guarded := false
		if resolved {
			for _, vc := range vcalls {
				if len(vc.arg.Params) > 0 || len(vc.arg.Sources) > 0 || len(vc.arg.Barriers) == 0 {
					continue
				}
				if c26SubsetOf(res.Barriers, vc.arg.Barriers) && kit.ErrNilOn(kit.GuardsOf(ret), vc.c) {
					guarded = true
				}
			}
		}
		switch {
		case !resolved:
			// which rule: a returned value that is the request path itself (never resolved) is R1
			// when some validator call did judge a resolved value, else R2
			anyResolvedCheck := false
			for _, vc := range vcalls {
				if len(vc.arg.Barriers) > 0 && len(vc.arg.Params) == 0 {
					anyResolvedCheck = true
				}
			}
			if anyResolvedCheck {
				r.Violation("C26.R1", key, pos, "the sanitiser validates a resolved path but returns a different, unresolved value: callers operate on a path whose symbolic links were never judged")
				r.OK("C26.R2", key, pos, "a resolved value is validated (the returned value is judged by R1)")
			} else {
				r.Violation("C26.R2", key, pos, "the returned path does not come from symlink resolution (filepath.EvalSymlinks): a link below an allowed directory leads every operation on it outside the allowed paths")
				if len(normalisers) > 0 {
					q := &kit.PathFlow{Prog: p, Within: fn, Barrier: isNormaliserResult, Source: cx.isTaintLoad}
					if in := q.Walk(v); len(in.Params) > 0 || len(in.Sources) > 0 {
						r.Violation("C26.R1", key, pos, "the returned path is derived from the request path without the normalisation the validator applies before matching: what was judged (the normalised form) is not what callers operate on")
					}
				}
			}
			valid = false
			continue
		case !guarded:
			r.Violation("C26.R2", key, pos, "no successful validator call on the resolved value guards this return: the real location is never compared with the allowed paths")
			valid = false
			continue
		}
		r.OK("C26.R2", key, pos, "returned path derives from %d resolver result(s), all validated before the return", len(res.Barriers))
		// R1: the resolver inputs went through the validator's own normaliser
		r1 := true
		if len(normalisers) > 0 {
			for _, b := range res.Barriers {
				c := c26ResultCall(b)
				for _, a := range c.Call.Args {
					if b, isStr := a.Type().Underlying().(*types.Basic); !isStr || b.Info()&types.IsString == 0 {
						continue
					}
					q := &kit.PathFlow{Prog: p, Within: fn, Barrier: isNormaliserResult, Source: cx.isTaintLoad}
					in := q.Walk(a)
					if len(in.Params) > 0 || len(in.Sources) > 0 {
						r1 = false
					}
				}
			}
		}
		r.Decide(r1, "C26.R1", key, pos,
			"the returned path is the validated one and its resolution started from the normalised request path",
			"the resolution starts from the request path without the normalisation the validator applies before matching: the string that is judged and the string that is used differ for non-normalised input")
		valid = valid && r1
	}
	if n == 0 {
		return false
	}
	return valid
}
