package rules

import (
	"fmt"
	"go/constant"
	"go/token"
	"go/types"
	"math"

	"golang.org/x/tools/go/ssa"

	"mmverify/kit"
)

func init() {
	const f = "internal/peer/reconnect.go"
	const mf = "internal/peer/manager.go"
	register(&Check{
		ID: "C31", Level: "other", Patterns: []string{"./internal/peer"},
		Technique: "dominating guards + mutex regions + value provenance / interval arithmetic over go/ssa",
		Explain: "Decides, for peer.Reconnector, that every invocation of the dial callback and every arming of a retry timer is gated by a test of the paused flag taken in the mutex region that immediately precedes it (also after the lock was dropped for the dial), that paused is only written as a constant under the mutex by methods that neither dial nor arm, that a timer reference is only dropped after Stop, that every stored nextDelay is InitialDelay, MaxDelay or a product of the previous delay and cfg.Multiplier that is clamped to MaxDelay on the greater-than edge, and that every armed delay is nextDelay passed through a jitter function whose offset is k*d*cfg.Jitter with |k|<=1 (interval arithmetic). " +
			"R5: a function that pauses reconnection (the sleep transition's disconnect) reaches the pause on every path to each return and does not resume afterwards; an absolute backoff (initial*multiplier^k) must be clamped before it is converted to an integer duration. Not decided: the floating-point statement for every k, attempts already dialing when Pause is called, timers owned by other components.",
		Run: runC31,
		SelfTests: []SelfTest{
			{Name: "paused test before the dial dropped", ExpectRule: "C31.R1", ExpectKey: "callback call", Edits: []Edit{
				{File: f, Old: "if !exists || r.closed || r.paused {", New: "if !exists || r.closed {"},
			}},
			{Name: "paused test before re-arming dropped", ExpectRule: "C31.R1", ExpectKey: "timer arm", Edits: []Edit{
				{File: f, Old: "\t\tif r.paused {\n\t\t\t// Paused while the attempt was in flight: do not re-arm.\n\t\t\t// State is preserved; Schedule() re-arms after Resume().\n\t\t\treturn\n\t\t}\n", New: ""},
			}},
			{Name: "paused test inverted in Schedule", ExpectRule: "C31.R1", ExpectKey: "Schedule", Edits: []Edit{
				{File: f, Old: "\tif r.closed || r.paused {\n\t\treturn\n\t}\n\n\tstate, exists := r.states[addr]", New: "\tif r.closed || !r.paused {\n\t\treturn\n\t}\n\n\tstate, exists := r.states[addr]"},
			}},
			{Name: "re-arm relies on the test taken before the lock was dropped", ExpectRule: "C31.R1", ExpectKey: "timer arm", Edits: []Edit{
				{File: f, Old: "\t\tif r.paused {\n\t\t\t// Paused while the attempt was in flight", New: "\t\tif !exists {\n\t\t\t// Paused while the attempt was in flight"},
			}},
			{Name: "Schedule clears the paused flag", ExpectRule: "C31.R2", Edits: []Edit{
				{File: f, Old: "\tif r.closed || r.paused {\n\t\treturn\n\t}\n\n\tstate, exists := r.states[addr]", New: "\tr.paused = false\n\tif r.closed || r.paused {\n\t\treturn\n\t}\n\n\tstate, exists := r.states[addr]"},
			}},
			{Name: "Pause drops timers without stopping them", ExpectRule: "C31.R2", ExpectKey: "timer cleared", Edits: []Edit{
				{File: f, Old: "\t\t\tstate.timer.Stop()\n\t\t\tstate.timer = nil\n", New: "\t\t\tstate.timer = nil\n"},
			}},
			{Name: "clamp to MaxDelay removed", ExpectRule: "C31.R3", Edits: []Edit{
				{File: f, Old: "\tif nextDelay > r.cfg.MaxDelay {\n\t\tnextDelay = r.cfg.MaxDelay\n\t}\n\tstate.nextDelay = nextDelay", New: "\tstate.nextDelay = nextDelay"},
			}},
			{Name: "clamp comparison reversed", ExpectRule: "C31.R3", Edits: []Edit{
				{File: f, Old: "\tif nextDelay > r.cfg.MaxDelay {\n\t\tnextDelay = r.cfg.MaxDelay\n\t}\n\tstate.nextDelay = nextDelay", New: "\tif nextDelay < r.cfg.MaxDelay {\n\t\tnextDelay = r.cfg.MaxDelay\n\t}\n\tstate.nextDelay = nextDelay"},
			}},
			{Name: "growth uses the jitter fraction instead of the multiplier", ExpectRule: "C31.R3", ExpectKey: "growth", Edits: []Edit{
				{File: f, Old: "nextDelay := time.Duration(float64(state.nextDelay) * r.cfg.Multiplier)", New: "nextDelay := time.Duration(float64(state.nextDelay) * (1 + r.cfg.Jitter))"},
			}},
			{Name: "re-arm with the initial delay (no backoff)", ExpectRule: "C31.R4", ExpectKey: "delay of", Edits: []Edit{
				{File: f, Old: "\t\t\tdelay := r.addJitter(state.nextDelay)\n\t\t\tstate.timer = time.AfterFunc(delay, func() {\n\t\t\t\tr.attemptReconnect(addr)\n\t\t\t})\n\t\t} else {", New: "\t\t\tdelay := r.addJitter(r.cfg.InitialDelay)\n\t\t\tstate.timer = time.AfterFunc(delay, func() {\n\t\t\t\tr.attemptReconnect(addr)\n\t\t\t})\n\t\t} else {"},
			}},
			{Name: "jitter offset one-sided and twice the configured range", ExpectRule: "C31.R4", ExpectKey: "jitter", Edits: []Edit{
				{File: f, Old: "/1000.0 - 0.5) * 2 * jitterRange", New: "/1000.0) * 2 * jitterRange"},
			}},
			{Name: "jitter offset ignores cfg.Jitter", ExpectRule: "C31.R4", ExpectKey: "jitter", Edits: []Edit{
				{File: f, Old: "jitterRange := float64(d) * r.cfg.Jitter", New: "jitterRange := float64(d) * 0.9"},
			}},
			// round 2: seeded classes and neighbours
			{Name: "fast path returns before the reconnector is paused", ExpectRule: "C31.R5", ExpectKey: "DisconnectAll", Edits: []Edit{
				{File: mf, Old: "\t// Stop reconnector temporarily to prevent immediate reconnection\n\tm.reconnector.Pause()\n", New: "\tif len(conns) == 0 {\n\t\treturn nil\n\t}\n\n\t// Stop reconnector temporarily to prevent immediate reconnection\n\tm.reconnector.Pause()\n"},
			}},
			{Name: "reconnector paused only when connections were open", ExpectRule: "C31.R5", ExpectKey: "DisconnectAll", Edits: []Edit{
				{File: mf, Old: "\t// Stop reconnector temporarily to prevent immediate reconnection\n\tm.reconnector.Pause()\n", New: "\tif len(conns) > 0 {\n\t\tm.reconnector.Pause()\n\t}\n"},
			}},
			{Name: "reconnector resumed at the end of the function that paused it", ExpectRule: "C31.R5", ExpectKey: "stays paused", Edits: []Edit{
				{File: mf, Old: "\tm.logger.Info(\"disconnected all peers\", \"count\", len(conns))\n", New: "\tm.reconnector.Resume()\n\tm.logger.Info(\"disconnected all peers\", \"count\", len(conns))\n"},
			}},
			{Name: "delay derived from the attempt count, clamped after the conversion to Duration", ExpectRule: "C31.R3", ExpectKey: "growth", Edits: []Edit{
				{File: f, Old: "\tnextDelay := time.Duration(float64(state.nextDelay) * r.cfg.Multiplier)\n\tif nextDelay > r.cfg.MaxDelay {\n\t\tnextDelay = r.cfg.MaxDelay\n\t}\n\tstate.nextDelay = nextDelay\n", New: "\tstate.nextDelay = r.backoffDelay(state.attempts)\n"},
				{File: f, Old: "// addJitter adds random jitter to a duration.", New: "func (r *Reconnector) backoffDelay(attempts int) time.Duration {\n\tdelay := time.Duration(float64(r.cfg.InitialDelay) * math.Pow(r.cfg.Multiplier, float64(attempts)))\n\tif delay > r.cfg.MaxDelay {\n\t\tdelay = r.cfg.MaxDelay\n\t}\n\treturn delay\n}\n\n// addJitter adds random jitter to a duration."},
			}},
			{Name: "attempt-count form clamped with min after the conversion", ExpectRule: "C31.R3", ExpectKey: "growth", Edits: []Edit{
				{File: f, Old: "\tnextDelay := time.Duration(float64(state.nextDelay) * r.cfg.Multiplier)\n\tif nextDelay > r.cfg.MaxDelay {\n\t\tnextDelay = r.cfg.MaxDelay\n\t}\n\tstate.nextDelay = nextDelay\n", New: "\tstate.nextDelay = min(time.Duration(float64(r.cfg.InitialDelay)*math.Pow(r.cfg.Multiplier, float64(state.attempts))), r.cfg.MaxDelay)\n"},
			}},
			{Name: "backoff reset to the initial delay on every failed attempt", ExpectRule: "C31.R3", ExpectKey: "reset", Edits: []Edit{
				{File: f, Old: "\t\t\tdelay := r.addJitter(state.nextDelay)\n\t\t\tstate.timer = time.AfterFunc(delay, func() {\n\t\t\t\tr.attemptReconnect(addr)", New: "\t\t\tstate.nextDelay = r.cfg.InitialDelay\n\t\t\tdelay := r.addJitter(state.nextDelay)\n\t\t\tstate.timer = time.AfterFunc(delay, func() {\n\t\t\t\tr.attemptReconnect(addr)"},
			}},
			{Name: "Schedule replaces the recorded timer without stopping it", ExpectRule: "C31.R2", ExpectKey: "Schedule timer replaced", Edits: []Edit{
				{File: f, Old: "\t// Cancel any existing timer\n\tif state.timer != nil {\n\t\tstate.timer.Stop()\n\t}\n", New: ""},
			}},
			{Name: "re-arm after the dial does not stop a timer recorded meanwhile", ExpectRule: "C31.R2", ExpectKey: "attemptReconnect timer replaced", Edits: []Edit{
				{File: f, Old: "\t\t\tif state.timer != nil {\n\t\t\t\tstate.timer.Stop()\n\t\t\t}\n\t\t\tdelay := r.addJitter(state.nextDelay)", New: "\t\t\tdelay := r.addJitter(state.nextDelay)"},
			}},
			{Name: "recorded timer stopped before the dial only", ExpectRule: "C31.R2", ExpectKey: "attemptReconnect timer replaced", Edits: []Edit{
				{File: f, Old: "\tstate.attempts++\n", New: "\tstate.attempts++\n\tif state.timer != nil {\n\t\tstate.timer.Stop()\n\t}\n"},
				{File: f, Old: "\t\t\tif state.timer != nil {\n\t\t\t\tstate.timer.Stop()\n\t\t\t}\n\t\t\tdelay := r.addJitter(state.nextDelay)", New: "\t\t\tdelay := r.addJitter(state.nextDelay)"},
			}},
			{Name: "rewrite: attempt-count form clamped in the floating domain", Edits: []Edit{
				{File: f, Old: "\tnextDelay := time.Duration(float64(state.nextDelay) * r.cfg.Multiplier)\n\tif nextDelay > r.cfg.MaxDelay {\n\t\tnextDelay = r.cfg.MaxDelay\n\t}\n\tstate.nextDelay = nextDelay\n", New: "\tstate.nextDelay = r.backoffDelay(state.attempts)\n"},
				{File: f, Old: "// addJitter adds random jitter to a duration.", New: "func (r *Reconnector) backoffDelay(attempts int) time.Duration {\n\tdelay := float64(r.cfg.InitialDelay) * math.Pow(r.cfg.Multiplier, float64(attempts))\n\tif delay > float64(r.cfg.MaxDelay) {\n\t\tdelay = float64(r.cfg.MaxDelay)\n\t}\n\treturn time.Duration(delay)\n}\n\n// addJitter adds random jitter to a duration."},
			}},
			{Name: "rewrite: reconnector paused first, before the connections are collected", Edits: []Edit{
				{File: mf, Old: "\t// Stop reconnector temporarily to prevent immediate reconnection\n\tm.reconnector.Pause()\n", New: ""},
				{File: mf, Old: "func (m *Manager) DisconnectAll() error {\n\tm.mu.Lock()\n", New: "func (m *Manager) DisconnectAll() error {\n\tm.reconnector.Pause()\n\tm.mu.Lock()\n"},
			}},
			// round 3: refactoring classes
			{Name: "rewrite: timers stopped through a helper method of the state", Edits: []Edit{
				{File: f, Old: "\t// Cancel any existing timer\n\tif state.timer != nil {\n\t\tstate.timer.Stop()\n\t}\n", New: "\tstate.stopTimer()\n"},
				{File: f, Old: "\t\t\tif state.timer != nil {\n\t\t\t\tstate.timer.Stop()\n\t\t\t}\n\t\t\tdelay := r.addJitter(state.nextDelay)", New: "\t\t\tstate.stopTimer()\n\t\t\tdelay := r.addJitter(state.nextDelay)"},
				{File: f, Old: "// addJitter adds random jitter to a duration.", New: "func (s *reconnectState) stopTimer() {\n\tif s.timer == nil {\n\t\treturn\n\t}\n\ts.timer.Stop()\n}\n\n// addJitter adds random jitter to a duration."},
			}},
			{Name: "rewrite: Schedule stops the timer only of an existing state", Edits: []Edit{
				{File: f, Old: "\tif !exists {\n\t\tstate = &reconnectState{\n\t\t\tnextDelay: r.cfg.InitialDelay,\n\t\t}\n\t\tr.states[addr] = state\n\t}\n\n\t// Cancel any existing timer\n\tif state.timer != nil {\n\t\tstate.timer.Stop()\n\t}\n", New: "\tif exists {\n\t\tif state.timer != nil {\n\t\t\tstate.timer.Stop()\n\t\t}\n\t} else {\n\t\tstate = &reconnectState{\n\t\t\tnextDelay: r.cfg.InitialDelay,\n\t\t}\n\t\tr.states[addr] = state\n\t}\n"},
			}},
			{Name: "rewrite: closed-or-paused predicate in a helper", Edits: []Edit{
				{File: f, Old: "\tif r.closed || r.paused {\n\t\treturn\n\t}\n\n\tstate, exists := r.states[addr]", New: "\tif r.inactiveLocked() {\n\t\treturn\n\t}\n\n\tstate, exists := r.states[addr]"},
				{File: f, Old: "\tif !exists || r.closed || r.paused {\n", New: "\tif !exists || r.inactiveLocked() {\n"},
				{File: f, Old: "// addJitter adds random jitter to a duration.", New: "func (r *Reconnector) inactiveLocked() bool {\n\treturn r.closed || r.paused\n}\n\n// addJitter adds random jitter to a duration."},
			}},
			{Name: "rewrite: attempt split into beginAttempt (nil = do not start) and the rest", Edits: []Edit{
				{File: f, Old: "func (r *Reconnector) attemptReconnect(addr string) {\n\tr.mu.Lock()\n\tstate, exists := r.states[addr]\n", New: "func (r *Reconnector) beginAttempt(addr string) *reconnectState {\n\tr.mu.Lock()\n\tstate, exists := r.states[addr]\n"},
				{File: f, Old: "\t\t// while paused. State is preserved for Resume().\n\t\tr.mu.Unlock()\n\t\treturn\n\t}\n", New: "\t\tr.mu.Unlock()\n\t\treturn nil\n\t}\n"},
				{File: f, Old: "\tstate.nextDelay = nextDelay\n\tr.mu.Unlock()\n\n\t// Attempt reconnection\n\terr := r.callback(addr)\n", New: "\tstate.nextDelay = nextDelay\n\tr.mu.Unlock()\n\treturn state\n}\n\nfunc (r *Reconnector) attemptReconnect(addr string) {\n\tstate := r.beginAttempt(addr)\n\tif state == nil {\n\t\treturn\n\t}\n\n\terr := r.callback(addr)\n"},
			}},
			{Name: "beginAttempt form that forgets the paused flag", ExpectRule: "C31.R1", ExpectKey: "callback call", Edits: []Edit{
				{File: f, Old: "func (r *Reconnector) attemptReconnect(addr string) {\n\tr.mu.Lock()\n\tstate, exists := r.states[addr]\n\tif !exists || r.closed || r.paused {\n", New: "func (r *Reconnector) beginAttempt(addr string) *reconnectState {\n\tr.mu.Lock()\n\tstate, exists := r.states[addr]\n\tif !exists || r.closed {\n"},
				{File: f, Old: "\t\t// while paused. State is preserved for Resume().\n\t\tr.mu.Unlock()\n\t\treturn\n\t}\n", New: "\t\tr.mu.Unlock()\n\t\treturn nil\n\t}\n"},
				{File: f, Old: "\tstate.nextDelay = nextDelay\n\tr.mu.Unlock()\n\n\t// Attempt reconnection\n\terr := r.callback(addr)\n", New: "\tstate.nextDelay = nextDelay\n\tr.mu.Unlock()\n\treturn state\n}\n\nfunc (r *Reconnector) attemptReconnect(addr string) {\n\tstate := r.beginAttempt(addr)\n\tif state == nil {\n\t\treturn\n\t}\n\n\terr := r.callback(addr)\n"},
			}},
			{Name: "rewrite: timer created by a helper that takes the delay", Edits: []Edit{
				{File: f, Old: "\t\t\tdelay := r.addJitter(state.nextDelay)\n\t\t\tstate.timer = time.AfterFunc(delay, func() {\n\t\t\t\tr.attemptReconnect(addr)\n\t\t\t})\n", New: "\t\t\tstate.timer = r.wakeupAfter(addr, state.nextDelay)\n"},
				{File: f, Old: "// addJitter adds random jitter to a duration.", New: "func (r *Reconnector) wakeupAfter(addr string, d time.Duration) *time.Timer {\n\treturn time.AfterFunc(r.addJitter(d), func() {\n\t\tr.attemptReconnect(addr)\n\t})\n}\n\n// addJitter adds random jitter to a duration."},
			}},
			{Name: "stop helper that forgets to stop", ExpectRule: "C31.R2", ExpectKey: "timer replaced", Edits: []Edit{
				{File: f, Old: "\t// Cancel any existing timer\n\tif state.timer != nil {\n\t\tstate.timer.Stop()\n\t}\n", New: "\tstate.stopTimer()\n"},
				{File: f, Old: "// addJitter adds random jitter to a duration.", New: "func (s *reconnectState) stopTimer() {\n\tif s.timer == nil {\n\t\treturn\n\t}\n\ts.lastAttempt = time.Now()\n}\n\n// addJitter adds random jitter to a duration."},
			}},
			// behaviour-preserving rewrites
			{Name: "rewrite: paused tested through the locked accessor pattern (flag copied under the lock)", Edits: []Edit{
				{File: f, Old: "\tif err != nil {\n\t\tif r.paused {", New: "\tpausedNow := r.paused\n\tif err != nil {\n\t\tif pausedNow {"},
			}},
			{Name: "rewrite: entry checks bundled in a helper returning ok", Edits: []Edit{
				{File: f, Old: "\tstate, exists := r.states[addr]\n\tif !exists || r.closed || r.paused {\n", New: "\tstate, ok := r.beginAttemptLocked(addr)\n\tif !ok {\n"},
				{File: f, Old: "// addJitter adds random jitter to a duration.", New: "func (r *Reconnector) beginAttemptLocked(addr string) (*reconnectState, bool) {\n\tstate, exists := r.states[addr]\n\tif !exists || r.closed || r.paused {\n\t\treturn nil, false\n\t}\n\treturn state, true\n}\n\n// addJitter adds random jitter to a duration."},
			}},
			{Name: "helper returning ok forgets the paused flag", ExpectRule: "C31.R1", ExpectKey: "callback call", Edits: []Edit{
				{File: f, Old: "\tstate, exists := r.states[addr]\n\tif !exists || r.closed || r.paused {\n", New: "\tstate, ok := r.beginAttemptLocked(addr)\n\tif !ok {\n"},
				{File: f, Old: "// addJitter adds random jitter to a duration.", New: "func (r *Reconnector) beginAttemptLocked(addr string) (*reconnectState, bool) {\n\tstate, exists := r.states[addr]\n\tif !exists || r.closed {\n\t\treturn nil, false\n\t}\n\treturn state, true\n}\n\n// addJitter adds random jitter to a duration."},
			}},
			{Name: "rewrite: switch instead of if, operands reordered", Edits: []Edit{
				{File: f, Old: "\tif !exists || r.closed || r.paused {\n", New: "\tif r.paused || !exists || r.closed {\n"},
				{File: f, Old: "\tif r.closed || r.paused {\n\t\treturn\n\t}\n\n\tstate, exists := r.states[addr]", New: "\tswitch {\n\tcase r.paused == true, r.closed:\n\t\treturn\n\t}\n\n\tstate, exists := r.states[addr]"},
			}},
			{Name: "rewrite: clamp with min and swapped comparison", Edits: []Edit{
				{File: f, Old: "\tif nextDelay > r.cfg.MaxDelay {\n\t\tnextDelay = r.cfg.MaxDelay\n\t}\n\tstate.nextDelay = nextDelay", New: "\tstate.nextDelay = min(nextDelay, r.cfg.MaxDelay)"},
			}},
			{Name: "rewrite: clamp written as !(a <= b) with explicit unlocks", Edits: []Edit{
				{File: f, Old: "\tif nextDelay > r.cfg.MaxDelay {\n\t\tnextDelay = r.cfg.MaxDelay\n\t}\n\tstate.nextDelay = nextDelay", New: "\tif !(r.cfg.MaxDelay >= nextDelay) {\n\t\tnextDelay = r.cfg.MaxDelay\n\t}\n\tstate.nextDelay = nextDelay"},
			}},
			{Name: "rewrite: timer armed in an extracted helper", Edits: []Edit{
				{File: f, Old: "\t\t\tdelay := r.addJitter(state.nextDelay)\n\t\t\tstate.timer = time.AfterFunc(delay, func() {\n\t\t\t\tr.attemptReconnect(addr)\n\t\t\t})\n\t\t} else {", New: "\t\t\tr.armLocked(state, addr)\n\t\t} else {"},
				{File: f, Old: "// addJitter adds random jitter to a duration.", New: "func (r *Reconnector) armLocked(state *reconnectState, addr string) {\n\tstate.timer = time.AfterFunc(r.addJitter(state.nextDelay), func() {\n\t\tr.attemptReconnect(addr)\n\t})\n}\n\n// addJitter adds random jitter to a duration."},
			}},
			{Name: "rewrite: jitter factor regrouped", Edits: []Edit{
				{File: f, Old: "jitter := (float64(time.Now().UnixNano()%1000)/1000.0 - 0.5) * 2 * jitterRange", New: "frac := float64(time.Now().UnixNano()%1000) / 1000.0\n\tjitter := jitterRange * (2*frac - 1)"},
			}},
		},
	})
}

type c31ctx struct {
	p                               *kit.Program
	r                               *kit.Report
	mu, paused, cb                  *types.Var
	cfgInit, cfgMax, cfgMul, cfgJit *types.Var
	stNext, stTimer                 *types.Var
	funcs                           []*ssa.Function // Reconnector methods and their closures
	isFunc                          map[*ssa.Function]bool
	locks                           map[*ssa.Function]*kit.LockInfo
	narrow                          map[ssa.Value]bool // growth values that are compared with MaxDelay only after a float->integer conversion
}

type c31sink struct {
	in   ssa.CallInstruction
	fn   *ssa.Function
	kind string // "callback call" | "timer arm"
	key  string
}

func (cx *c31ctx) lockInfo(fn *ssa.Function) *kit.LockInfo {
	if li, ok := cx.locks[fn]; ok {
		return li
	}
	li := kit.Locks(fn)
	cx.locks[fn] = li
	return li
}

func c31IsTimerArm(c ssa.CallInstruction) bool {
	cal := kit.CalleeOf(c)
	if cal.Pkg != "time" {
		return false
	}
	return (cal.Recv == "" && (cal.Name == "AfterFunc" || cal.Name == "NewTimer")) || (cal.Recv == "Timer" && cal.Name == "Reset")
}

func runC31(p *kit.Program, r *kit.Report) {
	r.Rule("C31.R1", "every invocation of the Reconnector's dial callback and every arming of a retry timer is guarded by a test of `paused` (false edge) read under r.mu, with no re-acquisition of r.mu between the test and the guarded operation; a helper without its own test is gated at each of its call sites")
	r.Rule("C31.R2", "`paused` is written only as a constant, under r.mu, by functions that neither dial nor arm a timer; a timer reference is set to nil, or replaced by a new timer, only after Stop() on it in the same critical section")
	r.Rule("C31.R3", "every value stored into nextDelay is cfg.InitialDelay, cfg.MaxDelay, or a growth value that reaches the store only on an edge where it is not greater than cfg.MaxDelay (clamp); the growth value is previous-delay (or InitialDelay) times cfg.Multiplier (or Pow(cfg.Multiplier, k))")
	r.Rule("C31.R5", "a function (outside the Reconnector) that pauses reconnection reaches the pausing call on every condition-consistent path to each of its returns, and does not resume afterwards: no fast path or early return in front of the pause")
	r.Rule("C31.R4", "every armed delay is nextDelay, optionally passed through the jitter function; the jitter function returns d, or d + k*d*cfg.Jitter with |k| <= 1 by interval arithmetic")

	cx := &c31ctx{p: p, r: r, isFunc: map[*ssa.Function]bool{}, locks: map[*ssa.Function]*kit.LockInfo{}, narrow: map[ssa.Value]bool{}}
	rec := p.NamedType("internal/peer", "Reconnector")
	if !r.Require(rec != nil, "anchor-unresolved: type internal/peer.Reconnector") {
		return
	}
	cx.paused = p.Field("internal/peer", "Reconnector", "paused")
	var stateT *types.Named
	for _, f := range kit.StructFields(rec) {
		switch t := f.Type().(type) {
		case *types.Named:
			if t.Obj().Pkg() != nil && t.Obj().Pkg().Path() == "sync" && (t.Obj().Name() == "Mutex" || t.Obj().Name() == "RWMutex") {
				cx.mu = f
			}
		case *types.Signature:
			cx.cb = f
		case *types.Map:
			if pt, ok := t.Elem().(*types.Pointer); ok {
				if n, ok := pt.Elem().(*types.Named); ok {
					stateT = n
				}
			}
		}
	}
	cx.cfgInit = p.Field("internal/peer", "ReconnectConfig", "InitialDelay")
	cx.cfgMax = p.Field("internal/peer", "ReconnectConfig", "MaxDelay")
	cx.cfgMul = p.Field("internal/peer", "ReconnectConfig", "Multiplier")
	cx.cfgJit = p.Field("internal/peer", "ReconnectConfig", "Jitter")
	for _, f := range kit.StructFields(stateT) {
		if n, ok := f.Type().(*types.Named); ok && n.Obj().Pkg() != nil && n.Obj().Pkg().Path() == "time" && n.Obj().Name() == "Duration" {
			cx.stNext = f
		}
		if pt, ok := f.Type().(*types.Pointer); ok {
			if n, ok := pt.Elem().(*types.Named); ok && n.Obj().Pkg() != nil && n.Obj().Pkg().Path() == "time" && n.Obj().Name() == "Timer" {
				cx.stTimer = f
			}
		}
	}
	r.Require(cx.mu != nil, "anchor-unresolved: mutex field of peer.Reconnector")
	r.Require(cx.paused != nil, "anchor-unresolved: field peer.Reconnector.paused")
	r.Require(cx.cb != nil, "anchor-unresolved: func-typed (dial callback) field of peer.Reconnector")
	r.Require(cx.cfgInit != nil && cx.cfgMax != nil && cx.cfgMul != nil && cx.cfgJit != nil, "anchor-unresolved: fields InitialDelay/MaxDelay/Multiplier/Jitter of peer.ReconnectConfig")
	r.Require(cx.stNext != nil && cx.stTimer != nil, "anchor-unresolved: time.Duration / *time.Timer fields of the per-address reconnect state")
	if len(r.Floors) > 0 {
		return
	}
	for _, m := range p.Methods("internal/peer", "Reconnector") {
		for _, f := range kit.WithClosures(m) {
			cx.funcs = append(cx.funcs, f)
			cx.isFunc[f] = true
		}
	}
	r.Count("functions_analysed", len(cx.funcs))

	// ---- sinks
	var sinks []c31sink
	for _, fn := range cx.funcs {
		nCB, nArm := 0, 0
		for _, c := range kit.Calls(fn) {
			cc := c.Common()
			if !cc.IsInvoke() {
				if lf, _ := kit.LoadedField(cc.Value); lf == cx.cb {
					nCB++
					sinks = append(sinks, c31sink{c, fn, "callback call", fmt.Sprintf("%s callback call #%d", kit.FuncName(fn), nCB)})
					continue
				}
			}
			if c31IsTimerArm(c) {
				nArm++
				sinks = append(sinks, c31sink{c, fn, "timer arm", fmt.Sprintf("%s timer arm #%d", kit.FuncName(fn), nArm)})
			}
		}
	}
	nCB, nArm := 0, 0
	for _, s := range sinks {
		if s.kind == "callback call" {
			nCB++
		} else {
			nArm++
		}
	}
	r.Count("callback_call_sites", nCB)
	r.Count("timer_arm_sites", nArm)
	r.Require(nCB >= 1, "floor: no invocation of the Reconnector dial callback found")
	r.Require(nArm >= 1, "floor: no time.AfterFunc/NewTimer/Reset in the Reconnector found")

	// ---- R1
	for _, s := range sinks {
		ok, detail := cx.gated(s.in, s.fn, 0)
		bad := "not gated by a test of `paused` taken under r.mu in the region that immediately precedes it (" + detail + "): "
		if s.kind == "callback call" {
			bad += "a timer that fires as Pause() runs still dials while the agent sleeps"
		} else {
			bad += "an attempt that fails after Pause() re-arms its timer and the agent keeps dialing for the whole sleep period"
		}
		r.Decide(ok, "C31.R1", s.key, p.Pos(s.in.Pos()), detail, bad)
	}

	// ---- R2
	sinkIn := map[*ssa.Function]bool{} // top-level functions that contain a sink
	for _, s := range sinks {
		sinkIn[kit.TopLevel(s.fn)] = true
	}
	nTrue, nFalse := 0, 0
	pauseFns, resumeFns := map[*ssa.Function]bool{}, map[*ssa.Function]bool{}
	ord := map[string]int{}
	for _, acc := range p.FieldAccessesOfKind(cx.paused, kit.FieldStore, kit.FieldAddrUse) {
		fname := kit.FuncName(acc.Fn)
		ord[fname]++
		key := fmt.Sprintf("%s store paused #%d", fname, ord[fname])
		pos := p.Pos(acc.Instr.Pos())
		if acc.Kind == kit.FieldAddrUse {
			r.Violation("C31.R2", key, pos, "the address of `paused` escapes: the flag can be written outside Pause/Resume")
			continue
		}
		b, isConst := kit.ConstBool(acc.Val)
		if !isConst {
			r.Violation("C31.R2", key, pos, "`paused` is assigned a computed value: the pause gate no longer follows Pause/Resume")
			continue
		}
		if b {
			nTrue++
			pauseFns[kit.TopLevel(acc.Fn)] = true
		} else {
			nFalse++
			resumeFns[kit.TopLevel(acc.Fn)] = true
		}
		_, held := cx.lockInfo(acc.Fn).HeldAt(acc.Instr, cx.mu)
		switch {
		case !held:
			r.Violation("C31.R2", key, pos, "`paused` is written without holding r.mu: the gate in the attempt path can miss the pause")
		case sinkIn[kit.TopLevel(acc.Fn)]:
			r.Violation("C31.R2", key, pos, "a function that dials or arms a retry timer also writes `paused`: its own gate is defeated and a scheduling request during sleep un-pauses the reconnector")
		default:
			r.OK("C31.R2", key, pos, "constant %v stored under r.mu in a function that neither dials nor arms", b)
		}
	}
	r.Require(nTrue >= 1 && nFalse >= 1, "floor: expected at least one store of true and one of false to Reconnector.paused (found %d/%d)", nTrue, nFalse)

	// ---- R5: the functions that pause reconnection for the sleep transition pause on every path
	isCallTo := func(in ssa.Instruction, set map[*ssa.Function]bool) bool {
		c, ok := in.(ssa.CallInstruction)
		if !ok {
			return false
		}
		if _, isGo := in.(*ssa.Go); isGo {
			return false
		}
		cal := kit.CalleeOf(c)
		return cal.Static != nil && set[cal.Static]
	}
	pausers := map[*ssa.Function]bool{}
	for fn := range pauseFns {
		for _, c := range p.StaticCallers(fn) {
			if h := c.Parent(); !cx.isFunc[h] {
				pausers[h] = true
			}
		}
	}
	r.Count("functions_pausing_reconnection", len(pausers))
	for _, h := range p.FuncsInPkg("internal/peer") { // deterministic order
		if !pausers[h] {
			continue
		}
		hname := kit.FuncName(h)
		nRet := 0
		for _, ret := range kit.Returns(h) {
			if ret.Block() == h.Recover {
				continue
			}
			nRet++
			path, found := kit.PathAvoiding(h, ret, func(in ssa.Instruction) bool { return isCallTo(in, pauseFns) })
			blocks := ""
			for _, b := range path {
				blocks += fmt.Sprintf(" %d", b.Index)
			}
			r.Decide(!found, "C31.R5", fmt.Sprintf("%s pauses before return #%d", hname, nRet), p.Pos(ret.Pos()),
				"every path to this return pauses the reconnector",
				"this return is reachable without pausing the reconnector (blocks"+blocks+"): the caller treats the agent as asleep while `paused` is still false, pending retry timers keep dialing through the sleep period")
		}
		// no resume after the pause in the same function
		bad := ""
		kit.Instrs(h, func(in ssa.Instruction) {
			if !isCallTo(in, pauseFns) {
				return
			}
			kit.Instrs(h, func(in2 ssa.Instruction) {
				if isCallTo(in2, resumeFns) && kit.CanReach(in, in2) {
					bad = p.Pos(in2.Pos())
				}
			})
		})
		r.Decide(bad == "", "C31.R5", hname+" stays paused", p.Pos(h.Pos()), "the reconnector is not resumed after it was paused",
			"the reconnector is resumed at "+bad+" after it was paused in the same function: the agent sleeps with reconnection active")
	}
	ord = map[string]int{}
	for _, acc := range p.FieldAccessesOfKind(cx.stTimer, kit.FieldStore) {
		if !kit.IsNilConst(acc.Val) {
			continue
		}
		fname := kit.FuncName(acc.Fn)
		ord[fname]++
		key := fmt.Sprintf("%s timer cleared #%d", fname, ord[fname])
		stopped, _ := cx.timerStopCovers(acc.Fn, acc.Base, acc.Instr)
		r.Decide(stopped, "C31.R2", key, p.Pos(acc.Instr.Pos()), "Stop() on the same timer dominates the clearing store",
			"the timer reference is dropped without Stop(): the old timer still fires after Resume() next to the newly scheduled one, two retry chains halve the backoff delay")
	}

	// a new timer may replace the recorded one only after Stop() on the recorded one, with the mutex
	// held since: the dial callback runs with the mutex released and may re-enter Schedule, which
	// records a timer of its own
	ord = map[string]int{}
	for _, acc := range p.FieldAccessesOfKind(cx.stTimer, kit.FieldStore) {
		if kit.IsNilConst(acc.Val) {
			continue
		}
		fname := kit.FuncName(acc.Fn)
		ord[fname]++
		key := fmt.Sprintf("%s timer replaced #%d", fname, ord[fname])
		pos := p.Pos(acc.Instr.Pos())
		if _, fresh := acc.Base.(*ssa.Alloc); fresh {
			r.OK("C31.R2", key, pos, "timer of a freshly created state")
			continue
		}
		okStop, why := cx.timerStopCovers(acc.Fn, acc.Base, acc.Instr)
		if !okStop {
			// "arm" helper taking the state: the recorded timer is stopped by each caller
			if prm, isParam := acc.Base.(*ssa.Parameter); isParam && acc.Fn.Parent() == nil {
				idx := -1
				for i, q := range acc.Fn.Params {
					if q == prm {
						idx = i
					}
				}
				callers := p.StaticCallers(acc.Fn)
				if idx >= 0 && len(callers) > 0 {
					all := true
					for _, c := range callers {
						if idx >= len(c.Common().Args) {
							all = false
							continue
						}
						if o, w := cx.timerStopCovers(c.Parent(), c.Common().Args[idx], c); !o {
							all, why = false, "at the call in "+kit.FuncName(c.Parent())+": "+w
						}
					}
					if all {
						okStop, why = true, fmt.Sprintf("helper; each of its %d caller(s) stops the recorded timer in the same critical section before the call", len(callers))
					}
				}
			}
		}
		r.Decide(okStop, "C31.R2", key, pos, why,
			why+": a timer recorded meanwhile (the dial callback re-enters Schedule on a failed dial) keeps running next to the new one, both fire, and the retry chains multiply instead of following the backoff delay")
	}

	// ---- R3
	ord = map[string]int{}
	nStores := 0
	for _, acc := range p.FieldAccessesOfKind(cx.stNext, kit.FieldStore) {
		nStores++
		fname := kit.FuncName(acc.Fn)
		ord[fname]++
		key := fmt.Sprintf("%s store nextDelay #%d", fname, ord[fname])
		var growth []ssa.Value
		ok, why := cx.bounded(acc.Val, kit.GuardsOf(acc.Instr), 0, &growth)
		r.Decide(ok, "C31.R3", key, p.Pos(acc.Instr.Pos()), "stored delay is InitialDelay, MaxDelay or clamped to MaxDelay ("+why+")",
			"the stored delay is not bounded by cfg.MaxDelay ("+why+"): consecutive failures grow the retry delay without limit")
		for i, g := range growth {
			gok, gwhy := cx.growthForm(g)
			r.Decide(gok, "C31.R3", fmt.Sprintf("%s growth #%d", key, i+1), p.Pos(acc.Instr.Pos()), gwhy,
				"the growth value is not a clamped previous-delay x cfg.Multiplier ("+gwhy+"): the k-th retry delay is not min(initial*multiplier^k, max)")
		}
		// the delay may restart from InitialDelay only in a freshly created state: a reset inside the
		// attempt path removes the backoff between consecutive failures
		if kit.IsLoadOfField(acc.Val, cx.cfgInit) {
			_, fresh := acc.Base.(*ssa.Alloc)
			dials := false
			for _, s := range sinks {
				if s.kind == "callback call" && kit.TopLevel(s.fn) == kit.TopLevel(acc.Fn) {
					dials = true
				}
			}
			if !fresh && dials {
				r.Violation("C31.R3", key+" reset", p.Pos(acc.Instr.Pos()), "the stored delay of an existing reconnect state is set back to InitialDelay in the function that performs the attempt: consecutive failures are retried at the initial delay, not at initial*multiplier^k")
			}
		}
	}
	r.Count("nextDelay_stores", nStores)
	r.Require(nStores >= 2, "floor: expected an initialising and a growing store to the reconnect state's delay field (found %d)", nStores)

	// ---- R4
	var jitterFn *ssa.Function
	for _, fn := range cx.funcs {
		if fn.Parent() != nil {
			continue
		}
		sig := fn.Signature
		if sig.Params().Len() == 1 && sig.Results().Len() == 1 && c31IsDuration(sig.Params().At(0).Type()) && c31IsDuration(sig.Results().At(0).Type()) {
			reads := false
			kit.Instrs(fn, func(in ssa.Instruction) {
				if v, ok := in.(ssa.Value); ok && kit.IsLoadOfField(v, cx.cfgJit) {
					reads = true
				}
			})
			if reads {
				jitterFn = fn
			}
		}
	}
	if r.Require(jitterFn != nil, "anchor-unresolved: Reconnector method (Duration) Duration that reads cfg.Jitter") {
		for i, ret := range kit.Returns(jitterFn) {
			ok, why := cx.jitterResult(jitterFn, kit.ReturnResult(ret, 0), 0)
			r.Decide(ok, "C31.R4", fmt.Sprintf("%s jitter result #%d", kit.FuncName(jitterFn), i+1), p.Pos(ret.Pos()), why,
				"the jittered delay is not d + k*d*cfg.Jitter with |k|<=1 ("+why+"): retry delays leave the configured jitter band")
		}
	}
	for _, s := range sinks {
		if s.kind != "timer arm" {
			continue
		}
		d := kit.StripConv(kit.Arg(s.in, 0))
		ok, why := false, "delay argument is neither nextDelay nor jitter(nextDelay)"
		// the stored delay itself, or a parameter to which every caller passes the stored delay
		isNext := func(v ssa.Value) bool {
			v = kit.StripConv(v)
			if kit.IsLoadOfField(v, cx.stNext) {
				return true
			}
			prm, isParam := v.(*ssa.Parameter)
			if !isParam || s.fn.Parent() != nil {
				return false
			}
			idx := -1
			for i, q := range s.fn.Params {
				if q == prm {
					idx = i
				}
			}
			callers := p.StaticCallers(s.fn)
			if idx < 0 || len(callers) == 0 {
				return false
			}
			for _, c := range callers {
				if idx >= len(c.Common().Args) || !kit.IsLoadOfField(c.Common().Args[idx], cx.stNext) {
					return false
				}
			}
			return true
		}
		switch {
		case isNext(d):
			ok, why = true, "delay is nextDelay"
		default:
			if c, isCall := d.(*ssa.Call); isCall {
				if cal := kit.CalleeOf(c); cal.Static != nil && cal.Static == jitterFn && isNext(kit.Arg(c, 0)) {
					ok, why = true, "delay is jitter(nextDelay)"
				}
			}
		}
		r.Decide(ok, "C31.R4", "delay of "+s.key, p.Pos(s.in.Pos()), why,
			why+": the timer does not follow the stored backoff delay, so the k-th retry is not within jitter of min(initial*multiplier^k, max)")
	}
}

// c31GuardPos: an ssa.If carries no position; use the condition's.
func c31GuardPos(g kit.Guard) token.Pos {
	if g.Cond != nil && g.Cond.Pos().IsValid() {
		return g.Cond.Pos()
	}
	if g.If != nil {
		return g.If.Pos()
	}
	return token.NoPos
}

func c31IsDuration(t types.Type) bool {
	n, ok := t.(*types.Named)
	return ok && n.Obj().Pkg() != nil && n.Obj().Pkg().Path() == "time" && n.Obj().Name() == "Duration"
}

// pausedValue: v denotes the current value of the paused flag: a load of the field, or a call
// of a Reconnector method all of whose results are such loads. Returns the instruction to
// locate the read.
func (cx *c31ctx) pausedValue(v ssa.Value) (ssa.Instruction, bool) {
	if lf, _ := kit.LoadedField(v); lf == cx.paused {
		return v.(ssa.Instruction), true
	}
	if c, ok := v.(*ssa.Call); ok {
		cal := kit.CalleeOf(c)
		if cal.Static != nil && cx.isFunc[cal.Static] && cal.Static.Signature.Results().Len() == 1 {
			rets := kit.Returns(cal.Static)
			if len(rets) == 0 {
				return nil, false
			}
			for _, ret := range rets {
				if ret.Block() == cal.Static.Recover {
					continue
				}
				res := kit.ReturnResult(ret, 0)
				lf, _ := kit.LoadedField(res)
				if lf != cx.paused {
					return nil, false
				}
				// the read inside the accessor must itself be under the mutex unless the caller holds it
				if _, held := cx.lockInfo(cal.Static).HeldAt(res.(ssa.Instruction), cx.mu); !held {
					if _, heldAtCall := cx.lockInfo(c.Parent()).HeldAt(c, cx.mu); !heldAtCall {
						return nil, false
					}
				}
			}
			return c, true
		}
	}
	return nil, false
}

// impliesNotPaused: does "cond has truth value val" imply that paused was read as false?
// Returns the read.
func (cx *c31ctx) impliesNotPaused(cond ssa.Value, val bool, depth int) (ssa.Instruction, bool) {
	if depth > 8 {
		return nil, false
	}
	if in, ok := cx.pausedValue(cond); ok {
		return in, !val
	}
	// a helper of the Reconnector whose result, when it has this value, implies "not paused":
	// `ok` of beginAttemptLocked(), `inactiveLocked() == false`, ...
	if call, idx, ok := kit.ResultOf(cond); ok {
		if cal := kit.CalleeOf(call); cal.Static != nil && cx.isFunc[cal.Static] && cal.Static.Parent() == nil && cx.resultImplies(cal.Static, idx, false, val, call, depth+1) {
			return call, true
		}
	}
	// `entry := r.beginAttempt(addr); if entry == nil { return }`: a non-nil result implies it
	if b, isB := cond.(*ssa.BinOp); isB && (b.Op == token.EQL || b.Op == token.NEQ) && (kit.IsNilConst(b.X) || kit.IsNilConst(b.Y)) {
		other := b.X
		if kit.IsNilConst(b.X) {
			other = b.Y
		}
		nonNil := (b.Op == token.NEQ) == val
		if call, idx, ok := kit.ResultOf(other); ok && nonNil {
			if cal := kit.CalleeOf(call); cal.Static != nil && cx.isFunc[cal.Static] && cal.Static.Parent() == nil && cx.resultImplies(cal.Static, idx, true, false, call, depth+1) {
				return call, true
			}
		}
	}
	switch x := cond.(type) {
	case *ssa.UnOp:
		if x.Op == token.NOT {
			return cx.impliesNotPaused(x.X, !val, depth+1)
		}
	case *ssa.BinOp:
		if x.Op == token.EQL || x.Op == token.NEQ {
			other, cst := x.X, x.Y
			b, ok := kit.ConstBool(cst)
			if !ok {
				other, cst = x.Y, x.X
				b, ok = kit.ConstBool(cst)
			}
			if ok {
				// cond == val  <=>  other == (b if val==(op is EQL) else !b)
				ov := b
				if val != (x.Op == token.EQL) {
					ov = !b
				}
				return cx.impliesNotPaused(other, ov, depth+1)
			}
		}
	case *ssa.Phi:
		// value-level a || b / a && b: every edge that can carry `val` must imply it
		var first ssa.Instruction
		any := false
		for i, e := range x.Edges {
			if b, ok := kit.ConstBool(e); ok {
				if b != val {
					continue // this edge cannot produce val
				}
				// constant edge producing val: rely on the CFG guards of that edge
			}
			in, ok := cx.impliesNotPaused(e, val, depth+1)
			if !ok {
				for _, g := range kit.EdgeGuards(x.Block().Preds[i], x.Block()) {
					if in2, ok2 := cx.impliesNotPaused(g.Cond, g.Polarity, depth+1); ok2 {
						in, ok = in2, true
						break
					}
				}
			}
			if !ok {
				return nil, false
			}
			if first == nil {
				first = in
			}
			any = true
		}
		return first, any
	}
	return nil, false
}

// resultImplies: whenever result idx of helper m is non-nil (nonNil) / equals val (bool), paused was
// read as false inside m, under the mutex (held in m or at the call).
func (cx *c31ctx) resultImplies(m *ssa.Function, idx int, nonNil, val bool, call *ssa.Call, depth int) bool {
	if depth > 4 || m.Blocks == nil {
		return false
	}
	_, heldAtCall := cx.lockInfo(call.Parent()).HeldAt(call, cx.mu)
	locked := func(read ssa.Instruction) bool {
		if read.Parent() != m {
			return false
		}
		if _, isCall := read.(*ssa.Call); isCall {
			return true
		}
		_, held := cx.lockInfo(m).HeldAt(read, cx.mu)
		return held || heldAtCall
	}
	n := 0
	for _, ret := range kit.Returns(m) {
		if ret.Block() == m.Recover || idx >= len(ret.Results) {
			continue
		}
		res := kit.ReturnResult(ret, idx)
		if nonNil {
			if kit.IsNilConst(res) {
				continue
			}
		} else if b, isConst := kit.ConstBool(res); isConst && b != val {
			continue
		}
		n++
		ok := false
		if !nonNil {
			if read, implied := cx.impliesNotPaused(res, val, depth+1); implied && locked(read) {
				ok = true
			}
		}
		for _, g := range kit.GuardsOf(ret) {
			if read, implied := cx.impliesNotPaused(g.Cond, g.Polarity, depth+1); implied && locked(read) {
				ok = true
			}
		}
		if !ok {
			return false
		}
	}
	return n > 0
}

// gated decides R1 for one site.
func (cx *c31ctx) gated(site ssa.Instruction, fn *ssa.Function, depth int) (bool, string) {
	li := cx.lockInfo(fn)
	detail := "no dominating test of `paused`"
	for _, g := range kit.GuardsOf(site) {
		read, ok := cx.impliesNotPaused(g.Cond, g.Polarity, 0)
		if !ok {
			// a guard that mentions paused with the wrong polarity is worth naming
			if _, ok2 := cx.impliesNotPaused(g.Cond, !g.Polarity, 0); ok2 {
				detail = "the test of `paused` at " + cx.p.Pos(c31GuardPos(g)) + " proceeds on the paused edge"
			}
			continue
		}
		if read.Parent() != fn {
			continue
		}
		// the read must be under the mutex (a locked accessor carries its own region)
		if _, isCall := read.(*ssa.Call); !isCall {
			if _, held := li.HeldAt(read, cx.mu); !held {
				detail = "`paused` is read at " + cx.p.Pos(read.Pos()) + " without holding r.mu"
				continue
			}
		}
		// no re-acquisition of the mutex between the read and the site
		stale := false
		for _, op := range li.Ops {
			if op.Mutex == cx.mu && op.Acquire && !op.Defer && op.Instr != read {
				if kit.CanReach(read, op.Instr) && kit.CanReach(op.Instr, site) {
					stale = true
				}
			}
		}
		if stale {
			detail = "the test of `paused` at " + cx.p.Pos(read.Pos()) + " belongs to an earlier critical section (r.mu was released and re-acquired since)"
			continue
		}
		return true, "paused tested at " + cx.p.Pos(read.Pos()) + " in the preceding r.mu region"
	}
	// lift to the call sites of a helper
	if depth < 2 && fn.Parent() == nil {
		callers := cx.p.StaticCallers(fn)
		if len(callers) > 0 {
			all := true
			for _, c := range callers {
				if _, isGo := c.(*ssa.Go); isGo {
					all = false
					break
				}
				ok, _ := cx.gated(c, c.Parent(), depth+1)
				if !ok {
					all = false
					break
				}
			}
			if all {
				return true, fmt.Sprintf("gated at each of the %d call site(s) of %s", len(callers), kit.FuncName(fn))
			}
		}
	}
	return false, detail
}

// bounded decides whether v, reaching its use under guards gs, is InitialDelay, MaxDelay, or a
// growth value known not to exceed MaxDelay. Growth leaves are collected.
func (cx *c31ctx) bounded(v ssa.Value, gs []kit.Guard, depth int, growth *[]ssa.Value) (bool, string) {
	if depth > 6 {
		return false, "expression too deep"
	}
	s := kit.StripConv(v)
	if kit.IsLoadOfField(s, cx.cfgMax) {
		return true, "MaxDelay"
	}
	if kit.IsLoadOfField(s, cx.cfgInit) {
		return true, "InitialDelay"
	}
	switch x := s.(type) {
	case *ssa.Phi:
		why := ""
		for i, e := range x.Edges {
			ok, w := cx.bounded(e, kit.EdgeGuards(x.Block().Preds[i], x.Block()), depth+1, growth)
			if !ok {
				return false, w
			}
			if why != "" {
				why += " | "
			}
			why += w
		}
		return true, why
	case *ssa.Call:
		cal := kit.CalleeOf(x)
		if cal.Built == "min" {
			hasMax := false
			for _, a := range x.Call.Args {
				if kit.IsLoadOfField(a, cx.cfgMax) {
					hasMax = true
				}
			}
			if hasMax {
				for _, a := range x.Call.Args {
					if !kit.IsLoadOfField(a, cx.cfgMax) && !kit.IsLoadOfField(a, cx.cfgInit) {
						g := kit.StripConv(a)
						if c31NarrowedBetween(a, g) {
							cx.narrow[g] = true
						}
						*growth = append(*growth, g)
					}
				}
				return true, "min(.., MaxDelay)"
			}
			return false, "min() without cfg.MaxDelay"
		}
		if cal.Static != nil && cal.Static.Blocks != nil && kit.IsRepoPkg(cal.Pkg) {
			n := 0
			for _, ret := range kit.Returns(cal.Static) {
				if ret.Block() == cal.Static.Recover {
					continue
				}
				n++
				ok, w := cx.bounded(kit.ReturnResult(ret, 0), kit.GuardsOf(ret), depth+1, growth)
				if !ok {
					return false, "via " + cal.Name + ": " + w
				}
			}
			if n > 0 {
				return true, "every result of " + cal.Name + " is bounded"
			}
		}
	}
	// raw growth value: needs a guard excluding s > MaxDelay
	for _, g := range gs {
		b, ok := g.Cond.(*ssa.BinOp)
		neg := false
		for !ok {
			u, isNot := g.Cond.(*ssa.UnOp)
			if !isNot || u.Op != token.NOT {
				break
			}
			neg = !neg
			g.Cond = u.X
			b, ok = g.Cond.(*ssa.BinOp)
		}
		if !ok {
			continue
		}
		op := b.Op
		opnd := b.X
		switch {
		case kit.StripConv(b.X) == s && kit.IsLoadOfField(b.Y, cx.cfgMax):
		case kit.StripConv(b.Y) == s && kit.IsLoadOfField(b.X, cx.cfgMax):
			op, opnd = flipCmp(op), b.Y
		default:
			continue
		}
		switch op {
		case token.LSS, token.LEQ, token.GTR, token.GEQ:
		default:
			continue
		}
		pol := g.Polarity != neg
		// "s OP Max" evaluated for s > Max must contradict the edge taken
		if cmpHolds(op, +1) != pol {
			if c31NarrowedBetween(opnd, s) {
				cx.narrow[s] = true
			}
			*growth = append(*growth, s)
			return true, "value reaches the store only when it is not above MaxDelay (" + cx.p.Pos(c31GuardPos(g)) + ")"
		}
		return false, "the comparison with MaxDelay at " + cx.p.Pos(c31GuardPos(g)) + " lets the value through exactly when it exceeds MaxDelay"
	}
	return false, "no comparison with cfg.MaxDelay guards the value"
}

// timerStopCovers: on every condition-consistent path to instruction `at` in fn, the timer recorded
// in the state `base` has been stopped (Stop() directly or through a helper that stops its
// argument's timer), is known to be nil (the `timer != nil` test in front of the Stop), or the state
// was freshly allocated - and the mutex has not been re-acquired since.
func (cx *c31ctx) timerStopCovers(fn *ssa.Function, base ssa.Value, at ssa.Instruction) (bool, string) {
	return cx.timerStopCoversD(fn, base, at, 0)
}

func (cx *c31ctx) timerStopCoversD(fn *ssa.Function, base ssa.Value, at ssa.Instruction, depth int) (bool, string) {
	p := cx.p
	li := cx.lockInfo(fn)
	leaves := map[ssa.Value]bool{base: true}
	for _, l := range kit.PhiLeaves(base) {
		leaves[l] = true
	}
	isTimerOf := func(v ssa.Value) bool { // v = load of <leaf>.timer
		lf, b0 := kit.LoadedField(v)
		return lf == cx.stTimer && leaves[b0]
	}
	cov := map[ssa.Instruction]bool{}
	kit.Instrs(fn, func(in ssa.Instruction) {
		switch x := in.(type) {
		case *ssa.Alloc:
			if leaves[x] {
				cov[in] = true // fresh state: no timer recorded yet
			}
		case ssa.CallInstruction:
			cal := kit.CalleeOf(x)
			if cal.Pkg == "time" && cal.Recv == "Timer" && cal.Name == "Stop" && isTimerOf(kit.Receiver(x)) {
				// `if s.timer != nil { s.timer.Stop() }`: the test itself covers both edges
				blk := in.Block()
				if len(blk.Preds) == 1 && len(blk.Preds[0].Instrs) > 0 {
					if ifi, ok := blk.Preds[0].Instrs[len(blk.Preds[0].Instrs)-1].(*ssa.If); ok {
						if b, ok := ifi.Cond.(*ssa.BinOp); ok && (b.Op == token.NEQ || b.Op == token.EQL) && (kit.IsNilConst(b.X) || kit.IsNilConst(b.Y)) {
							other := b.X
							if kit.IsNilConst(b.X) {
								other = b.Y
							}
							onNonNilEdge := (b.Op == token.NEQ && blk == blk.Preds[0].Succs[0]) || (b.Op == token.EQL && blk == blk.Preds[0].Succs[1])
							if isTimerOf(other) && onNonNilEdge {
								cov[ifi] = true
							}
						}
					}
				}
				cov[in] = true
				return
			}
			// helper that stops the timer of the state it is given
			if depth < 2 && cal.Static != nil && cal.Static.Blocks != nil && cal.Static != fn && kit.IsRepoPkg(cal.Pkg) {
				for i, a := range x.Common().Args {
					if !leaves[a] || i >= len(cal.Static.Params) {
						continue
					}
					all := true
					n := 0
					for _, ret := range kit.Returns(cal.Static) {
						if ret.Block() == cal.Static.Recover {
							continue
						}
						n++
						if ok, _ := cx.timerStopCoversD(cal.Static, cal.Static.Params[i], ret, depth+1); !ok {
							all = false
						}
					}
					if all && n > 0 {
						cov[in] = true
					}
				}
			}
		}
	})
	// a cover from an earlier critical section does not count
	stale := ""
	for c := range cov {
		for _, op := range li.Ops {
			if op.Mutex == cx.mu && op.Acquire && !op.Defer && kit.CanReach(c, op.Instr) && kit.CanReach(op.Instr, at) {
				delete(cov, c)
				stale = p.Pos(c.Pos())
			}
		}
	}
	if path, found := kit.PathAvoiding(fn, at, func(in ssa.Instruction) bool { return cov[in] }); found {
		if len(cov) == 0 && stale != "" {
			return false, "the Stop() at " + stale + " belongs to an earlier critical section (the mutex was released since, a timer may have been recorded in between)"
		}
		if len(cov) == 0 {
			return false, "no Stop() on the recorded timer before it is replaced"
		}
		blocks := ""
		for _, b := range path {
			blocks += fmt.Sprintf(" %d", b.Index)
		}
		return false, "a path (blocks" + blocks + ") reaches the replacement without Stop() on the recorded timer"
	}
	return true, "the recorded timer is stopped (or known nil / freshly created) on every path, in the same critical section"
}

// c31NarrowedBetween: walking from outer through conversions down to inner, a float value is
// converted to an integer type.
func c31NarrowedBetween(outer, inner ssa.Value) bool {
	for v := outer; v != inner; {
		switch x := v.(type) {
		case *ssa.Convert:
			from, ok1 := x.X.Type().Underlying().(*types.Basic)
			to, ok2 := x.Type().Underlying().(*types.Basic)
			if ok1 && ok2 && from.Info()&types.IsFloat != 0 && to.Info()&types.IsInteger != 0 {
				return true
			}
			v = x.X
		case *ssa.ChangeType:
			v = x.X
		default:
			return false
		}
	}
	return false
}

// growthForm: g is a product of (previous delay | InitialDelay) and (cfg.Multiplier | Pow(cfg.Multiplier, _)).
func (cx *c31ctx) growthForm(g ssa.Value) (bool, string) {
	fs := kit.FlattenMul(g)
	if len(fs) < 2 {
		return false, "growth value is not a product"
	}
	base, mult := 0, 0
	for _, f := range fs {
		switch {
		case kit.IsLoadOfField(f, cx.stNext), kit.IsLoadOfField(f, cx.cfgInit):
			base++
		case kit.IsLoadOfField(f, cx.cfgMul):
			mult++
		default:
			if c, ok := f.(*ssa.Call); ok {
				cal := kit.CalleeOf(c)
				if cal.Pkg == "math" && cal.Name == "Pow" && kit.IsLoadOfField(kit.Arg(c, 0), cx.cfgMul) {
					mult++
					continue
				}
			}
			return false, "factor `" + f.String() + "` is neither the previous delay nor cfg.Multiplier"
		}
	}
	if base == 1 && mult == 1 {
		// A product that restarts from InitialDelay (initial * multiplier^k) grows without bound in k;
		// the incremental product restarts from the stored, already clamped delay.
		absolute := false
		for _, f := range fs {
			if _, isCall := f.(*ssa.Call); isCall || kit.IsLoadOfField(f, cx.cfgInit) {
				absolute = true
			}
		}
		if absolute && cx.narrow[g] {
			return false, "the unbounded product initial*multiplier^k is converted to an integer duration before it is compared with MaxDelay; past 2^63 ns the conversion wraps to a negative delay that passes the clamp and the retries fire back to back"
		}
		return true, "previous delay x cfg.Multiplier"
	}
	return false, fmt.Sprintf("product has %d delay factor(s) and %d multiplier factor(s)", base, mult)
}

// jitterResult decides one returned value of the jitter function.
func (cx *c31ctx) jitterResult(fn *ssa.Function, v ssa.Value, depth int) (bool, string) {
	if depth > 4 || len(fn.Params) < 2 {
		return false, "unrecognised form"
	}
	d := fn.Params[1]
	s := kit.StripConv(v)
	if s == ssa.Value(d) {
		return true, "returns d"
	}
	switch x := s.(type) {
	case *ssa.Phi:
		for _, e := range x.Edges {
			if ok, w := cx.jitterResult(fn, e, depth+1); !ok {
				return false, w
			}
		}
		return true, "d or d + k*d*cfg.Jitter, |k|<=1"
	case *ssa.BinOp:
		if x.Op != token.ADD && x.Op != token.SUB {
			break
		}
		var off ssa.Value
		switch {
		case kit.StripConv(x.X) == ssa.Value(d):
			off = x.Y
		case kit.StripConv(x.Y) == ssa.Value(d) && x.Op == token.ADD:
			off = x.X
		default:
			return false, "result is not d plus an offset"
		}
		nd, nj := 0, 0
		lo, hi := 1.0, 1.0
		for _, f := range kit.FlattenMul(off) {
			switch {
			case f == ssa.Value(d):
				nd++
			case kit.IsLoadOfField(f, cx.cfgJit):
				nj++
			default:
				flo, fhi, ok := c31Interval(f, 0)
				if !ok {
					return false, "factor `" + f.String() + "` of the offset has no static range"
				}
				lo, hi = c31MulIv(lo, hi, flo, fhi)
			}
		}
		if nd != 1 || nj != 1 {
			return false, fmt.Sprintf("offset contains d %d time(s) and cfg.Jitter %d time(s), expected once each", nd, nj)
		}
		if lo < -1.0000001 || hi > 1.0000001 {
			return false, fmt.Sprintf("the random factor ranges over [%.3g, %.3g], outside [-1, 1]", lo, hi)
		}
		return true, fmt.Sprintf("d + k*d*cfg.Jitter with k in [%.3g, %.3g]", lo, hi)
	}
	return false, "unrecognised form `" + s.String() + "`"
}

func c31MulIv(a, b, c, d float64) (float64, float64) {
	ps := []float64{a * c, a * d, b * c, b * d}
	lo, hi := ps[0], ps[0]
	for _, x := range ps[1:] {
		lo, hi = math.Min(lo, x), math.Max(hi, x)
	}
	return lo, hi
}

// c31Interval bounds a numeric SSA expression built from constants, arithmetic and a few
// library sources of randomness. time.Time.UnixNano() is taken as non-negative.
func c31Interval(v ssa.Value, depth int) (float64, float64, bool) {
	if depth > 12 {
		return 0, 0, false
	}
	s := kit.StripConv(v)
	switch x := s.(type) {
	case *ssa.Const:
		if x.Value == nil {
			return 0, 0, false
		}
		if x.Value.Kind() == constant.Int || x.Value.Kind() == constant.Float {
			f, _ := constant.Float64Val(constant.ToFloat(x.Value))
			return f, f, true
		}
	case *ssa.UnOp:
		if x.Op == token.SUB {
			lo, hi, ok := c31Interval(x.X, depth+1)
			return -hi, -lo, ok
		}
	case *ssa.BinOp:
		alo, ahi, ok1 := c31Interval(x.X, depth+1)
		blo, bhi, ok2 := c31Interval(x.Y, depth+1)
		if !ok1 || !ok2 {
			return 0, 0, false
		}
		switch x.Op {
		case token.ADD:
			return alo + blo, ahi + bhi, true
		case token.SUB:
			return alo - bhi, ahi - blo, true
		case token.MUL:
			lo, hi := c31MulIv(alo, ahi, blo, bhi)
			return lo, hi, true
		case token.QUO:
			if blo != bhi || blo == 0 || math.IsInf(alo, 0) || math.IsInf(ahi, 0) {
				return 0, 0, false
			}
			lo, hi := alo/blo, ahi/blo
			if lo > hi {
				lo, hi = hi, lo
			}
			return lo, hi, true
		case token.REM:
			if blo != bhi || blo <= 0 {
				return 0, 0, false
			}
			if alo >= 0 {
				return 0, blo - 1, true
			}
			return -(blo - 1), blo - 1, true
		}
	case *ssa.Call:
		cal := kit.CalleeOf(x)
		switch {
		case (cal.Pkg == "math/rand" || cal.Pkg == "math/rand/v2") && cal.Name == "Float64":
			return 0, 1, true
		case (cal.Pkg == "math/rand" || cal.Pkg == "math/rand/v2") && (cal.Name == "Int63n" || cal.Name == "Intn" || cal.Name == "Int31n" || cal.Name == "Int64N" || cal.Name == "IntN"):
			args := x.Call.Args
			if n, ok := kit.ConstInt(args[len(args)-1]); ok && n > 0 {
				return 0, float64(n - 1), true
			}
		case (cal.Pkg == "math/rand" || cal.Pkg == "math/rand/v2") && (cal.Name == "Int63" || cal.Name == "Int" || cal.Name == "Int31" || cal.Name == "Int64"):
			return 0, math.Inf(1), true
		case cal.Pkg == "time" && cal.Recv == "Time" && (cal.Name == "UnixNano" || cal.Name == "Unix" || cal.Name == "UnixMilli" || cal.Name == "UnixMicro"):
			return 0, math.Inf(1), true
		case cal.Pkg == "time" && cal.Recv == "Time" && cal.Name == "Nanosecond":
			return 0, 999999999, true
		}
	}
	return 0, 0, false
}
