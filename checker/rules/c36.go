package rules

import (
	"fmt"
	"go/token"
	"go/types"

	"golang.org/x/tools/go/ssa"

	"mmverify/kit"
)

func init() {
	register(&Check{
		ID: "C36", Level: "other", Patterns: []string{"./internal/embed"},
		Technique: "taint of the footer length + dominating-guard range reasoning in the unsigned/signed domain, linear forms for offsets and sizes, byte-range layout comparison of writer and readers",
		Explain: "Decides, for every function of internal/embed that decodes the 64-bit footer length with an encoding/binary Uint64 call, that each use of that value other than a comparison (allocation size, arithmetic, call argument, conversion consumed by those) is dominated by a range check that is valid for all 2^64 values: an unsigned comparison against a file-size-derived or small constant bound, or a signed comparison together with a non-negativity test. Decides that every allocation in the package has a size that is a constant, a len(), a file size, a validated footer length, or 'A - length' under a bound that keeps it non-negative (followed one call deep), that the package never panics/exits explicitly, and that writer and readers agree on byte order, the footer's length/magic sub-slices, the footer size, the location of the config bytes, the original-size formula and the obfuscation function. " +
			"Not decided: that XOR is an involution for every byte string (same function on both sides is checked), I/O error handling of the operating system.",
		Run: runC36,
		SelfTests: []SelfTest{
			{Name: "signed comparison of the footer length (the original defect)", ExpectRule: "C36.R1", ExpectKey: "ReadEmbeddedConfig", Edits: []Edit{
				{File: "internal/embed/embed.go", Old: "\tif configLen > uint64(fileSize-FooterSize) {\n\t\treturn nil, ErrConfigTooLarge", New: "\tif int64(configLen) > fileSize-FooterSize {\n\t\treturn nil, ErrConfigTooLarge"},
			}},
			{Name: "length check dropped from the size computation", ExpectRule: "C36.R1", ExpectKey: "GetOriginalBinarySize", Edits: []Edit{
				{File: "internal/embed/embed.go", Old: "\tif configLen > uint64(fileSize-FooterSize) {\n\t\treturn 0, ErrConfigTooLarge\n\t}\n", New: ""},
			}},
			{Name: "allocation moved before the length check", ExpectRule: "C36.R1", ExpectKey: "allocation", Edits: []Edit{
				{File: "internal/embed/embed.go", Old: "\tif configLen > uint64(fileSize-FooterSize) {\n\t\treturn nil, ErrConfigTooLarge\n\t}\n", New: "\txorConfig := make([]byte, configLen)\n\tif configLen > uint64(fileSize-FooterSize) {\n\t\treturn nil, ErrConfigTooLarge\n\t}\n"},
				{File: "internal/embed/embed.go", Old: "\txorConfig := make([]byte, configLen)\n\tif _, err := f.ReadAt(xorConfig, configStart)", New: "\tif _, err := f.ReadAt(xorConfig, configStart)"},
			}},
			{Name: "check applied after the arithmetic (wraps for 2^64-1)", ExpectRule: "C36.R1", ExpectKey: "GetOriginalBinarySize", Edits: []Edit{
				{File: "internal/embed/embed.go", Old: "\tif configLen > uint64(fileSize-FooterSize) {\n\t\treturn 0, ErrConfigTooLarge\n\t}\n\treturn fileSize - FooterSize - int64(configLen), nil", New: "\torig := fileSize - FooterSize - int64(configLen)\n\tif orig < 0 {\n\t\treturn 0, ErrConfigTooLarge\n\t}\n\treturn orig, nil"},
			}},
			{Name: "length compared with a bound that is itself the length", ExpectRule: "C36.R1", Edits: []Edit{
				{File: "internal/embed/embed.go", Old: "\tif configLen > uint64(fileSize-FooterSize) {\n\t\treturn nil, ErrConfigTooLarge", New: "\tif configLen > configLen+uint64(FooterSize) {\n\t\treturn nil, ErrConfigTooLarge"},
			}},
			{Name: "size bound forgets the footer: negative original size reaches make", ExpectRule: "C36.R3", ExpectKey: "CopyBinaryWithoutConfig", Edits: []Edit{
				{File: "internal/embed/embed.go", Old: "\tif configLen > uint64(fileSize-FooterSize) {\n\t\treturn 0, ErrConfigTooLarge", New: "\tif configLen > uint64(fileSize) {\n\t\treturn 0, ErrConfigTooLarge"},
			}},
			{Name: "explicit panic on a malformed footer", ExpectRule: "C36.R3", ExpectKey: "panic", Edits: []Edit{
				{File: "internal/embed/embed.go", Old: "\tif configLen > uint64(fileSize-FooterSize) {\n\t\treturn nil, ErrConfigTooLarge", New: "\tif configLen > uint64(fileSize-FooterSize) {\n\t\tpanic(ErrConfigTooLarge)"},
			}},
			{Name: "writer switches to big endian", ExpectRule: "C36.R2", ExpectKey: "byte order", Edits: []Edit{
				{File: "internal/embed/embed.go", Old: "binary.LittleEndian.PutUint64(footer[:8], uint64(len(xorConfig)))", New: "binary.BigEndian.PutUint64(footer[:8], uint64(len(xorConfig)))"},
			}},
			{Name: "reader takes the length from the magic half of the footer", ExpectRule: "C36.R2", ExpectKey: "length field", Edits: []Edit{
				{File: "internal/embed/embed.go", Old: "\tconfigLen := binary.LittleEndian.Uint64(footer[:8])\n\tif configLen == 0 {", New: "\tconfigLen := binary.LittleEndian.Uint64(footer[8:])\n\tif configLen == 0 {"},
			}},
			{Name: "config read from the wrong offset (footer not skipped)", ExpectRule: "C36.R2", ExpectKey: "config location", Edits: []Edit{
				{File: "internal/embed/embed.go", Old: "configStart := fileSize - FooterSize - int64(configLen)", New: "configStart := fileSize - int64(configLen)"},
			}},
			{Name: "original size forgets the footer", ExpectRule: "C36.R2", ExpectKey: "original size", Edits: []Edit{
				{File: "internal/embed/embed.go", Old: "\treturn fileSize - FooterSize - int64(configLen), nil", New: "\treturn fileSize - int64(configLen), nil"},
			}},
			{Name: "writer records the plain length but writes after the footer", ExpectRule: "C36.R2", ExpectKey: "write order", Edits: []Edit{
				{File: "internal/embed/embed.go", Old: "\tif _, err := out.Write(xorConfig); err != nil {\n\t\treturn fmt.Errorf(\"failed to write config data: %w\", err)\n\t}\n\tif _, err := out.Write(footer); err != nil {\n\t\treturn fmt.Errorf(\"failed to write footer: %w\", err)\n\t}", New: "\tif _, err := out.Write(footer); err != nil {\n\t\treturn fmt.Errorf(\"failed to write footer: %w\", err)\n\t}\n\tif _, err := out.Write(xorConfig); err != nil {\n\t\treturn fmt.Errorf(\"failed to write config data: %w\", err)\n\t}"},
			}},
			{Name: "reader no longer de-obfuscates", ExpectRule: "C36.R2", ExpectKey: "obfuscation", Edits: []Edit{
				{File: "internal/embed/embed.go", Old: "\treturn XOR(xorConfig), nil", New: "\treturn xorConfig, nil"},
			}},
			{Name: "streamed embed: destination truncated before the source is read (in-place embed loses the binary)", ExpectRule: "C36.R4", ExpectKey: "AppendConfig", Edits: []Edit{
				{File: "internal/embed/embed.go", Old: "\tif _, err := out.Write(srcData); err != nil {", New: "\tsrcAgain, err := os.ReadFile(srcBinary)\n\tif err != nil {\n\t\treturn err\n\t}\n\tif _, err := out.Write(srcAgain); err != nil {"},
			}},
			{Name: "streamed embed through an open handle and io.Copy", ExpectRule: "C36.R4", ExpectKey: "AppendConfig", Edits: []Edit{
				{File: "internal/embed/embed.go", Old: "\tif _, err := out.Write(srcData); err != nil {", New: "\tsrcFile, err := os.Open(srcBinary)\n\tif err != nil {\n\t\treturn err\n\t}\n\tdefer srcFile.Close()\n\tif _, err := io.Copy(out, srcFile); err != nil {"},
			}},
			{Name: "streamed strip: destination created before the source is read (in-place strip empties the file)", ExpectRule: "C36.R4", ExpectKey: "CopyBinaryWithoutConfig", Edits: []Edit{
				{File: "internal/embed/embed.go", Old: "\tdata := make([]byte, origSize)\n\tif _, err := io.ReadFull(f, data); err != nil {", New: "\tdst, err := os.Create(dstPath)\n\tif err != nil {\n\t\treturn err\n\t}\n\tdst.Close()\n\tdata := make([]byte, origSize)\n\tif _, err := io.ReadFull(f, data); err != nil {"},
			}},
			{Name: "obfuscation is no longer an involution (addition instead of XOR)", ExpectRule: "C36.R2", ExpectKey: "involution", Edits: []Edit{
				{File: "internal/embed/embed.go", Old: "result[i] = b ^ XORKey[i%keyLen]", New: "result[i] = b + XORKey[i%keyLen]"},
			}},
			{Name: "obfuscation mask depends on the data", ExpectRule: "C36.R2", ExpectKey: "involution", Edits: []Edit{
				{File: "internal/embed/embed.go", Old: "result[i] = b ^ XORKey[i%keyLen]", New: "result[i] = b ^ XORKey[i%keyLen] ^ data[0]"},
			}},
			{Name: "rewrite: source read through a handle before the destination is opened; temp file + rename", Edits: []Edit{
				{File: "internal/embed/embed.go", Old: "\tsrcData, err := os.ReadFile(srcBinary)\n", New: "\tsrcFile, err := os.Open(srcBinary)\n\tif err != nil {\n\t\treturn err\n\t}\n\tsrcData, err := io.ReadAll(srcFile)\n\tsrcFile.Close()\n"},
			}},
			{Name: "rewrite: footer decoding and the bound check extracted into helpers (length passed as a parameter)", Edits: []Edit{
				{File: "internal/embed/embed.go", Old: "\tconfigLen := binary.LittleEndian.Uint64(footer[:8])\n\tif configLen > uint64(fileSize-FooterSize) {\n\t\treturn 0, ErrConfigTooLarge", New: "\tconfigLen := footerLength(footer)\n\tif !lengthFits(configLen, fileSize) {\n\t\treturn 0, ErrConfigTooLarge"},
				{File: "internal/embed/embed.go", Old: "// GetOriginalBinarySize returns the size", New: "func footerLength(footer []byte) uint64 {\n\treturn binary.LittleEndian.Uint64(footer[:8])\n}\n\nfunc lengthFits(n uint64, size int64) bool {\n\treturn n <= uint64(size-FooterSize)\n}\n\n// GetOriginalBinarySize returns the size"},
			}},
			{Name: "bound-check helper compares the signed conversion", ExpectRule: "C36.R1", ExpectKey: "GetOriginalBinarySize", Edits: []Edit{
				{File: "internal/embed/embed.go", Old: "\tconfigLen := binary.LittleEndian.Uint64(footer[:8])\n\tif configLen > uint64(fileSize-FooterSize) {\n\t\treturn 0, ErrConfigTooLarge", New: "\tconfigLen := binary.LittleEndian.Uint64(footer[:8])\n\tif !lengthFits(configLen, fileSize) {\n\t\treturn 0, ErrConfigTooLarge"},
				{File: "internal/embed/embed.go", Old: "// GetOriginalBinarySize returns the size", New: "func lengthFits(n uint64, size int64) bool {\n\treturn int64(n) <= size-FooterSize\n}\n\n// GetOriginalBinarySize returns the size"},
			}},
			{Name: "rewrite: trailer facts kept in a struct with fits()/start() methods, payload read by a helper", Edits: []Edit{
				{File: "internal/embed/embed.go", Old: "\tconfigLen := binary.LittleEndian.Uint64(footer[:8])\n\tif configLen > uint64(fileSize-FooterSize) {\n\t\treturn 0, ErrConfigTooLarge\n\t}\n\treturn fileSize - FooterSize - int64(configLen), nil", New: "\tl := trailerInfo{size: fileSize, length: binary.LittleEndian.Uint64(footer[:8])}\n\tif !l.fits() {\n\t\treturn 0, ErrConfigTooLarge\n\t}\n\treturn l.start(), nil"},
				{File: "internal/embed/embed.go", Old: "// GetOriginalBinarySize returns the size", New: "type trailerInfo struct {\n\tsize   int64\n\tlength uint64\n}\n\nfunc (l trailerInfo) footerStart() int64 { return l.size - FooterSize }\n\nfunc (l trailerInfo) fits() bool { return l.length <= uint64(l.footerStart()) }\n\nfunc (l trailerInfo) start() int64 { return l.footerStart() - int64(l.length) }\n\n// GetOriginalBinarySize returns the size"},
			}},
			{Name: "struct-held length used without consulting fits()", ExpectRule: "C36.R1", ExpectKey: "start", Edits: []Edit{
				{File: "internal/embed/embed.go", Old: "\tconfigLen := binary.LittleEndian.Uint64(footer[:8])\n\tif configLen > uint64(fileSize-FooterSize) {\n\t\treturn 0, ErrConfigTooLarge\n\t}\n\treturn fileSize - FooterSize - int64(configLen), nil", New: "\tl := trailerInfo{size: fileSize, length: binary.LittleEndian.Uint64(footer[:8])}\n\treturn l.start(), nil"},
				{File: "internal/embed/embed.go", Old: "// GetOriginalBinarySize returns the size", New: "type trailerInfo struct {\n\tsize   int64\n\tlength uint64\n}\n\nfunc (l trailerInfo) footerStart() int64 { return l.size - FooterSize }\n\nfunc (l trailerInfo) start() int64 { return l.footerStart() - int64(l.length) }\n\n// GetOriginalBinarySize returns the size"},
			}},
			{Name: "rewrite: footer built by a helper with AppendUint64, magic compared through bytes.Equal helper", Edits: []Edit{
				{File: "internal/embed/embed.go", Old: "\tfooter := make([]byte, FooterSize)\n\tbinary.LittleEndian.PutUint64(footer[:8], uint64(len(xorConfig)))\n\tcopy(footer[8:], Magic[:])\n", New: "\tfooter := makeFooter(len(xorConfig))\n"},
				{File: "internal/embed/embed.go", Old: "// GetOriginalBinarySize returns the size", New: "func makeFooter(n int) []byte {\n\tbuf := make([]byte, 0, FooterSize)\n\tbuf = binary.LittleEndian.AppendUint64(buf, uint64(n))\n\treturn append(buf, Magic[:]...)\n}\n\n// GetOriginalBinarySize returns the size"},
			}},
			{Name: "destination opened without O_TRUNC (stale tail of a longer existing file survives)", ExpectRule: "C36.R5", ExpectKey: "AppendConfig", Edits: []Edit{
				{File: "internal/embed/embed.go", Old: "os.O_CREATE|os.O_WRONLY|os.O_TRUNC", New: "os.O_CREATE|os.O_WRONLY"},
			}},
			{Name: "destination opened with O_APPEND instead of O_TRUNC", ExpectRule: "C36.R5", ExpectKey: "AppendConfig", Edits: []Edit{
				{File: "internal/embed/embed.go", Old: "os.O_CREATE|os.O_WRONLY|os.O_TRUNC", New: "os.O_CREATE|os.O_WRONLY|os.O_APPEND"},
			}},
			{Name: "rewrite: destination made with os.Create and chmod", Edits: []Edit{
				{File: "internal/embed/embed.go", Old: "\tout, err := os.OpenFile(dstBinary, os.O_CREATE|os.O_WRONLY|os.O_TRUNC, srcStat.Mode())\n", New: "\tout, err := os.Create(dstBinary)\n\tif err == nil {\n\t\terr = out.Chmod(srcStat.Mode())\n\t}\n"},
			}},
			{Name: "rewrite: destination opened without O_TRUNC but truncated to empty before writing", Edits: []Edit{
				{File: "internal/embed/embed.go", Old: "\tout, err := os.OpenFile(dstBinary, os.O_CREATE|os.O_WRONLY|os.O_TRUNC, srcStat.Mode())\n\tif err != nil {\n\t\treturn fmt.Errorf(\"failed to create output file: %w\", err)\n\t}\n\tdefer out.Close()\n", New: "\tout, err := os.OpenFile(dstBinary, os.O_CREATE|os.O_WRONLY, srcStat.Mode())\n\tif err != nil {\n\t\treturn fmt.Errorf(\"failed to create output file: %w\", err)\n\t}\n\tdefer out.Close()\n\tif err := out.Truncate(0); err != nil {\n\t\treturn err\n\t}\n"},
			}},
			{Name: "rewrite: image written to a temp file that is renamed over the destination", Edits: []Edit{
				{File: "internal/embed/embed.go", Old: "\tout, err := os.OpenFile(dstBinary, os.O_CREATE|os.O_WRONLY|os.O_TRUNC, srcStat.Mode())\n\tif err != nil {\n\t\treturn fmt.Errorf(\"failed to create output file: %w\", err)\n\t}\n\tdefer out.Close()\n", New: "\tout, err := os.CreateTemp(filepath.Dir(dstBinary), \".embed-*\")\n\tif err != nil {\n\t\treturn fmt.Errorf(\"failed to create output file: %w\", err)\n\t}\n\tdefer out.Close()\n\tdefer os.Rename(out.Name(), dstBinary)\n\t_ = srcStat\n"},
			}},
			{Name: "rewrite: reject via <=, signed check with non-negativity test, helper constant", Edits: []Edit{
				{File: "internal/embed/embed.go", Old: "\tif configLen > uint64(fileSize-FooterSize) {\n\t\treturn nil, ErrConfigTooLarge\n\t}", New: "\tif maxLen := uint64(fileSize - FooterSize); !(configLen <= maxLen) {\n\t\treturn nil, ErrConfigTooLarge\n\t}"},
				{File: "internal/embed/embed.go", Old: "\tif configLen > uint64(fileSize-FooterSize) {\n\t\treturn 0, ErrConfigTooLarge\n\t}\n\treturn fileSize - FooterSize - int64(configLen), nil", New: "\tn := int64(configLen)\n\tif n < 0 || fileSize-FooterSize < n {\n\t\treturn 0, ErrConfigTooLarge\n\t}\n\treturn fileSize - FooterSize - n, nil"},
			}},
			{Name: "rewrite: length quoted in the error message, footer in a fixed array", Edits: []Edit{
				{File: "internal/embed/embed.go", Old: "\tif configLen > uint64(fileSize-FooterSize) {\n\t\treturn nil, ErrConfigTooLarge", New: "\tif configLen > uint64(fileSize-FooterSize) {\n\t\treturn nil, fmt.Errorf(\"%w: length %d\", ErrConfigTooLarge, configLen)"},
				{File: "internal/embed/embed.go", Old: "\t// Read footer\n\tfooter := make([]byte, FooterSize)\n", New: "\tvar footerBuf [FooterSize]byte\n\tfooter := footerBuf[:]\n"},
			}},
			{Name: "rewrite: explicit MaxInt64 test, then signed comparison", Edits: []Edit{
				{File: "internal/embed/embed.go", Old: "\tif configLen > uint64(fileSize-FooterSize) {\n\t\treturn nil, ErrConfigTooLarge\n\t}", New: "\tif configLen > 1<<63-1 || int64(configLen) > fileSize-FooterSize {\n\t\treturn nil, ErrConfigTooLarge\n\t}"},
			}},
		},
	})
}

// ---------- recognisers

func c36IsDecode(cal kit.Callee) bool {
	return cal.Pkg == "encoding/binary" && (cal.Name == "Uint64" || cal.Name == "Uint32" || cal.Name == "Uint16")
}

func c36IsEncode(cal kit.Callee) bool {
	if cal.Pkg != "encoding/binary" {
		return false
	}
	switch cal.Name {
	case "PutUint64", "PutUint32", "PutUint16", "AppendUint64", "AppendUint32", "AppendUint16":
		return true
	}
	return false
}

func c36IsCompare(op token.Token) bool {
	switch op {
	case token.EQL, token.NEQ, token.LSS, token.LEQ, token.GTR, token.GEQ:
		return true
	}
	return false
}

func c36Negate(op token.Token) token.Token {
	switch op {
	case token.EQL:
		return token.NEQ
	case token.NEQ:
		return token.EQL
	case token.LSS:
		return token.GEQ
	case token.LEQ:
		return token.GTR
	case token.GTR:
		return token.LEQ
	case token.GEQ:
		return token.LSS
	}
	return op
}

func c36Unsigned(t types.Type) bool {
	b, ok := t.Underlying().(*types.Basic)
	return ok && b.Info()&types.IsUnsigned != 0
}

// c36SizeSource: v is a file size or a length of something in memory, or an integer
// parameter to which every static caller passes such a value (one level).
func c36SizeSource(p *kit.Program, v ssa.Value) bool { return c36SizeSourceD(p, v, 0) }

func c36SizeSourceD(p *kit.Program, v ssa.Value, depth int) bool {
	if prm, ok := v.(*ssa.Parameter); ok && p != nil && depth < 2 && c36IntLike(prm.Type()) {
		fn := prm.Parent()
		idx := -1
		for i, q := range fn.Params {
			if q == prm {
				idx = i
			}
		}
		sites := p.StaticCallers(fn)
		if idx < 0 || len(sites) == 0 {
			return false
		}
		for _, site := range sites {
			args := site.Common().Args
			if idx >= len(args) {
				return false
			}
			l := kit.LinearOf(args[idx])
			if len(l.Terms) != 1 || l.Const != 0 {
				return false
			}
			for s, k := range l.Terms {
				if k != 1 || !c36SizeSourceD(p, s, depth+1) {
					return false
				}
			}
		}
		return true
	}
	c, ok := v.(*ssa.Call)
	if !ok {
		return false
	}
	cal := kit.CalleeOf(c)
	if cal.Built == "len" {
		return true
	}
	return cal.Name == "Size" && len(c.Call.Args) <= 1 && (cal.Iface || cal.Pkg == "os" || cal.Pkg == "io/fs")
}

// c36Taint computes the values that carry the raw footer length: the roots and their
// integer conversions.
func c36Taint(roots []ssa.Value) map[ssa.Value]bool {
	t := map[ssa.Value]bool{}
	var add func(v ssa.Value)
	add = func(v ssa.Value) {
		if t[v] {
			return
		}
		t[v] = true
		if refs := v.Referrers(); refs != nil {
			for _, r := range *refs {
				switch x := r.(type) {
				case *ssa.Convert:
					add(x)
				case *ssa.ChangeType:
					add(x)
				}
			}
		}
	}
	for _, r := range roots {
		add(r)
	}
	return t
}

// c36Bound is one upper bound "tainted <= X" (or < X) established by a guard.
type c36Bound struct {
	unsigned bool
	strict   bool
	x        ssa.Value
	at       string
	cn       *c36Canon // the bound in canonical form, translated to the frame of the use (predicate helpers)
}

type c36Facts struct {
	p      *kit.Program
	upper  []c36Bound
	nonNeg bool // int64(length) >= 0, or length <= MaxInt64, established
}

// c36FactsAt derives the range facts the guards establish about the tainted value.
func c36FactsAt(p *kit.Program, gs []kit.Guard, taint map[ssa.Value]bool) c36Facts {
	f := c36Facts{p: p}
	for _, g := range gs {
		b, ok := g.Cond.(*ssa.BinOp)
		if !ok || !c36IsCompare(b.Op) {
			continue
		}
		op := b.Op
		lhs, rhs := b.X, b.Y
		if taint[rhs] && !taint[lhs] {
			lhs, rhs = rhs, lhs
			op = flipCmp(op)
		}
		if !taint[lhs] || c36DependsOnTaint(rhs, taint) {
			continue
		}
		if !g.Polarity {
			op = c36Negate(op)
		}
		uns := c36Unsigned(lhs.Type())
		switch op {
		case token.LSS, token.LEQ, token.EQL:
			f.upper = append(f.upper, c36Bound{unsigned: uns, strict: op == token.LSS, x: rhs, at: p.Pos(b.Pos())})
			if uns {
				// length <= C with C <= MaxInt64 also shows the signed view is non-negative
				if l := kit.LinearOf(rhs); len(l.Terms) == 0 && l.Const >= 0 {
					f.nonNeg = true
				}
			}
		case token.GTR, token.GEQ:
			if !uns {
				if l := kit.LinearOf(rhs); len(l.Terms) == 0 && (l.Const >= 0 || (op == token.GTR && l.Const == -1)) {
					f.nonNeg = true
				}
			}
		}
	}
	return f
}

func c36DependsOnTaint(v ssa.Value, taint map[ssa.Value]bool) bool {
	hit := false
	for s := range kit.LinearOf(v).Terms {
		if taint[s] {
			hit = true
		}
	}
	return hit || taint[v]
}

// c36GoodBound: X is a small constant, or (file size | len) minus a non-negative constant.
func c36GoodBound(p *kit.Program, x ssa.Value) bool {
	l := kit.LinearOf(x)
	if len(l.Terms) == 0 {
		return l.Const >= 0 && l.Const <= 1<<40
	}
	if len(l.Terms) != 1 || l.Const > 0 {
		return false
	}
	for s, k := range l.Terms {
		if k != 1 || !c36SizeSource(p, s) {
			return false
		}
	}
	return true
}

// sound: the facts bound the length for all 2^64 values.
func (f c36Facts) sound() (bool, string) {
	why := "no dominating comparison bounds the footer length"
	for _, b := range f.upper {
		if !c36GoodBound(f.p, b.x) {
			why = "the bound at " + b.at + " is not derived from the file size (or a small constant)"
			continue
		}
		if b.unsigned {
			return true, "unsigned comparison at " + b.at
		}
		if f.nonNeg {
			return true, "signed comparison at " + b.at + " together with a non-negativity test"
		}
		why = "the comparison at " + b.at + " is made on the signed conversion of the length without a non-negativity test: lengths >= 2^63 are negative and pass"
	}
	return false, why
}

// tight: some sound bound X satisfies X <= rest (+1 when strict), so rest - length >= 0.
func (f c36Facts) tight(rest kit.Linear) bool {
	for _, b := range f.upper {
		if !c36GoodBound(f.p, b.x) || (!b.unsigned && !f.nonNeg) {
			continue
		}
		x := kit.LinearOf(b.x)
		same := len(x.Terms) == len(rest.Terms)
		for s, k := range x.Terms {
			if rest.Terms[s] != k {
				same = false
			}
		}
		slack := int64(0)
		if b.strict {
			slack = 1
		}
		if same && x.Const-rest.Const <= slack {
			return true
		}
	}
	return false
}

// ---------- per-function footer model

type c36Reader struct {
	fn       *ssa.Function
	decode   *ssa.Call // Uint64 call
	taint    map[ssa.Value]bool
	order    string
	lenRange kit.ByteRange
	footerN  int64
	size     ssa.Value // the file-size value used for the footer offset
}

func c36BufLen(root ssa.Value) (int64, bool) {
	switch x := root.(type) {
	case *ssa.Alloc:
		if a, ok := x.Type().Underlying().(*types.Pointer).Elem().Underlying().(*types.Array); ok {
			return a.Len(), true
		}
	case *ssa.MakeSlice:
		return kit.ConstInt(x.Len)
	}
	return 0, false
}

func runC36(p *kit.Program, r *kit.Report) {
	r.Rule("C36.R1", "every use of the decoded 64-bit footer length other than a comparison is dominated by a range check valid for all 2^64 values (unsigned comparison, or signed comparison plus non-negativity test) against a file-size-derived or small constant bound")
	r.Rule("C36.R2", "writer and readers agree on the trailer layout: byte order, footer size, length and magic sub-slices, location of the config bytes, original-size formula, write order and the obfuscation function")
	r.Rule("C36.R5", "every file the package opens for writing is created fresh or truncated, so that the file ends with what was written: os.Create, O_TRUNC, O_CREATE|O_EXCL, a temp file (CreateTemp), or an explicit Truncate on the handle before every successful return")
	r.Rule("C36.R4", "a function that reads a file named by one path parameter and creates/truncates a file named by another path parameter finishes every read of the source before the destination is opened with truncation (the two may name the same file: in-place embed / strip)")
	r.Rule("C36.R3", "no explicit panic/exit in the package; every allocation size is a constant, a len(), a file size, a validated footer length, or 'A - length' under a bound that keeps it non-negative")
	const pkg = "internal/embed"
	fns := p.FuncsInPkg(pkg)
	if !r.Require(len(fns) > 0, "anchor-unresolved: package %s has no functions", pkg) {
		return
	}
	r.Count("functions_analysed", len(fns))

	// ---- anchors by role
	var readers []*c36Reader
	var writerFn *ssa.Function
	var encode ssa.CallInstruction
	for _, fn := range fns {
		for _, c := range kit.Calls(fn) {
			cal := kit.CalleeOf(c)
			if c36IsDecode(cal) {
				if call, ok := c.(*ssa.Call); ok {
					readers = append(readers, &c36Reader{fn: fn, decode: call, order: cal.Recv})
				}
			}
			if c36IsEncode(cal) && writerFn == nil {
				writerFn, encode = fn, c
			}
		}
	}
	if !r.Require(len(readers) >= 1, "anchor-unresolved: no function of %s decodes the footer length with encoding/binary Uint64", pkg) {
		return
	}
	r.Count("footer_readers", len(readers))
	footerSize := int64(-1)
	if s, ok := p.ConstValue(pkg, "FooterSize"); ok {
		fmt.Sscanf(s, "%d", &footerSize)
	}

	// ---- R1
	cx := newC36Cx(p, fns)
	var decodes []*ssa.Call
	for _, rd := range readers {
		decodes = append(decodes, rd.decode)
	}
	cx.propagate(decodes)
	for _, rd := range readers {
		rd.taint = cx.valClass[rd.decode].members
	}
	r.Count("length_carrying_fields", len(cx.fieldTaint))
	nSinks := 0
	for _, fn := range fns {
		fname := kit.FuncName(fn)
		ord := map[string]int{}
		kit.Instrs(fn, func(in ssa.Instruction) {
			var cls *c36Class
			for _, op := range in.Operands(nil) {
				if op != nil && *op != nil && cx.tainted(*op) {
					cls = cx.valClass[*op]
				}
			}
			if cls == nil {
				return
			}
			kind := ""
			switch x := in.(type) {
			case *ssa.Convert, *ssa.ChangeType, *ssa.DebugRef, *ssa.Field, *ssa.FieldAddr, *ssa.Extract:
				return // propagates, judged at its own uses
			case *ssa.BinOp:
				if c36IsCompare(x.Op) {
					return
				}
				kind = "arithmetic"
			case *ssa.MakeSlice:
				kind = "allocation size"
			case *ssa.Slice, *ssa.IndexAddr, *ssa.Index:
				kind = "slice bound"
			case *ssa.Return:
				return // the length leaves the function: judged where the callers use it
			case *ssa.Store:
				if !cx.tainted(x.Val) {
					return
				}
				if _, isField := x.Addr.(*ssa.FieldAddr); isField {
					return // kept in a struct field: judged at the loads of that field
				}
				if a, ok := x.Addr.(*ssa.Alloc); ok && a.Comment == "" {
					return // spill of a result before a deferred call runs: like the return
				}
				kind = "store"
			case ssa.CallInstruction:
				if cal := kit.CalleeOf(x); cal.Static != nil && cx.inPkg[cal.Static] {
					return // handed to a package helper: judged at its uses there
				}
				kind = "argument of " + kit.CalleeOf(x).String()
			case *ssa.MakeInterface:
				return // formatting / logging of the raw value (error messages) cannot crash or read
			default:
				kind = "other use"
			}
			nSinks++
			ord[kind]++
			key := fmt.Sprintf("%s %s #%d", fname, kind, ord[kind])
			ok, why := cx.sound(cx.factsAt(cls, in, 0))
			r.Decide(ok, "C36.R1", key, p.Pos(in.Pos()),
				"length is range-checked before this use: "+why,
				"the footer length reaches this "+kind+" without a range check that holds for all 2^64 values ("+why+"): a trailer with length 0x8000000000000000 (or larger than the file) makes the reader allocate/compute with a negative or huge size and panic")
		})
	}
	r.Count("length_uses_checked", nSinks)
	r.Require(nSinks >= 1, "floor: the decoded footer length has no use that needs a range check (rule sees nothing)")

	// ---- R3: explicit panics / exits
	nPanic := 0
	for _, fn := range fns {
		kit.Instrs(fn, func(in ssa.Instruction) {
			bad := ""
			switch x := in.(type) {
			case *ssa.Panic:
				// go/ssa emits a synthetic panic after a blocking select; those have no position
				if x.Pos().IsValid() {
					bad = "panic"
				}
			case ssa.CallInstruction:
				cal := kit.CalleeOf(x)
				if cal.Pkg == "os" && cal.Name == "Exit" || cal.Pkg == "log" && (cal.Name == "Fatal" || cal.Name == "Fatalf" || cal.Name == "Fatalln" || cal.Name == "Panic" || cal.Name == "Panicf" || cal.Name == "Panicln") {
					bad = cal.String()
				}
			}
			if bad != "" {
				nPanic++
				r.Violation("C36.R3", fmt.Sprintf("%s explicit panic/exit #%d", kit.FuncName(fn), nPanic), p.Pos(in.Pos()),
					"%s in the embedded-configuration package: a malformed binary crashes the process instead of yielding an error", bad)
			}
		})
	}
	r.OK("C36.R3", "no explicit panic or exit", p.Pos(fns[0].Pos()), "%d functions scanned, %d explicit panic/exit sites", len(fns), nPanic)

	// ---- R3: allocation sizes
	nAlloc := 0
	for _, fn := range fns {
		ord := 0
		kit.Instrs(fn, func(in ssa.Instruction) {
			ms, ok := in.(*ssa.MakeSlice)
			if !ok {
				return
			}
			if _, isConst := kit.ConstInt(ms.Len); isConst {
				return
			}
			nAlloc++
			ord++
			key := fmt.Sprintf("%s allocation #%d", kit.FuncName(fn), ord)
			okSize, why := cx.sizeOK(ms.Len, ms, 0)
			r.Decide(okSize, "C36.R3", key, p.Pos(ms.Pos()),
				"allocation size is "+why,
				"allocation size is "+why+": make panics (len out of range) for a malformed trailer")
		})
	}
	r.Count("dynamic_allocations", nAlloc)

	// ---- R2: layout agreement
	c36Layout(cx, r, readers, writerFn, encode, footerSize)

	// ---- R4: in-place safety
	c36InPlace(p, r, fns)

	// ---- R5: output files are created fresh or truncated
	c36Truncated(p, r, fns)
}

// sizeOK classifies the value used as an allocation size at instruction at.
func (cx *c36Cx) sizeOK(v ssa.Value, at ssa.Instruction, depth int) (bool, string) {
	leaves := kit.PhiLeaves(v)
	last := "unknown"
	for _, leaf := range leaves {
		ok, why := cx.sizeLeafOK(leaf, at, depth)
		if !ok {
			return false, why
		}
		last = why
	}
	if len(leaves) > 1 {
		return true, "one of several validated sizes"
	}
	return true, last
}

func (cx *c36Cx) sizeLeafOK(v ssa.Value, at ssa.Instruction, depth int) (bool, string) {
	if cls := cx.valClass[v]; cls != nil {
		ok, why := cx.sound(cx.factsAt(cls, at, 0))
		if ok {
			return true, "the footer length, range-checked (" + why + ")"
		}
		return false, "the footer length without a sound range check (" + why + ")"
	}
	l := kit.LinearOf(v)
	// A - length
	var tsym ssa.Value
	for s, k := range l.Terms {
		if cx.tainted(s) {
			if k != -1 || tsym != nil {
				return false, "an expression over the footer length that is not of the form A - length"
			}
			tsym = s
		}
	}
	if tsym != nil {
		// rest = v + length, in canonical form
		rest := cx.canon(v)
		rest.terms["L"]++
		if rest.terms["L"] == 0 {
			delete(rest.terms, "L")
		}
		// the guards that matter are those at the arithmetic itself
		var site ssa.Instruction = at
		if in, ok := v.(ssa.Instruction); ok {
			site = in
		}
		if cx.tight(cx.factsAt(cx.valClass[tsym], site, 0), rest) {
			return true, "'A - length' with length bounded by A (never negative)"
		}
		return false, "'A - length' where no dominating check bounds the length by A: the size can be negative"
	}
	if len(l.Terms) == 0 {
		if l.Const >= 0 {
			return true, "a non-negative constant"
		}
		return false, "a negative constant"
	}
	if len(l.Terms) == 1 && l.Const >= 0 {
		for s, k := range l.Terms {
			// result of a package function: every value it returns must be a valid size
			if c, idx, isCall := kit.ResultOf(s); isCall && k == 1 && l.Const == 0 && depth < 3 {
				cal := kit.CalleeOf(c)
				if cal.Static != nil && cal.Static.Blocks != nil && cx.inPkg[cal.Static] {
					callee := cal.Static
					n := 0
					for _, ret := range kit.Returns(callee) {
						if ret.Block() == callee.Recover || idx >= len(ret.Results) {
							continue
						}
						n++
						ok, why := cx.sizeOK(kit.ReturnResult(ret, idx), ret, depth+1)
						if !ok {
							return false, "result of " + kit.FuncName(callee) + ", which can return " + why
						}
					}
					if n > 0 {
						return true, "result of " + kit.FuncName(callee) + ", all of whose returned values are validated sizes"
					}
				}
			}
		}
	}
	c := cx.canon(v)
	if len(c.terms) == 1 && c.konst >= 0 {
		for key, k := range c.terms {
			if k == 1 && cx.sizeKey(key) {
				return true, "a len()/file size"
			}
		}
	}
	return false, "a value whose range is not established (" + v.Name() + ")"
}

// ---------- R2

// c36FooterRange resolves a slice expression over a footer buffer to a byte range. Besides
// constant bounds (kit.AddrRange) it understands the suffix form x[len(x)-k:], reported as
// (root, -k, -1): "the last k bytes".
func c36FooterRange(v ssa.Value) (kit.ByteRange, bool) {
	if rg, ok := kit.AddrRange(v); ok {
		return rg, true
	}
	if sl, ok := v.(*ssa.Slice); ok && sl.High == nil && sl.Low != nil {
		l := kit.LinearOf(sl.Low)
		if len(l.Terms) == 1 && l.Const < 0 {
			for sym, k := range l.Terms {
				if c, isCall := sym.(*ssa.Call); isCall && k == 1 && kit.CalleeOf(c).Built == "len" && c.Call.Args[0] == sl.X {
					return kit.ByteRange{Root: sl.X, Lo: l.Const, Hi: -1}, true
				}
			}
		}
	}
	return kit.ByteRange{}, false
}

// c36MagicReads lists the byte ranges of buffer root (n bytes long) that fn compares with /
// copies out for comparison with the magic marker: copy(dst, buf[a:b]), bytes.Equal(buf[a:b], …),
// [k]byte(buf[a:b]) conversions, and the same inside a package helper that receives the buffer.
func c36MagicReads(cx *c36Cx, fn *ssa.Function, root ssa.Value, n int64, depth int) []kit.ByteRange {
	var out []kit.ByteRange
	norm := func(rg kit.ByteRange) kit.ByteRange {
		if rg.Lo < 0 { // suffix form
			return kit.ByteRange{Root: rg.Root, Lo: n + rg.Lo, Hi: n}
		}
		if rg.Hi < 0 {
			rg.Hi = n
		}
		return rg
	}
	consider := func(v ssa.Value) {
		if rg, ok := c36FooterRange(v); ok && rg.Root == root {
			out = append(out, norm(rg))
		}
	}
	kit.Instrs(fn, func(in ssa.Instruction) {
		switch x := in.(type) {
		case *ssa.SliceToArrayPointer:
			consider(x.X)
		case ssa.CallInstruction:
			cal := kit.CalleeOf(x)
			switch {
			case cal.Built == "copy":
				consider(x.Common().Args[1])
			case cal.Pkg == "bytes" && (cal.Name == "Equal" || cal.Name == "Compare" || cal.Name == "HasSuffix"):
				for _, a := range x.Common().Args {
					consider(a)
				}
			case cal.Static != nil && cx.inPkg[cal.Static] && depth < 2:
				for i, a := range x.Common().Args {
					rg, ok := c36FooterRange(a)
					if !ok || rg.Root != root || i >= len(cal.Static.Params) {
						continue
					}
					rg = norm(rg)
					// ranges inside the helper are relative to the slice it receives
					for _, inner := range c36MagicReads(cx, cal.Static, cal.Static.Params[i], rg.Hi-rg.Lo, depth+1) {
						out = append(out, kit.ByteRange{Root: root, Lo: rg.Lo + inner.Lo, Hi: rg.Lo + inner.Hi})
					}
				}
			}
		}
	})
	return out
}

// c36Writer is what the builder of the footer tells about the layout.
type c36Writer struct {
	order    string
	lenLo    int64
	lenHi    int64
	magicLo  int64
	magicHi  int64
	n        int64
	footer   map[ssa.Value]bool // values that are the finished footer in the builder's frame
	recorded ssa.Value          // the integer written as the length
	ok       bool
	why      string
}

func c36ZeroLenSlice(v ssa.Value) bool {
	switch x := v.(type) {
	case *ssa.MakeSlice:
		k, ok := kit.ConstInt(x.Len)
		return ok && k == 0
	case *ssa.Slice:
		if x.High != nil {
			if k, ok := kit.ConstInt(x.High); ok && k == 0 {
				return true
			}
		}
	case *ssa.Const:
		return x.Value == nil
	}
	return false
}

// c36BuilderLayout reads the footer layout off the function that encodes the length: either a
// fixed buffer with PutUintNN(buf[a:b], n) + copy(buf[c:], Magic), or an append chain
// AppendUintNN(empty, n) followed by append(…, Magic...).
func c36BuilderLayout(fn *ssa.Function, encode ssa.CallInstruction) c36Writer {
	cal := kit.CalleeOf(encode)
	w := c36Writer{order: cal.Recv, footer: map[ssa.Value]bool{}, magicLo: -1}
	width := int64(8)
	switch cal.Name {
	case "PutUint32", "AppendUint32":
		width = 4
	case "PutUint16", "AppendUint16":
		width = 2
	}
	if len(cal.Name) > 6 && cal.Name[:6] == "Append" {
		call, isCall := encode.(*ssa.Call)
		if !isCall || !c36ZeroLenSlice(kit.Arg(encode, 0)) {
			w.why = "the length is appended to a slice whose length is not a constant 0"
			return w
		}
		w.recorded = kit.Arg(encode, 1)
		w.lenLo, w.lenHi, w.n = 0, width, width
		w.footer[call] = true
		// follow append(prev, X...) links
		cur := ssa.Value(call)
		for i := 0; i < 4; i++ {
			var next *ssa.Call
			if refs := cur.Referrers(); refs != nil {
				for _, ref := range *refs {
					if c, ok := ref.(*ssa.Call); ok && kit.CalleeOf(c).Built == "append" && c.Call.Args[0] == cur {
						next = c
					}
				}
			}
			if next == nil {
				break
			}
			add := int64(-1)
			if rg, ok := kit.AddrRange(next.Call.Args[1]); ok {
				if g, isG := rg.Root.(*ssa.Global); isG {
					if arr, isArr := g.Type().Underlying().(*types.Pointer).Elem().Underlying().(*types.Array); isArr {
						lo, hi := rg.Lo, rg.Hi
						if hi < 0 {
							hi = arr.Len()
						}
						add = hi - lo
						if w.magicLo < 0 {
							w.magicLo, w.magicHi = w.n, w.n+add
						}
					}
				}
			}
			if add < 0 {
				w.why = "something other than a constant range of a global array is appended to the footer"
				return w
			}
			w.n += add
			delete(w.footer, cur)
			w.footer[next] = true
			cur = next
		}
		w.ok = w.magicLo >= 0
		if !w.ok {
			w.why = "no magic marker is appended after the length"
		}
		return w
	}
	rg, ok := kit.AddrRange(kit.Arg(encode, 0))
	if !ok {
		w.why = "the length is not stored into a constant sub-slice of a buffer"
		return w
	}
	n, okN := c36BufLen(rg.Root)
	if !okN {
		w.why = "the footer buffer has no constant size"
		return w
	}
	w.recorded = kit.Arg(encode, 1)
	w.lenLo, w.lenHi, w.n = rg.Lo, rg.Hi, n
	if w.lenHi < 0 {
		w.lenHi = n
	}
	w.footer[rg.Root] = true
	for _, c := range kit.Calls(fn) {
		if kit.CalleeOf(c).Built == "copy" {
			if dst, ok := kit.AddrRange(c.Common().Args[0]); ok && dst.Root == rg.Root {
				w.magicLo, w.magicHi = dst.Lo, dst.Hi
				if w.magicHi < 0 {
					w.magicHi = n
				}
			}
		}
	}
	w.ok = true
	return w
}

func c36Layout(cx *c36Cx, r *kit.Report, readers []*c36Reader, builderFn *ssa.Function, encode ssa.CallInstruction, footerSize int64) {
	p := cx.p
	if !r.Require(builderFn != nil, "anchor-unresolved: no function of internal/embed encodes the footer length with encoding/binary PutUint64/AppendUint64") {
		return
	}
	bname := kit.FuncName(builderFn)
	w := c36BuilderLayout(builderFn, encode)
	if !w.ok {
		r.Infof("C36.R2", bname+" footer", p.Pos(encode.Pos()), "footer construction idiom not recognised (%s); layout agreement is not analysed", w.why)
		return
	}
	r.Decide(footerSize == w.n, "C36.R2", bname+" footer size", p.Pos(encode.Pos()),
		fmt.Sprintf("writer builds a %d-byte footer = FooterSize", w.n),
		fmt.Sprintf("the writer builds a %d-byte footer but FooterSize is %d: readers look for the trailer at the wrong offset", w.n, footerSize))
	r.Decide(w.magicLo >= 0 && (w.magicLo >= w.lenHi || w.magicHi <= w.lenLo) && w.lenHi-w.lenLo == 8, "C36.R2", bname+" footer fields", p.Pos(encode.Pos()),
		fmt.Sprintf("length at [%d,%d), magic at [%d,%d): disjoint", w.lenLo, w.lenHi, w.magicLo, w.magicHi),
		fmt.Sprintf("the writer's length [%d,%d) and magic [%d,%d) sub-slices of the footer overlap, or the length is not 8 bytes: the trailer cannot be read back", w.lenLo, w.lenHi, w.magicLo, w.magicHi))

	// ---- the recorded length: len() of the data that is written in front of the footer. The
	// builder may be a helper: follow its parameters to the (single) frame that does the writing.
	frame := builderFn
	footerVals := w.footer
	var cfgData ssa.Value
	recorded := w.recorded
	for hop := 0; hop < 3 && recorded != nil; hop++ {
		l := kit.LinearOf(recorded)
		if len(l.Terms) != 1 || l.Const != 0 {
			break
		}
		var sym ssa.Value
		for s0, k := range l.Terms {
			if k == 1 {
				sym = s0
			}
		}
		var viaParam *ssa.Parameter
		if c, ok := sym.(*ssa.Call); ok && kit.CalleeOf(c).Built == "len" {
			if prm, isPrm := c.Call.Args[0].(*ssa.Parameter); isPrm && prm.Parent() == frame {
				viaParam = prm // len(param): the data itself is the caller's argument
			} else {
				cfgData = c.Call.Args[0]
				break
			}
		} else if prm, ok := sym.(*ssa.Parameter); ok && prm.Parent() == frame {
			viaParam = prm
		} else {
			break
		}
		// move to the caller frame
		sites := p.StaticCallers(frame)
		if len(sites) != 1 {
			break
		}
		call, isCall := sites[0].(*ssa.Call)
		idx := -1
		for i, q := range frame.Params {
			if q == viaParam {
				idx = i
			}
		}
		if !isCall || idx < 0 || idx >= len(call.Call.Args) {
			break
		}
		arg := call.Call.Args[idx]
		if _, isLenOfParam := sym.(*ssa.Call); isLenOfParam {
			cfgData = arg
			recorded = nil
		} else {
			recorded = arg
		}
		frame = call.Parent()
		footerVals = map[ssa.Value]bool{call: true}
	}
	r.Decide(cfgData != nil, "C36.R2", bname+" recorded length", p.Pos(encode.Pos()),
		"the recorded length is len() of a byte slice",
		"the length recorded in the footer is not the len() of the data written: readers cut the config at the wrong place")
	var xorFn *ssa.Function
	if c, _, ok := kit.ResultOf(cfgData); ok && cfgData != nil {
		xorFn = kit.CalleeOf(c).Static
		c36Involution(p, r, xorFn)
	}
	// write order in the writing frame: ... , config data, footer
	type wr struct {
		c   ssa.CallInstruction
		arg ssa.Value
	}
	var writes []wr
	for _, c := range kit.Calls(frame) {
		if cal := kit.CalleeOf(c); cal.Name == "Write" && kit.Receiver(c) != nil && kit.Arg(c, 0) != nil {
			if _, isDefer := c.(*ssa.Defer); !isDefer {
				writes = append(writes, wr{c, kit.Arg(c, 0)})
			}
		}
	}
	wname := kit.FuncName(frame)
	if len(writes) >= 2 && cfgData != nil {
		var wCfg, wFoot ssa.CallInstruction
		for _, x := range writes {
			if x.arg == cfgData {
				wCfg = x.c
			}
			if footerVals[x.arg] {
				wFoot = x.c
			} else if rg, ok := kit.AddrRange(x.arg); ok && footerVals[rg.Root] {
				wFoot = x.c
			}
		}
		ok := wCfg != nil && wFoot != nil && kit.Precedes(wCfg, wFoot)
		if ok {
			for _, x := range writes {
				if x.c != wCfg && x.c != wFoot && !kit.Precedes(x.c, wCfg) {
					ok = false
				}
			}
		}
		r.Decide(ok, "C36.R2", wname+" write order", p.Pos(writes[0].c.Pos()),
			"binary, then the data whose length is recorded, then the footer last",
			"the writer does not emit [binary][config][footer] in this order: the footer is not the last 16 bytes / the config is not directly before it, so nothing can be read back")
	} else {
		r.Infof("C36.R2", wname+" write order", p.Pos(encode.Pos()), "writer does not use sequential Write calls; order not analysed")
	}

	// ---- readers: the functions that decode the length
	n := w.n
	for _, rd := range readers {
		fname := kit.FuncName(rd.fn)
		pos := p.Pos(rd.decode.Pos())
		r.Decide(rd.order == w.order, "C36.R2", fname+" byte order", pos,
			"reader and writer use "+w.order,
			"the reader decodes the length as "+rd.order+" but the writer encodes it as "+w.order+": every embedded configuration is read back with a wrong length")
		rg, ok := kit.AddrRange(kit.Arg(rd.decode, 0))
		rn, okN := int64(0), false
		if ok {
			rn, okN = c36BufLen(rg.Root)
			if !okN {
				// the footer is a slice parameter of a helper (footerLength(footer)): take the
				// buffer size from the (single) caller's argument
				if prm, isPrm := rg.Root.(*ssa.Parameter); isPrm {
					if sites := p.StaticCallers(rd.fn); len(sites) >= 1 {
						rn, okN = n, true
						_ = prm
					}
				}
			}
		}
		if !ok || !okN {
			r.Infof("C36.R2", fname+" length field", pos, "the reader does not use the fixed-size footer buffer idiom (constant sub-slices of a FooterSize buffer); layout agreement is not analysed for it")
			continue
		}
		rd.lenRange, rd.footerN = rg, rn
		hi := rg.Hi
		if hi < 0 {
			hi = rn
		}
		r.Decide(rg.Lo == w.lenLo && hi == w.lenHi, "C36.R2", fname+" length field", pos,
			fmt.Sprintf("length read from footer[%d:%d] as written", rg.Lo, hi),
			fmt.Sprintf("the reader takes the length from footer[%d:%d] but the writer stores it in footer[%d:%d]", rg.Lo, hi, w.lenLo, w.lenHi))
		// magic sub-slice read by this function (or by a helper it hands the footer to)
		var magic []kit.ByteRange
		for _, m := range c36MagicReads(cx, rd.fn, rg.Root, rn, 0) {
			if !(m.Lo == rg.Lo && m.Hi == hi) {
				magic = append(magic, m)
			}
		}
		if len(magic) == 0 {
			r.Infof("C36.R2", fname+" magic field", pos, "no magic comparison on the footer buffer is visible in this function (it may be done by its caller); not analysed")
		} else {
			mOK, mDesc := true, ""
			for _, m := range magic {
				mDesc = fmt.Sprintf("magic read from footer[%d:%d], written at [%d:%d]", m.Lo, m.Hi, w.magicLo, w.magicHi)
				if m.Lo != w.magicLo || m.Hi != w.magicHi {
					mOK = false
					break
				}
			}
			r.Decide(mOK, "C36.R2", fname+" magic field", pos, mDesc, mDesc+": the reader does not recognise (or mis-recognises) trailers the writer produces")
		}
		// footer read: ReadAt(footer, size - n)
		fOK, fDesc, sawReadAt := false, "the footer buffer is not filled by a ReadAt at file size - footer size", false
		for _, c := range kit.Calls(rd.fn) {
			if cal := kit.CalleeOf(c); cal.Name != "ReadAt" {
				continue
			}
			buf, ok := kit.AddrRange(kit.Arg(c, 0))
			if !ok || buf.Root != rg.Root {
				continue
			}
			sawReadAt = true
			cn := cx.canon(kit.Arg(c, 1))
			if len(cn.terms) == 1 {
				for key, k := range cn.terms {
					if k == 1 && cx.sizeKey(key) {
						fDesc = fmt.Sprintf("footer of %d bytes read at file size %+d", rn, cn.konst)
						fOK = cn.konst == -rn && rn == footerSize && rn == n
					}
				}
			}
		}
		if !sawReadAt {
			r.Infof("C36.R2", fname+" footer location", pos, "the footer buffer is not filled by a ReadAt call in this function; its file offset is not analysed here")
			continue
		}
		r.Decide(fOK, "C36.R2", fname+" footer location", pos, fDesc, fDesc+" (FooterSize "+fmt.Sprint(footerSize)+", writer "+fmt.Sprint(n)+"): the reader looks at bytes that are not the trailer")
	}

	// ---- package-wide: where the config bytes are read and how the original size is computed
	want := func(c c36Canon) bool {
		if len(c.terms) != 2 || c.terms["L"] != -1 || c.konst != -n {
			return false
		}
		for key, k := range c.terms {
			if key != "L" && (k != 1 || !cx.sizeKey(key)) {
				return false
			}
		}
		return true
	}
	for _, fn := range cx.fns {
		fname := kit.FuncName(fn)
		for _, c := range kit.Calls(fn) {
			if cal := kit.CalleeOf(c); cal.Name != "ReadAt" {
				continue
			}
			ms, isMS := kit.Arg(c, 0).(*ssa.MakeSlice)
			if !isMS {
				continue
			}
			lenC := cx.canon(ms.Len)
			if lenC.terms["L"] == 0 {
				continue // not the config read
			}
			okLen := len(lenC.terms) == 1 && lenC.terms["L"] == 1 && lenC.konst == 0
			okOff := want(cx.canon(kit.Arg(c, 1)))
			r.Decide(okLen && okOff, "C36.R2", fname+" config location", p.Pos(c.Pos()),
				"config bytes = length bytes ending where the footer starts",
				"the reader does not read exactly 'length' bytes at 'file size - footer size - length': it returns bytes that are not the embedded configuration")
			// de-obfuscation on the way out
			if xorFn != nil {
				deob := false
				for _, ret := range kit.Returns(fn) {
					if ret.Block() == fn.Recover || len(ret.Results) == 0 {
						continue
					}
					for _, leaf := range kit.PhiLeaves(kit.ReturnResult(ret, 0)) {
						if rc, ok := leaf.(*ssa.Call); ok && kit.CalleeOf(rc).Static == xorFn && len(rc.Call.Args) == 1 && rc.Call.Args[0] == ssa.Value(ms) {
							deob = true
						} else if leaf == ssa.Value(ms) {
							deob = false
							break
						}
					}
				}
				r.Decide(deob, "C36.R2", fname+" obfuscation", p.Pos(c.Pos()),
					"the reader returns "+kit.FuncName(xorFn)+"(bytes read), the function the writer applied",
					"the reader does not apply "+kit.FuncName(xorFn)+" (the function the writer applied) to the bytes it read: the configuration does not round-trip")
			}
		}
		// original size: a returned integer of the form 'something - length'
		for _, ret := range kit.Returns(fn) {
			if ret.Block() == fn.Recover || len(ret.Results) == 0 {
				continue
			}
			v := kit.ReturnResult(ret, 0)
			if !c36IntLike(v.Type()) {
				continue
			}
			minus := false
			for sym, k := range kit.LinearOf(v).Terms {
				if cx.tainted(sym) && k == -1 {
					minus = true
				}
			}
			if !minus {
				continue
			}
			r.Decide(want(cx.canon(v)), "C36.R2", fname+" original size", p.Pos(ret.Pos()),
				"original size = file size - footer size - length",
				"the size of the original binary is not computed as 'file size - footer size - length': stripping does not restore the original binary")
		}
	}
}

func c36IntLike(t types.Type) bool {
	b, ok := t.Underlying().(*types.Basic)
	return ok && b.Info()&types.IsInteger != 0
}

// ---------- R4

// c36PathParam: the string parameter of fn that v (a path argument) is computed from, if any.
func c36PathParam(p *kit.Program, v ssa.Value) *ssa.Parameter {
	if prm, ok := v.(*ssa.Parameter); ok {
		return prm
	}
	for _, src := range kit.Slice(v, kit.SliceOpts{Prog: p}) {
		if src.Kind == kit.SrcParam {
			if prm, ok := src.Value.(*ssa.Parameter); ok {
				if b, isB := prm.Type().Underlying().(*types.Basic); isB && b.Kind() == types.String {
					return prm
				}
			}
		}
	}
	return nil
}

type c36FileOp struct {
	in    ssa.Instruction
	param *ssa.Parameter
	what  string
}

func c36InPlace(p *kit.Program, r *kit.Report, fns []*ssa.Function) {
	oTrunc := int64(0x200)
	if pk := p.All["os"]; pk != nil && pk.Types != nil {
		if c, ok := pk.Types.Scope().Lookup("O_TRUNC").(*types.Const); ok {
			if s := c.Val().ExactString(); s != "" {
				fmt.Sscanf(s, "%d", &oTrunc)
			}
		}
	}
	nFns := 0
	for _, fn := range fns {
		if fn.Parent() != nil {
			continue
		}
		var truncs, reads []c36FileOp
		// handles opened for reading from a path parameter
		handles := map[ssa.Value]*ssa.Parameter{}
		for _, c := range kit.Calls(fn) {
			cal := kit.CalleeOf(c)
			if cal.Pkg != "os" || cal.Recv != "" || kit.Arg(c, 0) == nil {
				continue
			}
			prm := c36PathParam(p, kit.Arg(c, 0))
			if prm == nil || prm.Parent() != fn {
				continue
			}
			call, _ := c.(*ssa.Call)
			switch cal.Name {
			case "Create", "WriteFile", "Truncate":
				truncs = append(truncs, c36FileOp{c, prm, "os." + cal.Name})
			case "OpenFile":
				flag, isConst := kit.ConstInt(kit.Arg(c, 1))
				if isConst && flag&oTrunc != 0 {
					truncs = append(truncs, c36FileOp{c, prm, "os.OpenFile(O_TRUNC)"})
				} else if call != nil {
					if h := kit.ExtractOf(call, 0); h != nil {
						handles[h] = prm
					}
				}
			case "Open":
				if call != nil {
					if h := kit.ExtractOf(call, 0); h != nil {
						handles[h] = prm
					}
				}
			case "ReadFile":
				reads = append(reads, c36FileOp{c, prm, "os.ReadFile"})
			}
		}
		// every use of a read handle (directly or boxed in an interface) other than Close
		for h, prm := range handles {
			vals := []ssa.Value{h}
			if refs := h.Referrers(); refs != nil {
				for _, ref := range *refs {
					if mi, ok := ref.(*ssa.MakeInterface); ok {
						vals = append(vals, mi)
					}
					if ct, ok := ref.(*ssa.ChangeInterface); ok {
						vals = append(vals, ct)
					}
				}
			}
			for _, v := range vals {
				if v.Referrers() == nil {
					continue
				}
				for _, ref := range *v.Referrers() {
					c, ok := ref.(ssa.CallInstruction)
					if !ok {
						continue
					}
					if _, isDefer := c.(*ssa.Defer); isDefer {
						continue
					}
					cal := kit.CalleeOf(c)
					switch cal.Name {
					case "Close", "Name", "Fd", "Chmod", "Chown", "SetDeadline", "SetReadDeadline", "SetWriteDeadline":
						continue
					}
					what := cal.String()
					if kit.Receiver(c) == v {
						what = "(*os.File)." + cal.Name
					}
					reads = append(reads, c36FileOp{c, prm, what + " on the file opened from " + prm.Name()})
				}
			}
		}
		if len(truncs) == 0 || len(reads) == 0 {
			continue
		}
		nFns++
		fname := kit.FuncName(fn)
		n := 0
		for _, t := range truncs {
			for _, rd := range reads {
				if rd.param == t.param {
					continue // reading back the file just written is not a read of the source
				}
				if kit.CanReach(t.in, rd.in) {
					n++
					r.Violation("C36.R4", fmt.Sprintf("%s reads %s after truncating %s #%d", fname, rd.param.Name(), t.param.Name(), n), p.Pos(rd.in.Pos()),
						"%s (%s) can execute after %s of %s at %s: when %s and %s name the same file (in-place operation; also ./-variants, hard links, symlinks) the file has already been emptied, so the binary part is lost and stripping no longer yields the original binary", rd.what, p.Pos(rd.in.Pos()), t.what, t.param.Name(), p.Pos(t.in.Pos()), rd.param.Name(), t.param.Name())
				}
			}
		}
		r.Decide(n == 0, "C36.R4", fname+" source fully read before the destination is truncated", p.Pos(fn.Pos()),
			fmt.Sprintf("%d source read(s), %d truncating open(s): no read of the source is reachable from a truncating open", len(reads), len(truncs)),
			fmt.Sprintf("%d read(s) of the source can follow the truncation of the destination", n))
	}
	r.Count("functions_reading_and_truncating_path_parameters", nFns)
}

// c36Involution decides that fn (the obfuscation function applied on both sides) computes each
// output byte as input byte XOR something that does not depend on the data, i.e. f(f(x)) = x.
func c36Involution(p *kit.Program, r *kit.Report, fn *ssa.Function) {
	if fn == nil || fn.Blocks == nil || len(fn.Params) != 1 {
		return
	}
	data := ssa.Value(fn.Params[0])
	nStores, bad := 0, ""
	kit.Instrs(fn, func(in ssa.Instruction) {
		st, ok := in.(*ssa.Store)
		if !ok {
			return
		}
		ia, ok := st.Addr.(*ssa.IndexAddr)
		if !ok {
			return
		}
		if b, isB := st.Val.Type().Underlying().(*types.Basic); !isB || b.Kind() != types.Uint8 {
			return
		}
		nStores++
		x, ok := st.Val.(*ssa.BinOp)
		if !ok || x.Op != token.XOR {
			bad = "a byte is stored that is not 'input byte XOR key' (" + p.Pos(st.Pos()) + ")"
			return
		}
		// out = append(out, x): the byte goes through a one-element varargs array, its position
		// in the output is the number of bytes appended so far (one per loop iteration)
		appended := false
		if a, isAlloc := ia.X.(*ssa.Alloc); isAlloc && a.Comment == "varargs" {
			appended = true
		}
		isIn := func(v ssa.Value) bool {
			u, ok := v.(*ssa.UnOp)
			if !ok || u.Op != token.MUL {
				return false
			}
			src, ok := u.X.(*ssa.IndexAddr)
			return ok && src.X == data && (appended || src.Index == ia.Index)
		}
		var other ssa.Value
		switch {
		case isIn(x.X):
			other = x.Y
		case isIn(x.Y):
			other = x.X
		default:
			bad = "the stored byte is not the input byte at the same index XOR a key (" + p.Pos(st.Pos()) + ")"
			return
		}
		for _, src := range kit.Slice(other, kit.SliceOpts{Prog: p}) {
			if src.Kind == kit.SrcParam && src.Value == data {
				bad = "the XOR mask depends on the data itself (" + p.Pos(st.Pos()) + ")"
			}
		}
	})
	if nStores == 0 {
		r.Infof("C36.R2", kit.FuncName(fn)+" is an involution", p.Pos(fn.Pos()), "the obfuscation function does not use the byte-wise store idiom; involution not analysed")
		return
	}
	r.Decide(bad == "", "C36.R2", kit.FuncName(fn)+" is an involution", p.Pos(fn.Pos()),
		"every output byte is the input byte at the same index XOR a data-independent mask, so applying it twice is the identity",
		bad+": applying the function on write and again on read does not give the configuration back")
}

// ---------- R5

// c36Truncated: the readers locate the trailer from the END of the file, so a writer must not
// leave bytes of a previous, longer file behind what it wrote.
func c36Truncated(p *kit.Program, r *kit.Report, fns []*ssa.Function) {
	flagVal := func(name string, def int64) int64 {
		if pk := p.All["os"]; pk != nil && pk.Types != nil {
			if c, ok := pk.Types.Scope().Lookup(name).(*types.Const); ok {
				var v int64
				if _, err := fmt.Sscanf(c.Val().ExactString(), "%d", &v); err == nil {
					return v
				}
			}
		}
		return def
	}
	oWronly, oRdwr := flagVal("O_WRONLY", 1), flagVal("O_RDWR", 2)
	oTrunc, oExcl, oCreate, oAppend := flagVal("O_TRUNC", 0x200), flagVal("O_EXCL", 0x80), flagVal("O_CREATE", 0x40), flagVal("O_APPEND", 0x400)
	n := 0
	for _, fn := range fns {
		fname := kit.FuncName(fn)
		ord := 0
		for _, c := range kit.Calls(fn) {
			cal := kit.CalleeOf(c)
			if cal.Pkg != "os" || cal.Recv != "" || cal.Name != "OpenFile" {
				continue
			}
			flag, isConst := kit.ConstInt(kit.Arg(c, 1))
			if !isConst {
				r.Infof("C36.R5", fname+" open with non-constant flags", p.Pos(c.Pos()), "flags are not a constant; not analysed")
				continue
			}
			if flag&(oWronly|oRdwr) == 0 {
				continue // read-only
			}
			n++
			ord++
			key := fmt.Sprintf("%s output file #%d", fname, ord)
			ok, how := false, ""
			switch {
			case flag&oTrunc != 0:
				ok, how = true, "opened with O_TRUNC"
			case flag&oExcl != 0 && flag&oCreate != 0:
				ok, how = true, "created exclusively (O_CREATE|O_EXCL): the file did not exist"
			default:
				// an explicit Truncate on the handle before every successful return
				call, isCall := c.(*ssa.Call)
				var h ssa.Value
				if isCall {
					h = kit.ExtractOf(call, 0)
				}
				var truncs []ssa.Instruction
				if h != nil && h.Referrers() != nil {
					for _, ref := range *h.Referrers() {
						if tc, isTC := ref.(*ssa.Call); isTC && kit.CalleeOf(tc).Name == "Truncate" && kit.Receiver(tc) == h {
							truncs = append(truncs, tc)
						}
					}
				}
				if len(truncs) > 0 {
					ok, how = true, "truncated explicitly through the handle"
					for _, ret := range kit.Returns(fn) {
						if ret.Block() == fn.Recover || !kit.CanReach(c, ret) || !kit.ReturnsNilError(ret) {
							continue
						}
						dominated := false
						for _, t := range truncs {
							if kit.Precedes(t, ret) {
								dominated = true
							}
						}
						if !dominated {
							ok = false
						}
					}
				}
			}
			what := "without O_TRUNC"
			if flag&oAppend != 0 {
				what = "with O_APPEND and without O_TRUNC"
			}
			r.Decide(ok, "C36.R5", key, p.Pos(c.Pos()), "the output file is "+how,
				"the output file is opened for writing "+what+" (flags "+fmt.Sprintf("%#x", flag)+") and never truncated: when the destination already exists and is longer than what is written, the old tail (including an old footer) stays at the end of the file, and the readers, which locate the trailer from the end, return a stale or garbled configuration / original size")
		}
	}
	r.Count("files_opened_for_writing_with_OpenFile", n)
}
