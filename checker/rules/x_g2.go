package rules

// Helpers shared by the rule sets of group g2 (C05, C06, C07): guard evaluation over
// orderings, the chunk idiom, and interprocedural length upper bounds (K10).

import (
	"fmt"
	"go/token"
	"go/types"

	"golang.org/x/tools/go/ssa"

	"mmverify/kit"
)

// g2lenOfField: v is len(<load of field f of base>) (through conversions).
func g2lenOfField(v ssa.Value, f *types.Var) bool {
	v = g2stripConv(v)
	c, ok := v.(*ssa.Call)
	if !ok || kit.CalleeOf(c).Built != "len" || len(c.Call.Args) != 1 {
		return false
	}
	lf, _ := kit.LoadedField(c.Call.Args[0])
	return lf == f
}

func g2stripConv(v ssa.Value) ssa.Value {
	for {
		switch x := v.(type) {
		case *ssa.Convert:
			v = x.X
		case *ssa.ChangeType:
			v = x.X
		default:
			return v
		}
	}
}

// g2evalCmp evaluates "x OP y" for concrete integers.
func g2evalCmp(op token.Token, x, y int64) bool {
	switch {
	case x < y:
		return cmpHolds(op, -1)
	case x == y:
		return cmpHolds(op, 0)
	}
	return cmpHolds(op, 1)
}

// g2guardExcludes: the guard (cond with polarity) is false when the quantity selected by isQ
// takes value n, i.e. control cannot pass the guard with that value. Conditions handled:
// comparisons of the quantity with a constant, either operand order, any negation depth.
func g2guardExcludes(g kit.Guard, isQ func(ssa.Value) bool, n int64) (excluded, relevant bool) {
	cond, pol := g.Cond, g.Polarity
	for {
		u, ok := cond.(*ssa.UnOp)
		if !ok || u.Op != token.NOT {
			break
		}
		cond, pol = u.X, !pol
	}
	// a small predicate function (one return of a comparison) applied to the quantity
	if call, isCall := cond.(*ssa.Call); isCall {
		if st := kit.CalleeOf(call).Static; st != nil && st.Blocks != nil && kit.IsRepoPkg(kit.FuncPkgPath(st)) {
			rets := kit.Returns(st)
			if len(rets) == 1 && len(rets[0].Results) == 1 {
				for i, a := range call.Call.Args {
					if i < len(st.Params) && isQ(g2stripConv(a)) {
						prm := st.Params[i]
						return g2guardExcludes(kit.Guard{Cond: kit.ReturnResult(rets[0], 0), Polarity: pol},
							func(v ssa.Value) bool { return g2stripConv(v) == ssa.Value(prm) }, n)
					}
				}
			}
		}
		return false, false
	}
	b, ok := cond.(*ssa.BinOp)
	if !ok {
		return false, false
	}
	var val bool
	if k, isc := kit.ConstInt(b.Y); isc && isQ(b.X) {
		val = g2evalCmp(b.Op, n, k)
	} else if k, isc := kit.ConstInt(b.X); isc && isQ(b.Y) {
		val = g2evalCmp(b.Op, k, n)
	} else {
		return false, false
	}
	switch b.Op {
	case token.LSS, token.LEQ, token.GTR, token.GEQ, token.EQL, token.NEQ:
	default:
		return false, false
	}
	return val != pol, true
}

func g2named(t types.Type) *types.Named {
	if p, ok := t.(*types.Pointer); ok {
		t = p.Elem()
	}
	n, _ := t.(*types.Named)
	return n
}

// ---------- length upper bounds (K10) ----------

type g2alt struct {
	n      int64
	top    bool
	origin string // function holding the bounding allocation, or the reason for top
	api    bool   // top because the value is the argument of an io.Writer-style Write: sized by the application
}

// g2isWriterWrite: fn has the shape of io.Writer.Write and p is its byte-slice argument.
func g2isWriterWrite(p *ssa.Parameter) bool {
	fn := p.Parent()
	sig := fn.Signature
	if sig.Recv() == nil || fn.Name() != "Write" || sig.Params().Len() != 1 || sig.Results().Len() != 2 {
		return false
	}
	s, ok := sig.Params().At(0).Type().Underlying().(*types.Slice)
	if !ok {
		return false
	}
	b, ok := s.Elem().Underlying().(*types.Basic)
	return ok && b.Kind() == types.Uint8 && len(fn.Params) == 2 && fn.Params[1] == p
}

type g2frame struct {
	fn     *ssa.Function
	site   ssa.CallInstruction // call site that entered fn (nil: root context)
	caller *g2frame
	depth  int
}

type g2ub struct {
	p *kit.Program
	// fieldLen, when set, bounds the length of a value loaded from struct field f (ok=false: unknown).
	fieldLen func(f *types.Var) ([]g2alt, bool)
	busy     map[ssa.Value]int
	steps    int
}

const g2maxDepth = 6

func g2top(why string) []g2alt { return []g2alt{{top: true, origin: why}} }

func g2sum(a, b []g2alt) []g2alt {
	var out []g2alt
	for _, x := range a {
		for _, y := range b {
			z := g2alt{n: x.n + y.n, top: x.top || y.top, origin: x.origin, api: x.api || y.api}
			if x.top {
				z.origin = x.origin
			} else if y.top {
				z.origin = y.origin
			} else if x.origin == "" || (y.origin != "" && y.n > x.n) {
				z.origin = y.origin
			}
			out = append(out, z)
			if len(out) > 64 {
				return g2top("too many alternatives")
			}
		}
	}
	return out
}

func g2dedup(a []g2alt) []g2alt {
	seen := map[g2alt]bool{}
	var out []g2alt
	for _, x := range a {
		if !seen[x] {
			seen[x] = true
			out = append(out, x)
		}
	}
	return out
}

func (u *g2ub) enter(v ssa.Value) bool {
	u.steps++
	if u.steps > 20000 || u.busy[v] > 0 {
		return false
	}
	u.busy[v]++
	return true
}

// g2cycle is the result for a value that depends on itself (loop-carried append, running sum):
// no structural bound.
func g2cycle(fr *g2frame) []g2alt {
	return g2top("loop-carried value in " + kit.FuncName(fr.fn))
}
func (u *g2ub) leave(v ssa.Value) { u.busy[v]-- }

// lenUB: upper bounds of len(v) for a slice/string value v in frame fr.
func (u *g2ub) lenUB(v ssa.Value, fr *g2frame) []g2alt {
	if v == nil {
		return g2top("nil value")
	}
	if !u.enter(v) {
		return g2cycle(fr)
	}
	defer u.leave(v)
	here := kit.FuncName(fr.fn)
	switch x := v.(type) {
	case *ssa.Const:
		if x.Value == nil {
			return []g2alt{{n: 0}}
		}
		if s, ok := kit.ConstString(x); ok {
			return []g2alt{{n: int64(len(s))}}
		}
		return g2top("constant")
	case *ssa.Slice:
		if k, ok := g2chunkWidth(x); ok {
			return []g2alt{{n: k, origin: here}}
		}
		if k, ok := g2symLenBound(x, g2envOf(fr)); ok {
			return []g2alt{{n: k, origin: here}}
		}
		var base []g2alt
		if n, ok := g2arrayLen(x.X.Type()); ok {
			base = []g2alt{{n: n, origin: here}}
		} else if ms, ok := x.X.(*ssa.MakeSlice); ok {
			base = u.intUB(ms.Cap, fr)
			for i := range base {
				if base[i].origin == "" {
					base[i].origin = here
				}
			}
		} else {
			base = u.lenUB(x.X, fr)
		}
		lo := int64(0)
		if x.Low != nil {
			if c, ok := kit.ConstInt(x.Low); ok {
				lo = c
			}
		}
		if x.High != nil {
			if _, isConst := kit.ConstInt(x.High); !isConst {
				// X[lo:h] with a bounded h (e.g. min(len(X), K)) is at most h-lo long
				hb := u.intUB(x.High, fr)
				bounded := len(hb) > 0
				for _, a := range hb {
					if a.top {
						bounded = false
					}
				}
				if bounded {
					for i := range hb {
						hb[i].n -= lo
						if hb[i].origin == "" {
							hb[i].origin = here
						}
					}
					return hb
				}
			}
			if h, ok := kit.ConstInt(x.High); ok {
				out := []g2alt{}
				for _, b := range base {
					if b.top || b.n > h-lo {
						out = append(out, g2alt{n: h - lo, origin: here})
					} else {
						out = append(out, b)
					}
				}
				return g2dedup(out)
			}
		}
		if lo > 0 {
			for i := range base {
				if !base[i].top {
					base[i].n -= lo
				}
			}
		}
		return base
	case *ssa.MakeSlice:
		out := u.intUB(x.Len, fr)
		for i := range out {
			if out[i].origin == "" {
				out[i].origin = here
			}
		}
		return out
	case *ssa.Phi:
		if k, ok := g2symLenBound(x, g2envOf(fr)); ok {
			return []g2alt{{n: k, origin: here}}
		}
		if b, ok := u.appendLoopBound(x, fr); ok {
			return b
		}
		var out []g2alt
		for _, e := range x.Edges {
			if e == v {
				continue
			}
			out = append(out, u.lenUB(e, fr)...)
		}
		return g2dedup(out)
	case *ssa.UnOp:
		if x.Op == token.MUL {
			if a, ok := x.X.(*ssa.Alloc); ok {
				var out []g2alt
				n := 0
				if refs := a.Referrers(); refs != nil {
					for _, ref := range *refs {
						switch st := ref.(type) {
						case *ssa.Store:
							if st.Addr == a {
								n++
								out = append(out, u.lenUB(st.Val, fr)...)
							}
						case *ssa.UnOp, *ssa.DebugRef:
						default:
							return g2top("local variable escapes in " + here)
						}
					}
				}
				if n == 0 {
					return []g2alt{{n: 0}}
				}
				return g2dedup(out)
			}
			if ia, ok := x.X.(*ssa.IndexAddr); ok {
				if st, ok := ia.X.Type().Underlying().(*types.Slice); ok {
					if _, inner := st.Elem().Underlying().(*types.Slice); inner {
						if r := u.elemUB(ia.X, fr, 0); len(r) > 0 {
							return r
						}
						return g2top("elements of a slice with no visible producer in " + here)
					}
				}
			}
			if fa, ok := x.X.(*ssa.FieldAddr); ok {
				if f := kit.FieldOfAddr(fa); f != nil {
					if u.fieldLen != nil {
						if r, ok := u.fieldLen(f); ok {
							return r
						}
					}
					return g2top("field " + f.Name() + " read in " + here)
				}
			}
		}
		return g2top("unmodelled load in " + here)
	case *ssa.Convert:
		if s, ok := kit.ConstString(x.X); ok {
			return []g2alt{{n: int64(len(s))}}
		}
		return u.lenUB(x.X, fr)
	case *ssa.ChangeType:
		return u.lenUB(x.X, fr)
	case *ssa.Extract:
		if c, ok := x.Tuple.(*ssa.Call); ok {
			return u.callUB(c, x.Index, fr, true)
		}
		return g2top("tuple value in " + here)
	case *ssa.Call:
		return u.callUB(x, 0, fr, true)
	case *ssa.Parameter:
		return u.paramUB(x, fr, true)
	}
	return g2top(fmt.Sprintf("%T in %s", v, here))
}

// intUB: upper bounds of an integer value (a length computation).
func (u *g2ub) intUB(v ssa.Value, fr *g2frame) []g2alt {
	if v == nil {
		return g2top("nil value")
	}
	if c, ok := kit.ConstInt(v); ok {
		return []g2alt{{n: c}}
	}
	// a value of a narrow unsigned type is bounded by its type
	if b, ok := v.Type().Underlying().(*types.Basic); ok {
		switch b.Kind() {
		case types.Uint8:
			return []g2alt{{n: 255, origin: kit.FuncName(fr.fn)}}
		case types.Uint16:
			return []g2alt{{n: 65535, origin: kit.FuncName(fr.fn)}}
		}
	}
	if !u.enter(v) {
		return g2cycle(fr)
	}
	defer u.leave(v)
	here := kit.FuncName(fr.fn)
	switch x := v.(type) {
	case *ssa.BinOp:
		switch x.Op {
		case token.ADD:
			return g2sum(u.intUB(x.X, fr), u.intUB(x.Y, fr))
		case token.SUB:
			if c, ok := kit.ConstInt(x.Y); ok && c >= 0 {
				return g2sum(u.intUB(x.X, fr), []g2alt{{n: -c}})
			}
		}
		return g2top("arithmetic in " + here)
	case *ssa.Convert:
		return u.intUB(x.X, fr)
	case *ssa.Phi:
		var out []g2alt
		for _, e := range x.Edges {
			if e == v {
				continue
			}
			out = append(out, u.intUB(e, fr)...)
		}
		return g2dedup(out)
	case *ssa.Call:
		cal := kit.CalleeOf(x)
		switch cal.Built {
		case "len", "cap":
			return u.lenUB(x.Call.Args[0], fr)
		case "min":
			// any bounded argument bounds the minimum
			var best []g2alt
			for _, a := range x.Call.Args {
				r := u.intUB(a, fr)
				allBounded := len(r) > 0
				for _, z := range r {
					if z.top {
						allBounded = false
					}
				}
				if allBounded {
					best = r
				}
			}
			if best != nil {
				return best
			}
			return g2top("min of unbounded values in " + here)
		}
		return u.callUB(x, 0, fr, false)
	case *ssa.Extract:
		if c, ok := x.Tuple.(*ssa.Call); ok {
			return u.callUB(c, x.Index, fr, false)
		}
	case *ssa.Parameter:
		return u.paramUB(x, fr, false)
	}
	return g2top(fmt.Sprintf("%T in %s", v, here))
}

func g2arrayLen(t types.Type) (int64, bool) {
	if p, ok := t.Underlying().(*types.Pointer); ok {
		if a, ok := p.Elem().Underlying().(*types.Array); ok {
			return a.Len(), true
		}
	}
	if a, ok := t.Underlying().(*types.Array); ok {
		return a.Len(), true
	}
	return 0, false
}

func (u *g2ub) eval(v ssa.Value, fr *g2frame, asLen bool) []g2alt {
	if asLen {
		return u.lenUB(v, fr)
	}
	return u.intUB(v, fr)
}

// callUB: bounds of result idx of call c (length of it when asLen).
func (u *g2ub) callUB(c *ssa.Call, idx int, fr *g2frame, asLen bool) []g2alt {
	here := kit.FuncName(fr.fn)
	cal := kit.CalleeOf(c)
	if cal.Built == "append" && asLen {
		args := c.Call.Args
		var first []g2alt
		if ms, ok := args[0].(*ssa.MakeSlice); ok {
			first = u.intUB(ms.Len, fr)
		} else {
			first = u.lenUB(args[0], fr)
		}
		if len(args) == 1 {
			return first
		}
		return g2sum(first, u.lenUB(args[1], fr))
	}
	if cal.Built != "" {
		return g2top("builtin " + cal.Built + " in " + here)
	}
	var callees []*ssa.Function
	if cal.Static != nil {
		callees = []*ssa.Function{cal.Static}
	} else if !c.Call.IsInvoke() {
		callees = u.funcValues(c.Call.Value, fr, 0)
	}
	if len(callees) == 0 {
		return g2top("result of " + cal.String() + " in " + here)
	}
	for _, f := range callees {
		if !kit.IsRepoPkg(kit.FuncPkgPath(f)) {
			return g2top("result of " + cal.String() + " in " + here)
		}
	}
	if fr.depth >= g2maxDepth {
		return g2top("call depth exceeded at " + here)
	}
	var out []g2alt
	for _, f := range callees {
		if f.Blocks == nil {
			out = append(out, g2top("result of "+kit.FuncName(f)+" (no body)")...)
			continue
		}
		nf := &g2frame{fn: f, site: c, caller: fr, depth: fr.depth + 1}
		any := false
		for _, ret := range kit.Returns(f) {
			if ret.Block() == f.Recover || idx >= len(ret.Results) {
				continue
			}
			if n := len(ret.Results); n > 1 && idx != n-1 && kit.IsErrorType(f.Signature.Results().At(n-1).Type()) && !kit.ReturnsNilError(ret) && kit.IsNilConst(kit.ReturnResult(ret, idx)) {
				any = true
				continue // "return nil, err": nothing is produced on this path
			}
			any = true
			out = append(out, u.eval(kit.ReturnResult(ret, idx), nf, asLen)...)
		}
		if !any {
			out = append(out, g2top("no return in "+kit.FuncName(f))...)
		}
	}
	return g2dedup(out)
}

// funcValues resolves a function-typed value to the functions it can denote, following
// parameters to the arguments at the call site of the frame (or at every static caller).
func (u *g2ub) funcValues(v ssa.Value, fr *g2frame, d int) []*ssa.Function {
	switch x := v.(type) {
	case *ssa.Function:
		return []*ssa.Function{x}
	case *ssa.MakeClosure:
		if f, ok := x.Fn.(*ssa.Function); ok {
			return []*ssa.Function{f}
		}
	case *ssa.Parameter:
		if d > 3 {
			return nil
		}
		var out []*ssa.Function
		for _, b := range u.bindings(x, fr) {
			r := u.funcValues(b.v, b.fr, d+1)
			if r == nil {
				return nil
			}
			out = append(out, r...)
		}
		return out
	}
	return nil
}

type g2binding struct {
	v  ssa.Value
	fr *g2frame
}

// bindings: the argument values a parameter can take: the frame's call site, or every static
// caller in the repository when the frame is a root context.
func (u *g2ub) bindings(p *ssa.Parameter, fr *g2frame) []g2binding {
	fn := p.Parent()
	idx := -1
	for i, q := range fn.Params {
		if q == p {
			idx = i
		}
	}
	if idx < 0 {
		return nil
	}
	if fr.fn == fn && fr.site != nil {
		// static calls and calls of function values: Args line up with Params (receiver first)
		args := fr.site.Common().Args
		j := idx
		if fr.site.Common().IsInvoke() || j >= len(args) {
			return nil
		}
		caller := fr.caller
		if caller == nil {
			caller = &g2frame{fn: fr.site.Parent()}
		}
		return []g2binding{{args[j], caller}}
	}
	var out []g2binding
	for _, site := range u.p.StaticCallers(fn) {
		args := site.Common().Args
		if idx < len(args) {
			out = append(out, g2binding{args[idx], &g2frame{fn: site.Parent(), depth: fr.depth + 1}})
		}
	}
	return out
}

func (u *g2ub) paramUB(p *ssa.Parameter, fr *g2frame, asLen bool) []g2alt {
	if fr.depth >= g2maxDepth {
		return g2top("caller depth exceeded at " + kit.FuncName(p.Parent()))
	}
	bs := u.bindings(p, fr)
	if len(bs) == 0 {
		t := g2top("parameter " + p.Name() + " of " + kit.FuncName(p.Parent()) + " (no static caller)")
		t[0].api = g2isWriterWrite(p)
		return t
	}
	var out []g2alt
	for _, b := range bs {
		r := u.eval(b.v, b.fr, asLen)
		for i := range r {
			if r[i].origin == "" {
				r[i].origin = kit.FuncName(b.fr.fn)
			}
		}
		out = append(out, r...)
	}
	return g2dedup(out)
}

// g2chunkWidth recognises s = X[lo:hi] with hi = min(lo+K, len(X)) in any of its forms
// (if end > len {end = len}; builtin min; plain lo+K) and returns K.
func g2chunkWidth(s *ssa.Slice) (int64, bool) {
	if k, ok := g2chunkWidthSyntactic(s); ok {
		return k, true
	}
	if _, isConst := kit.ConstInt(s.Low); s.Low == nil || isConst {
		return 0, false
	}
	return g2symChunkWidth(s)
}

func g2chunkWidthSyntactic(s *ssa.Slice) (int64, bool) {
	if s.Low == nil || s.High == nil {
		return 0, false
	}
	if _, isConst := kit.ConstInt(s.Low); isConst {
		return 0, false
	}
	// addK: v = lo + K for a constant K (constants may be added in several steps)
	var addK func(v ssa.Value) (int64, bool)
	addK = func(v ssa.Value) (int64, bool) {
		b, ok := v.(*ssa.BinOp)
		if !ok || b.Op != token.ADD {
			return 0, false
		}
		x, y := b.X, b.Y
		if _, isc := kit.ConstInt(x); isc {
			x, y = y, x
		}
		k, isc := kit.ConstInt(y)
		if !isc {
			return 0, false
		}
		if x == s.Low {
			return k, true
		}
		if k0, ok := addK(x); ok {
			return k0 + k, true
		}
		return 0, false
	}
	isLenX := func(v ssa.Value) bool {
		c, ok := v.(*ssa.Call)
		return ok && kit.CalleeOf(c).Built == "len" && len(c.Call.Args) == 1 && c.Call.Args[0] == s.X
	}
	if k, ok := addK(s.High); ok {
		return k, true
	}
	switch h := s.High.(type) {
	case *ssa.Call:
		if kit.CalleeOf(h).Built == "min" {
			var k int64
			found, other := false, true
			for _, a := range h.Call.Args {
				if kk, ok := addK(a); ok {
					k, found = kk, true
				} else if !isLenX(a) {
					other = false
				}
			}
			if found && other {
				return k, true
			}
		}
	case *ssa.Phi:
		var k int64
		var sum ssa.Value
		for _, e := range h.Edges {
			if kk, ok := addK(e); ok {
				if sum != nil && kk != k {
					return 0, false
				}
				k, sum = kk, e
			}
		}
		if sum == nil {
			return 0, false
		}
		for i, e := range h.Edges {
			if _, ok := addK(e); ok {
				continue
			}
			if !isLenX(e) {
				return 0, false
			}
			// the len edge must be taken only when lo+K >= len(X)
			pred := h.Block().Preds[i]
			okEdge := false
			gs := kit.Guards(pred)
			// the edge itself may be the branch (pred ends in the If)
			if ifi, isIf := pred.Instrs[len(pred.Instrs)-1].(*ssa.If); isIf && len(pred.Succs) == 2 {
				gs = append(gs, kit.Guard{Cond: ifi.Cond, Polarity: pred.Succs[0] == h.Block(), If: ifi})
			}
			for _, g := range gs {
				if holds, rel := g2orderGuard(g, func(v ssa.Value) bool { _, ok := addK(v); return ok }, isLenX, -1); rel && !holds {
					okEdge = true
				}
			}
			if !okEdge {
				return 0, false
			}
		}
		return k, true
	}
	return 0, false
}

// g2orderGuard evaluates a guard that compares a value satisfying isA with one satisfying
// isB under the ordering sign(A-B) = ord; holds = the guard lets control through.
func g2orderGuard(g kit.Guard, isA, isB func(ssa.Value) bool, ord int) (holds, relevant bool) {
	cond, pol := g.Cond, g.Polarity
	for {
		u, ok := cond.(*ssa.UnOp)
		if !ok || u.Op != token.NOT {
			break
		}
		cond, pol = u.X, !pol
	}
	b, ok := cond.(*ssa.BinOp)
	if !ok {
		return false, false
	}
	switch b.Op {
	case token.LSS, token.LEQ, token.GTR, token.GEQ, token.EQL, token.NEQ:
	default:
		return false, false
	}
	switch {
	case isA(b.X) && isB(b.Y):
		return cmpHolds(b.Op, ord) == pol, true
	case isB(b.X) && isA(b.Y):
		return cmpHolds(b.Op, -ord) == pol, true
	}
	return false, false
}

// elemUB bounds the length of the elements of a slice of slices v: the union of the bounds of every
// element appended or stored into it (through phis, helper results and parameters). A cycle adds no
// new element, so it contributes nothing.
func (u *g2ub) elemUB(v ssa.Value, fr *g2frame, d int) []g2alt {
	if v == nil || d > 10 {
		return g2top("element provenance too deep")
	}
	if u.busy[v] > 0 {
		return nil
	}
	u.busy[v]++
	defer func() { u.busy[v]-- }()
	here := kit.FuncName(fr.fn)
	switch x := v.(type) {
	case *ssa.Const:
		return nil
	case *ssa.MakeSlice:
		// elements written by index
		var out []g2alt
		if x.Referrers() != nil {
			for _, ref := range *x.Referrers() {
				if ia, ok := ref.(*ssa.IndexAddr); ok && ia.Referrers() != nil {
					for _, r2 := range *ia.Referrers() {
						if st, ok := r2.(*ssa.Store); ok && st.Addr == ia {
							out = append(out, u.lenUBAt(st.Val, fr, st)...)
						}
					}
				}
			}
		}
		return out
	case *ssa.Phi:
		var out []g2alt
		for _, e := range x.Edges {
			out = append(out, u.elemUB(e, fr, d+1)...)
		}
		return g2dedup(out)
	case *ssa.Slice:
		return u.elemUB(x.X, fr, d+1)
	case *ssa.UnOp:
		if a, ok := x.X.(*ssa.Alloc); ok && x.Op == token.MUL && a.Referrers() != nil {
			var out []g2alt
			for _, ref := range *a.Referrers() {
				if st, ok := ref.(*ssa.Store); ok && st.Addr == a {
					out = append(out, u.elemUB(st.Val, fr, d+1)...)
				}
			}
			return g2dedup(out)
		}
	case *ssa.Call:
		cal := kit.CalleeOf(x)
		if cal.Built == "append" {
			out := u.elemUB(x.Call.Args[0], fr, d+1)
			if len(x.Call.Args) > 1 {
				// the variadic argument: a slice of a varargs array whose elements are stored individually,
				// or another slice of slices
				if sl, ok := x.Call.Args[1].(*ssa.Slice); ok {
					if a, ok := sl.X.(*ssa.Alloc); ok && a.Referrers() != nil {
						for _, ref := range *a.Referrers() {
							if ia, ok := ref.(*ssa.IndexAddr); ok && ia.Referrers() != nil {
								for _, r2 := range *ia.Referrers() {
									if st, ok := r2.(*ssa.Store); ok && st.Addr == ia {
										out = append(out, u.lenUBAt(st.Val, fr, st)...)
									}
								}
							}
						}
						return g2dedup(out)
					}
				}
				out = append(out, u.elemUB(x.Call.Args[1], fr, d+1)...)
			}
			return g2dedup(out)
		}
		if cal.Static != nil && cal.Static.Blocks != nil && kit.IsRepoPkg(kit.FuncPkgPath(cal.Static)) && fr.depth < g2maxDepth {
			nf := &g2frame{fn: cal.Static, site: x, caller: fr, depth: fr.depth + 1}
			var out []g2alt
			for _, ret := range kit.Returns(cal.Static) {
				if ret.Block() == cal.Static.Recover || len(ret.Results) == 0 {
					continue
				}
				out = append(out, u.elemUB(kit.ReturnResult(ret, 0), nf, d+1)...)
			}
			return g2dedup(out)
		}
	case *ssa.Parameter:
		var out []g2alt
		bs := u.bindings(x, fr)
		if len(bs) == 0 {
			return g2top("parameter " + x.Name() + " of " + kit.FuncName(x.Parent()) + " (no static caller)")
		}
		for _, b := range bs {
			out = append(out, u.elemUB(b.v, b.fr, d+1)...)
		}
		return g2dedup(out)
	}
	return g2top(fmt.Sprintf("elements of %T in %s", v, here))
}

// g2lenGuarded: the guards exclude the samples for the quantity q(root), directly or through a
// validator call V(..., root, ...) whose error result is established nil by a guard and whose
// success returns are themselves guarded that way for q(V's parameter).
func g2lenGuarded(gs []kit.Guard, root ssa.Value, q func(root ssa.Value) func(ssa.Value) bool, samples []int64) bool {
	excludes := func(g kit.Guard, of ssa.Value) bool {
		isQ := q(of)
		for _, n := range samples {
			if ex, rel := g2guardExcludes(g, isQ, n); !rel || !ex {
				return false
			}
		}
		return true
	}
	for _, g := range gs {
		if excludes(g, root) {
			return true
		}
		x, trueMeansNil, ok := kit.IsErrNilCheck(g.Cond)
		if !ok || trueMeansNil != g.Polarity {
			continue
		}
		call, _, isRes := kit.ResultOf(x)
		if !isRes {
			continue
		}
		callee := kit.CalleeOf(call).Static
		if callee == nil || callee.Blocks == nil {
			continue
		}
		for i, a := range call.Call.Args {
			if a != root || i >= len(callee.Params) {
				continue
			}
			prm := callee.Params[i]
			all, n := true, 0
			for _, ret := range kit.Returns(callee) {
				if ret.Block() == callee.Recover || !kit.ReturnsNilError(ret) {
					continue
				}
				n++
				okRet := false
				for _, g2 := range kit.GuardsOf(ret) {
					if excludes(g2, prm) {
						okRet = true
					}
				}
				if !okRet {
					all = false
				}
			}
			if all && n > 0 {
				return true
			}
		}
	}
	return false
}

// g2guardBound derives from dominating guards the smallest constant b such that the quantity
// selected by isQ is <= b whenever control passes (e.g. "if len(x) > K { return }" gives K).
func g2guardBound(gs []kit.Guard, isQ func(ssa.Value) bool) (int64, bool) {
	best, found := int64(0), false
	for _, g := range gs {
		cond := g.Cond
		for {
			u, ok := cond.(*ssa.UnOp)
			if !ok || u.Op != token.NOT {
				break
			}
			cond = u.X
		}
		b, ok := cond.(*ssa.BinOp)
		if !ok {
			continue
		}
		var c int64
		if k, isc := kit.ConstInt(b.Y); isc && isQ(b.X) {
			c = k
		} else if k, isc := kit.ConstInt(b.X); isc && isQ(b.Y) {
			c = k
		} else {
			continue
		}
		for _, cand := range []int64{c - 1, c, c + 1} {
			if cand < 0 {
				continue
			}
			ok := true
			for _, n := range []int64{cand + 1, cand + 2, 2*cand + 3, 1 << 20, 1 << 40} {
				if ex, rel := g2guardExcludes(g, isQ, n); !rel || !ex {
					ok = false
				}
			}
			if ok {
				if !found || cand < best {
					best, found = cand, true
				}
				break
			}
		}
	}
	return best, found
}

// lenUBAt is lenUB refined by the guards that dominate the use site `at`.
func (u *g2ub) lenUBAt(v ssa.Value, fr *g2frame, at ssa.Instruction) []g2alt {
	alts := u.lenUB(v, fr)
	if at == nil {
		return alts
	}
	isLen := func(x ssa.Value) bool {
		c, ok := g2stripConv(x).(*ssa.Call)
		return ok && kit.CalleeOf(c).Built == "len" && len(c.Call.Args) == 1 && c.Call.Args[0] == v
	}
	b, ok := g2guardBound(kit.GuardsOf(at), isLen)
	if !ok {
		return alts
	}
	here := kit.FuncName(fr.fn)
	if len(alts) == 0 {
		return []g2alt{{n: b, origin: here}}
	}
	for i := range alts {
		if alts[i].top || alts[i].n > b {
			alts[i] = g2alt{n: b, origin: here}
		}
	}
	return g2dedup(alts)
}

// appendLoopBound bounds a slice that is built by a counted loop appending at most one element per
// iteration (copy / map / filter loops): len <= len(initial) + number of iterations, where the
// iterations are bounded by the length of the ranged slice or the loop limit.
func (u *g2ub) appendLoopBound(phi *ssa.Phi, fr *g2frame) ([]g2alt, bool) {
	h := phi.Block()
	if _, isSlice := phi.Type().Underlying().(*types.Slice); !isSlice || len(h.Instrs) == 0 {
		return nil, false
	}
	var inits []ssa.Value
	back := 0
	var grows func(v ssa.Value, d int) bool
	grows = func(v ssa.Value, d int) bool {
		if v == ssa.Value(phi) {
			return true
		}
		if d > 4 {
			return false
		}
		switch t := v.(type) {
		case *ssa.Phi:
			if !h.Dominates(t.Block()) {
				return false
			}
			for _, e := range t.Edges {
				if !grows(e, d+1) {
					return false
				}
			}
			return true
		case *ssa.Call:
			if kit.CalleeOf(t).Built != "append" || len(t.Call.Args) != 2 {
				return false
			}
			// the extended slice is the loop variable itself (appending twice per iteration is not accepted)
			if t.Call.Args[0] != ssa.Value(phi) {
				return false
			}
			sl, ok := t.Call.Args[1].(*ssa.Slice)
			if !ok {
				return false
			}
			n, isArr := g2arrayLen(sl.X.Type())
			return isArr && n == 1
		}
		return false
	}
	for i, e := range phi.Edges {
		if h.Dominates(h.Preds[i]) {
			back++
			if !grows(e, 0) {
				return nil, false
			}
		} else {
			inits = append(inits, e)
		}
	}
	if back == 0 || len(inits) == 0 {
		return nil, false
	}
	// the loop limit: header condition "i+1 < len(src)" (range) or "i < n" with i counting from 0 by 1
	ifi, ok := h.Instrs[len(h.Instrs)-1].(*ssa.If)
	if !ok {
		return nil, false
	}
	cmp, ok := ifi.Cond.(*ssa.BinOp)
	if !ok || cmp.Op != token.LSS {
		return nil, false
	}
	isCounter := func(v ssa.Value, init int64) bool {
		p, ok := v.(*ssa.Phi)
		if !ok || p.Block() != h || len(p.Edges) != 2 {
			return false
		}
		okInit, okStep := false, false
		for i, e := range p.Edges {
			if h.Dominates(h.Preds[i]) {
				if add, ok := e.(*ssa.BinOp); ok && add.Op == token.ADD && add.X == ssa.Value(p) {
					if c, isc := kit.ConstInt(add.Y); isc && c == 1 {
						okStep = true
					}
				}
			} else if c, isc := kit.ConstInt(e); isc && c == init {
				okInit = true
			}
		}
		return okInit && okStep
	}
	counted := isCounter(cmp.X, 0)
	if add, ok := cmp.X.(*ssa.BinOp); ok && add.Op == token.ADD {
		if c, isc := kit.ConstInt(add.Y); isc && c == 1 && isCounter(add.X, -1) {
			counted = true
		}
	}
	if !counted {
		return nil, false
	}
	trips := u.intUB(cmp.Y, fr)
	var out []g2alt
	for _, in := range inits {
		var first []g2alt
		if ms, ok := in.(*ssa.MakeSlice); ok {
			first = u.intUB(ms.Len, fr)
		} else {
			first = u.lenUB(in, fr)
		}
		out = append(out, g2sum(first, trips)...)
	}
	if len(out) == 0 {
		return nil, false
	}
	return g2dedup(out), true
}
